"""
Equivalence digest for property C13 (mixing matrices extracted from a network).

Run with cwd = a checkout of gcmpy:  python equiv.py > digest.txt
Prints a deterministic digest of results (floats via repr, dicts and lists in
their own iteration order), exceptions, RNG states and mutated inputs for
every function of
    gcmpy/tools/joint_excess_degree.py
    gcmpy/tools/joint_excess_joint_degree.py
    gcmpy/tools/joint_excess_joint_degree_matrices.py

EQUIV_DEBUG=1 additionally switches the root logger to DEBUG with a handler
that formats every record and throws it away (exercises the new log lines);
the digest must not change.
"""
import hashlib
import logging
import os
import random
import sys

# string hashing is randomised per process; some digested lists are built from
# sets of tuples of strings, so pin the hash seed (re-exec once, keeping -O).
if os.environ.get("PYTHONHASHSEED") != "0":
    _env = dict(os.environ, PYTHONHASHSEED="0")
    _flags = ["-O"] * sys.flags.optimize + ["-W", "ignore"]
    os.execve(sys.executable, [sys.executable] + _flags + sys.argv, _env)

sys.path.insert(0, os.getcwd())

import networkx as nx  # noqa: E402
import numpy as np  # noqa: E402

from gcmpy.gcm_algorithm.gcm_algorithm_network import GCMAlgorithmNetwork  # noqa: E402
from gcmpy.joint_degree.joint_degree_loaders.joint_degree_manual import (  # noqa: E402
    JointDegreeManual,
)
from gcmpy.motif_generators.clique_motif import clique_motif  # noqa: E402
from gcmpy.names.gcm_algorithm_names import GCMAlgorithmNames  # noqa: E402
from gcmpy.names.joint_degree_names import JointDegreeNames  # noqa: E402
from gcmpy.names.network_names import NetworkNames  # noqa: E402
from gcmpy.names.tools_names import ToolsNames  # noqa: E402
from gcmpy.tools.joint_excess_degree import JointExcessDegree  # noqa: E402
from gcmpy.tools.joint_excess_joint_degree import JointExcessJointDegree  # noqa: E402
from gcmpy.tools.joint_excess_joint_degree_matrices import (  # noqa: E402
    JointExcessJointDegreeMatrices,
)

JD = NetworkNames.JOINT_DEGREE
TOP = NetworkNames.TOPOLOGY


# ----------------------------------------------------------------- logging
class _Collect(logging.Handler):
    def __init__(self, level):
        super().__init__(level)
        self.n_warning_or_above = 0
        self.n_formatted = 0

    def emit(self, record):
        record.getMessage()  # formats the arguments (raises if they do not fit)
        self.n_formatted += 1
        if record.levelno >= logging.WARNING:
            self.n_warning_or_above += 1


DEBUG = os.environ.get("EQUIV_DEBUG") == "1"
logging.raiseExceptions = True
_handler = _Collect(logging.DEBUG if DEBUG else logging.WARNING)
logging.getLogger().addHandler(_handler)
logging.getLogger().setLevel(logging.DEBUG if DEBUG else logging.WARNING)


# ----------------------------------------------------------------- helpers
def out(*parts):
    print(*parts)


def rng_digest():
    h = hashlib.sha256()
    h.update(repr(random.getstate()).encode())
    st = np.random.get_state()
    h.update(repr((st[0], st[1].tolist(), st[2], st[3], repr(st[4]))).encode())
    return h.hexdigest()[:16]


def show(x, depth=0):
    """repr that keeps iteration order and shows types of containers"""
    if isinstance(x, dict):
        return (
            type(x).__name__
            + "{"
            + ", ".join(show(k) + ": " + show(v) for k, v in x.items())
            + "}"
        )
    if isinstance(x, (list, tuple, set, frozenset)):
        return type(x).__name__ + "(" + ", ".join(show(v) for v in x) + ")"
    if isinstance(x, JointExcessJointDegreeMatrices):
        return "Matrices<" + show(vars(x)) + ">"
    if isinstance(x, (nx.Graph,)):
        return graph_digest(x)
    if hasattr(x, "__next__"):
        return "<iterator %s>" % type(x).__name__
    return type(x).__name__ + ":" + repr(x)


def graph_digest(G):
    h = hashlib.sha256()
    h.update(type(G).__name__.encode())
    for n in G.nodes():
        h.update(repr((n, show(dict(G.nodes[n])))).encode())
    for e in G.edges(data=True):
        h.update(repr((e[0], e[1], show(dict(e[2])))).encode())
    return "G#%s(n=%d,m=%d)" % (
        h.hexdigest()[:12],
        G.number_of_nodes(),
        G.number_of_edges(),
    )


def attempt(label, fn, *args, **kwargs):
    try:
        res = fn(*args, **kwargs)
    except BaseException as exc:  # noqa: BLE001
        out(label, "-> RAISED", type(exc).__name__, repr(exc.args))
        return None
    out(label, "->", show(res))
    return res


def long_digest(label, x):
    s = show(x)
    out(label, "sha", hashlib.sha256(s.encode()).hexdigest()[:20], "len", len(s))


def extractor_state(label, C):
    d = vars(C)
    out(label, "attrs", list(d.keys()))
    for k, v in d.items():
        s = show(v)
        if len(s) > 400:
            s = "sha " + hashlib.sha256(s.encode()).hexdigest()[:20]
        out(label, " ", k, "=", s)


# ------------------------------------------------------------------ graphs
def annotated(edges, jds, cls=nx.Graph):
    G = cls()
    for n, jd in jds.items():
        if jd is None:
            G.add_node(n)
        else:
            G.add_node(n, **{})
            G.nodes[n][JD] = jd
    for u, v, t in edges:
        G.add_edge(u, v)
        if t is not None:
            if cls in (nx.MultiGraph, nx.MultiDiGraph):
                pass
            else:
                G.edges[u, v][TOP] = t
    return G


def small_two_topology():
    # triangle 0-1-2 (3-clique), tree edges 2-3, 3-4, 0-4 (2-clique)
    edges = [
        (0, 1, "3-clique"),
        (1, 2, "3-clique"),
        (0, 2, "3-clique"),
        (2, 3, "2-clique"),
        (3, 4, "2-clique"),
        (0, 4, "2-clique"),
        (5, 6, "2-clique"),
    ]
    jds = {
        0: (1, 1),
        1: (0, 1),
        2: (1, 1),
        3: (2, 0),
        4: (2, 0),
        5: (1, 0),
        6: (1, 0),
        7: (0, 0),
    }
    return annotated(edges, jds)


def two_triangles_sharing_vertex():
    edges = [
        (0, 1, "tri"),
        (1, 2, "tri"),
        (0, 2, "tri"),
        (2, 3, "tri"),
        (3, 4, "tri"),
        (2, 4, "tri"),
        (4, 5, "line"),
        (5, 5, "line"),  # self loop
    ]
    jds = {
        0: [0, 1],
        1: [0, 1],
        2: [0, 2],
        3: [0, 1],
        4: [1, 1],
        5: [3, 0],
    }
    return annotated(edges, jds)


def numpy_annotated():
    edges = [(0, 1, "a"), (1, 2, "a"), (2, 3, "b"), (3, 0, "b"), (0, 2, "a")]
    jds = {
        0: np.array([2, 1]),
        1: np.array([2, 0]),
        2: np.array([2, 1]),
        3: np.array([0, 2]),
    }
    return annotated(edges, jds)


def float_annotated():
    edges = [(0, 1, "a"), (1, 2, "a"), (2, 0, "b")]
    jds = {0: (1.0, 1.0), 1: (2.0, 0.0), 2: (1.0, 1.0)}
    return annotated(edges, jds)


def generated(seed, jdd, sizes, names, n):
    random.seed(seed)
    np.random.seed(seed)
    params = {JointDegreeNames.JDD: jdd, JointDegreeNames.MOTIF_SIZES: sizes}
    jds = JointDegreeManual(params).sample_jds_from_jdd(n)
    params = {
        GCMAlgorithmNames.MOTIF_SIZES: sizes,
        GCMAlgorithmNames.EDGE_NAMES: names,
        GCMAlgorithmNames.BUILD_FUNCTIONS: [clique_motif for _ in sizes],
    }
    g = GCMAlgorithmNetwork(params).random_clustered_graph(jds)
    return g._G


# ------------------------------------------------- checks of the property
def check_law(label, G, names, mats):
    """exactness against an independent count, symmetry, sum, row sums"""
    for i, name in enumerate(names):
        ejk = mats.ejks[name]
        n_edges = sum(1 for e in G.edges() if G.edges[e][TOP] == name)
        ends = {}
        for u, v in G.edges():
            if G.edges[u, v][TOP] != name:
                continue
            a = list(G.nodes[u][JD])
            b = list(G.nodes[v][JD])
            a[i] -= 1
            b[i] -= 1
            a, b = tuple(a), tuple(b)
            ends[a + b] = ends.get(a + b, 0) + 1
            ends[b + a] = ends.get(b + a, 0) + 1
        exact = set(ends) == set(ejk) and all(
            abs(ejk[k] - ends[k] / (2 * n_edges)) < 1e-9 for k in ends
        )
        half = None
        sym = True
        for k in ejk:
            half = len(k) // 2
            sym = sym and abs(ejk[k] - ejk.get(k[half:] + k[:half], -1)) < 1e-12
        out(
            label,
            name,
            "edges",
            n_edges,
            "keys",
            len(ejk),
            "exact",
            exact,
            "symmetric",
            sym,
            "sum",
            repr(sum(ejk.values())),
        )


# ============================================================= section A
def section_joint_excess_degree():
    out("== A. JointExcessDegree.get_ejk")
    random.seed(101)
    np.random.seed(101)
    graphs = {
        "empty": nx.Graph(),
        "isolated": nx.empty_graph(4),
        "single_edge": nx.path_graph(2),
        "self_loop": nx.Graph([(0, 0)]),
        "self_loop_plus": nx.Graph([(0, 0), (0, 1), (1, 2)]),
        "path5": nx.path_graph(5),
        "star6": nx.star_graph(6),
        "cycle7": nx.cycle_graph(7),
        "complete5": nx.complete_graph(5),
        "gnp": nx.gnp_random_graph(40, 0.15, seed=3),
        "ba": nx.barabasi_albert_graph(60, 2, seed=5),
        "digraph": nx.DiGraph([(0, 1), (1, 2), (2, 0), (2, 3)]),
        "multigraph": nx.MultiGraph([(0, 1), (0, 1), (1, 2)]),
        "strings": nx.Graph([("a", "b"), ("b", "c"), ("c", "a"), ("c", "d")]),
    }
    for label, G in graphs.items():
        before = graph_digest(G)
        r1 = attempt("A." + label, JointExcessDegree.get_ejk, G)
        r2 = attempt("A." + label + ".again", JointExcessDegree.get_ejk, G)
        out(
            "A." + label,
            "repeat_equal",
            r1 == r2 and (r1 is None or list(r1.items()) == list(r2.items())),
            "distinct_objects",
            r1 is not r2 or r1 is None,
            "graph_unchanged",
            before == graph_digest(G),
        )
        if r1:
            out("A." + label, "sum", repr(sum(r1.values())), "types", sorted({type(v).__name__ for v in r1.values()}))
    attempt("A.none", JointExcessDegree.get_ejk, None)
    attempt("A.dict", JointExcessDegree.get_ejk, {})
    attempt("A.instance_call", JointExcessDegree().get_ejk, nx.path_graph(3))
    out("A.rng", rng_digest())


# ============================================================= section B
def exercise_extractor(label, G, names, law=True, show_full=True):
    before = graph_digest(G)
    params = {ToolsNames.NETWORK: G, ToolsNames.EDGE_NAMES: names}
    try:
        C = JointExcessJointDegree(params)
    except BaseException as exc:  # noqa: BLE001
        out(label, "init RAISED", type(exc).__name__, repr(exc.args))
        out(label, "graph_unchanged", before == graph_digest(G))
        return None
    out(label, "params_keys", [k.name for k in params], "names_same_object", C._topology_names is names)
    extractor_state(label + ".state0", C)

    m1 = None
    try:
        m1 = C.get_ejks()
    except BaseException as exc:  # noqa: BLE001
        out(label, "get_ejks RAISED", type(exc).__name__, repr(exc.args))
    extractor_state(label + ".state1", C)
    if m1 is not None:
        if show_full:
            out(label, "ejks1", show(m1))
        else:
            long_digest(label + ".ejks1", m1)
        out(
            label,
            "shares",
            m1.excess_degree_keys is C._excess_degree_keys,
            m1.topology_names is C._topology_names,
            m1 is C._ejks,
        )
        if law:
            check_law(label + ".law", G, list(m1.topology_names), m1)
        m2 = C.get_ejks()
        out(
            label,
            "repeat_equal",
            show(m1) == show(m2),
            "fresh_container",
            m1 is not m2,
            "fresh_dicts",
            all(m1.ejks[k] is not m2.ejks[k] for k in m1.ejks),
        )
        m3 = C.get_ejks()
        out(label, "third_equal", show(m3) == show(m1), "num_edges", show(C._num_edges))

    # direct calls of the single steps, repeated
    attempt(label + ".resolve", C.resolve_excess_degree_keys)
    out(label, "excess_keys", show(C._excess_degree_keys))
    attempt(label + ".resolve.again", C.resolve_excess_degree_keys)
    out(label, "excess_keys.again", show(C._excess_degree_keys))
    attempt(label + ".count", C.count_edge_types)
    out(label, "num_edges", show(C._num_edges))
    attempt(label + ".count.again", C.count_edge_types)
    out(label, "num_edges.again", show(C._num_edges))
    try:
        name_list = list(names)
    except TypeError:
        name_list = []
    for i, name in enumerate(name_list):
        sub = label + ".get_ejk[%d,%r]" % (i, name)
        if show_full:
            attempt(sub, C.get_ejk, i, name)
        else:
            try:
                long_digest(sub, C.get_ejk(i, name))
            except BaseException as exc:  # noqa: BLE001
                out(sub, "RAISED", type(exc).__name__, repr(exc.args))
    # unknown name / wrong indices
    attempt(label + ".get_ejk[unknown]", C.get_ejk, 0, "no-such-topology")
    if name_list and show_full:
        attempt(label + ".get_ejk[idx99]", C.get_ejk, 99, name_list[0])
        attempt(label + ".get_ejk[idx-1]", C.get_ejk, -1, name_list[0])
    out(label, "graph_unchanged", before == graph_digest(G))
    extractor_state(label + ".state2", C)
    return C


def section_extractor():
    out("== B. JointExcessJointDegree")
    random.seed(202)
    np.random.seed(202)

    G = small_two_topology()
    exercise_extractor("B.small", G, ["2-clique", "3-clique"])

    G = two_triangles_sharing_vertex()
    exercise_extractor("B.loops", G, ["line", "tri"])

    # names in an order that does not match the joint degree layout
    G = small_two_topology()
    exercise_extractor("B.swapped", G, ["3-clique", "2-clique"], law=False)

    # a name that no edge carries; a single name; names as tuple
    G = small_two_topology()
    exercise_extractor("B.absent", G, ["2-clique", "ghost"], law=False)
    exercise_extractor("B.single", G, ["2-clique"], law=False)
    exercise_extractor("B.tuple_names", G, ("2-clique", "3-clique"))
    exercise_extractor("B.no_names", G, [], law=False)

    # more names than joint degree entries -> IndexError out of the constructor
    exercise_extractor("B.too_many", small_two_topology(), ["2-clique", "3-clique", "x"], law=False)

    # names given as a one-shot iterator
    G = small_two_topology()
    exercise_extractor("B.iterator", G, iter(["2-clique", "3-clique"]), law=False)

    # numpy / float annotated
    exercise_extractor("B.numpy", numpy_annotated(), ["a", "b"], law=False)
    exercise_extractor("B.float", float_annotated(), ["a", "b"], law=False)

    # empty network
    exercise_extractor("B.empty", nx.Graph(), ["2-clique"], law=False)
    G0 = nx.Graph()
    G0.add_node(0)
    G0.nodes[0][JD] = (0, 0)
    exercise_extractor("B.one_vertex", G0, ["a", "b"], law=False)

    # error paths of the constructor
    attempt("B.err.none", JointExcessJointDegree, None)
    attempt("B.err.empty", JointExcessJointDegree, {})
    attempt("B.err.no_names", JointExcessJointDegree, {ToolsNames.NETWORK: small_two_topology()})
    attempt("B.err.no_network", JointExcessJointDegree, {ToolsNames.EDGE_NAMES: ["a"]})
    attempt("B.err.str_keys", JointExcessJointDegree, {"network": small_two_topology(), "edge_names": ["a"]})
    attempt(
        "B.err.network_none",
        JointExcessJointDegree,
        {ToolsNames.NETWORK: None, ToolsNames.EDGE_NAMES: ["a"]},
    )
    attempt(
        "B.err.names_none",
        JointExcessJointDegree,
        {ToolsNames.NETWORK: small_two_topology(), ToolsNames.EDGE_NAMES: None},
    )
    Gm = small_two_topology()
    del Gm.nodes[3][JD]
    attempt(
        "B.err.missing_jd",
        JointExcessJointDegree,
        {ToolsNames.NETWORK: Gm, ToolsNames.EDGE_NAMES: ["2-clique", "3-clique"]},
    )
    Gu = small_two_topology()
    Gu.nodes[3][JD] = ([1], 0)
    attempt(
        "B.err.unhashable_jd",
        JointExcessJointDegree,
        {ToolsNames.NETWORK: Gu, ToolsNames.EDGE_NAMES: ["2-clique", "3-clique"]},
    )
    Gs = small_two_topology()
    Gs.nodes[3][JD] = 5
    attempt(
        "B.err.scalar_jd",
        JointExcessJointDegree,
        {ToolsNames.NETWORK: Gs, ToolsNames.EDGE_NAMES: ["2-clique", "3-clique"]},
    )

    # edge without topology attribute
    Gt = small_two_topology()
    Gt.add_edge(6, 7)
    exercise_extractor("B.err.missing_topology", Gt, ["2-clique", "3-clique"], law=False)

    # unhashable entry in a non-followed position together with a missing count
    Gx = small_two_topology()
    C = JointExcessJointDegree({ToolsNames.NETWORK: Gx, ToolsNames.EDGE_NAMES: ["2-clique", "3-clique"]})
    Gx.nodes[4][JD] = (2, [0])  # end of the first 2-clique edge in iteration order
    attempt("B.err.order.no_count", C.get_ejk, 0, "2-clique")
    attempt("B.err.order.count", C.count_edge_types)
    attempt("B.err.order.with_count", C.get_ejk, 0, "2-clique")
    attempt("B.err.order.other_topology", C.get_ejk, 1, "3-clique")

    # get_ejk before any count: KeyError on the first matching edge only
    Gk = small_two_topology()
    C = JointExcessJointDegree({ToolsNames.NETWORK: Gk, ToolsNames.EDGE_NAMES: ["2-clique", "3-clique"]})
    attempt("B.err.uncounted", C.get_ejk, 0, "2-clique")
    attempt("B.err.uncounted.unknown", C.get_ejk, 0, "ghost")
    # stale / foreign counters
    C._num_edges = {"2-clique": 8, "3-clique": 0}
    attempt("B.stale.2", C.get_ejk, 0, "2-clique")
    attempt("B.stale.3", C.get_ejk, 1, "3-clique")
    attempt("B.stale.get_ejks", C.get_ejks)

    # multigraph / digraph
    Gd = annotated(
        [(0, 1, "a"), (1, 2, "a"), (2, 0, "b")],
        {0: (1, 1), 1: (2, 0), 2: (1, 1)},
        cls=nx.DiGraph,
    )
    exercise_extractor("B.digraph", Gd, ["a", "b"], law=False)
    Gmulti = nx.MultiGraph()
    for n, jd in {0: (2, 0), 1: (3, 0), 2: (1, 0)}.items():
        Gmulti.add_node(n)
        Gmulti.nodes[n][JD] = jd
    for u, v in [(0, 1), (0, 1), (1, 2)]:
        k = Gmulti.add_edge(u, v)
        Gmulti.edges[u, v, k][TOP] = "a"
    exercise_extractor("B.multigraph", Gmulti, ["a"], law=False)

    # object history: the network changes between two queries
    G = small_two_topology()
    names = ["2-clique", "3-clique"]
    C = JointExcessJointDegree({ToolsNames.NETWORK: G, ToolsNames.EDGE_NAMES: names})
    m1 = C.get_ejks()
    s1 = show(m1)
    G.add_edge(6, 7)
    G.edges[6, 7][TOP] = "2-clique"
    G.nodes[6][JD] = (2, 0)
    G.nodes[7][JD] = (1, 0)
    m2 = C.get_ejks()
    out("B.history.before", s1)
    out("B.history.old_container_now", show(m1))
    out("B.history.after", show(m2))
    out("B.history.keys_shared", m1.excess_degree_keys is m2.excess_degree_keys)
    names.append("ghost")
    m3 = attempt("B.history.names_grown", C.get_ejks)
    attempt("B.history.resolve_grown", C.resolve_excess_degree_keys)
    out("B.history.resolved", show(C._excess_degree_keys))
    names.pop()
    del m3
    # result mutated by the caller must not leak into the next query
    m2.ejks["2-clique"].clear()
    m4 = C.get_ejks()
    out("B.history.after_caller_mutation", show(m4.ejks))
    out("B.rng", rng_digest())


def section_generated():
    out("== C. generated networks")
    jdd2 = {(5, 1): 1 / 3, (3, 2): 1 / 3, (1, 3): 1 / 3}
    names2 = ["2-clique", "3-clique"]
    for seed, n in ((7, 300), (8, 900)):
        G = generated(seed, jdd2, [2, 3], names2, n)
        out("C.two.seed%d" % seed, graph_digest(G), "rng", rng_digest())
        random.seed(seed + 1000)
        np.random.seed(seed + 1000)
        exercise_extractor("C.two.seed%d" % seed, G, list(names2), show_full=False)
        long_digest("C.two.seed%d.overall" % seed, JointExcessDegree.get_ejk(G))
        out("C.two.seed%d" % seed, "rng_after", rng_digest())

    jdd3 = {(1, 0, 0): 0.2, (1, 1, 1): 0.5, (3, 0, 1): 0.1, (2, 1, 0): 0.2}
    names3 = ["2-clique-blue", "3-clique", "2-clique-red"]
    G = generated(11, jdd3, [2, 3, 2], names3, 600)
    out("C.three", graph_digest(G), "rng", rng_digest())
    random.seed(4242)
    np.random.seed(4242)
    exercise_extractor("C.three", G, list(names3), show_full=False)
    long_digest("C.three.overall", JointExcessDegree.get_ejk(G))
    # full print of the smallest matrix for eyeballing bit-exact floats
    C = JointExcessJointDegree({ToolsNames.NETWORK: G, ToolsNames.EDGE_NAMES: names3})
    out("C.three.red", show(C.get_ejks().ejks["2-clique-red"]))
    out("C.three", "rng_after", rng_digest())

    # round trip: matrices container rebuilt from the extracted matrices
    m = C.get_ejks()
    M = JointExcessJointDegreeMatrices({ToolsNames.EJKS: m.ejks, ToolsNames.EDGE_NAMES: names3})
    out("C.roundtrip.keys", show(M.excess_degree_keys))
    out(
        "C.roundtrip.same_sets",
        all(set(M.excess_degree_keys[t]) == set(m.excess_degree_keys[t]) for t in names3),
    )


# ============================================================= section D
def section_matrices():
    out("== D. JointExcessJointDegreeMatrices")
    random.seed(303)
    np.random.seed(303)

    M = JointExcessJointDegreeMatrices()
    out("D.default", show(M))
    M2 = JointExcessJointDegreeMatrices(None)
    out("D.none", show(M2), "separate_state", M.ejks is not M2.ejks and M.topology_names is not M2.topology_names)
    attempt("D.default.index_empty", M.get_topology_index, "a")
    attempt("D.default.keys", M.get_excess_degree_keys)
    out("D.default.after_keys", show(M))

    ejks = {
        "a": {(0, 1, 2, 0): 0.25, (2, 0, 0, 1): 0.25, (1, 1, 1, 1): 0.5},
        "b": {(3, 0, 3, 0): 1.0},
        "c": {},
    }
    names = ["a", "b", "c"]
    params = {ToolsNames.EJKS: ejks, ToolsNames.EDGE_NAMES: names}
    M = JointExcessJointDegreeMatrices(params)
    out("D.params", show(M))
    out("D.params.shares", M.ejks is ejks, M.topology_names is names, "params", [k.name for k in params])
    old = M.excess_degree_keys
    attempt("D.params.keys.again", M.get_excess_degree_keys)
    out("D.params.keys.fresh_dict", old is not M.excess_degree_keys, old == M.excess_degree_keys, show(M.excess_degree_keys))
    for t in ["a", "b", "c", "d", None, 0]:
        attempt("D.index[%r]" % (t,), M.get_topology_index, t)
    M.topology_names = ["x", "a", "x", "a"]
    for t in ["a", "x", "y"]:
        attempt("D.index.dups[%r]" % (t,), M.get_topology_index, t)
    M.topology_names = ()
    attempt("D.index.empty_tuple", M.get_topology_index, "a")
    M.topology_names = None
    attempt("D.index.none", M.get_topology_index, "a")

    # odd, short and empty keys, strings, mixed lengths
    weird = {
        "odd": {(1, 2, 3): 0.5, (4,): 0.25, (): 0.25},
        "str": {"abcd": 1.0, "xyz": 2.0},
        "mixed": {(1, 2): 0.1, (1, 2, 3, 4, 5, 6): 0.9, (1.5, 2.5): 0.0},
        "lists": [(1, 2, 3, 4), (0, 0, 0, 0)],
        "nested": {((1, 2), (3, 4)): 1.0},
    }
    M = JointExcessJointDegreeMatrices({ToolsNames.EJKS: weird, ToolsNames.EDGE_NAMES: list(weird)})
    out("D.weird", show(M))

    attempt(
        "D.err.int_key",
        JointExcessJointDegreeMatrices,
        {ToolsNames.EJKS: {"a": {5: 1.0}}, ToolsNames.EDGE_NAMES: ["a"]},
    )
    attempt(
        "D.err.unhashable_half",
        JointExcessJointDegreeMatrices,
        {ToolsNames.EJKS: {"a": [([1], 2)]}, ToolsNames.EDGE_NAMES: ["a"]},
    )
    attempt(
        "D.err.none_matrix",
        JointExcessJointDegreeMatrices,
        {ToolsNames.EJKS: {"a": None}, ToolsNames.EDGE_NAMES: ["a"]},
    )
    attempt("D.err.no_names", JointExcessJointDegreeMatrices, {ToolsNames.EJKS: {}})
    attempt("D.err.no_ejks", JointExcessJointDegreeMatrices, {ToolsNames.EDGE_NAMES: []})
    attempt("D.err.empty", JointExcessJointDegreeMatrices, {})
    attempt("D.err.str", JointExcessJointDegreeMatrices, "params")
    attempt(
        "D.err.ejks_none",
        JointExcessJointDegreeMatrices,
        {ToolsNames.EJKS: None, ToolsNames.EDGE_NAMES: ["a"]},
    )
    # partially processed state is kept when a later topology fails
    M = JointExcessJointDegreeMatrices()
    M.ejks = {"good": {(1, 2): 1.0}, "bad": {7: 1.0}, "never": {(3, 4): 1.0}}
    attempt("D.partial", M.get_excess_degree_keys)
    out("D.partial.state", show(M))

    # setters and getters hand the very same objects through
    M = JointExcessJointDegreeMatrices()
    a, b, c = {"k": {}}, {"k": []}, ["k"]
    M.ejks, M.excess_degree_keys, M.topology_names = a, b, c
    out("D.props", M.ejks is a, M.excess_degree_keys is b, M.topology_names is c, show(vars(M)))
    out("D.class_attrs", sorted(k for k in vars(JointExcessJointDegreeMatrices) if not k.startswith("__")))
    out("D.rng", rng_digest())


def section_api():
    out("== E. API surface")
    out("E.extractor", sorted(k for k in vars(JointExcessJointDegree) if not k.startswith("__")))
    out("E.overall", sorted(k for k in vars(JointExcessDegree) if not k.startswith("__")))
    out("E.overall.static", isinstance(vars(JointExcessDegree)["get_ejk"], staticmethod))


if __name__ == "__main__":
    random.seed(1)
    np.random.seed(1)
    section_joint_excess_degree()
    section_extractor()
    section_generated()
    section_matrices()
    section_api()
    out("== log records at WARNING or above:", _handler.n_warning_or_above)
    if DEBUG:
        sys.stderr.write("debug records formatted: %d\n" % _handler.n_formatted)
    out("== final rng", rng_digest())
