import sys, os; sys.path.insert(0, os.getcwd())
# Variant a: GCMAlgorithm.infinite_sequence (base class helper that numbers the motifs).
# Exercises the helper directly (generator protocol: next / send / throw / close,
# independence of two generators, unbound call) and through every public entry
# point that consumes it (fast / network / motifs generators, direct and via
# GCMAlgorithmMain / GCMAlgorithmFactory), and prints a deterministic digest.
import hashlib
import inspect
import random
import types

import numpy as np

from gcmpy.gcm_algorithm.gcm_algorithm import GCMAlgorithm
from gcmpy.gcm_algorithm.gcm_algorithm_fast import GCMAlgorithmFast
from gcmpy.gcm_algorithm.gcm_algorithm_network import GCMAlgorithmNetwork
from gcmpy.gcm_algorithm.gcm_algorithm_custom_motifs import GCMAlgorithmCustomMotifs
from gcmpy.gcm_algorithm.gcm_algorithm_main import GCMAlgorithmMain
from gcmpy.gcm_algorithm.gcm_algorithm_factory import GCMAlgorithmFactory
from gcmpy.gcm_algorithm.gcm_algorithm_types import GCMAlgorithmTypes
from gcmpy.names.gcm_algorithm_names import GCMAlgorithmNames as N
from gcmpy.names.network_names import NetworkNames
from gcmpy.motif_generators.clique_motif import clique_motif
from gcmpy.motif_generators.cycle_motif import cycle_motif
from gcmpy.motif_generators.diamond_motif import diamond_motif
from gcmpy.network.edge_list import LightWeightEdgeList
from gcmpy.network.network import Network

random.seed(20261004)
np.random.seed(20261004)


def h(obj) -> str:
    return hashlib.sha256(repr(obj).encode()).hexdigest()[:16]


def rng() -> str:
    st = np.random.get_state()
    return "py=" + h(random.getstate()) + " np=" + h((st[0], st[1].tolist(), st[2], st[3], st[4]))


def attempt(label, fn):
    try:
        r = fn()
        print(label, "->", r)
    except BaseException as e:  # noqa
        ctx = type(e.__context__).__name__ if e.__context__ is not None else None
        print(label, "-> EXC", type(e).__name__, "|", str(e)[:80], "| ctx", ctx)
    print("   rng", rng())


def show(g):
    if isinstance(g, LightWeightEdgeList):
        return ("EL", len(g.edge_list), h(g.edge_list), h(g.topologies), h(g.motif_id), h(g.joint_degrees),
                g.motif_id[:6], g.motif_id[-3:], type(g.motif_id[0]).__name__ if g.motif_id else None)
    if isinstance(g, Network):
        es = sorted((min(u, v), max(u, v), str(d.get(NetworkNames.TOPOLOGY)), d.get(NetworkNames.MOTIF_IDS))
                    for u, v, d in g.G.edges(data=True))
        return ("NW", g.G.number_of_nodes(), len(es), h(es), h(list(g.G.edges())),
                h(sorted(g.G.nodes(data=True), key=lambda t: t[0])))
    return ("??", type(g).__name__)


def fast_params(sizes, names, builders, typ=None):
    p = {N.MOTIF_SIZES: sizes, N.EDGE_NAMES: names, N.BUILD_FUNCTIONS: builders}
    if typ is not None:
        p[N.GCM_TYPE] = typ
    return p


def rand_jds(n, sizes, kmax):
    """joint degree sequence whose column sums are multiples of the motif sizes"""
    cols = []
    for s in sizes:
        col = [random.randint(0, kmax) for _ in range(n)]
        while sum(col) % s:
            col[random.randrange(n)] += 1
        cols.append(col)
    return [tuple(c[i] for c in cols) for i in range(n)]


# ---------------------------------------------------------------- 1. the helper itself
print("== 1 helper")
base = fast_params([2], ["2-clique"], [clique_motif])
objs = {
    "fast": GCMAlgorithmFast(dict(base)),
    "network": GCMAlgorithmNetwork(dict(base)),
    "motifs": GCMAlgorithmCustomMotifs({**base, N.MOTIF_INDICES: [[0]]}),
}
for name, o in objs.items():
    g = o.infinite_sequence()
    print(name, type(g).__name__, inspect.isgenerator(g), isinstance(g, types.GeneratorType),
          inspect.isgeneratorfunction(o.infinite_sequence), inspect.getgeneratorstate(g),
          sorted(g.gi_frame.f_locals))
    first = [next(g) for _ in range(2000)]
    print("  first", first[:5], first[-1], h(first), {type(x).__name__ for x in first},
          sorted(g.gi_frame.f_locals), g.gi_frame.f_locals["num"], inspect.getgeneratorstate(g))
    print("  send", g.send("x"), g.send(17), g.send(None), g.send(-1), next(g))
    g2 = o.infinite_sequence()
    print("  independent", next(g2), next(g2), next(g), next(g2), g is g2, iter(g) is g)
    attempt("  throw", lambda: g.throw(ValueError("boom")))
    attempt("  next-after-throw", lambda: next(g))
    print("  state", inspect.getgeneratorstate(g), g.gi_frame)
    print("  close", g2.close(), inspect.getgeneratorstate(g2))
    attempt("  next-after-close", lambda: next(g2))
    g3 = o.infinite_sequence()
    print("  close-unstarted", g3.close(), inspect.getgeneratorstate(g3))
    attempt("  next-after-close-unstarted", lambda: next(g3))
    g4 = o.infinite_sequence()
    attempt("  send-nonNone-unstarted", lambda: g4.send(3))
    print("  then", next(g4), next(g4))
    g5 = o.infinite_sequence()
    attempt("  throw-unstarted", lambda: g5.throw(KeyError("k")))
    attempt("  next-after", lambda: next(g5))
    # long run, well past the small-int cache and 2**16
    g6 = o.infinite_sequence()
    tot = 0
    for _ in range(70000):
        tot += next(g6)
    print("  long", tot, next(g6))
    print("   rng", rng())

attempt("unbound(None)", lambda: [next(GCMAlgorithm.infinite_sequence(None)) for _ in range(3)])
attempt("unbound()", lambda: GCMAlgorithm.infinite_sequence())
attempt("extra-arg", lambda: objs["fast"].infinite_sequence(1))
attempt("abstract", lambda: GCMAlgorithm(base))
attempt("abstract-noargs", lambda: GCMAlgorithm())
print("sig", inspect.signature(GCMAlgorithm.infinite_sequence), GCMAlgorithm.infinite_sequence.__name__,
      GCMAlgorithm.infinite_sequence.__qualname__, GCMAlgorithm.infinite_sequence.__annotations__,
      GCMAlgorithm.infinite_sequence.__doc__, sorted(GCMAlgorithm.__abstractmethods__),
      "infinite_sequence" in GCMAlgorithm.__dict__)


class Sub(GCMAlgorithmFast):
    """a user subclass that overrides the helper keeps working"""

    def infinite_sequence(self):
        for x in super().infinite_sequence():
            yield 10 * x


attempt("subclass", lambda: show(Sub(dict(base)).random_clustered_graph([(1,), (1,), (2,), (1,), (1,)])))

# ---------------------------------------------------------------- 2. malformed parameter dicts
print("== 2 malformed")
for cls in (GCMAlgorithmFast, GCMAlgorithmNetwork, GCMAlgorithmCustomMotifs):
    for bad in ({}, None, [], {N.MOTIF_SIZES: [2]}, {N.MOTIF_SIZES: [2], N.BUILD_FUNCTIONS: [clique_motif]},
                {"motif_sizes": [2], "build_functions": [clique_motif], "edge_names": ["x"]},
                {N.MOTIF_INDICES: [[0]]}, 7):
        attempt(f"{cls.__name__}({bad!r:.60})", lambda: type(cls(bad)).__name__)
for bad in ({}, {N.GCM_TYPE: "fast"}, {N.GCM_TYPE: "nope"}, {N.GCM_TYPE: GCMAlgorithmTypes.MOTIFS, **base}, None):
    attempt(f"main({bad!r:.60})", lambda: type(GCMAlgorithmMain.load_gcm_algorithm(bad)).__name__)

# ---------------------------------------------------------------- 3. fast / network generators
print("== 3 fast / network")
four = [(1,), (1,), (1,), (1,)]
for rep in range(12):
    attempt(f"four#{rep}", lambda: objs["fast"].random_clustered_graph(four).edge_list)
attempt("empty", lambda: show(objs["fast"].random_clustered_graph([])))
attempt("zeros", lambda: show(objs["fast"].random_clustered_graph([(0,), (0,)])))
attempt("odd", lambda: show(objs["fast"].random_clustered_graph([(1,), (1,), (1,)])))
attempt("ragged", lambda: show(objs["fast"].random_clustered_graph([(1, 2), (1,)])))
attempt("too-many-columns", lambda: show(objs["fast"].random_clustered_graph([(1, 1), (1, 1)])))
attempt("none", lambda: show(objs["fast"].random_clustered_graph(None)))
attempt("negative", lambda: show(objs["fast"].random_clustered_graph([(-1,), (2,)])))

configs = [
    ([2], ["2-clique"], [clique_motif]),
    ([2, 3], ["2-clique", "3-clique"], [clique_motif, clique_motif]),
    ([2, 3, 4], ["2-clique", "3-cycle", "4-clique"], [clique_motif, cycle_motif, clique_motif]),
    ([3, 4, 5], ["tri", "diamond", "5-cycle"], [cycle_motif, diamond_motif, cycle_motif]),
    ([1, 2], ["loop", "edge"], [cycle_motif, clique_motif]),
]
for ci, (sizes, names, builders) in enumerate(configs):
    for typ in (GCMAlgorithmTypes.FAST, GCMAlgorithmTypes.NETWORK, "fast", "network"):
        p = fast_params(sizes, names, builders, typ)
        alg = GCMAlgorithmMain.load_gcm_algorithm(p)
        alg2 = GCMAlgorithmFactory.resolve_algorithm(GCMAlgorithmTypes(typ), p)
        for n in (1, 2, 7, 40, 300):
            jds = rand_jds(n, sizes, 4)
            # repeated calls on one object: the motif numbering restarts at 0 every call
            attempt(f"cfg{ci} {typ} n={n} call1", lambda: show(alg.random_clustered_graph(jds)))
            attempt(f"cfg{ci} {typ} n={n} call2", lambda: show(alg.random_clustered_graph(jds)))
            attempt(f"cfg{ci} {typ} n={n} other", lambda: show(alg2.random_clustered_graph(list(jds))))

# ---------------------------------------------------------------- 4. custom motifs generator
print("== 4 motifs")


def diamond(vs):
    return ((vs[0], vs[1]), (vs[1], vs[2]), (vs[2], vs[3]), (vs[3], vs[1]), (vs[0], vs[2]))


def diamond_names():
    return ("d-o", "d-o", "d-o", "d-o", "d-i")


def two(vs):
    return (vs[0], vs[1])


def two_names():
    return "2-clique"


def three(vs):
    return (vs[0], vs[1]), (vs[0], vs[2]), (vs[1], vs[2])


def three_names():
    return "3-clique", "3-clique", "3-clique"


def pent(vs):
    return ((vs[0], vs[1]), (vs[1], vs[2]), (vs[2], vs[3]), (vs[3], vs[4]), (vs[0], vs[4]), (vs[1], vs[3]))


def pent_names():
    return "p01", "p12", "p23", "p34", "p40", "p13"


test_jds = [
    (2, 1, 0, 1, 1, 0, 0), (1, 1, 0, 1, 1, 0, 0), (3, 1, 1, 0, 0, 1, 0), (2, 0, 1, 0, 0, 1, 0),
    (0, 0, 0, 1, 0, 0, 1), (1, 0, 0, 1, 0, 0, 0), (1, 0, 1, 0, 0, 0, 0), (1, 0, 1, 0, 0, 0, 0),
    (1, 0, 0, 1, 0, 0, 0), (1, 0, 0, 1, 0, 0, 0), (1, 0, 1, 0, 0, 0, 0), (0, 0, 1, 0, 0, 0, 0),
]
mp = {
    N.MOTIF_SIZES: [2, 3, 2, 2, 2, 2, 1],
    N.EDGE_NAMES: [two_names, three_names, diamond_names, pent_names],
    N.BUILD_FUNCTIONS: [two, three, diamond, pent],
    N.MOTIF_INDICES: [[0], [1], [2, 3], [4, 5, 6]],
    N.GCM_TYPE: "motifs",
}
m1 = GCMAlgorithmCustomMotifs(mp)
m2 = GCMAlgorithmMain.load_gcm_algorithm(mp)
for rep in range(6):
    attempt(f"paper#{rep}", lambda: show(m1.random_clustered_graph(test_jds)))
    attempt(f"paper-main#{rep}", lambda: show(m2.random_clustered_graph(test_jds * (rep + 1))))
attempt("paper-ids", lambda: m1.random_clustered_graph(test_jds).motif_id)
mp2 = {N.MOTIF_SIZES: [2, 3], N.EDGE_NAMES: [two_names, three_names], N.BUILD_FUNCTIONS: [two, three],
       N.MOTIF_INDICES: [[0], [1]]}
m3 = GCMAlgorithmCustomMotifs(mp2)
for n in (1, 3, 10, 100, 500):
    jds = rand_jds(n, [2, 3], 3)
    attempt(f"m23 n={n}", lambda: show(m3.random_clustered_graph(jds)))
    attempt(f"m23 n={n} again", lambda: show(m3.random_clustered_graph(jds)))
for rep in range(12):
    attempt(f"m-four#{rep}", lambda: m3.random_clustered_graph([(1, 0)] * 4).edge_list)
attempt("m-empty", lambda: show(m3.random_clustered_graph([])))
attempt("m-odd", lambda: show(m3.random_clustered_graph([(1, 0)] * 3)))
attempt("m-bad-index", lambda: show(GCMAlgorithmCustomMotifs({**mp2, N.MOTIF_INDICES: [[0], [5]]})
                                    .random_clustered_graph([(1, 0)] * 4)))
attempt("m-none", lambda: show(m3.random_clustered_graph(None)))

print("== end", rng())
