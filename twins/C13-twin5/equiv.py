"""
Equivalence script for C13 (mixing matrices).  Run with cwd = a checkout.
Exercises every changed EXISTING function through its EXISTING signature only.
Prints a deterministic transcript plus a sha256 of it.
"""
import hashlib
import os
import random
import sys

if os.environ.get("PYTHONHASHSEED") != "0":
    # sets of str-containing tuples are listed in raw order below: pin the hash seed
    os.environ["PYTHONHASHSEED"] = "0"
    os.execv(sys.executable, [sys.executable] + sys.argv)

sys.path.insert(0, os.getcwd())

import numpy as np  # noqa: E402
import networkx as nx  # noqa: E402

from gcmpy.names.network_names import NetworkNames  # noqa: E402
from gcmpy.names.tools_names import ToolsNames  # noqa: E402
from gcmpy.names.gcm_algorithm_names import GCMAlgorithmNames  # noqa: E402
from gcmpy.names.joint_degree_names import JointDegreeNames  # noqa: E402
from gcmpy.tools.joint_excess_degree import JointExcessDegree  # noqa: E402
from gcmpy.tools.joint_excess_joint_degree import JointExcessJointDegree  # noqa: E402
from gcmpy.tools.joint_excess_joint_degree_matrices import (  # noqa: E402
    JointExcessJointDegreeMatrices,
)
from gcmpy.joint_degree.joint_degree_loaders.joint_degree_manual import (  # noqa: E402
    JointDegreeManual,
)
from gcmpy.motif_generators.clique_motif import clique_motif  # noqa: E402
from gcmpy.gcm_algorithm.gcm_algorithm_network import (  # noqa: E402
    GCMAlgorithmNetwork,
)

LINES = []


def out(*parts):
    line = " ".join(str(p) for p in parts)
    LINES.append(line)
    print(line)


def rng_digest():
    h = hashlib.sha256()
    h.update(repr(random.getstate()).encode())
    st = np.random.get_state()
    h.update(repr((st[0], st[1].tolist(), st[2], st[3], st[4])).encode())
    return h.hexdigest()[:16]


def r(x):
    """order-preserving, bit-exact repr of nested containers"""
    if isinstance(x, dict):
        return "{" + ", ".join(r(k) + ": " + r(v) for k, v in x.items()) + "}"
    if isinstance(x, list):
        return "[" + ", ".join(r(v) for v in x) + "]"
    if isinstance(x, tuple):
        return "(" + ", ".join(r(v) for v in x) + ",)"
    if isinstance(x, (set, frozenset)):
        return "set[" + ", ".join(r(v) for v in x) + "]"  # raw iteration order
    if isinstance(x, float):
        return repr(x) + "/" + x.hex()
    if isinstance(x, nx.Graph):
        return "<graph n=%d m=%d>" % (x.number_of_nodes(), x.number_of_edges())
    if isinstance(x, JointExcessJointDegreeMatrices):
        return "<Matrices " + r(vars(x)) + ">"
    if isinstance(x, (JointExcessJointDegree, JointExcessDegree)):
        return "<%s instance>" % type(x).__name__  # no memory address
    return repr(x)


def call(label, fn, *args, **kwargs):
    try:
        res = fn(*args, **kwargs)
        out(label, "->", r(res))
        return res
    except BaseException as e:  # noqa
        out(label, "!! ", type(e).__name__, repr(str(e)))
        return None


def graph_digest(G):
    return r(
        [
            sorted((repr(n), r(d)) for n, d in G.nodes(data=True)),
            [(repr(u), repr(v), r(d)) for u, v, d in G.edges(data=True)],
        ]
    )


def state(obj):
    return r(vars(obj))


# --------------------------------------------------------------------------
random.seed(20261003)
np.random.seed(20261003)
out("rng0", rng_digest())

# ---------------- JointExcessDegree.get_ejk -------------------------------
out("== JointExcessDegree.get_ejk")
graphs = {}
graphs["empty"] = nx.Graph()
graphs["nodes_only"] = nx.empty_graph(4)
graphs["single_edge"] = nx.path_graph(2)
graphs["path5"] = nx.path_graph(5)
graphs["star6"] = nx.star_graph(6)
graphs["k4"] = nx.complete_graph(4)
g = nx.Graph()
g.add_edges_from([(0, 1), (1, 1), (1, 2), (2, 2), (2, 3)])
graphs["selfloops"] = g
graphs["gnm"] = nx.gnm_random_graph(40, 97, seed=5)
graphs["ba"] = nx.barabasi_albert_graph(60, 3, seed=11)
g = nx.Graph()
g.add_edges_from([("a", "b"), ("b", "c"), ("c", "a"), ("c", "d")])
graphs["strings"] = g
g = nx.MultiGraph()
g.add_edges_from([(0, 1), (0, 1), (1, 2)])
graphs["multigraph"] = g
g = nx.DiGraph()
g.add_edges_from([(0, 1), (1, 2), (2, 0), (2, 3)])
graphs["digraph"] = g
g = nx.Graph()
g.add_weighted_edges_from([(0, 1, 2.5), (1, 2, 0.5), (2, 3, 1.0)])
graphs["weighted"] = g

for name, G in graphs.items():
    before = graph_digest(G)
    res1 = call("jed.get_ejk[%s]#1" % name, JointExcessDegree.get_ejk, G)
    res2 = call("jed.get_ejk[%s]#2" % name, JointExcessDegree.get_ejk, G)
    out("  repeat-equal", r(res1) == r(res2), "same-object", res1 is res2)
    out("  graph-unchanged", before == graph_digest(G))
    if res1:
        out("  sum", r(sum(res1.values())))
        out("  symmetric", all(res1[(b, a)] == v for (a, b), v in res1.items()))

# instance call (staticmethod through an instance)
call("jed().get_ejk", JointExcessDegree().get_ejk, graphs["path5"])
# error paths
call("jed.get_ejk(None)", JointExcessDegree.get_ejk, None)
call("jed.get_ejk(int)", JointExcessDegree.get_ejk, 3)
call("jed.get_ejk()", JointExcessDegree.get_ejk)
call("jed.get_ejk(dict)", JointExcessDegree.get_ejk, {0: [1]})


class FakeG:
    """3-tuple edges -> unpack error in the loop"""

    def edges(self):
        return [(0, 1, 2)]

    def degree(self, n):
        return 1


call("jed.get_ejk(FakeG)", JointExcessDegree.get_ejk, FakeG())


class LoggingG:
    """records the order of calls made on the graph"""

    def __init__(self, G):
        self.G = G
        self.log = []

    def edges(self):
        self.log.append("edges")
        return self.G.edges()

    def degree(self, n):
        self.log.append(("degree", n))
        return self.G.degree(n)


lg = LoggingG(graphs["selfloops"])
call("jed.get_ejk(LoggingG)", JointExcessDegree.get_ejk, lg)
out("  call-log", r(lg.log))


class BadDegreeG(LoggingG):
    def degree(self, n):
        self.log.append(("degree", n))
        if n == 2:
            return "x"
        return self.G.degree(n)


lg = BadDegreeG(graphs["path5"])
call("jed.get_ejk(BadDegreeG)", JointExcessDegree.get_ejk, lg)
out("  call-log", r(lg.log))
out("rng1", rng_digest())


# ---------------- annotated networks --------------------------------------
def annotate(edges_by_topology, names, extra_nodes=()):
    """build a graph with `topology` on edges and `joint_degree` on vertices"""
    G = nx.Graph()
    for n in extra_nodes:
        G.add_node(n)
    for t in names:
        for u, v in edges_by_topology.get(t, []):
            G.add_edge(u, v)
            G.edges[u, v][NetworkNames.TOPOLOGY] = t
    for n in G.nodes():
        jd = [0] * len(names)
        for u, v in G.edges(n):
            jd[names.index(G.edges[u, v][NetworkNames.TOPOLOGY])] += 1
        G.nodes[n][NetworkNames.JOINT_DEGREE] = tuple(jd)
    return G


def gcm_network(jdd, sizes, names, n):
    params = {}
    params[JointDegreeNames.JDD] = jdd
    params[JointDegreeNames.MOTIF_SIZES] = sizes
    jds = JointDegreeManual(params).sample_jds_from_jdd(n)
    params = {}
    params[GCMAlgorithmNames.MOTIF_SIZES] = sizes
    params[GCMAlgorithmNames.EDGE_NAMES] = names
    params[GCMAlgorithmNames.BUILD_FUNCTIONS] = [clique_motif for _ in sizes]
    return GCMAlgorithmNetwork(params).random_clustered_graph(jds)._G


nets = {}
nets["tiny2"] = (
    annotate(
        {"t": [(0, 1), (1, 2), (2, 3), (3, 0)], "c": [(0, 2), (1, 3), (3, 4)]},
        ["t", "c"],
    ),
    ["t", "c"],
)
nets["one_topology"] = (
    annotate({"t": [(0, 1), (1, 2), (2, 3), (1, 3), (3, 4)]}, ["t"]),
    ["t"],
)
nets["isolated"] = (
    annotate({"t": [(0, 1)], "c": [(2, 3), (3, 4)]}, ["t", "c"], extra_nodes=[9, 8]),
    ["t", "c"],
)
nets["unused_topology"] = (
    annotate({"t": [(0, 1), (1, 2)]}, ["t", "c", "z"]),
    ["t", "c", "z"],
)
nets["no_edges"] = (annotate({}, ["t", "c"], extra_nodes=[0, 1, 2]), ["t", "c"])
nets["empty"] = (nx.Graph(), ["t"])
nets["no_names"] = (annotate({"t": [(0, 1), (1, 2)]}, ["t"]), [])
gs = annotate({"t": [(0, 1), (1, 2)]}, ["t"])
gs.add_edge(1, 1)
gs.edges[1, 1][NetworkNames.TOPOLOGY] = "t"
gs.nodes[1][NetworkNames.JOINT_DEGREE] = (4,)
nets["selfloop"] = (gs, ["t"])
# names given in a different order than the joint-degree positions / a subset
nets["subset_names"] = (nets["tiny2"][0].copy(), ["t"])
nets["tuple_names"] = (nets["tiny2"][0].copy(), ("t", "c"))
# list-valued joint degrees
gl = nets["tiny2"][0].copy()
for n in gl.nodes():
    gl.nodes[n][NetworkNames.JOINT_DEGREE] = list(gl.nodes[n][NetworkNames.JOINT_DEGREE])
nets["list_jd"] = (gl, ["t", "c"])
nets["gcm2"] = (
    gcm_network(
        {(5, 1): 1 / 3, (3, 2): 1 / 3, (1, 3): 1 / 3},
        [2, 3],
        ["2-clique", "3-clique"],
        600,
    ),
    ["2-clique", "3-clique"],
)
nets["gcm3"] = (
    gcm_network(
        {(1, 0, 0): 0.2, (1, 1, 1): 0.5, (3, 0, 1): 0.1, (2, 1, 0): 0.2},
        [2, 3, 2],
        ["2-clique-blue", "3-clique", "2-clique-red"],
        500,
    ),
    ["2-clique-blue", "3-clique", "2-clique-red"],
)
out("rng2", rng_digest())

out("== JointExcessJointDegree")
for name, (G, names) in nets.items():
    out("-- net", name, r(G), r(names))
    before = graph_digest(G)
    params = {ToolsNames.NETWORK: G, ToolsNames.EDGE_NAMES: names}
    params_before = r({k: id(v) for k, v in params.items()})
    C = call("ctor[%s]" % name, JointExcessJointDegree, params)
    if C is None:
        continue
    out("  params-unchanged", params_before == r({k: id(v) for k, v in params.items()}))
    out("  state0", state(C))
    out("  names-identity", C._topology_names is names, "G-identity", C._G is G)
    # get_ejk before any count (KeyError when an edge matches)
    for i, t in enumerate(names):
        call("  get_ejk-before-count[%s]" % t, C.get_ejk, i, t)
    call("  count_edge_types#1", C.count_edge_types)
    out("  state1", state(C))
    call("  count_edge_types#2", C.count_edge_types)
    out("  state2", state(C))
    for i, t in enumerate(names):
        a = call("  get_ejk[%d,%s]#1" % (i, t), C.get_ejk, i, t)
        b = call("  get_ejk[%d,%s]#2" % (i, t), C.get_ejk, i, t)
        out("    repeat-equal", r(a) == r(b), "same-object", a is b and a is not None)
    # wrong index / unknown name / out-of-range index
    call("  get_ejk[unknown]", C.get_ejk, 0, "nope")
    if names:
        call("  get_ejk[idx 99]", C.get_ejk, 99, names[0])
        call("  get_ejk[idx -1]", C.get_ejk, -1, names[0])
    M1 = call("  get_ejks#1", C.get_ejks)
    out("  state3", state(C))
    M2 = call("  get_ejks#2", C.get_ejks)
    out("  state4", state(C))
    if M1 is not None and M2 is not None:
        out(
            "  ejks: new-object",
            M1 is not M2,
            "held",
            C._ejks is M2,
            "equal",
            r(M1) == r(M2),
            "keys-shared",
            M1.excess_degree_keys is C._excess_degree_keys,
            M2.excess_degree_keys is M1.excess_degree_keys,
            "names-shared",
            M1.topology_names is names,
        )
        for t in M1.ejks:
            e = M1.ejks[t]
            out("   sum[%s]" % t, r(sum(e.values())), "n", len(e))
            rows = {}
            for k, v in e.items():
                h = len(k) // 2
                rows[k[:h]] = rows.get(k[:h], 0.0) + v
            out("   rows[%s]" % t, r(rows))
            out(
                "   symmetric[%s]" % t,
                all(
                    e.get(k[len(k) // 2 :] + k[: len(k) // 2]) == v
                    for k, v in e.items()
                ),
            )
    call("  resolve_excess_degree_keys#again", C.resolve_excess_degree_keys)
    out("  state5", state(C))
    out("  graph-unchanged", before == graph_digest(G))

# object history: mutate the network between queries
out("-- history")
G = nets["tiny2"][0].copy()
names = ["t", "c"]
C = JointExcessJointDegree({ToolsNames.NETWORK: G, ToolsNames.EDGE_NAMES: names})
call("  h.get_ejks#1", C.get_ejks)
G.remove_edge(3, 4)
G.nodes[3][NetworkNames.JOINT_DEGREE] = (2, 1)
G.nodes[4][NetworkNames.JOINT_DEGREE] = (0, 0)
call("  h.get_ejks#2(after removal)", C.get_ejks)
out("  h.state", state(C))
for u, v in list(G.edges()):
    if G.edges[u, v][NetworkNames.TOPOLOGY] == "c":
        G.remove_edge(u, v)
call("  h.get_ejks#3(no c edges)", C.get_ejks)
out("  h.state", state(C))
call("  h.get_ejk(1,'c') stale-free", C.get_ejk, 1, "c")
G.add_edge(0, 4)  # edge without topology attribute
call("  h.count_edge_types(missing attr)", C.count_edge_types)
out("  h.state", state(C))
call("  h.get_ejk(missing attr)", C.get_ejk, 0, "t")
call("  h.get_ejks(missing attr)", C.get_ejks)
out("  h.state", state(C))

# string-keyed attributes instead of the enum -> must fail exactly as before
out("-- wrong attribute keys")
G = nx.Graph()
G.add_edge(0, 1, topology="t")
G.nodes[0]["joint_degree"] = (1,)
G.nodes[1]["joint_degree"] = (1,)
call("  ctor(str attrs)", JointExcessJointDegree, {ToolsNames.NETWORK: G, ToolsNames.EDGE_NAMES: ["t"]})

# constructor error paths
out("-- ctor errors")
call("  ctor({})", JointExcessJointDegree, {})
call("  ctor(None)", JointExcessJointDegree, None)
call("  ctor()", JointExcessJointDegree)
call("  ctor(no names)", JointExcessJointDegree, {ToolsNames.NETWORK: nets["tiny2"][0]})
call("  ctor(no network)", JointExcessJointDegree, {ToolsNames.EDGE_NAMES: ["t"]})
call("  ctor(str keys)", JointExcessJointDegree, {"network": nets["tiny2"][0], "edge_names": ["t"]})
call("  ctor(network=None)", JointExcessJointDegree, {ToolsNames.NETWORK: None, ToolsNames.EDGE_NAMES: ["t"]})
call("  ctor(names=None)", JointExcessJointDegree, {ToolsNames.NETWORK: nets["tiny2"][0], ToolsNames.EDGE_NAMES: None})
call("  ctor(too many names)", JointExcessJointDegree, {ToolsNames.NETWORK: nets["tiny2"][0], ToolsNames.EDGE_NAMES: ["t", "c", "z"]})
Gm = nets["tiny2"][0].copy()
del Gm.nodes[2][NetworkNames.JOINT_DEGREE]
call("  ctor(node lacks jd)", JointExcessJointDegree, {ToolsNames.NETWORK: Gm, ToolsNames.EDGE_NAMES: ["t", "c"]})
out("rng3", rng_digest())

# ---------------- JointExcessJointDegreeMatrices --------------------------
out("== JointExcessJointDegreeMatrices")
M = call("M()", JointExcessJointDegreeMatrices)
out("  state", state(M))
call("  M().get_topology_index('t') [empty names]", M.get_topology_index, "t")
call("  M().get_excess_degree_keys", M.get_excess_degree_keys)
out("  state", state(M))
call("M(None)", JointExcessJointDegreeMatrices, None)

ejk_tree = {
    (0, 3, 0, 3): 1 / 81,
    (0, 3, 4, 1): 5 / 81,
    (0, 3, 2, 2): 3 / 81,
    (4, 1, 0, 3): 5 / 81,
    (4, 1, 4, 1): 25 / 81,
    (4, 1, 2, 2): 15 / 81,
    (2, 2, 0, 3): 3 / 81,
    (2, 2, 4, 1): 15 / 81,
    (2, 2, 2, 2): 9 / 81,
}
ejk_triangle = {
    (3, 1, 3, 1): 16 / 144,
    (3, 1, 1, 2): 24 / 144,
    (3, 1, 5, 0): 8 / 144,
    (1, 2, 3, 1): 24 / 144,
    (1, 2, 1, 2): 36 / 144,
    (1, 2, 5, 0): 12 / 144,
    (5, 0, 3, 1): 8 / 144,
    (5, 0, 1, 2): 12 / 144,
    (5, 0, 5, 0): 4 / 144,
}
ejks_in = {"2-clique": ejk_tree, "3-clique": ejk_triangle}
names_in = ["2-clique", "3-clique"]
params = {ToolsNames.EJKS: ejks_in, ToolsNames.EDGE_NAMES: names_in}
M = call("M(params)", JointExcessJointDegreeMatrices, params)
out("  state", state(M))
out("  shares-input", M.ejks is ejks_in, M.topology_names is names_in, M.ejks["2-clique"] is ejk_tree)
k0 = M.excess_degree_keys
call("  get_excess_degree_keys#2", M.get_excess_degree_keys)
out("  state", state(M))
out("  keys-new-object", M.excess_degree_keys is not k0, "equal", r(k0) == r(M.excess_degree_keys))
for t in ["2-clique", "3-clique", "nope", None, 0]:
    call("  get_topology_index(%r)" % (t,), M.get_topology_index, t)
call("  get_topology_index()", M.get_topology_index)
# properties / setters
call("  ejks", lambda: M.ejks)
call("  topology_names", lambda: M.topology_names)
call("  excess_degree_keys", lambda: M.excess_degree_keys)
M.topology_names = ("3-clique", "2-clique", "3-clique")
call("  get_topology_index(dup names)", M.get_topology_index, "3-clique")
call("  get_topology_index(dup names, missing)", M.get_topology_index, "x")
M.topology_names = []
call("  get_topology_index(empty after set)", M.get_topology_index, "3-clique")
M.topology_names = None
call("  get_topology_index(names None)", M.get_topology_index, "3-clique")
M.excess_degree_keys = {"a": [(1,)]}
out("  state-after-setters", state(M))
M.ejks = {
    "odd": {(1, 2, 3): 0.5, (3, 2, 1): 0.5},
    "single": {(7,): 1.0},
    "emptykey": {(): 1.0},
    "none": {},
    "strkey": {"abcd": 1.0},
    "listlike": {((1, 2), (3, 4)): 1.0},
}
call("  get_excess_degree_keys(odd shapes)", M.get_excess_degree_keys)
out("  state", state(M))
M.ejks = {"ok": {(1, 1): 1.0}, "bad": {5: 1.0}, "after": {(2, 2): 1.0}}
call("  get_excess_degree_keys(non-iterable key)", M.get_excess_degree_keys)
out("  state", state(M))
M.ejks = {"ok": {(1, 1): 1.0}, "bad": [(1, 2)], "after": {(2, 2): 1.0}}
call("  get_excess_degree_keys(list matrix)", M.get_excess_degree_keys)
out("  state", state(M))
M.ejks = None
call("  get_excess_degree_keys(ejks None)", M.get_excess_degree_keys)
out("  state", state(M))
# constructor error paths
call("M({})", JointExcessJointDegreeMatrices, {})
call("M(no names)", JointExcessJointDegreeMatrices, {ToolsNames.EJKS: ejks_in})
call("M(no ejks)", JointExcessJointDegreeMatrices, {ToolsNames.EDGE_NAMES: names_in})
call("M(str keys)", JointExcessJointDegreeMatrices, {"ejks": ejks_in, "edge_names": names_in})
call("M(bad ejks)", JointExcessJointDegreeMatrices, {ToolsNames.EJKS: 5, ToolsNames.EDGE_NAMES: names_in})
call("M(params, extra)", JointExcessJointDegreeMatrices, params, 1)
out("  inputs-unchanged", r(ejks_in), r(names_in))

# matrices extracted from a network, round trip through the constructor
G, names = nets["gcm2"]
E = JointExcessJointDegree({ToolsNames.NETWORK: G, ToolsNames.EDGE_NAMES: names}).get_ejks()
M = call("M(from network)", JointExcessJointDegreeMatrices, {ToolsNames.EJKS: E.ejks, ToolsNames.EDGE_NAMES: E.topology_names})
for t in names + ["zzz"]:
    call("  idx(%s)" % t, M.get_topology_index, t)
    call("  E.idx(%s)" % t, E.get_topology_index, t)

# class surface that existed before must be unchanged
out("== surface")
for cls in (JointExcessDegree, JointExcessJointDegree, JointExcessJointDegreeMatrices):
    o = object.__new__(cls)
    for probe in ("len", "iter", "contains", "bool", "eq", "hash"):
        try:
            if probe == "len":
                v = len(o)
            elif probe == "iter":
                v = list(iter(o))
            elif probe == "contains":
                v = 1 in o
            elif probe == "bool":
                v = bool(o)
            elif probe == "eq":
                v = o == object.__new__(cls)
            else:
                v = hash(o) == object.__hash__(o)
            out(" ", cls.__name__, probe, "->", v)
        except BaseException as e:  # noqa
            out(" ", cls.__name__, probe, "!!", type(e).__name__, str(e))
    out(" ", cls.__name__, "repr-default", type(o).__repr__ is object.__repr__)

out("rng-final", rng_digest())
print("DIGEST", hashlib.sha256("\n".join(LINES).encode()).hexdigest())
