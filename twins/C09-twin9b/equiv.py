import sys, os; sys.path.insert(0, os.getcwd())
if os.environ.get("PYTHONHASHSEED") != "0":
    os.environ["PYTHONHASHSEED"] = "0"
    os.execv(sys.executable, [sys.executable] + sys.argv)
import copy
import hashlib
import itertools
import random

import networkx as nx
import numpy as np

from gcmpy.covers.eecc import EECC, binom

FOCUS = "get_EECC"

random.seed(90901)
np.random.seed(90901)

_h = hashlib.sha256()
_n = [0]


def emit(*parts):
    line = " | ".join(repr(p) for p in parts)
    _h.update(line.encode("utf8", "backslashreplace"))
    _h.update(b"\n")
    _n[0] += 1
    print(line[:400])


def rng_digest():
    s = random.getstate()
    t = np.random.get_state()
    return hashlib.sha256(
        (repr(s) + repr(t[0]) + t[1].tobytes().hex() + repr(t[2:])).encode()
    ).hexdigest()[:16]


def graph_state(obj):
    try:
        G = obj.G
        return (
            type(G).__name__,
            [repr(n) for n in G.nodes()],
            [(repr(u), repr(v)) for u, v in G.edges()],
            {repr(k): [repr(x) for x in v] for k, v in G.adj.items()},
        )
    except Exception as exc:  # pragma: no cover
        return ("state-error", type(exc).__name__)


def attempt(label, fn):
    try:
        out = fn()
        emit(label, "ok", out)
        return out
    except BaseException as exc:
        emit(label, "raised", type(exc).__name__)
        return None


def make(edges, m0=None, nodes=()):
    g = EECC()
    if nodes:
        g.G.add_nodes_from(nodes)
    g.add_edges_from(edges)
    if m0 is not None:
        g.set_max_clique_size(m0)
    return g


def full_run(label, edges, m0, nodes=()):
    g = attempt(label + " build", lambda: graph_state(make(edges, m0, nodes))) and make(
        edges, m0, nodes
    )
    if g is None:
        return
    attempt(label + " lmc", lambda: g.limited_maximal_cliques())
    attempt(label + " lmc again", lambda: g.limited_maximal_cliques())
    emit(label + " state after lmc", graph_state(g))

    def scores():
        C = g.limited_maximal_cliques()
        n = len(C)
        EC, o, r, idx = [], [0] * n, [0.0] * n, []
        res = g.compute_scores(C, EC, o, r, idx)
        return (res, C, EC, o, [repr(x) for x in r], idx)

    attempt(label + " scores", scores)
    emit(label + " state after scores", graph_state(g))
    attempt(label + " cover", lambda: g.get_EECC())
    emit(label + " state after cover", graph_state(g), g.has_edges(), rng_digest())
    attempt(label + " cover again", lambda: g.get_EECC())
    emit(label + " state after cover2", graph_state(g), rng_digest())
    attempt(label + " lmc after", lambda: g.limited_maximal_cliques())


def complete(nodes):
    return list(itertools.combinations(nodes, 2))


def gnp(n, p, rs):
    return [(i, j) for i in range(n) for j in range(i + 1, n) if rs.random() < p]


# ---- fixed shapes --------------------------------------------------------
shapes = {
    "empty": [],
    "one-edge": [(0, 1)],
    "self-loop": [(0, 0)],
    "self-loop+edge": [(0, 0), (0, 1), (1, 2), (0, 2)],
    "path4": [(0, 1), (1, 2), (2, 3)],
    "triangle": complete(range(3)),
    "k4": complete(range(4)),
    "k5": complete(range(5)),
    "k6": complete(range(6)),
    "k7": complete(range(7)),
    "two-triangles-shared-edge": [(0, 1), (1, 2), (0, 2), (1, 3), (2, 3)],
    "two-triangles-shared-vertex": [(0, 1), (1, 2), (0, 2), (2, 3), (3, 4), (2, 4)],
    "k4+k4 shared edge": complete([0, 1, 2, 3]) + complete([2, 3, 4, 5]),
    "k5+k4 shared triangle": complete([0, 1, 2, 3, 4]) + complete([2, 3, 4, 5]),
    "wheel6": [(0, i) for i in range(1, 6)] + [(i, i % 5 + 1) for i in range(1, 6)],
    "octahedron": [(i, j) for i in range(6) for j in range(i + 1, 6) if j - i != 3],
    "disjoint": complete([0, 1, 2]) + complete([10, 11, 12, 13]) + [(20, 21)],
    "duplicates+reversed": [(0, 1), (1, 0), (0, 1), (1, 2), (2, 0), (0, 2)],
    "strings": [("a", "b"), ("b", "c"), ("a", "c"), ("c", "d"), ("b", "d")],
    "tuples": [((0, 0), (0, 1)), ((0, 1), (1, 1)), ((0, 0), (1, 1)), ((1, 1), (2, 2))],
    "floats": [(0.5, 1.5), (1.5, 2.5), (0.5, 2.5), (2.5, 3.0)],
    "int-float-mix": [(0, 1.0), (1.0, 2), (0, 2), (2, 3.5)],
    "inf-node": [(float("inf"), 1), (1, 2), (float("inf"), 2), (2, float("-inf"))],
    "frozensets": [
        (frozenset([1]), frozenset([2])),
        (frozenset([2]), frozenset([1, 2])),
        (frozenset([1]), frozenset([1, 2])),
        (frozenset([1, 2]), frozenset([3])),
    ],
    "mixed-uncomparable": [(0, "a"), ("a", 1), (0, 1)],
    "mixed-uncomparable-big": complete([0, "a", 1, "b"]),
    "none-node-pair": [(0, 1), (1, 2), (0, 2), (2, "x")],
    "negative+big": [(-3, 10**20), (10**20, 7), (-3, 7), (7, 8)],
    "bools": [(True, False), (False, 2), (True, 2), (2, 3)],
}

m0_values = [None, 2, 3, 4, 5, 10, 1, 0, -1, 2.5, 3.0, True, "3", [3], float("nan"), float("inf")]

for name, edges in shapes.items():
    for m0 in m0_values:
        full_run("shape %s m0=%r" % (name, m0), edges, m0)

# isolated vertices through the public graph attribute
for m0 in (2, 3, 4):
    full_run("isolated m0=%r" % m0, complete(range(4)) + [(3, 4)], m0, nodes=[50, 51])
    full_run("only-isolated m0=%r" % m0, [], m0, nodes=[1, 2, 3])

# malformed edges
for bad in ([(0,)], [(0, 1, 2)], [(0, 1, {"w": 2})], [0], None, [(None, 1)], [([1], 2)]):
    attempt("bad edges %r" % (bad,), lambda: graph_state(make(bad, 3)))
attempt("add_edge ok", lambda: (lambda g: (g.add_edge((1, 2)), graph_state(g)))(EECC()))
attempt("add_edge bad", lambda: EECC().add_edge((1,)))
attempt("add_edge bad2", lambda: EECC().add_edge(5))

# other graph classes through the public setter
for cls in (nx.DiGraph, nx.MultiGraph, nx.MultiDiGraph):
    for m0 in (2, 3):
        g = EECC()
        g.G = cls([(0, 1), (1, 2), (0, 2), (2, 3), (0, 1)])
        g.set_max_clique_size(m0)
        attempt("%s m0=%d lmc" % (cls.__name__, m0), g.limited_maximal_cliques)
        attempt("%s m0=%d has" % (cls.__name__, m0), g.has_edges)
        attempt("%s m0=%d cover" % (cls.__name__, m0), g.get_EECC)
        emit("%s state" % cls.__name__, graph_state(g), rng_digest())
for val in (None, 5, "g", {0: {1: {}}}):
    g = EECC()
    g.G = val
    attempt("G=%r lmc" % (val,), g.limited_maximal_cliques)
    attempt("G=%r has" % (val,), g.has_edges)
    attempt("G=%r cover" % (val,), g.get_EECC)
    attempt("G=%r remove" % (val,), lambda: g.remove_edge(0, 1))

# ---- random graphs, many sizes, repeated on one object --------------------
rs = random.Random(4242)
for trial in range(140):
    n = rs.randint(2, 11)
    p = rs.choice([0.15, 0.3, 0.5, 0.7, 0.9, 1.0])
    edges = gnp(n, p, rs)
    rs.shuffle(edges)
    if rs.random() < 0.3:
        edges = [(v, u) for u, v in edges]
    m0 = rs.choice([2, 3, 3, 4, 5, 6, 12])
    random.seed(1000 + trial)
    g = make(edges, m0)
    snapshot = copy.deepcopy(edges)
    label = "rand %d n=%d p=%s m0=%d" % (trial, n, p, m0)
    lm = attempt(label + " lmc", g.limited_maximal_cliques)
    cover = attempt(label + " cover", g.get_EECC)
    emit(label + " after", graph_state(g), g.has_edges(), edges == snapshot, rng_digest())
    # re-use the same object: add the edges again with another bound
    g.add_edges_from(edges)
    g.set_max_clique_size(rs.choice([2, 3, 4, 7]))
    attempt(label + " cover reuse", g.get_EECC)
    emit(label + " after reuse", graph_state(g), rng_digest())
    g.add_edge((0, 1))
    attempt(label + " cover one edge", g.get_EECC)
    emit(label + " after one edge", graph_state(g), rng_digest())

# same graph, many seeds: every tie-break path
tie = complete([0, 1, 2, 3]) + complete([2, 3, 4, 5]) + complete([4, 5, 6, 7]) + complete([6, 7, 0, 1])
for seed in range(40):
    random.seed(seed)
    for m0 in (3, 4):
        g = make(tie, m0)
        attempt("tie seed=%d m0=%d" % (seed, m0), g.get_EECC)
    emit("tie rng", seed, rng_digest())

# ---- compute_scores called directly with hand-made arguments --------------
def direct(label, C, EC=None, o=None, r=None, idx=None, owner=None):
    owner = owner or EECC()
    C = copy.deepcopy(C)
    EC = [] if EC is None else EC
    n = len(C) if hasattr(C, "__len__") else 0
    o = [0] * n if o is None else o
    r = [0.0] * n if r is None else r
    idx = [] if idx is None else idx

    def run():
        return owner.compute_scores(C, EC, o, r, idx)

    attempt(label, run)
    emit(label + " args", C, EC, o, [repr(x) for x in r], idx, graph_state(owner))


direct("cs empty", [])
direct("cs unsorted", [[3, 1, 2], [2, 1, 4], [9, 8]])
direct("cs tuples", [(3, 1, 2), (1, 2, 4), (5,)])
direct("cs sets", [{3, 1, 2}, {1, 2, 4}, set()])
direct("cs strings", ["cab", "abd", "xy"])
direct("cs singletons+empty", [[1], [], [2]])
direct("cs duplicates", [[1, 2, 3], [1, 2, 3], [1, 2, 3, 4]])
direct("cs repeated vertices", [[1, 1, 2], [1, 2, 2, 3]])
direct("cs big", [list(range(9)), [0, 1, 20], [7, 8, 30], [40, 41, 42]])
direct("cs int r", [[1, 2, 3], [2, 3, 4], [5, 6]], r=[0, 0, 0])
direct("cs preset r", [[1, 2, 3], [2, 3, 4], [5, 6, 7]], r=[0.25, -1.0, 2])
direct("cs nan r", [[1, 2, 3], [4, 5, 6]], r=[float("nan"), 0.0])
direct("cs short ord", [[1, 2, 3], [2, 3, 4]], o=[0])
direct("cs short r", [[1, 2, 3], [2, 3, 4]], r=[0.0])
direct("cs short r 2", [[1, 2], [2, 3, 4]], r=[0.0])
direct("cs long lists", [[1, 2, 3]], o=[0, 7], r=[0.0, 7.0])
direct("cs prefilled EC", [[1, 2, 3], [3, 4]], EC=[[9, 9]], idx=[5])
direct("cs uncomparable", [[1, "a", 2], [1, 2]])
direct("cs unhashable", [[[1], [2], [3]], [[1], [2]]])
direct("cs unhashable single", [[[1], [2], [3]]])
direct("cs unhashable pair", [[[1], [2]]])
direct("cs non-iterable member", [[1, 2, 3], 5])
direct("cs non-iterable first", [5, [1, 2, 3]])
direct("cs none", [None])
direct("cs dict C", {0: [3, 2, 1], 1: [2, 1, 5]})
direct("cs tuple C", ([1, 2, 3], [2, 3, 4]))
direct("cs ord none", [[1, 2, 3]], o=None, r=None, idx=None, EC=None)
direct("cs ord tuple", [[1, 2, 3]], o=(0,))
direct("cs r strings", [[1, 2, 3], [2, 3, 4]], r=["", ""])
direct("cs EC none", [[1, 2]], EC=None, idx=None)
attempt("cs EC not list", lambda: EECC().compute_scores([[1, 2]], None, [0], [0.0], []))
attempt("cs idx not list", lambda: EECC().compute_scores([[1, 2]], [], [0], [0.0], None))
attempt("cs C int", lambda: EECC().compute_scores(3, [], [0], [0.0], []))

rs = random.Random(777)
for trial in range(120):
    k = rs.randint(0, 7)
    C = []
    for _ in range(k):
        size = rs.choice([0, 1, 2, 2, 3, 3, 4, 5, 6])
        C.append(rs.sample(range(9), size))
    r = [rs.choice([0.0, 0.0, 0.0, 0, 0.5, -0.5]) for _ in range(k)]
    direct("cs rand %d" % trial, C, r=r)

# twice on the same buffers
C = [[1, 2, 3], [2, 3, 4], [4, 5, 6], [7, 8]]
EC, o, r, idx = [], [0] * 4, [0.0] * 4, []
g = EECC()
for rep in range(3):
    attempt("cs repeat %d" % rep, lambda: g.compute_scores(C, EC, o, r, idx))
    emit("cs repeat args", C, EC, o, [repr(x) for x in r], idx)

# ---- binom ---------------------------------------------------------------
for n in list(range(-3, 12)) + [30, 2.0, 5.5, "4", None, True]:
    for r_ in list(range(-3, 13)) + [2.0, 1.5, "2", None, False]:
        attempt("binom %r %r" % (n, r_), lambda: repr(binom(n, r_)))

# ---- Network helpers ------------------------------------------------------
g = make([(0, 1), (1, 2)], 2)
for pair in ((0, 1), (1, 0), (0, 1), (5, 6), (0, 2), (None, None), ([1], 2), (2, 1)):
    attempt("remove_edge %r" % (pair,), lambda: g.remove_edge(*pair))
    emit("after remove", graph_state(g), g.has_edges())
attempt("find_cliques", lambda: make(shapes["octahedron"]).find_cliques())
attempt("init m0", lambda: EECC()._m0)

emit("final rng", rng_digest())
print("LINES", _n[0])
print("FOCUS", FOCUS)
print("DIGEST", _h.hexdigest())
