"""Equivalence digest for the C10 (MPCC) refactoring. Run with cwd = a checkout."""
import sys, os, random, hashlib, itertools
sys.path.insert(0, os.getcwd())
import numpy as np
import networkx as nx
from gcmpy.covers.mpcc import MPCC


def h(obj):
    return hashlib.sha256(repr(obj).encode()).hexdigest()[:16]


def rng_digest():
    return h(random.getstate()) + "/" + h(np.random.get_state()[1].tolist())


def graph_dump(G):
    # order-sensitive dump: node order, adjacency order, all attributes
    return (type(G).__name__, list(G.nodes(data=True)),
            [(u, [(v, sorted(d.items()) if isinstance(d, dict) else repr(d)) for v, d in nb.items()])
             for u, nb in G.adjacency()], sorted(G.graph.items()))


def run(name, G, *args, seed=0, **kw):
    random.seed(seed)
    np.random.seed(seed)
    before = graph_dump(G)
    try:
        R = MPCC(G, *args, **kw)
        res = ("ok", R is G, graph_dump(R))
        labels = [d.get("clique") for _, _, d in R.edges(data=True)] if not R.is_multigraph() else None
    except Exception as ex:  # which exception, message, and the state the input was left in
        res = ("exc", type(ex).__name__, str(ex), graph_dump(G))
        labels = None
    print(name, "args", args, kw, "seed", seed)
    print("   in ", h(before))
    print("   out", h(res), res[0], res[1] if res[0] == "exc" else "")
    print("   rng", rng_digest())
    if labels is not None and len(labels) <= 12:
        print("   labels", labels)


def cases():
    yield "empty", lambda: nx.Graph()
    yield "single", lambda: nx.empty_graph(1)
    yield "isolated5", lambda: nx.empty_graph(5)
    yield "edge", lambda: nx.path_graph(2)
    yield "path6", lambda: nx.path_graph(6)
    yield "triangle", lambda: nx.complete_graph(3)
    yield "K5", lambda: nx.complete_graph(5)
    yield "K7", lambda: nx.complete_graph(7)
    yield "bowtie", lambda: nx.Graph([(0, 1), (1, 2), (2, 0), (2, 3), (3, 4), (4, 2)])
    yield "two_tri_shared_edge", lambda: nx.Graph([(0, 1), (1, 2), (2, 0), (1, 3), (3, 2)])
    yield "karate", lambda: nx.karate_club_graph()
    yield "petersen", lambda: nx.petersen_graph()
    yield "ring_of_cliques", lambda: nx.ring_of_cliques(4, 4)
    yield "caveman", lambda: nx.connected_caveman_graph(3, 5)
    yield "gnp30", lambda: nx.gnp_random_graph(30, 0.3, seed=7)
    yield "gnp60", lambda: nx.gnp_random_graph(60, 0.15, seed=11)
    yield "gnp25dense", lambda: nx.gnp_random_graph(25, 0.6, seed=3)

    def strnodes():
        G = nx.Graph()
        G.add_nodes_from(["z", "a", "m"])
        G.add_edges_from([("m", "a"), ("a", "z"), ("z", "m"), ("z", "q"), ("q", "a")], w=1.5)
        return G
    yield "strnodes_attrs", strnodes

    def mixednodes():
        G = nx.Graph()
        G.add_edges_from([((0, 1), "x"), ("x", 2.5), (2.5, (0, 1)), (2.5, frozenset([1]))])
        return G
    yield "mixed_hashables", mixednodes

    def selfloops():
        G = nx.complete_graph(4)
        G.add_edge(0, 0)
        G.add_edge(2, 2)
        G.add_edge(9, 9)
        return G
    yield "selfloops", selfloops

    def prelabelled():
        G = nx.complete_graph(4)
        for u, v in G.edges():
            G.edges[u, v]["clique"] = "stale"
        G.add_edge(3, 4, clique="old")
        return G
    yield "prelabelled", prelabelled

    def reordered():
        G = nx.Graph()
        G.add_nodes_from([5, 3, 1, 4, 2, 0])
        G.add_edges_from([(2, 3), (1, 3), (1, 2), (5, 0), (0, 4), (4, 5), (4, 3), (0, 3)])
        return G
    yield "reordered_nodes", reordered
    yield "digraph", lambda: nx.DiGraph([(0, 1), (1, 2), (2, 0)])
    yield "multigraph", lambda: nx.MultiGraph([(0, 1), (0, 1), (1, 2), (2, 0)])
    yield "multigraph_noedges", lambda: nx.empty_graph(3, create_using=nx.MultiGraph)


def main():
    print("networkx", nx.__version__)
    for name, make in cases():
        for args in [(), (0,), (1,), (2,), (3,), (4,), (100,), (-1,)]:
            for seed in (0, 1):
                run(name, make(), *args, seed=seed)
        run(name, make(), max_size=3, seed=5)
    # odd limits: exception type/message and partial state must match
    for lim in (None, "3", 2.5, float("nan"), float("inf"), True, False, [1]):
        for name, make in [("empty", nx.Graph), ("triangle", lambda: nx.complete_graph(3)),
                           ("bowtie", lambda: nx.Graph([(0, 1), (1, 2), (2, 0), (2, 3), (3, 4), (4, 2)]))]:
            run("oddlimit_" + name, make(), lim, seed=2)
    # not a graph at all
    for bad in (None, 3, [(0, 1)]):
        random.seed(4)
        try:
            MPCC(bad)
            print("bad", repr(bad), "ok")
        except Exception as ex:
            print("bad", repr(bad), type(ex).__name__, str(ex))
        print("   rng", rng_digest())
    # call history: repeated covering of the same object without reseeding, frozen graph, view
    random.seed(123)
    G = nx.gnp_random_graph(40, 0.25, seed=5)
    for i in range(4):
        R = MPCC(G, i)
        print("history", i, R is G, h(graph_dump(G)), rng_digest())
    F = nx.freeze(nx.complete_graph(4))
    run("frozen", F, seed=3)
    H = nx.gnp_random_graph(20, 0.4, seed=9)
    run("subgraph_view", H.subgraph(range(10)), seed=3)
    print("   parent", h(graph_dump(H)))
    # many seeds on one graph -> distribution of random outcomes
    acc = []
    for seed in range(40):
        random.seed(seed)
        K = MPCC(nx.gnp_random_graph(18, 0.5, seed=1), seed % 5)
        acc.append(graph_dump(K))
    print("seeds", h(acc), rng_digest())


main()
