"""Equivalence digest for the C14 optimisation (degree-distribution algebra).

Run with cwd = a checkout of gcmpy.  Prints a deterministic transcript
(bit-exact floats via repr) of every changed function on many inputs,
of the inputs afterwards (mutation check) and of the RNG states.
"""
import os
import sys

if os.environ.get("PYTHONHASHSEED") != "0":
    os.environ["PYTHONHASHSEED"] = "0"
    os.execv(sys.executable, [sys.executable] + sys.argv)

sys.path.insert(0, os.getcwd())

import copy
import hashlib
import random
from collections import OrderedDict, defaultdict

import networkx as nx
import numpy as np

from gcmpy.names.network_names import NetworkNames
from gcmpy.names.tools_names import ToolsNames
from gcmpy.tools.average_joint_degree_from_jdd import AverageJointDegreeFromJDD
from gcmpy.tools.joint_degree_distribution_from_network import (
    JointDegreeDistributionFromNetwork,
)
from gcmpy.tools.joint_degree_from_excess import JointDegreeFromExcess
from gcmpy.tools.joint_excess_from_ejk import JointExcessFromEjk
from gcmpy.tools.joint_excess_from_jdd import JointExcessfromJDD
from gcmpy.tools.joint_excess_joint_degree import JointExcessJointDegree
from gcmpy.tools.joint_excess_joint_degree_matrices import (
    JointExcessJointDegreeMatrices,
)

random.seed(20261003)
np.random.seed(20261003)

_H = hashlib.sha256()
_N = [0]


def emit(label, value):
    text = f"{_N[0]:04d} {label}: {value}"
    _N[0] += 1
    _H.update(text.encode())
    if len(text) > 4000:
        text = text[:400] + " ... sha=" + hashlib.sha256(text.encode()).hexdigest()
    print(text)


def show(obj):
    """repr that keeps order and type information."""
    if isinstance(obj, dict):
        return (
            type(obj).__name__
            + "{"
            + ", ".join(f"{show(k)}: {show(v)}" for k, v in obj.items())
            + "}"
        )
    if isinstance(obj, (list, tuple)):
        inner = ", ".join(show(x) for x in obj)
        return ("[%s]" if isinstance(obj, list) else "(%s)") % inner
    return f"{type(obj).__name__}:{obj!r}"


def call(label, fn, *args):
    try:
        result = fn(*args)
        emit(label, "OK " + show(result))
        return result
    except BaseException as exc:  # noqa
        emit(label, f"EXC {type(exc).__name__}: {exc}")
        return None


def rng_state():
    emit("py-rng", hashlib.sha256(repr(random.getstate()).encode()).hexdigest())
    st = np.random.get_state()
    emit(
        "np-rng",
        hashlib.sha256(repr((st[0], st[1].tolist(), st[2:])).encode()).hexdigest(),
    )


def random_jdd(n_keys, n_top, kmax, zero_bias=0.3):
    keys = []
    seen = set()
    while len(keys) < n_keys:
        k = tuple(
            0 if random.random() < zero_bias else random.randint(1, kmax)
            for _ in range(n_top)
        )
        if k not in seen:
            seen.add(k)
            keys.append(k)
    ws = [random.random() for _ in keys]
    tot = sum(ws)
    return {k: w / tot for k, w in zip(keys, ws)}


# ---------------------------------------------------------------- jdd inputs
JDDS = OrderedDict()
JDDS["test"] = {(1, 2): 0.2, (2, 0): 0.5, (3, 1): 0.1, (5, 1): 0.2}
JDDS["single"] = {(3,): 1.0}
JDDS["one-key-2top"] = {(2, 4): 1.0}
JDDS["zeros-col"] = {(0, 1): 0.25, (0, 2): 0.75}
JDDS["all-zero"] = {(0, 0): 1.0}
JDDS["int-probs"] = {(1, 1): 1, (2, 3): 2, (0, 4): 3}
JDDS["float-degrees"] = {(0.5, 1e-20): 0.3, (1.5, 2.0): 0.7}
JDDS["float-collide"] = {(1e-20, 1): 0.4, (1e-21, 1): 0.6}
JDDS["neg-degree"] = {(-1, 2): 0.5, (2, -3): 0.5}
JDDS["empty"] = {}
JDDS["empty-tuple-keys"] = {(): 1.0}
JDDS["ragged-short-later"] = {(1, 2): 0.5, (1,): 0.5}
JDDS["ragged-long-later"] = {(1, 2): 0.5, (1, 2, 3): 0.5}
JDDS["list-like-str"] = {"ab": 0.5}
JDDS["unnormalised"] = {(1, 0, 2): 0.1, (0, 3, 1): 0.1, (2, 2, 2): 0.1}
JDDS["ordered"] = OrderedDict([((4, 1), 0.5), ((1, 4), 0.25), ((2, 2), 0.25)])
dd = defaultdict(float)
dd[(1, 3)] = 0.6
dd[(2, 1)] = 0.4
JDDS["defaultdict"] = dd
for n_keys, n_top, kmax in [(5, 1, 6), (12, 2, 7), (40, 3, 9), (150, 4, 5), (300, 2, 40)]:
    JDDS[f"rand-{n_keys}-{n_top}-{kmax}"] = random_jdd(n_keys, n_top, kmax)
JDDS["np-int-keys"] = {
    tuple(np.int64(x) for x in k): np.float64(v)
    for k, v in random_jdd(8, 2, 5).items()
}

for name, jdd in JDDS.items():
    before = show(jdd)
    for rep in range(2):
        call(f"avg[{name}]#{rep}", AverageJointDegreeFromJDD.get_average_joint_degrees, jdd)
        qks = call(
            f"excess[{name}]#{rep}", JointExcessfromJDD.get_joint_excess_distributions, jdd
        )
    emit(f"jdd-unchanged[{name}]", show(jdd) == before)
    if qks is None:
        continue
    if not isinstance(next(iter(jdd)), tuple):
        continue
    n_top = len(qks)
    names = [f"t{i}" for i in range(n_top)]
    qd = call(f"list2dict[{name}]", JointExcessfromJDD.convert_list_qks_to_dict, qks, names)
    if qd is not None:
        emit(f"list2dict-identity[{name}]", [qd[n] is q for n, q in zip(names, qks)])
        ql = call(f"dict2list[{name}]", JointExcessfromJDD.convert_dict_qks_to_list, qd, names)
        if ql is not None:
            emit(f"dict2list-identity[{name}]", [a is b for a, b in zip(ql, qks)])
        qd_before = show(qd)
        for rep in range(2):
            for i, n in enumerate(names):
                call(f"invert_single[{name}][{n}]#{rep}", JointDegreeFromExcess.invert_single, qd[n], i)
            call(f"obs[{name}]#{rep}", JointDegreeFromExcess.observations_from_dict, qd, names)
            call(
                f"invert[{name}]#{rep}",
                JointDegreeFromExcess.get_joint_degree_distribution,
                qd,
                names,
            )
            call(
                f"invert-reversed-names[{name}]#{rep}",
                JointDegreeFromExcess.get_joint_degree_distribution,
                qd,
                list(reversed(names)),
            )
        emit(f"qd-unchanged[{name}]", show(qd) == qd_before)

# ------------------------------------------------- convert helpers: edge cases
q0, q1, q2 = {(0,): 1.0}, {(1,): 0.5}, {(2,): 0.25}
call("list2dict-dupkeys", JointExcessfromJDD.convert_list_qks_to_dict, [q0, q1, q2], ["a", "b", "a"])
call("list2dict-short-keys", JointExcessfromJDD.convert_list_qks_to_dict, [q0, q1, q2], ["a"])
call("list2dict-short-list", JointExcessfromJDD.convert_list_qks_to_dict, [q0], ["a", "b"])
call("list2dict-empty", JointExcessfromJDD.convert_list_qks_to_dict, [], [])
call("list2dict-unhashable", JointExcessfromJDD.convert_list_qks_to_dict, [q0, q1], ["a", ["b"]])
call("list2dict-noniter", JointExcessfromJDD.convert_list_qks_to_dict, [q0, q1], 3)
call("list2dict-generators", JointExcessfromJDD.convert_list_qks_to_dict, iter([q0, q1]), iter("xy"))
call("dict2list-missing", JointExcessfromJDD.convert_dict_qks_to_list, {"a": q0}, ["a", "b"])
call("dict2list-dup", JointExcessfromJDD.convert_dict_qks_to_list, {"a": q0, "b": q1}, ["b", "a", "b"])
call("dict2list-empty", JointExcessfromJDD.convert_dict_qks_to_list, {"a": q0}, [])
call("dict2list-noniter", JointExcessfromJDD.convert_dict_qks_to_list, {"a": q0}, None)
call("dict2list-list-as-dict", JointExcessfromJDD.convert_dict_qks_to_list, [q0, q1], [1, 0, 5])

# ------------------------------------------------------ invert_single: edges
call("invert_single-empty", JointDegreeFromExcess.invert_single, {}, 0)
call("invert_single-none", JointDegreeFromExcess.invert_single, None, 0)
call("invert_single-list", JointDegreeFromExcess.invert_single, [(0, 1)], 0)
call("avg-none", AverageJointDegreeFromJDD.get_average_joint_degrees, None)
call("avg-list", AverageJointDegreeFromJDD.get_average_joint_degrees, [(0, 1)])
call("excess-none", JointExcessfromJDD.get_joint_excess_distributions, None)
call("excess-list", JointExcessfromJDD.get_joint_excess_distributions, [(0, 1)])
call("invert-none-qk", JointDegreeFromExcess.get_joint_degree_distribution, {"a": None}, ["a"])
call("invert-none-qks", JointDegreeFromExcess.get_joint_degree_distribution, None, ["a"])
call("invert-none-keys", JointDegreeFromExcess.get_joint_degree_distribution, {"a": {(0,): 1.0}}, None)
call("invert_single-neg-index", JointDegreeFromExcess.invert_single, {(0, 3): 0.5, (2, 1): 0.5}, -1)
call("invert_single-oob", JointDegreeFromExcess.invert_single, {(0, 3): 0.5, (2,): 0.5}, 1)
call("invert_single-zero-div", JointDegreeFromExcess.invert_single, {(0, 3): 0.5, (-1, 1): 0.5}, 0)
call("invert_single-zero-total", JointDegreeFromExcess.invert_single, {(0, 3): 0.0, (1, 1): 0.0}, 0)
call("invert_single-ints", JointDegreeFromExcess.invert_single, {(0, 3): 1, (1, 1): 2, (4, 0): 3}, 0)
call("invert_single-collide", JointDegreeFromExcess.invert_single, {(0.0, 1): 0.5, (0, 1): 0.5, (1e-17, 1): 0.25}, 0)
call("invert_single-str-values", JointDegreeFromExcess.invert_single, {(0, 3): "x"}, 0)
call("invert_single-many", JointDegreeFromExcess.invert_single, {(i, (i * 7) % 5): 1.0 / (i + 3) for i in range(200)}, 1)

# ------------------------------------- get_joint_degree_distribution: edges
QK_TREE = {(0, 3): 0.1111111111111111, (4, 1): 0.5555555555555556, (2, 2): 0.3333333333333333}
QK_TRI = {(3, 1): 0.33333333333333337, (1, 2): 0.49999999999999994, (5, 0): 0.16666666666666669}
QKS = {"2-clique": QK_TREE, "3-clique": QK_TRI}
for rep in range(3):
    call(f"invert-test#{rep}", JointDegreeFromExcess.get_joint_degree_distribution, QKS, ["2-clique", "3-clique"])
call("invert-test-swapped", JointDegreeFromExcess.get_joint_degree_distribution, {"3-clique": QK_TREE, "2-clique": QK_TRI}, ["3-clique", "2-clique"])
call("invert-wrong-order", JointDegreeFromExcess.get_joint_degree_distribution, QKS, ["3-clique", "2-clique"])
call("invert-no-keys", JointDegreeFromExcess.get_joint_degree_distribution, QKS, [])
call("invert-missing-key", JointDegreeFromExcess.get_joint_degree_distribution, QKS, ["2-clique", "4-clique"])
call("invert-one-topology", JointDegreeFromExcess.get_joint_degree_distribution, QKS, ["2-clique"])
call("invert-dup-names", JointDegreeFromExcess.get_joint_degree_distribution, QKS, ["2-clique", "2-clique"])
call("invert-no-common", JointDegreeFromExcess.get_joint_degree_distribution, {"a": {(0, 1): 1.0}, "b": {(5, 5): 1.0}}, ["a", "b"])
call("invert-empty-qk", JointDegreeFromExcess.get_joint_degree_distribution, {"a": {}, "b": {(5, 5): 1.0}}, ["a", "b"])
call("invert-zero-mass", JointDegreeFromExcess.get_joint_degree_distribution, {"a": {(0, 1): 0.0, (1, 1): 1.0}, "b": {(1, 0): 0.0, (2, 0): 1.0}}, ["a", "b"])
call("invert-zero-total", JointDegreeFromExcess.get_joint_degree_distribution, {"a": {(0, 1): 1.0, (3, 3): -1.0}}, ["a"])
call("invert-partial-overlap", JointDegreeFromExcess.get_joint_degree_distribution,
     {"a": {(0, 1): 0.25, (1, 1): 0.5, (2, 2): 0.25}, "b": {(1, 0): 0.4, (2, 0): 0.3, (7, 7): 0.3}, }, ["a", "b"])
call("invert-int-names", JointDegreeFromExcess.get_joint_degree_distribution,
     {0: {(0, 1): 0.25, (1, 1): 0.75}, 1: {(1, 0): 0.4, (2, 0): 0.6}}, [0, 1])
call("invert-eq-names", JointDegreeFromExcess.get_joint_degree_distribution,
     {1: {(0, 1): 0.25, (1, 1): 0.75}, 2: {(1, 0): 0.4, (2, 0): 0.6}}, [1.0, 2])
emit("QKS-unchanged", show(QKS))
rng_state()

# ----------------------------------------------------------- ejk / matrices
EJK_TREE = {
    (0, 3, 0, 3): 1 / 81, (0, 3, 4, 1): 5 / 81, (0, 3, 2, 2): 3 / 81,
    (4, 1, 0, 3): 5 / 81, (4, 1, 4, 1): 25 / 81, (4, 1, 2, 2): 15 / 81,
    (2, 2, 0, 3): 3 / 81, (2, 2, 4, 1): 15 / 81, (2, 2, 2, 2): 9 / 81,
}
EJK_TRI = {
    (3, 1, 3, 1): 16 / 144, (3, 1, 1, 2): 24 / 144, (3, 1, 5, 0): 8 / 144,
    (1, 2, 3, 1): 24 / 144, (1, 2, 1, 2): 36 / 144, (1, 2, 5, 0): 12 / 144,
    (5, 0, 3, 1): 8 / 144, (5, 0, 1, 2): 12 / 144, (5, 0, 5, 0): 4 / 144,
}


def describe(m):
    return "ejks=%s | keys=%s | names=%s" % (
        show(m._ejks), show(m._excess_degree_keys), show(m._topology_names))


def ejk_suite(label, m):
    before = describe(m)
    for rep in range(2):
        call(f"qk-from-ejk[{label}]#{rep}", JointExcessFromEjk.get_excess_joint_distributions, m)
    emit(f"matrices-unchanged[{label}]", describe(m) == before)


m = JointExcessJointDegreeMatrices()
emit("matrices-default", describe(m))
ejk_suite("default-empty", m)
m._ejks = {"2-clique": EJK_TREE, "3-clique": EJK_TRI}
m._excess_degree_keys = {
    "2-clique": [(0, 3), (4, 1), (2, 2)],
    "3-clique": [(3, 1), (1, 2), (5, 0)],
}
ejk_suite("test", m)
qks_from_ejk = JointExcessFromEjk.get_excess_joint_distributions(m)
call("invert-from-ejk", JointDegreeFromExcess.get_joint_degree_distribution, qks_from_ejk, ["2-clique", "3-clique"])

for rep in range(3):
    call(f"get-keys[test]#{rep}", m.get_excess_degree_keys)
    emit(f"get-keys-state[test]#{rep}", describe(m))
ejk_suite("test-derived-keys", m)
old_keys = m._excess_degree_keys
m.get_excess_degree_keys()
emit("get-keys-fresh-dict", old_keys is not m._excess_degree_keys and old_keys == m._excess_degree_keys)

# duplicates / reordering / extras in the key lists, via the setters
m2 = JointExcessJointDegreeMatrices()
m2.ejks = {"2-clique": EJK_TREE, "3-clique": EJK_TRI}
m2.topology_names = ["2-clique", "3-clique"]
m2.excess_degree_keys = {
    "3-clique": [(3, 1), (1, 2), (3, 1), (5, 0), (9, 9), (1, 2), (3.0, 1.0)],
    "2-clique": [(2, 2), (0, 3), (2, 2), (4, 1), (4, 1), (4, 1)],
}
ejk_suite("dups", m2)
m2.excess_degree_keys = {"2-clique": [], "3-clique": [(9, 9)]}
ejk_suite("no-hits", m2)
m2.excess_degree_keys = {"2-clique": [(0, 3)]}
ejk_suite("len-mismatch", m2)
m2.excess_degree_keys = {"2-clique": [(0, 3)], "x": []}
ejk_suite("missing-topology", m2)
m2.excess_degree_keys = {"2-clique": [(0, 3), [4, 1]], "3-clique": []}
ejk_suite("bad-key-types", m2)
m2.excess_degree_keys = {"2-clique": ((0, 3), (4, 1)), "3-clique": iter([(3, 1), (1, 2)])}
ejk_suite("tuple-and-iterator-keys", m2)
m2.ejks = {"a": {(0, 0): 1, (0, 1): 2, (1, 0): 2, (1, 1): 5}, "b": {(1, 1): 1}}
m2.excess_degree_keys = {"a": [(0,), (1,)], "b": [(1,), (0,)]}
ejk_suite("int-values", m2)
for who in (0, 1):
    for t in ["2-clique", "3-clique", "nope", "a"]:
        call(f"topology-index[{who}][{t}]", (m, m2)[who].get_topology_index, t)

# constructor with params
params = {ToolsNames.EJKS: {"2-clique": dict(EJK_TREE), "3-clique": dict(EJK_TRI)},
          ToolsNames.EDGE_NAMES: ["2-clique", "3-clique"]}
m3 = call("ctor-params", lambda: describe(JointExcessJointDegreeMatrices(params)))
m3 = JointExcessJointDegreeMatrices(params)
emit("ctor-aliases", [m3._ejks is params[ToolsNames.EJKS], m3._topology_names is params[ToolsNames.EDGE_NAMES]])
ejk_suite("ctor", m3)
for t in ["2-clique", "3-clique", "4-clique"]:
    call(f"ctor-topology-index[{t}]", m3.get_topology_index, t)
call("ctor-missing-param", lambda: JointExcessJointDegreeMatrices({ToolsNames.EJKS: {}}))
call("ctor-empty", lambda: describe(JointExcessJointDegreeMatrices({ToolsNames.EJKS: {}, ToolsNames.EDGE_NAMES: []})))

# odd-length keys, strings, ragged keys, failure part-way through
m4 = JointExcessJointDegreeMatrices()
m4.ejks = {"odd": {(1, 2, 3): 0.5, (4, 5, 6, 7, 8): 0.5, (9,): 0.1, (): 0.2},
           "str": {"abcd": 1.0, "xy": 2.0, "abxy": 3.0},
           "mixed": {(1, 2, 1, 2): 0.3, (1.0, 2.0, 3, 4): 0.3, (3, 4, 1, 2): 0.4}}
call("get-keys[odd]", m4.get_excess_degree_keys)
emit("get-keys-state[odd]", describe(m4))
ejk_suite("odd", m4)
m4.excess_degree_keys = {"stale": [(1, 1)]}
m4.ejks = OrderedDict([("ok", {(1, 2, 3, 4): 1.0}), ("bad", {5: 1.0}), ("never", {(0, 0): 1.0})])
call("get-keys[partial-failure]", m4.get_excess_degree_keys)
emit("get-keys-state[partial-failure]", describe(m4))
m4.ejks = OrderedDict([("ok", {(1, 2, 3, 4): 1.0}), ("none", None)])
call("get-keys[none-matrix]", m4.get_excess_degree_keys)
emit("get-keys-state[none-matrix]", describe(m4))
m4.ejks = None
call("get-keys[ejks-none]", m4.get_excess_degree_keys)
emit("get-keys-state[ejks-none]", describe(m4))
call("qk-from-ejk[ejks-none]", JointExcessFromEjk.get_excess_joint_distributions, m4)
m4.ejks = {"a": None}
m4.excess_degree_keys = {"a": [(1,)]}
call("qk-from-ejk[matrix-none]", JointExcessFromEjk.get_excess_joint_distributions, m4)
m4.excess_degree_keys = {"a": None}
call("qk-from-ejk[keys-none]", JointExcessFromEjk.get_excess_joint_distributions, m4)
m4.excess_degree_keys = None
call("qk-from-ejk[all-keys-none]", JointExcessFromEjk.get_excess_joint_distributions, m4)
call("qk-from-ejk[not-a-matrices-object]", JointExcessFromEjk.get_excess_joint_distributions, None)
call("jdd-from-net[none]", JointDegreeDistributionFromNetwork.get_joint_degree_distribution, None)

# random large mixing matrices
for n_keys, half in [(30, 1), (120, 2), (400, 3)]:
    ej = {}
    while len(ej) < n_keys:
        k = tuple(random.randint(0, 6) for _ in range(2 * half))
        ej[k] = ej.get(k, 0.0) + random.random()
    mm = JointExcessJointDegreeMatrices({ToolsNames.EJKS: {"r": ej, "s": dict(reversed(list(ej.items())))},
                                         ToolsNames.EDGE_NAMES: ["r", "s"]})
    emit(f"rand-matrices[{n_keys},{half}]", describe(mm))
    ejk_suite(f"rand[{n_keys},{half}]", mm)
rng_state()

# ------------------------------------------------------------------ networks
JD = NetworkNames.JOINT_DEGREE


def node_dump(G):
    return show([(n, sorted((str(k), repr(v)) for k, v in d.items())) for n, d in G.nodes(data=True)])


def net_suite(label, G):
    before = node_dump(G)
    for rep in range(2):
        call(f"jdd-from-net[{label}]#{rep}", JointDegreeDistributionFromNetwork.get_joint_degree_distribution, G)
    emit(f"net-unchanged[{label}]", node_dump(G) == before)


net_suite("empty", nx.Graph())
net_suite("empty-digraph", nx.DiGraph())
G = nx.Graph()
G.add_node("a")
net_suite("missing-attr", G)
G.nodes["a"][JD] = [1, 2]
net_suite("single-list-attr", G)
G.add_node("b", **{"joint_degree": (1, 2)})
net_suite("string-key-not-enum", G)
G.nodes["b"][JD] = None
net_suite("none-attr", G)
G.nodes["b"][JD] = 7
net_suite("int-attr", G)

for cls in (nx.Graph, nx.DiGraph, nx.MultiGraph):
    for n in (1, 3, 7, 10, 49, 1000):
        G = cls()
        order = list(range(n))
        random.shuffle(order)
        for v in order:
            jd = [random.randint(0, 2), random.randint(0, 1)]
            G.add_node(v, **{"other": v})
            G.nodes[v][JD] = jd if v % 2 else tuple(jd)
        for _ in range(n):
            G.add_edge(random.choice(order), random.choice(order))
        net_suite(f"{cls.__name__}-{n}", G)
        if n == 49:
            sub = G.subgraph([v for v in order if v % 3])
            net_suite(f"{cls.__name__}-{n}-subgraph-view", sub)
            fr = nx.freeze(G.copy())
            net_suite(f"{cls.__name__}-{n}-frozen", fr)
            G.remove_nodes_from([v for v in order if v % 5 == 0])
            net_suite(f"{cls.__name__}-{n}-after-removal", G)
rng_state()

# a network with edge topologies: network -> matrices -> excess, and jdd -> excess
G = nx.Graph()
N = 600
for v in range(N):
    G.add_node(v)
edges = {}
for _ in range(900):
    u, v = random.sample(range(N), 2)
    if not G.has_edge(u, v):
        G.add_edge(u, v, **{"x": 1})
        G.edges[u, v][NetworkNames.TOPOLOGY] = random.choice(["2-clique", "3-clique"])
for v in range(N):
    jd = [0, 0]
    for _, w, d in G.edges(v, data=True):
        jd[0 if d[NetworkNames.TOPOLOGY] == "2-clique" else 1] += 1
    G.nodes[v][JD] = tuple(jd)
net_suite("topology-net", G)
jdd_net = JointDegreeDistributionFromNetwork.get_joint_degree_distribution(G)
call("avg[net]", AverageJointDegreeFromJDD.get_average_joint_degrees, jdd_net)
q_from_jdd = call("excess[net]", JointExcessfromJDD.get_joint_excess_distributions, jdd_net)
C = JointExcessJointDegree({ToolsNames.NETWORK: G, ToolsNames.EDGE_NAMES: ["2-clique", "3-clique"]})
mats = C.get_ejks()
emit("net-matrices", describe(mats))
ejk_suite("net", mats)
call("get-keys[net]", mats.get_excess_degree_keys)
emit("get-keys-state[net]", describe(mats))
ejk_suite("net-derived-keys", mats)
q_from_ejk = JointExcessFromEjk.get_excess_joint_distributions(mats)
call("invert[net-ejk]", JointDegreeFromExcess.get_joint_degree_distribution, q_from_ejk, ["2-clique", "3-clique"])
call("invert[net-jdd]", JointDegreeFromExcess.get_joint_degree_distribution,
     JointExcessfromJDD.convert_list_qks_to_dict(q_from_jdd, ["2-clique", "3-clique"]), ["2-clique", "3-clique"])

# a gcmpy-generated network (uses the global RNGs)
try:
    from gcmpy.gcm_algorithm.gcm_algorithm_network import GCMAlgorithmNetwork
    from gcmpy.joint_degree.joint_degree_distribution import JointDegreeDistribution
    from gcmpy.joint_degree.joint_degree_type import JointDegreeType
    from gcmpy.motif_generators.clique_motif import clique_motif
    from gcmpy.names.gcm_algorithm_names import GCMAlgorithmNames
    from gcmpy.names.joint_degree_names import JointDegreeNames

    p = {JointDegreeNames.JOINT_DEGREE_TYPE: JointDegreeType.MANUAL,
         JointDegreeNames.JDD: dict(JDDS["test"]),
         JointDegreeNames.MOTIF_SIZES: [2, 3]}
    jds = JointDegreeDistribution.load_joint_degree(p).sample_jds_from_jdd(3000)
    p = {GCMAlgorithmNames.MOTIF_SIZES: [2, 3],
         GCMAlgorithmNames.EDGE_NAMES: ["2-clique", "3-clique"],
         GCMAlgorithmNames.BUILD_FUNCTIONS: [clique_motif, clique_motif]}
    g = GCMAlgorithmNetwork(p).random_clustered_graph(jds)
    net_suite("gcm", g._G)
    jdd_g = JointDegreeDistributionFromNetwork.get_joint_degree_distribution(g._G)
    call("excess[gcm]", JointExcessfromJDD.get_joint_excess_distributions, jdd_g)
    Cg = JointExcessJointDegree({ToolsNames.NETWORK: g._G, ToolsNames.EDGE_NAMES: ["2-clique", "3-clique"]})
    mg = Cg.get_ejks()
    ejk_suite("gcm", mg)
    call("invert[gcm]", JointDegreeFromExcess.get_joint_degree_distribution,
         JointExcessFromEjk.get_excess_joint_distributions(mg), ["2-clique", "3-clique"])
except Exception as exc:  # noqa
    emit("gcm-network", f"SKIPPED {type(exc).__name__}: {exc}")

emit("JDDS-final", hashlib.sha256(show(list(JDDS.items())).encode()).hexdigest())
rng_state()
print("DIGEST", _H.hexdigest())
