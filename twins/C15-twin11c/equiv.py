import sys, os; sys.path.insert(0, os.getcwd())
# Equivalence harness for property C15 (automated motif equation), periphery edits.
# Run with cwd = a checkout of gcmpy.  Prints a deterministic digest: values (floats
# as hex), exception types, cache contents of the evaluator objects, identity /
# aliasing facts of returned objects and the RNG states at the end.
# VARIANT_FOCUS is only a label; the whole script is the same for a, b and c so that
# every variant is also checked against the sites of the other two.
VARIANT_FOCUS = "c: AutomatedEquation.get_us (small helper, root skip)"

import hashlib
import random
import re
from fractions import Fraction

import numpy as np
import networkx as nx

from gcmpy.message_passing.equations.automated_equation import AutomatedEquation
from gcmpy.message_passing import MessagePassing, MessagePassingMixin

random.seed(150015)
np.random.seed(150015)

_H = hashlib.sha256()


def emit(*parts):
    line = " ".join(str(p) for p in parts)
    _H.update(line.encode("utf8") + b"\n")
    print(line)


def fx(v):
    """bit-exact rendering of a value"""
    if isinstance(v, bool):
        return f"bool:{v}"
    if isinstance(v, float):
        return f"f:{v.hex()}"
    if isinstance(v, int):
        return f"i:{v}"
    if isinstance(v, Fraction):
        return f"F:{v.numerator}/{v.denominator}"
    if isinstance(v, (list, tuple)):
        return type(v).__name__ + "(" + ",".join(fx(x) for x in v) + ")"
    if isinstance(v, (set, frozenset)):
        return type(v).__name__ + "{" + ",".join(sorted(fx(x) for x in v)) + "}"
    if isinstance(v, dict):
        return "{" + ",".join(f"{fx(k)}:{fx(x)}" for k, x in v.items()) + "}"
    return f"{type(v).__name__}:{v!r}"


def call(f, *a, **k):
    try:
        return "ok " + fx(f(*a, **k))
    except BaseException as e:  # noqa
        return re.sub(r" at 0x[0-9a-fA-F]+", " at 0x?", f"EXC {type(e).__name__} {e.args!r}")[:300]


def dump_caches(tag, ae):
    emit(tag, "attrs", sorted(vars(ae)))
    emit(tag, "subgraph-cache", [(k, fx(v)) for k, v in ae._connected_subgraphs.items()])
    emit(tag, "edge-cache", [(k, fx(v)) for k, v in ae._edge_combinations.items()])


def graph_state(G):
    return (G.name, fx(dict(G.graph)), fx(list(G.nodes(data=True))), fx(list(G.edges(data=True))))


# --------------------------------------------------------------------------- motifs
def set_u(G, us):
    nx.set_node_attributes(G, us, "u")
    return G


def motifs(rng, kind="float"):
    """fresh list of (graph, roots) - graphs are new objects on every call"""
    def uval():
        if kind == "float":
            return rng.random()
        if kind == "int":
            return rng.randint(-3, 4)
        if kind == "frac":
            return Fraction(rng.randint(0, 9), rng.randint(1, 9))
        return rng.choice([True, False])

    out = []
    for n in (1, 2, 3, 4, 5):
        G = nx.complete_graph(n)
        G.name = f"{n}-clique"
        out.append(G)
    for n in (3, 4, 5, 6):
        G = nx.cycle_graph(n)
        G.name = f"{n}-cycle"
        out.append(G)
    G = nx.Graph()
    G.add_edges_from([(0, 1), (1, 2), (2, 3), (3, 0), (0, 2)])
    G.name = "1,3-chorded-4-cycle"
    out.append(G)
    for n in (2, 3, 4, 5):
        G = nx.path_graph(n)
        G.name = f"{n}-path"
        out.append(G)
    G = nx.star_graph(4)
    G.name = "4-star"
    out.append(G)
    G = nx.Graph()  # bow tie
    G.add_edges_from([(0, 1), (1, 2), (2, 0), (2, 3), (3, 4), (4, 2)])
    G.name = "bowtie"
    out.append(G)
    for s in range(6):  # random connected graphs
        r2 = random.Random(9000 + s)
        n = r2.randint(3, 6)
        G = nx.Graph()
        G.add_nodes_from(range(n))
        for v in range(1, n):
            G.add_edge(v, r2.randrange(v))
        for _ in range(r2.randint(0, 4)):
            a, b = r2.sample(range(n), 2)
            G.add_edge(a, b)
        G.name = f"rand{s}"
        out.append(G)
    # tuple-labelled vertices (hash of tuples of ints is not randomised)
    G = nx.relabel_nodes(nx.cycle_graph(4), {i: (i, i + 1) for i in range(4)})
    G.name = "tuple-4-cycle"
    out.append(G)
    # shifted labels, negative labels
    G = nx.relabel_nodes(nx.complete_graph(3), {0: -7, 1: 40, 2: 1000003})
    G.name = "odd-labels-3-clique"
    out.append(G)
    # not a legal motif: disconnected, self loop, unnamed
    G = nx.Graph()
    G.add_edges_from([(0, 1), (2, 3)])
    G.name = "disconnected"
    out.append(G)
    G = nx.Graph()
    G.add_edges_from([(0, 1), (1, 1), (1, 2)])
    G.name = "selfloop"
    out.append(G)
    G = nx.complete_graph(3)  # name == ''
    out.append(G)
    for G in out:
        set_u(G, {v: uval() for v in G.nodes()})
    return out


PHIS = [0.5645231765, 0.0, 1.0, 0.25, 1e-9, 0.999999, -0.5, 1.5, 0, 1, Fraction(1, 3), Fraction(0), True]

# ------------------------------------------------------ 1. fresh evaluator every call
emit("== focus", VARIANT_FOCUS)
emit("== 1 fresh evaluator per call")
rng = random.Random(1)
for kind in ("float", "int", "frac", "bool"):
    for G in motifs(rng, kind):
        before = graph_state(G)
        for root in list(G.nodes()) + ["absent", None]:
            for p in (PHIS if kind == "float" else PHIS[:2] + PHIS[8:11]):
                ae = AutomatedEquation()
                emit("1", kind, repr(G.name), repr(root), fx(p), call(ae.automated_equation, G, p, root))
        emit("1 graph-unchanged", repr(G.name), before == graph_state(G))

# ------------------------------------- 2. one evaluator, shuffled orders, name clashes
emit("== 2 shared evaluator")
for trial in range(4):
    rng = random.Random(100 + trial)
    ae = AutomatedEquation()
    jobs = []
    for rep in range(2):
        for G in motifs(random.Random(5 + rep), "float"):  # same names, other u
            for root in G.nodes():
                jobs.append((G, root, rng.choice(PHIS[:8])))
    rng.shuffle(jobs)
    jobs = jobs[:140]
    for G, root, p in jobs:
        emit("2", trial, repr(G.name), repr(root), fx(p), call(ae.automated_equation, G, p, root))
    # name clash: a different graph under an already cached name
    K = nx.cycle_graph(5)
    K.name = "5-clique"
    set_u(K, {v: 0.5 for v in K})
    emit("2 clash", call(ae.automated_equation, K, 0.3, 0))
    dump_caches(f"2 caches {trial}", ae)

# ------------------------------------------- 3. get_connected_subgraphs called directly
emit("== 3 get_connected_subgraphs")
ae = AutomatedEquation()
for G in motifs(random.Random(3), "float"):
    for root in list(G.nodes())[:3] + ["absent"]:
        try:
            r1 = ae.get_connected_subgraphs(G, root)
        except BaseException as e:  # noqa
            emit("3", repr(G.name), repr(root), "EXC", type(e).__name__, re.sub(r" at 0x[0-9a-fA-F]+", " at 0x?", repr(e.args)))
            emit("3 key-after-failure", f"{root}-{G.name}" in ae._connected_subgraphs)
            continue
        key = f"{root}-{G.name}"
        r2 = ae.get_connected_subgraphs(G, root)
        emit("3", repr(G.name), repr(root), fx(r1), "same-object-on-repeat", r1 is r2,
             "is-cache-entry", r1 is ae._connected_subgraphs[key], type(r1).__name__)
        # the returned list aliases the cache: a mutation must show up later
        r1.append({"marker"})
        r3 = ae.get_connected_subgraphs(G, root)
        emit("3 alias", len(r3), r3[-1] == {"marker"}, r3 is r1)
        r1.pop()
        # an equal named but different graph gets the cached answer
        other = nx.path_graph(2)
        other.name = G.name
        emit("3 stale", fx(ae.get_connected_subgraphs(other, root)), ae.get_connected_subgraphs(other, root) is r1)
# pre-seeded cache entries are returned untouched, whatever they are
ae = AutomatedEquation()
sentinel = ("sentinel",)
ae._connected_subgraphs["0-3-clique"] = sentinel
G3 = nx.complete_graph(3)
G3.name = "3-clique"
emit("3 preseeded", ae.get_connected_subgraphs(G3, 0) is sentinel, len(ae._connected_subgraphs))
ae._connected_subgraphs["1-3-clique"] = None
emit("3 preseeded-None", ae.get_connected_subgraphs(G3, 1) is None, len(ae._connected_subgraphs))
emit("3 no-name-attr", call(ae.get_connected_subgraphs, object(), 0))
emit("3 G-none", call(ae.get_connected_subgraphs, None, 0))
dump_caches("3 caches", ae)
# two evaluators do not share caches
x, y = AutomatedEquation(), AutomatedEquation()
x.get_connected_subgraphs(G3, 0)
emit("3 independent", len(x._connected_subgraphs), len(y._connected_subgraphs),
     x._connected_subgraphs is y._connected_subgraphs, x._edge_combinations is y._edge_combinations)

# ------------------------------------------------------------ 4. get_us called directly
emit("== 4 get_us")


class Loud:
    """vertex object that records every comparison made on it"""
    log = []

    def __init__(self, k):
        self.k = k

    def __hash__(self):
        return hash(self.k)

    def __eq__(self, other):
        Loud.log.append(("eq", self.k, getattr(other, "k", other)))
        return isinstance(other, Loud) and self.k == other.k

    def __ne__(self, other):
        Loud.log.append(("ne", self.k, getattr(other, "k", other)))
        return False  # deliberately inconsistent with __eq__

    def __repr__(self):
        return f"Loud({self.k})"


class Truthy:
    """__eq__ gives back a non-bool"""
    def __init__(self, k):
        self.k = k

    def __hash__(self):
        return 7

    def __eq__(self, other):
        return [] if getattr(other, "k", None) != self.k else [1]

    def __repr__(self):
        return f"Truthy({self.k})"


class BadBool:
    def __bool__(self):
        raise RuntimeError("no truth value")


class EqBad:
    def __hash__(self):
        return 3

    def __eq__(self, other):
        if other is self:
            return True
        return BadBool()

    def __repr__(self):
        return "EqBad"


ae = AutomatedEquation()
for kind in ("float", "int", "frac", "bool"):
    for G in motifs(random.Random(4), kind):
        for root in list(G.nodes()) + ["absent", None, 0.0, True, float("nan")]:
            emit("4", kind, repr(G.name), repr(root), call(ae.get_us, G, root))
E = nx.Graph()
emit("4 empty", call(ae.get_us, E, 0))
G = nx.path_graph(4)
emit("4 no-u", call(ae.get_us, G, 0))
G.nodes[0]["u"] = 0.5
emit("4 only-root-has-u", call(ae.get_us, G, 0), call(ae.get_us, G, 1))
set_u(G, {0: 0.5, 1: "x", 2: 2, 3: 1.5})
emit("4 str-u", call(ae.get_us, G, 0), call(ae.get_us, G, 1), call(ae.get_us, G, 3))
set_u(G, {0: float("inf"), 1: 0.0, 2: float("nan"), 3: -0.0})
for r in range(5):
    emit("4 special", r, call(ae.get_us, G, r))
set_u(G, {0: None, 1: [1, 2], 2: 2, 3: 3})
for r in range(4):
    emit("4 odd-u", r, call(ae.get_us, G, r))
nan = float("nan")
G = nx.Graph()
G.add_edge(nan, 1)
set_u(G, {nan: 0.25, 1: 0.5})
emit("4 nan-node", call(ae.get_us, G, nan), call(ae.get_us, G, float("nan")), call(ae.get_us, G, 1))
a, b, c = Loud(1), Loud(2), Loud(3)
G = nx.Graph()
G.add_edges_from([(a, b), (b, c)])
set_u(G, {a: 0.5, b: 0.25, c: 0.125})
Loud.log.clear()
emit("4 loud", call(ae.get_us, G, b), call(ae.get_us, G, Loud(3)), call(ae.get_us, G, 3))
emit("4 loud-log", Loud.log)
t1, t2 = Truthy(1), Truthy(2)
G = nx.Graph()
G.add_node(t1, u=0.5)
G.add_node(t2, u=0.25)
emit("4 truthy", call(ae.get_us, G, t1), call(ae.get_us, G, t2), call(ae.get_us, G, Truthy(2)), call(ae.get_us, G, 0))
eb = EqBad()
G = nx.Graph()
G.add_node(eb, u=0.5)
G.add_node(5, u=0.25)
emit("4 eqbad", call(ae.get_us, G, eb), call(ae.get_us, G, 5), call(ae.get_us, G, EqBad()))
emit("4 not-a-graph", call(ae.get_us, None, 0), call(ae.get_us, {1: 2}, 0))
dump_caches("4 caches", ae)

# ----------------------------------------------------- 5. get_edge_combinations direct
emit("== 5 get_edge_combinations")
ae = AutomatedEquation()
for G in motifs(random.Random(5), "float")[:16]:
    r = ae.get_edge_combinations(G, list(G.nodes()))
    emit("5", repr(G.name), fx(r), r is ae.get_edge_combinations(G, list(G.nodes())))
dump_caches("5 caches", ae)


# ------------------------------------------------- 6. MessagePassing.resolve_equation
emit("== 6 resolve_equation")


def covered_network():
    """two triangles sharing vertex 2, a pendant edge, and a 4-cycle hanging off 5"""
    parts = [
        (3, [0, 1, 2], [(0, 1), (0, 2), (1, 2)], 0),
        (3, [2, 3, 4], [(2, 3), (2, 4), (3, 4)], 1),
        (2, [4, 5], [(4, 5)], 2),
        (4, [5, 6, 7, 8], [(5, 6), (6, 7), (7, 8), (8, 5)], 3),
        (5, [8, 9, 10, 11], [(8, 9), (9, 10), (10, 11), (11, 8), (8, 10)], 12),
    ]
    G = nx.Graph()
    labels = []
    for key, vs, es, uid in parts:
        label = f"{key}-{vs}-{es}-{uid}"
        labels.append(label)
        for e in es:
            G.add_edge(*e, CoverLabel=label)
    return G, labels


NET, LABELS = covered_network()
mp = MessagePassing(NET)
emit("6 ctor", type(mp._MPM).__name__, type(mp._AE).__name__, mp._H_tau, mp._iterations, mp._MPM._CoverType, mp._MPM._G is NET)
emit("6 no-phi", call(mp.resolve_equation, 0, LABELS[0], {1: 0.5, 2: 0.5}))
dump_caches("6 caches-after-no-phi", mp._AE)
rng = random.Random(6)
for phi in (0.37, 0.0, 1.0, Fraction(2, 5)):
    mp._phi = phi
    for label in LABELS + LABELS[:2]:
        vs = MessagePassingMixin("motif cover", NET).get_vertices_in_motif(label)
        for focal in vs + [99]:
            prods = {v: rng.random() for v in vs if v != focal}
            snap = dict(prods)
            emit("6", fx(phi), label.split("-")[-1], focal, fx(prods), call(mp.resolve_equation, focal, label, prods), prods == snap)


class Fmt:
    def __init__(self, k):
        self.k = k

    def __format__(self, spec):
        raise ZeroDivisionError("format")

    def __hash__(self):
        return hash(self.k)

    def __eq__(self, o):
        return o == self.k


mp._phi = 0.4
BAD = [
    "", "3", "3-[0, 1]", "3-[0, 1]-[(0, 1)]", "3-[0, 1]-[(0, 1)]-x", "3-[0, 1]-[(0, 1)]-", "3-[0, 1]-[(0, 1)]-1.5",
    "3-[0, 1]-[(0, 1)]- 7 ", "3-[0, 1]-[(0, 1)]-7-8", "3-[0, 1]-oops-4", "3-[0, 1]-[(0, 1, 2, 3)]-4", "3-[0, 1]-[0, 1]-4",
    "3-[0, 1]-5-4", "3-[0, 1]-[(0, 1), 5]-4", "3-[0, 1]-[(0,)]-4", "3-[0, 1]-[]-4", "3-[0, 1]-[(0, 1, {'w': 2})]-4",
    "3-[0, 1]-[(0, 1, 7)]-4", "3-[0, 1]-(0, 1)-4", "3-[0, 1]-[(0, [1])]-4", "3-[0, 1]-[(0, None)]-4", "3-[0, 1]-'ab'-4",
    "3-[0, 1]-oops-x", "3-[0, 1]-[(0, 1)]-٣", "x-y-[(0, 1), (1, 2)]-0", "3-[-1, 0]-[(-1, 0)]-4", "3-[0, 1]-[(0, 1)]--4",
    None, 5, b"3-[0, 1]-[(0, 1)]-4", ["3", "[0,1]", "[(0,1)]", "4"],
]
for label in BAD:
    for focal, prods in ((0, {1: 0.5}), (1, {}), (0, {0: 0.3, 1: 0.6, 2: 0.9}), (Fmt(0), {1: 0.5})):
        emit("6 bad", repr(label), type(focal).__name__, fx(prods), call(mp.resolve_equation, focal, label, prods))
emit("6 prods-not-dict", call(mp.resolve_equation, 0, LABELS[0], None), call(mp.resolve_equation, 0, LABELS[0], 0.5),
     call(mp.resolve_equation, 0, LABELS[0], [0.1, 0.2, 0.3]))
dump_caches("6 caches", mp._AE)
emit("6 net-unchanged", fx(list(NET.edges(data=True))) == fx(list(covered_network()[0].edges(data=True))), dict(NET.graph))

# --------------------------------------------------------- 7. MessagePassing.theoretical
emit("== 7 theoretical")
mp = MessagePassing(NET, iterations=6)
for phi in (0.2, 0.8, 0.2, 1.0, 0.0, 0.55):
    emit("7", fx(phi), call(mp.theoretical, phi), fx(sorted(mp._H_tau.items())))
dump_caches("7 caches", mp._AE)
mp2 = MessagePassing(NET, "motif cover", 3)
emit("7 second-object", call(mp2.theoretical, 0.55), mp2._AE is not mp._AE)
emit("7 default-iterations", MessagePassing(NET)._iterations)
plain = nx.path_graph(3)
emit("7 unlabelled", call(MessagePassing(plain).theoretical, 0.5))
emit("7 ctor-bad", call(MessagePassing), call(MessagePassing, None).split(" ")[0], call(MessagePassing(None).theoretical, 0.5))

# ------------------------------------------------------------------------ 8. RNG states
emit("== 8 rng")
emit("random", hashlib.sha256(repr(random.getstate()).encode()).hexdigest())
st = np.random.get_state()
emit("numpy", st[0], hashlib.sha256(st[1].tobytes()).hexdigest(), st[2], st[3], st[4])
emit("next-draws", fx(random.random()), fx(float(np.random.random())))
print("DIGEST", _H.hexdigest())
