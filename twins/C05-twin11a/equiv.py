import sys, os; sys.path.insert(0, os.getcwd())
import hashlib
import random

import numpy as np

from gcmpy.joint_degree.joint_degree_factory import JointDegreeFactory
from gcmpy.joint_degree.joint_degree_distribution import JointDegreeDistribution
from gcmpy.joint_degree.joint_degree_type import JointDegreeType
from gcmpy.names.joint_degree_names import JointDegreeNames as N
from gcmpy.distributions.poisson import poisson
from gcmpy.distributions.power_law import power_law


def h(obj) -> str:
    return hashlib.sha256(repr(obj).encode()).hexdigest()[:16]


def rng() -> str:
    s = np.random.get_state()
    return "py=%s np=%s" % (h(random.getstate()), h((s[0], s[1].tolist(), s[2:])))


def exc_chain(e) -> str:
    out = [type(e).__name__ + ":" + str(e)]
    c = e.__context__
    while c is not None:
        out.append(type(c).__name__ + ":" + str(c))
        c = c.__context__
    return " <- ".join(out)


def attempt(label, fn):
    try:
        r = fn()
        print(label, "OK", r, "|", rng())
        return r
    except BaseException as e:  # noqa
        print(label, "EXC", exc_chain(e), "|", rng())
        return None


def good_params():
    return {
        JointDegreeType.MANUAL: {
            N.JDD: {(1, 0): 0.2, (2, 1): 0.5, (3, 2): 0.1, (5, 0): 0.2},
            N.MOTIF_SIZES: [2, 3],
        },
        JointDegreeType.EMPIRICAL: {
            N.JDS: [(1, 0), (2, 1), (2, 1), (0, 4), (7, 2)],
            N.MOTIF_SIZES: [2, 3],
        },
        JointDegreeType.JOINT_FUNCTION: {
            N.MOTIF_SIZES: [2, 3],
            N.FP: lambda jd: 1.0 / (1 + jd[0] + 2 * jd[1]),
            N.LOW_HIGH_DEGREE_BOUND: [(0, 4), (0, 3)],
        },
        JointDegreeType.MARGINAL: {
            N.MOTIF_SIZES: [2, 3],
            N.ARR_FP: [poisson(2.5), poisson(1.0)],
            N.LOW_HIGH_DEGREE_BOUND: [(0, 6), (0, 4)],
        },
        JointDegreeType.SPLIT_DEGREE: {
            N.MOTIF_SIZES: [2, 3],
            N.PROBS: [0.8, 0.2],
            N.FP: power_law(2.5),
            N.LOW_HIGH_DEGREE_BOUND: (1, 12),
        },
        JointDegreeType.DELTA: {
            N.MOTIF_SIZES: [2, 3],
            N.PROBS: [0.8, 0.2],
            N.FP: power_law(2.5),
            N.LOW_HIGH_DEGREE_BOUND: (1, 12),
            N.TARGET_K: 3,
        },
        JointDegreeType.COVER: {
            N.COVER: [[0, 1], [1, 2, 3], [3, 4], [4, 5, 6, 7], [0, 7]],
        },
        JointDegreeType.UNDEFINED: {},
    }


def describe(obj):
    return (
        type(obj).__name__,
        h(sorted(obj.jdd.items())) if obj.jdd is not None else None,
        list(obj.jdd.items())[:3] if obj.jdd is not None else None,
        obj.motif_sizes,
        sorted(vars(obj).keys()),
    )


class Log:
    """records every comparison made against it, in order"""

    def __init__(self, equal_to=None, always=None):
        self.seen = []
        self.equal_to = equal_to
        self.always = always

    def __eq__(self, other):
        self.seen.append(getattr(other, "name", repr(other)))
        if self.always is not None:
            return self.always
        return other is self.equal_to

    __hash__ = None  # unhashable on purpose


class Truthy:
    """== returns an object whose truth value is computed (and counted)"""

    def __init__(self, true_at):
        self.calls = 0
        self.true_at = true_at

    def __eq__(self, other):
        outer = self

        class R:
            def __bool__(self_inner):
                outer.calls += 1
                return outer.calls == outer.true_at

        return R()

    def __hash__(self):
        return 1


class BoolRaises:
    def __init__(self, at):
        self.calls = 0
        self.at = at

    def __eq__(self, other):
        self.calls += 1
        if self.calls == self.at:
            raise RuntimeError("eq %d vs %s" % (self.calls, getattr(other, "name", other)))
        return False

    __hash__ = None


random.seed(20250516)
np.random.seed(77)
print("start", rng())

# 1. every enum member, good params, repeated
for rep in range(2):
    for t in JointDegreeType:
        p = good_params()[t]
        obj = attempt(
            "factory[%s,%d]" % (t.name, rep),
            lambda: describe(JointDegreeFactory.resolve_joint_degree(t, p)),
        )

# 2. every enum member, malformed params
bads = [
    ("empty", {}),
    ("none", None),
    ("list", []),
    ("int", 3),
    ("strkeys", {"jdd": {(1,): 1.0}, "motif_sizes": [2], "cover": [[0, 1]]}),
    ("partial", {N.MOTIF_SIZES: [2]}),
    ("partial2", {N.MOTIF_SIZES: [2], N.FP: poisson(1.0), N.PROBS: [1.0]}),
    ("badcover", {N.COVER: 5}),
    ("emptycover", {N.COVER: []}),
]
for t in JointDegreeType:
    for name, p in bads:
        attempt(
            "factory-bad[%s,%s]" % (t.name, name),
            lambda: describe(JointDegreeFactory.resolve_joint_degree(t, p)),
        )

# 3. non-enum / odd `type` arguments
odd = [
    ("str", "manual"),
    ("strname", "MANUAL"),
    ("none", None),
    ("int", 0),
    ("list", []),
    ("dict", {}),
    ("set", {1}),
    ("nan", float("nan")),
    ("enumcls", JointDegreeType),
    ("othername", N.COVER),
    ("value", JointDegreeType.COVER.value),
]
for name, t in odd:
    for k in (JointDegreeType.MANUAL, JointDegreeType.COVER):
        attempt(
            "factory-odd[%s,%s]" % (name, k.name),
            lambda: describe(JointDegreeFactory.resolve_joint_degree(t, good_params()[k])),
        )

# 4. comparison order / short-circuit, observed through __eq__
for m in JointDegreeType:
    lg = Log(equal_to=m)
    attempt(
        "factory-log[%s]" % m.name,
        lambda: describe(JointDegreeFactory.resolve_joint_degree(lg, good_params()[m])),
    )
    print("   seen", lg.seen)
for always in (True, False):
    lg = Log(always=always)
    attempt(
        "factory-log-always[%s]" % always,
        lambda: describe(
            JointDegreeFactory.resolve_joint_degree(lg, good_params()[JointDegreeType.MANUAL])
        ),
    )
    print("   seen", lg.seen)
for at in range(1, 10):
    tr = Truthy(at)
    ps = good_params()
    attempt(
        "factory-truthy[%d]" % at,
        lambda: type(
            JointDegreeFactory.resolve_joint_degree(tr, ps[list(JointDegreeType)[min(at, 8) - 1]])
        ).__name__,
    )
    print("   calls", tr.calls)
    br = BoolRaises(at)
    attempt(
        "factory-eqraises[%d]" % at,
        lambda: describe(JointDegreeFactory.resolve_joint_degree(br, {})),
    )
    print("   calls", br.calls)

# 5. through the public entry point, then sample (consumes the random stream)
for t in JointDegreeType:
    for spelled in (t, t.value, t.name):
        p = dict(good_params()[t])
        p[N.JOINT_DEGREE_TYPE] = spelled
        try:
            obj = JointDegreeDistribution.load_joint_degree(p)
            print("load[%s,%r]" % (t.name, spelled), "OK", describe(obj), "|", rng())
        except BaseException as e:  # noqa
            print("load[%s,%r]" % (t.name, spelled), "EXC", exc_chain(e), "|", rng())
            continue
        for n in (0, 1, 7, 50, 1001):
            def draw():
                jds = obj.sample_jds_from_jdd(n)
                tot = list(map(sum, zip(*jds)))
                return (len(jds), tot, h(jds))
            attempt("  sample[%s,%d]" % (t.name, n), draw)
attempt("load-missing", lambda: JointDegreeDistribution.load_joint_degree({}))
attempt("load-none", lambda: JointDegreeDistribution.load_joint_degree(None))

print("end", rng())
