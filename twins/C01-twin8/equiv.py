import sys, os; sys.path.insert(0, os.getcwd())

"""
Equivalence digest for the C01 tidy-up commit.

Exercises, through the pre-existing public entry points only, every function the
commit touched:
  GCMAlgorithmFast.random_clustered_graph, GCMAlgorithmNetwork.random_clustered_graph,
  GCMAlgorithmCustomMotifs.random_clustered_graph / .partition,
  GCMAlgorithmFactory.resolve_algorithm (and GCMAlgorithmMain.load_gcm_algorithm),
  cycle_motif.
Prints a deterministic digest: results, exception types, RNG state afterwards,
(un)mutated inputs. Runs unchanged on the original and on the repaired code.
"""

import copy
import hashlib
import random

import numpy as np

from gcmpy.gcm_algorithm.gcm_algorithm_fast import GCMAlgorithmFast
from gcmpy.gcm_algorithm.gcm_algorithm_network import GCMAlgorithmNetwork
from gcmpy.gcm_algorithm.gcm_algorithm_custom_motifs import GCMAlgorithmCustomMotifs
from gcmpy.gcm_algorithm.gcm_algorithm_factory import GCMAlgorithmFactory
from gcmpy.gcm_algorithm.gcm_algorithm_main import GCMAlgorithmMain
from gcmpy.gcm_algorithm.gcm_algorithm_types import GCMAlgorithmTypes
from gcmpy.names.gcm_algorithm_names import GCMAlgorithmNames
from gcmpy.network.edge_list import LightWeightEdgeList
from gcmpy.network.network import Network
from gcmpy.motif_generators.clique_motif import clique_motif
from gcmpy.motif_generators.cycle_motif import cycle_motif

N = GCMAlgorithmNames
T = GCMAlgorithmTypes


def rng_state():
    py = hashlib.sha256(repr(random.getstate()).encode()).hexdigest()[:16]
    st = np.random.get_state()
    npy = hashlib.sha256(repr((st[0], st[1].tolist(), st[2:])).encode()).hexdigest()[:16]
    return f"py={py} np={npy}"


def seed(s):
    random.seed(s)
    np.random.seed(s)


def show(label, value):
    print(f"{label}: {value!r}")


def describe(result):
    """Deterministic description of whatever a generator returned."""
    if isinstance(result, LightWeightEdgeList):
        return (
            "EdgeList",
            result.edge_list,
            result.topologies,
            result.motif_id,
            result.joint_degrees,
            [type(e).__name__ for e in result.edge_list[:3]],
        )
    if isinstance(result, Network):
        g = result.G
        return (
            "Network",
            list(g.nodes(data=True)),
            list(g.edges(data=True)),
        )
    return (type(result).__name__, result)


def attempt(label, fn):
    """Run fn, print its result or the exception type, then the RNG state."""
    try:
        out = fn()
        show(label, describe(out))
    except BaseException as e:  # noqa: BLE001 - we want the type of anything
        show(label, ("RAISED", type(e).__name__))
    print(f"{label} rng: {rng_state()}")


class Recorder:
    """Wraps a build callback and records every stub list it is handed."""

    def __init__(self, build):
        self.build = build
        self.calls = []

    def __call__(self, vertices):
        self.calls.append((type(vertices).__name__, list(vertices)))
        return self.build(vertices)


def std_params(sizes, builds, names):
    return {
        N.MOTIF_SIZES: sizes,
        N.BUILD_FUNCTIONS: builds,
        N.EDGE_NAMES: names,
    }


# ----------------------------------------------------------------------------
# cycle_motif
# ----------------------------------------------------------------------------
def section_cycle_motif():
    print("== cycle_motif")
    inputs = [
        [],
        [5],
        [1, 2],
        [3, 1, 2],
        [4, 4, 4, 4],
        list(range(7)),
        (9, 8, 7, 6),
        "abcd",
        [0.5, 1.25, -2.0],
        [(1, 2), (3, 4), (5, 6)],
        range(3, 8),
        None,
        7,
        {1, 2, 3},
        {1: "a", 2: "b"},
        {0: "a", 1: "b", -1: "c"},
        np.array([3, 1, 4, 1, 5]),
    ]
    for i, inp in enumerate(inputs):
        before = copy.deepcopy(inp) if not isinstance(inp, np.ndarray) else inp.copy()
        attempt(f"cycle[{i}]", lambda inp=inp: cycle_motif(inp))
        same = (
            bool(np.array_equal(before, inp))
            if isinstance(inp, np.ndarray)
            else before == inp
        )
        show(f"cycle[{i}] input unchanged", same)
    # iterators / generators: original consumed them through tee, check what is left
    it = iter([1, 2, 3, 4])
    attempt("cycle[iter]", lambda: cycle_motif(it))
    show("cycle[iter] remaining", list(it))
    gen = (x for x in [1, 2, 3])
    attempt("cycle[gen]", lambda: cycle_motif(gen))
    show("cycle[gen] remaining", list(gen))
    # result type / element types
    r = cycle_motif([1, 2, 3, 4, 5])
    show("cycle types", (type(r).__name__, [type(e).__name__ for e in r]))


# ----------------------------------------------------------------------------
# fast / network generators
# ----------------------------------------------------------------------------
JDS_CASES = {
    # zeros before non-zeros in every column, an all-zero vertex
    "zeros": (
        [(0, 2, 0), (2, 1, 1), (3, 0, 1), (1, 2, 1), (2, 0, 0), (0, 0, 0), (0, 1, 1)],
        [2, 3, 4],
    ),
    # no zero entries
    "dense": ([(1, 1), (2, 1), (1, 2), (2, 2)], [2, 3]),
    # handshake violated -> ragged tail batch
    "ragged": ([(1, 2), (0, 1), (2, 1), (0, 1)], [2, 3]),
    # empty joint degree sequence
    "empty": ([], [2, 3]),
    # all-zero sequence
    "allzero": ([(0, 0), (0, 0), (0, 0)], [2, 3]),
    # a single topology
    "single": ([(3,), (0,), (1,), (0,), (2,)], [2]),
    # lists rather than tuples, leading zeros only
    "lists": ([[0, 0], [0, 3], [2, 0], [2, 3]], [2, 3]),
    # negative degrees are silently ignored by repeat()
    "negative": ([(-1, 2), (2, -3), (2, 1)], [2, 3]),
    # bools and numpy ints as degrees
    "bools": ([(True, False), (False, True), (True, True), (0, 1)], [2, 3]),
    "npints": (
        [tuple(r) for r in np.array([[0, 3], [2, 0], [0, 0], [2, 3]])],
        [2, 3],
    ),
    # numpy array as the jds itself
    "nparray": (np.array([[0, 3], [2, 0], [0, 0], [2, 3]]), [2, 3]),
    # ragged rows: zip truncates
    "shortrow": ([(1, 3, 9), (1,), (2, 3)], [2, 3, 4]),
    # more topologies than motif sizes -> IndexError part-way
    "toomany": ([(0, 3, 1), (2, 0, 1)], [2, 3]),
    # motif sizes that are invalid
    "size0": ([(0, 3), (2, 0)], [0, 3]),
    "sizeneg": ([(0, 3), (2, 0)], [2, -3]),
    "sizefloat": ([(0, 3), (2, 0)], [2.0, 3]),
    "size1": ([(0, 3), (2, 0)], [1, 1]),
    "sizenp": ([(0, 3), (2, 0), (2, 3)], [np.int64(2), np.int64(3)]),
    # degrees that are invalid
    "degfloat": ([(0, 3), (2.0, 0)], [2, 3]),
    "degzerofloat": ([(0.0, 3), (2, 0)], [2, 3]),
    "degnone": ([(0, 3), (None, 0)], [2, 3]),
    "degstr": ([(0, "3"), (2, 0)], [2, 3]),
    # jds that is not a sequence of sequences
    "notiter": ([1, 2, 3], [2, 3]),
    "none": (None, [2, 3]),
    # a larger one
    "large": (
        [((i * 7) % 4, (i * 5) % 3 if i % 2 else 0, (i % 5 == 0) * 1) for i in range(60)],
        [2, 3, 4],
    ),
}


def section_fast_and_network():
    print("== fast / network")
    for name, (jds, sizes) in JDS_CASES.items():
        builds_all = [clique_motif, clique_motif, cycle_motif]
        names_all = ["2-clique", "3-clique", "4-cycle"]
        for kind, cls in (("fast", GCMAlgorithmFast), ("network", GCMAlgorithmNetwork)):
            for via_main in (False, True):
                recs = [Recorder(b) for b in builds_all[: len(sizes)]]
                params = std_params(list(sizes), recs, names_all[: len(sizes)])
                tag = f"{kind}{'/main' if via_main else ''}[{name}]"
                seed(hash_name(name))
                if isinstance(jds, np.ndarray):
                    before = jds.copy()
                else:
                    before = copy.deepcopy(jds)

                def run():
                    if via_main:
                        params[N.GCM_TYPE] = T.FAST if kind == "fast" else T.NETWORK
                        alg = GCMAlgorithmMain.load_gcm_algorithm(params)
                    else:
                        alg = cls(params)
                    show(f"{tag} class", type(alg).__name__)
                    out = alg.random_clustered_graph(jds)
                    if isinstance(out, LightWeightEdgeList):
                        show(f"{tag} jds is same object", out.joint_degrees is jds)
                    return out

                attempt(tag, run)
                show(f"{tag} callbacks", [r.calls for r in recs])
                if isinstance(jds, np.ndarray):
                    show(f"{tag} jds unchanged", bool(np.array_equal(before, jds)))
                else:
                    show(f"{tag} jds unchanged", before == jds)
                show(f"{tag} sizes after", params[N.MOTIF_SIZES])


def hash_name(name):
    return int(hashlib.sha256(name.encode()).hexdigest()[:8], 16)


def section_repeated_calls():
    print("== repeated calls on one object")
    jds, sizes = JDS_CASES["zeros"]
    seed(12345)
    recs = [Recorder(clique_motif), Recorder(clique_motif), Recorder(cycle_motif)]
    fast = GCMAlgorithmFast(std_params(sizes, recs, ["a", "b", "c"]))
    for i in range(4):
        attempt(f"fast repeat {i}", lambda: fast.random_clustered_graph(jds))
    show("fast repeat callbacks", [r.calls for r in recs])
    net = GCMAlgorithmNetwork(std_params(sizes, recs, ["a", "b", "c"]))
    for i in range(3):
        attempt(f"network repeat {i}", lambda: net.random_clustered_graph(jds))
    show(
        "network attrs untouched",
        (net._motif_sizes is sizes, net._build_functions is recs),
    )
    # interleave with other jds, then an error, then again
    attempt("fast other", lambda: fast.random_clustered_graph(JDS_CASES["dense"][0]))
    attempt("fast bad", lambda: fast.random_clustered_graph(JDS_CASES["degfloat"][0]))
    attempt("fast again", lambda: fast.random_clustered_graph(jds))
    # many seeds: per-vertex stub occupancy for each topology
    for s in range(10):
        seed(s)
        recs = [Recorder(clique_motif), Recorder(clique_motif), Recorder(cycle_motif)]
        g = GCMAlgorithmFast(std_params(sizes, recs, ["a", "b", "c"])).random_clustered_graph(jds)
        occupancy = [
            [sum(call[1].count(v) for call in r.calls) for v in range(len(jds))]
            for r in recs
        ]
        show(f"seed {s} occupancy", occupancy)
        show(f"seed {s} edges", g.edge_list)
        print(f"seed {s} rng: {rng_state()}")

    # build callbacks that misbehave
    def boom(vertices):
        raise KeyError("boom")

    seed(7)
    attempt(
        "fast callback raises",
        lambda: GCMAlgorithmFast(
            std_params([2, 3], [clique_motif, boom], ["a", "b"])
        ).random_clustered_graph(JDS_CASES["dense"][0]),
    )
    attempt(
        "fast callback returns generator",
        lambda: GCMAlgorithmFast(
            std_params([2, 3], [lambda v: iter([(v[0], v[-1])]), clique_motif], ["a", "b"])
        ).random_clustered_graph(JDS_CASES["dense"][0]),
    )
    attempt(
        "fast too few callbacks",
        lambda: GCMAlgorithmFast(
            std_params([2, 3], [clique_motif], ["a", "b"])
        ).random_clustered_graph(JDS_CASES["dense"][0]),
    )
    attempt(
        "fast too few names",
        lambda: GCMAlgorithmFast(
            std_params([2, 3], [clique_motif, clique_motif], ["a"])
        ).random_clustered_graph(JDS_CASES["dense"][0]),
    )


# ----------------------------------------------------------------------------
# custom motifs
# ----------------------------------------------------------------------------
def twoclique(vs):
    return (vs[0], vs[1])


def twoclique_list(vs):
    return [(vs[0], vs[1])]


def threeclique(vs):
    return (vs[0], vs[1]), (vs[0], vs[2]), (vs[1], vs[2])


def diamond(vs):
    return (
        (vs[0], vs[1]),
        (vs[1], vs[2]),
        (vs[2], vs[3]),
        (vs[3], vs[1]),
        (vs[0], vs[2]),
    )


def pentagon(vs):
    return (
        (vs[0], vs[1]),
        (vs[1], vs[2]),
        (vs[2], vs[3]),
        (vs[3], vs[4]),
        (vs[0], vs[4]),
        (vs[1], vs[3]),
    )


def pair_of_lists(vs):
    # two edges given as lists: must NOT be taken for an unpacked 2-clique
    return [[vs[0], vs[1]], [vs[1], vs[0]]]


TEST_JDS = [
    (2, 1, 0, 1, 1, 0, 0),
    (1, 1, 0, 1, 1, 0, 0),
    (3, 1, 1, 0, 0, 1, 0),
    (2, 0, 1, 0, 0, 1, 0),
    (0, 0, 0, 1, 0, 0, 1),
    (1, 0, 0, 1, 0, 0, 0),
    (1, 0, 1, 0, 0, 0, 0),
    (1, 0, 1, 0, 0, 0, 0),
    (1, 0, 0, 1, 0, 0, 0),
    (1, 0, 0, 1, 0, 0, 0),
    (1, 0, 1, 0, 0, 0, 0),
    (0, 0, 1, 0, 0, 0, 0),
]

CUSTOM_CASES = {
    "suite": dict(
        jds=TEST_JDS,
        sizes=[2, 3, 2, 2, 2, 2, 1],
        builds=[twoclique, threeclique, diamond, pentagon],
        names=[
            lambda: "2-clique",
            lambda: ("3-clique",) * 3,
            lambda: ("d-o", "d-o", "d-o", "d-o", "d-i"),
            lambda: ("p01", "p12", "p23", "p34", "p40", "p13"),
        ],
        indices=[[0], [1], [2, 3], [4, 5, 6]],
    ),
    "zeros": dict(
        jds=[
            (0, 1, 0, 1),
            (1, 0, 1, 0),
            (2, 1, 0, 0),
            (0, 0, 0, 0),
            (1, 1, 1, 1),
            (0, 0, 0, 2),
            (0, 0, 2, 0),
        ],
        sizes=[2, 3, 2, 2],
        builds=[twoclique_list, threeclique, diamond],
        names=[lambda: ["2-clique"], lambda: ["3-clique"] * 3, lambda: ["diamond"] * 5],
        indices=[[0], [1], [2, 3]],
    ),
    "pairlists": dict(
        jds=[(0, 1), (2, 0), (0, 1), (2, 1)],
        sizes=[2, 3],
        builds=[pair_of_lists, threeclique],
        names=[lambda: ["x", "y"], lambda: ["t"] * 3],
        indices=[[0], [1]],
    ),
    # handshake violated: ragged last partition is popped FIRST
    "ragged": dict(
        jds=[(0, 2), (3, 1), (0, 1), (2, 0)],
        sizes=[2, 3],
        builds=[lambda vs: [tuple(vs)], lambda vs: [tuple(vs), tuple(reversed(vs))]],
        names=[lambda: ["r2"], lambda: ["r3", "r3b"]],
        indices=[[0], [1]],
    ),
    # second orbit runs out of partitions -> IndexError from pop part-way
    "orbit_short": dict(
        jds=[(0, 0), (2, 1), (2, 0)],
        sizes=[2, 1],
        builds=[threeclique],
        names=[lambda: ["t"] * 3],
        indices=[[0, 1]],
    ),
    # second orbit has partitions left over
    "orbit_long": dict(
        jds=[(0, 2), (2, 1), (0, 1)],
        sizes=[2, 1],
        builds=[threeclique],
        names=[lambda: ["t"] * 3],
        indices=[[0, 1]],
    ),
    # same orbit used by two motif types (second finds nothing to pop)
    "orbit_reused": dict(
        jds=[(0, 2), (2, 1), (2, 1)],
        sizes=[2, 2],
        builds=[twoclique_list, twoclique_list],
        names=[lambda: ["a"], lambda: ["b"]],
        indices=[[0], [0]],
    ),
    "empty": dict(
        jds=[], sizes=[2], builds=[twoclique_list], names=[lambda: ["a"]], indices=[[0]]
    ),
    "allzero": dict(
        jds=[(0, 0), (0, 0)],
        sizes=[2, 3],
        builds=[twoclique_list, threeclique],
        names=[lambda: ["a"], lambda: ["t"] * 3],
        indices=[[0], [1]],
    ),
    "no_motifs": dict(
        jds=[(0, 1), (2, 0)], sizes=[2, 3], builds=[], names=[], indices=[]
    ),
    "empty_index": dict(
        jds=[(0, 1), (2, 0)],
        sizes=[2, 3],
        builds=[twoclique_list],
        names=[lambda: ["a"]],
        indices=[[]],
    ),
    "index_out_of_range": dict(
        jds=[(0, 1), (2, 0)],
        sizes=[2, 3],
        builds=[twoclique_list],
        names=[lambda: ["a"]],
        indices=[[5]],
    ),
    "size0": dict(
        jds=[(0, 1), (2, 0)],
        sizes=[0, 3],
        builds=[twoclique_list],
        names=[lambda: ["a"]],
        indices=[[0]],
    ),
    "sizeneg": dict(
        jds=[(0, 1), (2, 0), (3, 0)],
        sizes=[-2, 3],
        builds=[twoclique_list],
        names=[lambda: ["a"]],
        indices=[[0]],
    ),
    "sizefloat": dict(
        jds=[(0, 1), (2, 0)],
        sizes=[2.0, 3],
        builds=[twoclique_list],
        names=[lambda: ["a"]],
        indices=[[0]],
    ),
    "sizenp": dict(
        jds=[(0, 1), (2, 0), (3, 2), (1, 0)],
        sizes=[np.int64(2), np.int64(3)],
        builds=[twoclique_list, threeclique],
        names=[lambda: ["a"], lambda: ["t"] * 3],
        indices=[[0], [1]],
    ),
    "sizes_short": dict(
        jds=[(0, 1), (2, 0)],
        sizes=[2],
        builds=[twoclique_list],
        names=[lambda: ["a"]],
        indices=[[0]],
    ),
    "degfloat": dict(
        jds=[(0, 1), (2.0, 0)],
        sizes=[2, 3],
        builds=[twoclique_list],
        names=[lambda: ["a"]],
        indices=[[0]],
    ),
    "degzerofloat": dict(
        jds=[(0.0, 1), (2, 0)],
        sizes=[2, 3],
        builds=[twoclique_list],
        names=[lambda: ["a"]],
        indices=[[0]],
    ),
    "negative": dict(
        jds=[(-2, 1), (2, -1), (0, 2)],
        sizes=[2, 3],
        builds=[twoclique_list, threeclique],
        names=[lambda: ["a"], lambda: ["t"] * 3],
        indices=[[0], [1]],
    ),
    "none": dict(
        jds=None, sizes=[2], builds=[twoclique_list], names=[lambda: ["a"]], indices=[[0]]
    ),
    "names_not_callable": dict(
        jds=[(0,), (2,)], sizes=[2], builds=[twoclique_list], names=["a"], indices=[[0]]
    ),
    "build_returns_empty": dict(
        jds=[(0,), (2,), (2,)],
        sizes=[2],
        builds=[lambda vs: []],
        names=[lambda: []],
        indices=[[0]],
    ),
}


def custom_params(case, recs):
    return {
        N.MOTIF_SIZES: case["sizes"],
        N.BUILD_FUNCTIONS: recs,
        N.EDGE_NAMES: case["names"],
        N.MOTIF_INDICES: case["indices"],
    }


def section_custom():
    print("== custom motifs")
    for name, case in CUSTOM_CASES.items():
        for via_main in (False, True):
            tag = f"custom{'/main' if via_main else ''}[{name}]"
            recs = [Recorder(b) for b in case["builds"]]
            params = custom_params(case, recs)
            seed(hash_name("c" + name))
            before = copy.deepcopy(case["jds"])
            sizes_before = list(case["sizes"])
            indices_before = copy.deepcopy(case["indices"])

            def run():
                if via_main:
                    params[N.GCM_TYPE] = "motifs"
                    alg = GCMAlgorithmMain.load_gcm_algorithm(params)
                else:
                    alg = GCMAlgorithmCustomMotifs(params)
                show(f"{tag} class", type(alg).__name__)
                out = alg.random_clustered_graph(case["jds"])
                show(f"{tag} jds is same object", out.joint_degrees is case["jds"])
                return out

            attempt(tag, run)
            show(f"{tag} callbacks", [r.calls for r in recs])
            show(
                f"{tag} inputs unchanged",
                (
                    before == case["jds"],
                    [repr(x) for x in sizes_before] == [repr(x) for x in case["sizes"]],
                    indices_before == case["indices"],
                ),
            )

    print("== custom motifs: repeated calls, many seeds")
    case = CUSTOM_CASES["zeros"]
    recs = [Recorder(b) for b in case["builds"]]
    alg = GCMAlgorithmCustomMotifs(custom_params(case, recs))
    seed(99)
    for i in range(3):
        attempt(f"custom repeat {i}", lambda: alg.random_clustered_graph(case["jds"]))
    attempt("custom bad", lambda: alg.random_clustered_graph([(0, 1), (2.0, 0)]))
    attempt("custom again", lambda: alg.random_clustered_graph(case["jds"]))
    show("custom repeat callbacks", [r.calls for r in recs])
    orbits = [[(i, case["sizes"][i]) for i in idx] for idx in case["indices"]]
    for s in range(10):
        seed(s)
        recs = [Recorder(b) for b in case["builds"]]
        g = GCMAlgorithmCustomMotifs(custom_params(case, recs)).random_clustered_graph(
            case["jds"]
        )
        occ = {}
        for r, orb in zip(recs, orbits):
            for _, vs in r.calls:
                pos = 0
                for o, size in orb:
                    row = occ.setdefault(o, [0] * len(case["jds"]))
                    for v in vs[pos : pos + size]:
                        row[v] += 1
                    pos += size
        show(f"custom seed {s} occupancy", sorted(occ.items()))
        show(f"custom seed {s} edges", (g.edge_list, g.topologies, g.motif_id))
        print(f"custom seed {s} rng: {rng_state()}")

    print("== custom motifs: missing key / partition")
    attempt(
        "custom missing indices",
        lambda: GCMAlgorithmCustomMotifs(std_params([2], [twoclique_list], [lambda: ["a"]])),
    )
    attempt("custom missing everything", lambda: GCMAlgorithmCustomMotifs({}))
    alg = GCMAlgorithmCustomMotifs(custom_params(CUSTOM_CASES["zeros"], []))
    lst = list(range(7))
    for n in (1, 2, 3, 7, 8, 100, -1, -3, 0, 2.0, None, True, np.int64(3)):
        attempt(f"partition(range7, {n!r})", lambda n=n: alg.partition(lst, n))
    for seq in ([], [1], "abcdefg", (1, 2, 3, 4, 5), range(5), np.arange(5), None, 5):
        attempt(f"partition({seq!r}, 2)", lambda seq=seq: alg.partition(seq, 2))
    show("partition input unchanged", lst)
    r = alg.partition(lst, 3)
    show("partition fresh lists", (all(p is not lst for p in r), type(r).__name__))
    attempt("partition kw", lambda: alg.partition(lst=lst, n=4))
    attempt("partition too few args", lambda: alg.partition(lst))
    attempt("partition too many args", lambda: alg.partition(lst, 2, 3))


# ----------------------------------------------------------------------------
# factory
# ----------------------------------------------------------------------------
def section_factory():
    print("== factory / main")
    case = CUSTOM_CASES["zeros"]
    full = custom_params(case, list(case["builds"]))
    for t in (
        T.FAST,
        T.NETWORK,
        T.MOTIFS,
        "fast",
        "network",
        "motifs",
        None,
        0,
        N.GCM_TYPE,
        "FAST",
    ):
        attempt(
            f"resolve({t!r})",
            lambda t=t: type(GCMAlgorithmFactory.resolve_algorithm(t, dict(full))).__name__,
        )
        attempt(
            f"resolve({t!r}, {{}})",
            lambda t=t: type(GCMAlgorithmFactory.resolve_algorithm(t, {})).__name__,
        )

        def via_main(t=t):
            p = dict(full)
            p[N.GCM_TYPE] = t
            return type(GCMAlgorithmMain.load_gcm_algorithm(p)).__name__

        attempt(f"main({t!r})", via_main)
    attempt("main(no type)", lambda: GCMAlgorithmMain.load_gcm_algorithm(dict(full)))
    attempt("main(None)", lambda: GCMAlgorithmMain.load_gcm_algorithm(None))
    attempt(
        "resolve kw",
        lambda: type(
            GCMAlgorithmFactory.resolve_algorithm(type=T.FAST, params=dict(full))
        ).__name__,
    )

    # an object whose __eq__ is observable: order and number of comparisons
    class Loud:
        def __init__(self, equal_to):
            self.equal_to = equal_to
            self.seen = []

        def __eq__(self, other):
            self.seen.append(other)
            return other is self.equal_to

        def __hash__(self):
            return 1

    for target in (T.FAST, T.NETWORK, T.MOTIFS, None):
        loud = Loud(target)
        attempt(
            f"resolve(Loud={target!r})",
            lambda loud=loud: type(
                GCMAlgorithmFactory.resolve_algorithm(loud, dict(full))
            ).__name__,
        )
        show(f"resolve(Loud={target!r}) comparisons", loud.seen)

    # params object is handed to the algorithm unchanged, not copied
    p = dict(full)
    a = GCMAlgorithmFactory.resolve_algorithm(T.NETWORK, p)
    show(
        "factory shares lists",
        (a._motif_sizes is p[N.MOTIF_SIZES], a._build_functions is p[N.BUILD_FUNCTIONS]),
    )
    show("factory params keys", sorted(k.value for k in p))


def main():
    seed(0)
    section_cycle_motif()
    section_fast_and_network()
    section_repeated_calls()
    section_custom()
    section_factory()
    print(f"final rng: {rng_state()}")


if __name__ == "__main__":
    main()
