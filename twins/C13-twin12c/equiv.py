import sys, os; sys.path.insert(0, os.getcwd())
# Variant c: JointExcessJointDegreeMatrices.get_topology_index - the trailing raise moved into for/else.
import random, hashlib
import numpy as np
import networkx as nx

from gcmpy.tools.joint_excess_joint_degree_matrices import JointExcessJointDegreeMatrices
from gcmpy.tools.joint_excess_joint_degree import JointExcessJointDegree
from gcmpy.names.tools_names import ToolsNames
from gcmpy.names.network_names import NetworkNames
import gcmpy

random.seed(1303)
np.random.seed(1303)
OUT = []
JD = NetworkNames.JOINT_DEGREE
TOP = NetworkNames.TOPOLOGY


def emit(*xs):
    OUT.append(" ".join(repr(x) for x in xs))


def rng_state():
    h = hashlib.sha256()
    h.update(repr(random.getstate()).encode())
    st = np.random.get_state()
    h.update(repr((st[0], st[1].tolist(), st[2], st[3], st[4])).encode())
    return h.hexdigest()[:16]


def show(x):
    return x if isinstance(x, (list, tuple, str, type(None), int, float, dict)) else type(x).__name__


def state(M):
    return (show(M._topology_names), show(M._ejks), show(M._excess_degree_keys))


def srepr(x):
    try:
        return repr(x)
    except BaseException as e:  # noqa
        return "unreprable:" + type(e).__name__ + ":" + str([str.__str__(n) if isinstance(n, str) else type(n).__name__
                                                            for n in x[0]])


def ask(label, M, topology):
    s0 = srepr(state(M))
    try:
        r = M.get_topology_index(topology)
        emit(label, "ask", show(topology), "->", type(r).__name__, r)
    except BaseException as e:  # noqa
        tb = e.__traceback__
        depth = 0
        while tb is not None:
            depth += 1
            last = tb.tb_frame.f_code.co_name
            tb = tb.tb_next
        emit(label, "ask", show(topology), "EXC", type(e).__name__, str(e)[:160], "in", last, "depth", depth,
             "ctx", type(e.__context__).__name__, "cause", type(e.__cause__).__name__)
    emit(label, "state unchanged", srepr(state(M)) == s0)


class Weird:
    """__eq__ with a side effect and a non-bool answer"""
    log = []

    def __init__(self, tag, answer):
        self.tag, self.answer = tag, answer

    def __eq__(self, other):
        Weird.log.append((self.tag, show(other)))
        return self.answer

    __hash__ = object.__hash__

    def __repr__(self):
        return "Weird(%r)" % (self.tag,)


class Boom:
    def __eq__(self, other):
        raise RuntimeError("eq exploded")

    __hash__ = object.__hash__

    def __repr__(self):
        return "Boom()"


class BadRepr(str):
    def __repr__(self):
        raise KeyError("repr exploded")

    def __format__(self, spec):
        raise KeyError("format exploded")


def gen(xs):
    for x in xs:
        yield x


nan = float("nan")
name_sets = [
    ("empty", []),
    ("single", ["a"]),
    ("two", ["2-clique", "3-clique"]),
    ("three", ["b", "tri", "r"]),
    ("dups", ["a", "b", "a", "b"]),
    ("tuple", ("a", "b")),
    ("string", "abc"),
    ("empty string", ""),
    ("None", None),
    ("int", 5),
    ("dict", {"a": 1, "b": 2}),
    ("set1", {"a"}),
    ("mixed", ["a", 1, 1.0, True, None, (1, 2), nan]),
    ("nested", [["a"], ["b"]]),
    ("arrays", [np.array([1, 2]), np.array([3, 4])]),
    ("nparray", np.array(["a", "b"])),
    ("range", range(3)),
]
queries = ["a", "b", "c", "2-clique", "3-clique", "tri", "r", "", None, 0, 1, 2, 1.0, True, False, (1, 2),
           nan, float("nan"), ["a"], ["b"], "abc", np.array([1, 2]), np.str_("b")]

for lab, names in name_sets:
    # three ways to obtain a matrices object with these names
    M1 = JointExcessJointDegreeMatrices()
    M1.topology_names = names
    objs = [("setter", M1)]
    try:
        objs.append(("params", JointExcessJointDegreeMatrices({ToolsNames.EJKS: {}, ToolsNames.EDGE_NAMES: names})))
    except BaseException as e:  # noqa
        emit(lab, "params ctor EXC", type(e).__name__)
    for how, M in objs:
        for q in queries:
            ask("%s/%s" % (lab, how), M, q)
        # repeated calls on one object give the same answers
        for q in queries[:4]:
            ask("%s/%s/again" % (lab, how), M, q)
    emit(lab, "rng", rng_state())

# one-shot iterables as names: consumed by the first query
for lab, mk in [("generator", lambda: gen(["a", "b", "c"])), ("iterator", lambda: iter(["a", "b", "c"])),
                ("empty generator", lambda: gen([]))]:
    M = JointExcessJointDegreeMatrices()
    M.topology_names = mk()
    for q in ["b", "a", "c", "zzz"]:
        ask(lab, M, q)
    M.topology_names = mk()
    for q in ["zzz", "a"]:
        ask(lab + "/miss-first", M, q)

# equality with side effects / odd answers / exceptions
Weird.log.clear()
M = JointExcessJointDegreeMatrices()
M.topology_names = [Weird("n0", False), Weird("n1", 0), Weird("n2", ""), Weird("n3", [0]), Weird("n4", True)]
ask("weird names", M, "q")
emit("weird log", list(Weird.log)); Weird.log.clear()
M.topology_names = [Weird("n0", False), Weird("n1", None)]
ask("weird names all falsy", M, "q")
emit("weird log", list(Weird.log)); Weird.log.clear()
M.topology_names = ["a", "b"]
ask("weird query", M, Weird("q", False))
emit("weird log", list(Weird.log)); Weird.log.clear()
ask("weird query truthy", M, Weird("q", "yes"))
emit("weird log", list(Weird.log)); Weird.log.clear()
M.topology_names = ["a", Boom(), "c"]
ask("boom before", M, "a")
ask("boom at", M, "c")
M.topology_names = [BadRepr("x"), BadRepr("y")]
ask("badrepr hit", M, "y")
ask("badrepr miss", M, "z")
M.topology_names = ["ok", BadRepr("last")]
ask("badrepr last miss", M, "z")

# missing arguments / wrong arity
M = JointExcessJointDegreeMatrices()
M.topology_names = ["a"]
for lab, f in [("no arg", lambda: M.get_topology_index()), ("two args", lambda: M.get_topology_index("a", "b")),
               ("kw", lambda: M.get_topology_index(topology="a")), ("kw miss", lambda: M.get_topology_index(topology="q")),
               ("unbound", lambda: JointExcessJointDegreeMatrices.get_topology_index(M, "a")),
               ("unbound wrong self", lambda: JointExcessJointDegreeMatrices.get_topology_index(None, "a"))]:
    try:
        emit(lab, "ok", f())
    except BaseException as e:  # noqa
        emit(lab, "EXC", type(e).__name__, str(e)[:160])

# the matrices object as produced by the extractor, repeatedly
def annotated(edges, names, nodes=()):
    G = nx.Graph()
    G.add_nodes_from(nodes)
    for u, v, t in edges:
        G.add_edge(u, v)
        G.edges[u, v][TOP] = t
    for n in G.nodes():
        jd = [0] * len(names)
        for nb in G[n]:
            t = G.edges[n, nb][TOP]
            if t in names:
                jd[names.index(t)] += 1
        G.nodes[n][JD] = tuple(jd)
    return G


for trial in range(25):
    k = random.randint(0, 4)
    names = ["t%d" % j for j in range(k)]
    n = random.randint(0, 10)
    H = nx.gnp_random_graph(n, random.choice([0.0, 0.2, 0.6]), seed=random.randint(0, 10 ** 6))
    edges = [(u, v, random.choice(names)) for u, v in H.edges()] if names else []
    G = annotated(edges, names, nodes=range(n))
    try:
        C = JointExcessJointDegree({ToolsNames.NETWORK: G, ToolsNames.EDGE_NAMES: names})
        for rep in range(2):
            M = C.get_ejks()
            for q in names + ["t9", None]:
                ask("extract%d.%d" % (trial, rep), M, q)
            emit("extract%d.%d" % (trial, rep), "ejks", [(t, sorted((kk, vv.hex()) for kk, vv in d.items())) for t, d in M.ejks.items()],
                 "keys", [(t, sorted(v)) for t, v in M.excess_degree_keys.items()])
    except BaseException as e:  # noqa
        emit("extract%d" % trial, "EXC", type(e).__name__, str(e)[:120])
    emit("extract%d" % trial, "rng", rng_state())

# the rewiring tool is the in-library caller of get_topology_index
try:
    from gcmpy.tools.markov_chain_monte_carlo_rewiring import MarkovChainMonteCarloRewiring  # noqa
    emit("rewiring import ok")
except BaseException as e:  # noqa
    emit("rewiring import", type(e).__name__)

text = "\n".join(OUT)
print(text)
print("DIGEST", hashlib.sha256(text.encode()).hexdigest())
print("RNG", rng_state())
