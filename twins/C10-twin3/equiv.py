"""Equivalence digest for gcmpy.covers.mpcc.MPCC (run with cwd = a checkout)."""
import hashlib
import os
import random
import sys
import zlib

sys.path.insert(0, os.getcwd())

import networkx as nx
import numpy as np

from gcmpy.covers.mpcc import MPCC


def h(obj) -> str:
    return hashlib.sha256(repr(obj).encode()).hexdigest()[:20]


def rng_digest() -> str:
    st = np.random.get_state()
    return h(random.getstate()) + "/" + h((st[0], st[1].tolist(), st[2], st[3], repr(st[4])))


def graph_state(G):
    if G.is_multigraph():
        edges = [(u, v, k, sorted(d.items(), key=repr)) for u, v, k, d in G.edges(keys=True, data=True)]
    else:
        edges = [(u, v, list(d.items())) for u, v, d in G.edges(data=True)]
    adj = [(u, [(v, list(d.items()) if not G.is_multigraph() else repr(d)) for v, d in nb.items()])
           for u, nb in G.adj.items()]
    return (
        type(G).__name__,
        list(G.nodes(data=True)),
        edges,
        adj,
        sorted(G.graph.items(), key=repr),
    )


def run(name, G, *args, **kwargs):
    keys_before = sorted(G.__dict__)
    try:
        out = MPCC(G, *args, **kwargs)
        res = ("ok", out is G)
    except BaseException as exc:  # noqa: BLE001
        res = ("exc", type(exc).__name__, str(exc))
    keys_after = sorted(G.__dict__)
    state = graph_state(G)
    labels = None
    if not G.is_multigraph():
        labels = [(u, v, d.get("clique")) for u, v, d in G.edges(data=True)]
    print(name, args, kwargs, res)
    print("   dictkeys", keys_before, "->", keys_after)
    print("   labels", h(labels), "state", h(state), "rng", rng_digest())
    if labels is not None and len(labels) <= 40:
        print("   ", labels)


def seed(n):
    random.seed(n)
    np.random.seed(n)


def fresh_keys(G):
    # make sure no cached views exist before the call
    for k in ("edges", "nodes", "adj", "degree"):
        G.__dict__.pop(k, None)
    return G


def main():
    seed(12345)

    # --- edge cases ---
    run("empty", nx.Graph())
    run("empty-ms3", nx.Graph(), 3)
    run("empty-None", nx.Graph(), None)
    run("empty-str", nx.Graph(), "a")
    G = nx.Graph()
    G.add_nodes_from(range(5))
    run("isolated", fresh_keys(G))
    run("isolated-again", G)
    G = nx.Graph()
    G.add_nodes_from(range(3))
    run("isolated-None", fresh_keys(G), None)
    G = nx.Graph()
    G.add_nodes_from(range(3))
    run("isolated-str", fresh_keys(G), "a")
    G = nx.Graph()
    G.add_nodes_from(range(3))
    run("isolated-float", fresh_keys(G), 0.5)
    G = nx.Graph()
    G.add_nodes_from(range(3))
    run("isolated-neg", fresh_keys(G), -1)
    run("one-edge", fresh_keys(nx.path_graph(2)))
    run("one-edge-ms1", fresh_keys(nx.path_graph(2)), 1)
    run("one-edge-None", fresh_keys(nx.path_graph(2)), None)
    run("one-edge-str", fresh_keys(nx.path_graph(2)), "x")
    run("one-edge-float", fresh_keys(nx.path_graph(2)), 2.5)
    run("triangle", fresh_keys(nx.complete_graph(3)))
    run("triangle-ms2", fresh_keys(nx.complete_graph(3)), 2)
    run("triangle-kw", fresh_keys(nx.complete_graph(3)), max_size=3)
    run("path", fresh_keys(nx.path_graph(7)))
    run("star", fresh_keys(nx.star_graph(6)))
    run("cycle", fresh_keys(nx.cycle_graph(9)))

    # self loops
    G = nx.complete_graph(4)
    G.add_edge(0, 0)
    G.add_edge(2, 2, w=1.5)
    G.add_edge(7, 7)
    run("selfloops", fresh_keys(G))
    run("selfloops-ms2", G, 2)

    # complete graphs with all limits
    for n in (4, 5, 6, 7):
        for ms in (0, 1, 2, 3, 4, n, n + 1, -2):
            run(f"K{n}", fresh_keys(nx.complete_graph(n)), ms)

    # string / tuple / mixed nodes, pre-existing attributes
    G = nx.Graph()
    G.add_edges_from([("a", "b"), ("b", "c"), ("a", "c"), ("c", "d"), ("d", "e"), ("c", "e")], w=0.1 + 0.2)
    G.add_node("z", colour="red")
    G.graph["name"] = "strs"
    run("strings", fresh_keys(G))
    run("strings-ms2", G, 2)
    run("strings-again", G)
    G = nx.Graph()
    nodes = [(0, 1), (1, 2), "x", 3, 4.5, frozenset([1])]
    for i, u in enumerate(nodes):
        for v in nodes[i + 1:]:
            if (i + zlib.crc32(repr(v).encode()) % 3) % 3:
                G.add_edge(u, v, clique="old", k=i)
    run("mixed", fresh_keys(G))
    run("mixed-ms3", G, 3)

    # random graphs, repeated calls on the same object (history)
    for s, (n, p) in enumerate([(12, 0.5), (20, 0.4), (30, 0.3), (40, 0.25), (60, 0.15), (25, 0.7)]):
        G = nx.gnp_random_graph(n, p, seed=100 + s)
        run(f"gnp{n}", fresh_keys(G))
        run(f"gnp{n}-ms3", G, 3)
        run(f"gnp{n}-ms2", G, 2)
        run(f"gnp{n}-again", G)
        run(f"gnp{n}-ms4", G, 4)

    # graph from the library's own structure: caveman + relabel + shuffle of node order
    G = nx.connected_caveman_graph(5, 5)
    order = list(G.nodes)
    random.Random(3).shuffle(order)
    H = nx.Graph()
    H.add_nodes_from(order)
    H.add_edges_from(G.edges)
    run("caveman", fresh_keys(H))
    run("caveman-ms3", H, 3)
    G = nx.ring_of_cliques(4, 6)
    run("ring", fresh_keys(G))
    run("ring-ms5", G, 5)
    G = nx.barbell_graph(6, 3)
    run("barbell", fresh_keys(G), 4)
    G = nx.karate_club_graph()
    run("karate", fresh_keys(G))
    run("karate-ms3", G, 3)

    # unsupported / odd graph classes
    run("digraph", fresh_keys(nx.DiGraph([(0, 1), (1, 2), (2, 0)])))
    run("digraph-empty", fresh_keys(nx.DiGraph()))
    M = nx.MultiGraph([(0, 1), (0, 1), (1, 2), (2, 0)])
    M.add_node(9)
    run("multigraph", fresh_keys(M))
    run("multigraph-ms1", fresh_keys(M), 1)
    M = nx.MultiGraph()
    M.add_nodes_from(range(3))
    run("multigraph-isolated", fresh_keys(M))
    run("multidigraph", fresh_keys(nx.MultiDiGraph([(0, 1), (1, 0)])))

    class Sub(nx.Graph):
        pass

    S = Sub(nx.complete_graph(5).edges)
    S.add_edge(4, 5)
    run("subclass", fresh_keys(S))
    run("subclass-ms3", S, 3)

    # frozen graph (copy is unfrozen; labelling mutates the data dicts only)
    F = nx.freeze(nx.complete_graph(4))
    run("frozen", F)

    # larger run, different seeds, label digest only
    for sd in (1, 2, 3):
        seed(sd)
        G = nx.powerlaw_cluster_graph(300, 4, 0.6, seed=sd)
        run(f"plc{sd}", fresh_keys(G))
        run(f"plc{sd}-ms3", G, 3)

    print("final rng", rng_digest())


if __name__ == "__main__":
    main()
