import sys, os; sys.path.insert(0, os.getcwd())
# Variant c: JointDegreeSplitDegree.resolve_degree
#   probabilities = []; for jd in valid_tuples: probabilities.append(calc(jd))
#     ->  probabilities = [calc(jd) for jd in valid_tuples]
# Exercises the split-degree loader and its subclass JointDegreeDelta (both receive a C19 degree
# distribution as `fp`) through constructors, the factory, the loader entry point, direct and
# repeated resolve_degree calls, malformed parameters and overriding subclasses.
import hashlib
import random
from fractions import Fraction

import numpy as np

random.seed(77)
np.random.seed(78)

from gcmpy import (  # noqa: E402
    JointDegreeSplitDegree,
    JointDegreeDelta,
    JointDegreeDistribution,
    JointDegreeFactory,
    JointDegreeType,
    JointDegreeNames as N,
    exponential,
    poisson,
    power_law,
    scale_free_cut_off,
)

out = []


def emit(*a):
    out.append(" ".join(str(x) for x in a))


def show(j):
    d = getattr(j, "_jdd", "<unset>")
    if not isinstance(d, dict):
        return repr(d)
    return str([(k, repr(v), type(v).__name__) for k, v in d.items()])


def attempt(label, f, *a, **kw):
    try:
        r = f(*a, **kw)
        emit(label, "ok", type(r).__name__)
        return r
    except BaseException as e:  # noqa
        emit(label, "EXC", type(e).__name__)
        return None


calls = []


def counting(fp):
    def g(k):
        calls.append(k)
        return fp(k)

    return g


FPS = {
    "exp": lambda: exponential(0.4),
    "poi": lambda: poisson(3.0),
    "pl": lambda: power_law(2.5),
    "pl2": lambda: power_law(3.1),
    "sf": lambda: scale_free_cut_off(2.0, 9.0),
    "zero": lambda: (lambda k: 0.0),
    "int": lambda: (lambda k: k),
    "str": lambda: (lambda k: "p"),
    "none": lambda: (lambda k: None),
    "raise": lambda: (lambda k: 1 / 0),
}

CASES = [
    ("pl", [0.6, 0.4], [2, 3], (1, 12)),
    ("pl2", [0.5, 0.3, 0.2], [2, 3, 4], (1, 10)),
    ("sf", [0.5, 0.3, 0.2], [2, 3, 4], (1, 9)),
    ("poi", [0.9, 0.1], [2, 3], (0, 10)),
    ("exp", [0.25, 0.25, 0.25, 0.25], [2, 3, 4, 5], (0, 8)),
    ("pl", [1.0], [2], (1, 8)),
    ("pl", [1, 0], [2, 3], (1, 8)),  # integer probabilities, some weights exactly 0
    ("pl", [0.0, 0.0], [2, 3], (1, 6)),  # k odd -> all weights 0 -> 0.0/0.0
    ("pl", [0, 0], [2, 3], (1, 6)),
    ("pl", [0.0, 1.0], [2, 3], (1, 6)),
    ("pl", [Fraction(1, 3), Fraction(2, 3)], [2, 3], (1, 7)),
    ("pl", [np.float64(0.6), np.float32(0.4)], [2, 3], (1, 7)),
    ("pl", np.array([0.6, 0.4]), [2, 3], (1, 7)),
    ("pl", (0.6, 0.4), (2, 3), [1, 7]),
    ("pl", [-0.5, 1.5], [2, 3], (1, 7)),
    ("pl", [float("nan"), 0.5], [2, 3], (1, 5)),
    ("pl", [float("inf"), 0.5], [2, 3], (1, 5)),
    ("pl", [1e200, 1e200], [2, 3], (1, 9)),  # float overflow in pow -> OverflowError
    ("pl", [], [2, 3], (1, 5)),  # topology 0 -> ZeroDivisionError in the recursion
    ("pl", ["a", "b"], [2, 3], (1, 5)),
    ("pl", [None, 0.5], [2, 3], (1, 5)),
    ("pl", None, [2, 3], (1, 5)),
    ("pl", 0.5, [2, 3], (1, 5)),
    ("pl", [0.6, 0.4], [2, 3], (0, 5)),  # power law at 0
    ("poi", [0.6, 0.4], [2, 3], (-2, 3)),  # negative degree
    ("pl", [0.6, 0.4], [2, 3], (4, 4)),
    ("pl", [0.6, 0.4], [2, 3], (6, 2)),
    ("pl", [0.6, 0.4], [2, 3], (1,)),
    ("pl", [0.6, 0.4], [2, 3], (1, 5, 9)),
    ("pl", [0.6, 0.4], [2, 3], (1.0, 5.0)),
    ("pl", [0.6, 0.4], [2, 3], None),
    ("pl", [0.6, 0.4], [2, 3], {0: 1, 1: 6}),
    ("pl", [0.6, 0.4], None, (1, 5)),
    ("pl", [0.6, 0.4], [], (1, 5)),
    ("pl", [0.6, 0.4], 5, (1, 5)),
    ("zero", [0.6, 0.4], [2, 3], (1, 6)),
    ("int", [0.6, 0.4], [2, 3], (0, 6)),
    ("str", [0.6, 0.4], [2, 3], (1, 4)),
    ("none", [0.6, 0.4], [2, 3], (1, 4)),
    ("raise", [0.6, 0.4], [2, 3], (1, 4)),
]


def drive(label, make, prm):
    del calls[:]
    keys_before = list(prm)
    probs = prm.get(N.PROBS)
    probs_repr = repr(probs)
    j = attempt(label, make, prm)
    emit("  calls", list(calls))
    emit("  params untouched", list(prm) == keys_before, prm.get(N.PROBS) is probs, repr(prm.get(N.PROBS)) == probs_repr)
    if j is None:
        return None
    emit("  jdd", show(j))
    emit("  fields", sorted(k for k in vars(j)), j.motif_sizes, j._type, repr(j._probs), repr(j._low_high_degree_bound))
    first = j.jdd
    attempt("  again create_jdd", j.create_jdd)
    emit("  new dict object", j.jdd is not first, "same text", show(j) == str([(k, repr(v), type(v).__name__) for k, v in first.items()]))
    # direct calls of the touched method on the live object (accumulating into the same dict)
    for k, pk in ((0, 0.5), (1, 1.0), (5, 0.25), (6, 0), (7, -1.0), (3, float("nan")), (2, "x"), (-1, 1.0), (-4, 1.0),
                  (2.0, 1.0), ("3", 1.0), (None, 1.0), (4, None), (True, 0.125), (np.int64(4), np.float64(0.5)), (12, 1e-300)):
        size = len(j.jdd)
        r = attempt("  resolve_degree(%r, %r)" % (k, pk), j.resolve_degree, k, pk)
        emit("    returns", r, "grew", len(j.jdd) - size)
    emit("  jdd after direct calls", show(j))
    attempt("  normalise", j.normalise_jdd)
    emit("  jdd normalised", show(j))
    emit("  valid(6)", attempt("  valid", lambda: list(j.get_valid_joint_degrees(6, len(j._probs)))))
    emit("  calc", attempt("  calc", j.calc_prob_of_joint_degree, (1, 2, 3)[: len(j._probs)]))
    if j.jdd:
        emit("  sample", attempt("  sample", j.sample_jds_from_jdd, 10))
    return j


for idx, (fp, probs, ms, bound) in enumerate(CASES):
    for mode in ("split ctor", "split factory", "split loader", "delta ctor", "delta factory", "delta loader"):
        prm = {
            N.FP: counting(FPS[fp]()),
            N.PROBS: probs,
            N.MOTIF_SIZES: ms,
            N.LOW_HIGH_DEGREE_BOUND: bound,
        }
        if mode.startswith("delta"):
            prm[N.TARGET_K] = 3
        kind = JointDegreeType.DELTA if mode.startswith("delta") else JointDegreeType.SPLIT_DEGREE
        cls = JointDegreeDelta if mode.startswith("delta") else JointDegreeSplitDegree
        if mode.endswith("ctor"):
            make = cls
        elif mode.endswith("factory"):
            make = lambda p, kind=kind: JointDegreeFactory.resolve_joint_degree(kind, p)  # noqa: E731
        else:
            prm[N.JOINT_DEGREE_TYPE] = kind.value
            make = JointDegreeDistribution.load_joint_degree
        drive("case %d %s" % (idx, mode), make, prm)

# ---- delta targets ----------------------------------------------------------------------------
for tk in (1, 2, 5, 11, 12, 0, -1, 2.0, "2", None, True, np.int64(4)):
    prm = {N.FP: counting(power_law(2.5)), N.PROBS: [0.7, 0.3], N.MOTIF_SIZES: [2, 3], N.LOW_HIGH_DEGREE_BOUND: (1, 12), N.TARGET_K: tk}
    j = attempt("delta target %r" % (tk,), JointDegreeDelta, prm)
    if j is not None:
        emit("  jdd", show(j))

# ---- an object left half-way by an exception -----------------------------------------------------
prm = {N.FP: power_law(2.5), N.PROBS: [0.7, 0.3], N.MOTIF_SIZES: [2, 3], N.LOW_HIGH_DEGREE_BOUND: (1, 6)}
j = JointDegreeSplitDegree(prm)
j._probs = [0.7, "x"]
attempt("half-way: bad prob", j.create_jdd)
emit("  jdd", show(j))
j._probs = [0.0, 0.0]
attempt("half-way: zero total", j.create_jdd)
emit("  jdd", show(j))
j._probs = [0.7, 0.3]
j._fp = lambda k: 1 / (k - 4)
attempt("half-way: fp raises at 4", j.create_jdd)
emit("  jdd", show(j))

# ---- malformed parameter dicts ------------------------------------------------------------------
full = {N.FP: power_law(2.5), N.PROBS: [0.7, 0.3], N.MOTIF_SIZES: [2, 3], N.LOW_HIGH_DEGREE_BOUND: (1, 6), N.TARGET_K: 2}
for cls in (JointDegreeSplitDegree, JointDegreeDelta):
    for drop in full:
        prm = {k: v for k, v in full.items() if k is not drop}
        j = attempt("%s missing %s" % (cls.__name__, drop.name), cls, prm)
        if j is not None:
            emit("  jdd", show(j))
    for bad in (None, [], 3, "params", {"fp": 1}):
        attempt("%s params %r" % (cls.__name__, bad), cls, bad)
    attempt("%s no args" % cls.__name__, cls)


# ---- overriding subclasses (public extension points) ---------------------------------------------
trace = []


class Traced(JointDegreeSplitDegree):
    def calc_prob_of_joint_degree(self, jd):
        trace.append(tuple(jd))
        return super().calc_prob_of_joint_degree(jd)


class Mutating(JointDegreeSplitDegree):
    """calc mutates the row it is given: the stored key must show the mutation."""

    def calc_prob_of_joint_degree(self, jd):
        p = super().calc_prob_of_joint_degree(jd)
        jd.append(9)
        return p


class FailThird(JointDegreeSplitDegree):
    n = 0

    def calc_prob_of_joint_degree(self, jd):
        FailThird.n += 1
        if FailThird.n == 3:
            raise LookupError("third")
        return super().calc_prob_of_joint_degree(jd)


class Stop(JointDegreeSplitDegree):
    def calc_prob_of_joint_degree(self, jd):
        raise StopIteration  # must escape unchanged from a loop and from a list comprehension


class ListValid(JointDegreeSplitDegree):
    def get_valid_joint_degrees(self, remaining_degree, topology):
        return [[remaining_degree, 0], [0, remaining_degree], [remaining_degree, 0]]


for cls in (Traced, Mutating, FailThird, Stop, ListValid):
    prm = {N.FP: counting(power_law(2.5)), N.PROBS: [0.7, 0.3], N.MOTIF_SIZES: [2, 3], N.LOW_HIGH_DEGREE_BOUND: (1, 7)}
    del calls[:]
    j = attempt("subclass " + cls.__name__, cls, prm)
    emit("  fp calls", list(calls), "trace", hashlib.sha256(repr(trace).encode()).hexdigest()[:16], len(trace))
    if j is not None:
        emit("  jdd", show(j))
        attempt("  resolve 6", j.resolve_degree, 6, 0.5)
        emit("  jdd", show(j))

emit("py-rng", hashlib.sha256(repr(random.getstate()).encode()).hexdigest())
st = np.random.get_state()
emit("np-rng", hashlib.sha256(repr((st[0], st[1].tolist(), st[2], st[3], st[4])).encode()).hexdigest())

text = "\n".join(out)
print(text)
print("DIGEST", hashlib.sha256(text.encode()).hexdigest())
