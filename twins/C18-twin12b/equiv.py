import sys, os; sys.path.insert(0, os.getcwd())
import hashlib
import random

import numpy as np
import networkx as nx

import gcmpy
from gcmpy import bond_percolate as bp_top
from gcmpy.tools.bond_percolate import bond_percolate

assert bp_top is bond_percolate


def rng_digest():
    h = hashlib.sha256()
    h.update(repr(random.getstate()).encode())
    st = np.random.get_state()
    h.update(repr((st[0], st[1].tobytes(), st[2], st[3], st[4])).encode())
    return h.hexdigest()[:16]


def graph_digest(g):
    if not isinstance(g, nx.Graph):
        return repr(g)
    if g.is_multigraph():
        es = list(g.edges(keys=True, data=True))
    else:
        es = list(g.edges(data=True))
    return hashlib.sha256(repr((type(g).__name__, list(g.nodes(data=True)), es,
                                dict(g.graph), nx.is_frozen(g))).encode()).hexdigest()[:16]


def show(x):
    if isinstance(x, float):
        return "float:%s" % x.hex()
    return "%s:%r" % (type(x).__name__, x)


class LoudPhi:
    """phi-like object that records every comparison made against it."""

    def __init__(self, v):
        self.v = v
        self.calls = 0

    def __lt__(self, other):        # reflected for  other > self
        self.calls += 1
        return self.v < other


class BadPhi:
    """raises on the k-th comparison."""

    def __init__(self, k):
        self.k = k
        self.calls = 0

    def __lt__(self, other):
        self.calls += 1
        if self.calls >= self.k:
            raise ZeroDivisionError("boom")
        return False


def graphs():
    out = []
    out.append(("empty", nx.Graph()))
    out.append(("single", nx.empty_graph(1)))
    out.append(("isolated5", nx.empty_graph(5)))
    out.append(("one-edge", nx.path_graph(2)))
    out.append(("path7", nx.path_graph(7)))
    out.append(("star1", nx.star_graph(1)))
    out.append(("star12", nx.star_graph(12)))
    out.append(("star60", nx.star_graph(60)))
    out.append(("K6", nx.complete_graph(6)))
    out.append(("cycle9", nx.cycle_graph(9)))
    g = nx.Graph(); g.add_edges_from([(0, 0)]); out.append(("selfloop-only", g))
    g = nx.path_graph(4); g.add_edge(2, 2); g.add_edge(0, 0); out.append(("path+loops", g))
    g = nx.Graph(); g.add_edges_from([(0, 1), (1, 2), (3, 4), (5, 6), (6, 7), (7, 8), (8, 5)]); g.add_node(99)
    out.append(("multi-comp", g))
    g = nx.Graph(); g.add_edges_from([("a", "b"), ("b", (1, 2)), ((1, 2), frozenset([3]))])
    out.append(("odd-labels", g))
    g = nx.MultiGraph(); g.add_edges_from([(0, 1), (0, 1), (0, 1), (1, 2), (2, 2), (3, 4)])
    out.append(("multigraph", g))
    out.append(("multigraph-empty", nx.MultiGraph()))
    g = nx.DiGraph(); g.add_edges_from([(0, 1), (1, 2)]); out.append(("digraph", g))
    out.append(("digraph-empty", nx.DiGraph()))
    g = nx.DiGraph(); g.add_nodes_from(range(3)); out.append(("digraph-noedges", g))
    g = nx.MultiDiGraph(); g.add_edges_from([(0, 1), (0, 1)]); out.append(("multidigraph", g))
    g = nx.freeze(nx.path_graph(5)); out.append(("frozen-path5", g))
    g = nx.freeze(nx.empty_graph(3)); out.append(("frozen-isolated3", g))
    g = nx.path_graph(5); g.graph["name"] = "attr"; g.nodes[0]["w"] = 1; g[0][1]["w"] = 2.5
    out.append(("attrs", g))
    r = random.Random(77)
    out.append(("gnp40", nx.gnp_random_graph(40, 0.08, seed=5)))
    out.append(("gnp200", nx.gnp_random_graph(200, 0.012, seed=6)))
    out.append(("tree30", nx.random_labeled_tree(30, seed=3) if hasattr(nx, "random_labeled_tree")
                else nx.path_graph(30)))
    return out


PHIS = [0, 1, 0.0, 1.0, 0.5, 0.25, 0.999999, 1e-300, -1, -0.0, 2, 7.5, float("nan"), float("inf"),
        float("-inf"), True, False, np.float64(0.5), np.float32(0.3), np.int64(1), "a", None, [0.5],
        (0.5,), 1 + 0j, np.array(0.5), np.array([0.5]), np.array([0.2, 0.9])]


def call(label, g, phi):
    before = graph_digest(g)
    try:
        r = bond_percolate(g, phi)
        res = show(r)
    except BaseException as e:      # noqa
        res = "EXC %s" % type(e).__name__
    after = graph_digest(g)
    print("%-18s phi=%-24r -> %-32s untouched=%s rng=%s" % (label, phi, res, before == after, rng_digest()))


def main():
    random.seed(20240518)
    np.random.seed(987)
    print("start", rng_digest())

    # 1. every graph against every phi (boundary / malformed), RNG digest after each call
    for label, g in graphs():
        for phi in PHIS:
            call(label, g, phi)

    # 2. non-graph arguments
    for bad in [None, 5, "graph", [(0, 1)], {0: [1]}, nx.path_graph(3).edges()]:
        for phi in [0.5, "a"]:
            try:
                r = show(bond_percolate(bad, phi))
            except BaseException as e:      # noqa
                r = "EXC %s" % type(e).__name__
            print("nongraph %-12s phi=%r -> %s rng=%s" % (type(bad).__name__, phi, r, rng_digest()))

    # 3. missing / extra / keyword arguments
    for args, kw in [((), {}), ((nx.path_graph(3),), {}), ((nx.path_graph(3), 0.5, 1), {}),
                     ((), {"g": nx.path_graph(3), "phi": 0.5}), ((nx.path_graph(3),), {"phi": 1}),
                     ((nx.path_graph(3),), {"p": 1})]:
        try:
            r = show(bond_percolate(*args, **kw))
        except BaseException as e:      # noqa
            r = "EXC %s" % type(e).__name__
        print("signature %d %s -> %s rng=%s" % (len(args), sorted(kw), r, rng_digest()))

    # 4. phi objects that observe how often / in which order they are compared
    for label, g in graphs():
        for v in [0.0, 0.4, 1.0]:
            p = LoudPhi(v)
            try:
                r = show(bond_percolate(g, p))
            except BaseException as e:      # noqa
                r = "EXC %s" % type(e).__name__
            print("loud %-18s v=%r -> %s comparisons=%d rng=%s" % (label, v, r, p.calls, rng_digest()))
        for k in [1, 2, 5]:
            p = BadPhi(k)
            bef = graph_digest(g)
            try:
                r = show(bond_percolate(g, p))
            except BaseException as e:      # noqa
                r = "EXC %s" % type(e).__name__
            print("bad  %-18s k=%d -> %s comparisons=%d untouched=%s rng=%s"
                  % (label, k, r, p.calls, bef == graph_digest(g), rng_digest()))

    # 5. repeated calls on one object: long runs, full value streams
    for label, g in [("star12", nx.star_graph(12)), ("star60", nx.star_graph(60)), ("K6", nx.complete_graph(6)),
                     ("gnp200", nx.gnp_random_graph(200, 0.012, seed=6)), ("path7", nx.path_graph(7)),
                     ("one-edge", nx.path_graph(2)), ("isolated5", nx.empty_graph(5))]:
        bef = graph_digest(g)
        for phi in [0.0, 0.05, 0.3, 0.5, 0.8, 0.97, 1.0]:
            vals = [bond_percolate(g, phi) for _ in range(300)]
            n = g.order()
            assert all(isinstance(v, float) for v in vals)
            h = hashlib.sha256(",".join(v.hex() for v in vals).encode()).hexdigest()[:16]
            print("stream %-10s phi=%-5r n=%d min=%s max=%s sum=%s hash=%s untouched=%s rng=%s"
                  % (label, phi, n, min(vals).hex(), max(vals).hex(), sum(vals).hex(), h,
                     bef == graph_digest(g), rng_digest()))

    # 6. interleaving with the caller's own use of the global streams
    g = nx.star_graph(20)
    acc = []
    for i in range(200):
        acc.append(random.random())
        acc.append(bond_percolate(g, 0.5 if i % 3 else 1.0))
        acc.append(float(np.random.random()))
    print("interleave", hashlib.sha256(",".join(v.hex() for v in acc).encode()).hexdigest()[:16], rng_digest())

    # 7. the returned object at the value 1.0 / 1/N : type and exact bits
    for n in [1, 2, 3, 7, 49, 1000]:
        g = nx.path_graph(n)
        one = bond_percolate(g, 1)
        zero = bond_percolate(g, 0)
        print("exact n=%d phi=1 -> %s %s ; phi=0 -> %s %s" % (n, type(one).__name__, one.hex(),
                                                           type(zero).__name__, zero.hex()))
    print("end", rng_digest())


main()
