import sys, os; sys.path.insert(0, os.getcwd())
# Exercises gcmpy.tools.draw_set.DrawSet through its public methods under many
# add / remove / draw histories and prints a deterministic digest.
import hashlib
import random

import numpy as np

random.seed(20200)
np.random.seed(20200)

import gcmpy
from gcmpy.tools.draw_set import DrawSet
from gcmpy.tools import DrawSet as DrawSet2
from gcmpy import DrawSet as DrawSet3

H = hashlib.sha256()
LINES = []


def out(*xs):
    s = " ".join(repr(x) for x in xs)
    H.update(s.encode() + b"\n")
    LINES.append(s)


def attempt(label, f):
    try:
        r = f()
        out(label, "ok", type(r).__name__, r)
        return r
    except BaseException as ex:  # noqa
        out(label, "raise", type(ex).__name__, str(ex))
        return None


def snapshot(label, s):
    out(label, "len", len(s), "bool", bool(s))
    it = iter(s)
    out(label, "itertype", type(it).__name__)
    out(label, "iter", list(it))
    out(label, "iter2", [x for x in s])
    out(label, "private", sorted(vars(s).keys()), list(vars(s).keys()))
    out(label, "_edges", s._edges, "_edge_hashmap", list(s._edge_hashmap.items()))


out("identity", DrawSet is DrawSet2, DrawSet is DrawSet3, DrawSet.__mro__ == (DrawSet, object))
out("class", DrawSet.__name__, DrawSet.__module__, DrawSet.__bases__, DrawSet.__qualname__)
out("classdict", sorted(k for k in vars(DrawSet) if k not in ("__doc__",)))
out("doc", DrawSet.__doc__)

# --- constructor edge cases
attempt("ctor-arg", lambda: DrawSet(1))
attempt("ctor-kw", lambda: DrawSet(edges=[]))
s = DrawSet()
snapshot("fresh", s)
attempt("fresh-draw", s.draw)
attempt("fresh-remove", lambda: s.remove((0, 1)))
attempt("fresh-contains", lambda: (0, 1) in s)
attempt("fresh-contains-unhashable", lambda: [0, 1] in s)
attempt("fresh-contains-unhashable2", lambda: ([0], 1) in s)
attempt("fresh-add-unhashable", lambda: s.add([0, 1]))
attempt("fresh-remove-unhashable", lambda: s.remove([0, 1]))
attempt("fresh-direct-contains", lambda: s.__contains__((0, 1)))
attempt("fresh-direct-contains-unhashable", lambda: s.__contains__({}))
attempt("fresh-direct-len", lambda: s.__len__())
snapshot("fresh-after", s)
# two instances do not share state
t = DrawSet()
t.add((1, 2))
snapshot("s-unshared", s)
snapshot("t-unshared", t)
# re-running __init__ on a used object resets it
t.__init__()
snapshot("t-reinit", t)
t.add((5, 6)); t.add((5, 6)); t.add((6, 7))
snapshot("t-reuse", t)


# --- odd elements
class Weird:
    def __init__(self, h, tag):
        self.h, self.tag = h, tag

    def __hash__(self):
        return self.h

    def __eq__(self, other):
        return isinstance(other, Weird) and self.tag == other.tag

    def __repr__(self):
        return "Weird(%r,%r)" % (self.h, self.tag)


class BadHash:
    def __hash__(self):
        raise RuntimeError("no hash")

    def __repr__(self):
        return "BadHash()"


class BadEq:
    def __init__(self, n):
        self.n = n

    def __hash__(self):
        return 7

    def __eq__(self, other):
        raise ValueError("no eq %d" % self.n)

    def __repr__(self):
        return "BadEq(%d)" % self.n


nan = float("nan")
odd = DrawSet()
for i, e in enumerate([1, 1.0, True, (1, 2), (1.0, 2.0), "ab", b"ab", None, nan, nan, float("nan"),
                       frozenset([1]), Weird(1, "a"), Weird(1, "b"), Weird(2, "a"), (), 0, -0.0, False]):
    attempt("odd-add-%d" % i, lambda e=e: odd.add(e))
    attempt("odd-in-%d" % i, lambda e=e: e in odd)
snapshot("odd", odd)
for i, e in enumerate([1.0, nan, float("nan"), Weird(5, "a"), Weird(1, "b"), False, "zz", (2, 1)]):
    attempt("odd-in2-%d" % i, lambda e=e: e in odd)
    attempt("odd-remove-%d" % i, lambda e=e: odd.remove(e))
    snapshot("odd-after-remove-%d" % i, odd)
attempt("bad-hash-in", lambda: BadHash() in odd)
attempt("bad-hash-add", lambda: odd.add(BadHash()))
attempt("bad-hash-remove", lambda: odd.remove(BadHash()))
snapshot("odd-after-badhash", odd)
be = DrawSet()
attempt("badeq-add-1", lambda: be.add(BadEq(1)))
attempt("badeq-add-2", lambda: be.add(BadEq(2)))
attempt("badeq-in", lambda: BadEq(3) in be)
attempt("badeq-remove", lambda: be.remove(BadEq(4)))
snapshot("badeq", be)
out("odd-draws", [odd.draw() for _ in range(40)])

# --- random histories against a model set
for trial in range(300):
    rng = random.Random(trial)
    universe = rng.choice([3, 5, 12, 40])
    s = DrawSet()
    model = set()
    log = []
    for step in range(rng.choice([0, 1, 5, 30, 120])):
        op = rng.random()
        e = tuple(sorted((rng.randrange(universe), rng.randrange(universe))))
        if op < 0.45:
            r = s.add(e)
            model.add(e)
            log.append(("a", e, r))
        elif op < 0.75:
            try:
                r = s.remove(e)
                model.discard(e)
                log.append(("r", e, r))
            except KeyError as ex:
                log.append(("r", e, "KeyError", str(ex), e in model))
        elif op < 0.9:
            try:
                d = s.draw()
                log.append(("d", d, d in model))
            except IndexError as ex:
                log.append(("d", "IndexError", str(ex)))
        else:
            log.append(("q", e, e in s, e in model, len(s), len(model), list(s)))
    out("trial", trial, log)
    out("trial-end", trial, len(s), list(s), sorted(model) == sorted(s), s._edge_hashmap)
    if len(s):
        seen = set()
        for _ in range(40 * len(s)):
            seen.add(s.draw())
        out("trial-cover", trial, seen == model)
    # mutation while iterating (iterator over the live list)
    it = iter(s)
    first = next(it, None)
    s.add(("late", trial))
    out("trial-live-iter", trial, first, list(it))

out("random-state", hashlib.sha256(repr(random.getstate()).encode()).hexdigest())
out("numpy-state", hashlib.sha256(repr(np.random.get_state()).encode()).hexdigest())
out("random-next", random.random(), float(np.random.random()))

print("lines", len(LINES))
for ln in LINES:
    if not ln.startswith("'trial'"):
        print(ln if len(ln) < 400 else ln[:400] + "...")
print("digest", H.hexdigest())
