"""
Equivalence digest for property C16 (run with cwd = a checkout of gcmpy).

Exercises clique_equation, chordless_cycle_equation, number_of_connected_graphs,
QQ, binomial and Q on ordinary inputs, edge cases, error paths and repeated calls,
and prints bit-exact results, exceptions, cache statistics, mutated inputs, the
order of all arithmetic performed on traced operands and the RNG states.
"""
import sys
import os

sys.path.insert(0, os.getcwd())

import hashlib
import itertools
import logging
import random
from fractions import Fraction

import numpy as np
import networkx as nx

random.seed(20261003)
np.random.seed(20261003)

LINES = []


def out(*parts):
    line = " ".join(str(p) for p in parts)
    LINES.append(line)
    print(line)


class CountingHandler(logging.Handler):
    """Formats every record (so lazy log arguments get evaluated) and counts."""

    def __init__(self, level):
        super().__init__(level)
        self.n = 0

    def emit(self, record):
        record.getMessage()
        self.n += 1


warn_handler = CountingHandler(logging.WARNING)
logging.getLogger().addHandler(warn_handler)
logging.getLogger().setLevel(logging.WARNING)

from gcmpy.message_passing.equations.clique_equation import clique_equation
from gcmpy.message_passing.equations.chordless_cycle_equation import (
    chordless_cycle_equation,
)
import gcmpy.message_passing.number_connected_graphs as ncg
from gcmpy.message_passing.number_connected_graphs import (
    number_of_connected_graphs,
    QQ,
    Q,
    binomial,
)
import gcmpy  # noqa: F401  (the package imports)

TRACE = []


class T:
    """Operand recording every arithmetic operation, in order, with operands."""

    def __init__(self, expr, val):
        self.expr = expr
        self.val = val

    def __repr__(self):
        return self.expr

    @staticmethod
    def _v(x):
        return x.val if isinstance(x, T) else x

    def _bin(self, op, a, b):
        TRACE.append((op, repr(a), repr(b)))
        va, vb = T._v(a), T._v(b)
        if op == "+":
            val = va + vb
        elif op == "-":
            val = va - vb
        elif op == "*":
            val = va * vb
        else:
            val = va ** vb
        return T(f"({a!r}{op}{b!r})", val)

    def __add__(self, o):
        return self._bin("+", self, o)

    def __radd__(self, o):
        return self._bin("+", o, self)

    def __sub__(self, o):
        return self._bin("-", self, o)

    def __rsub__(self, o):
        return self._bin("-", o, self)

    def __mul__(self, o):
        return self._bin("*", self, o)

    def __rmul__(self, o):
        return self._bin("*", o, self)

    def __pow__(self, o, mod=None):
        return self._bin("**", self, o)

    def __rpow__(self, o, mod=None):
        return self._bin("**", o, self)


def h(s):
    return hashlib.sha256(s.encode()).hexdigest()[:16]


def show(x):
    if isinstance(x, T):
        return f"T[{h(x.expr)} len={len(x.expr)} val={x.val!r}]"
    if isinstance(x, np.ndarray):
        return f"ndarray{x.shape}{x.dtype}:{x.tobytes().hex()}"
    return f"{type(x).__name__}:{x!r}"


def call(label, f, *args, **kw):
    n0 = len(TRACE)
    try:
        res = f(*args, **kw)
        out(label, "->", show(res))
    except BaseException as e:  # noqa
        out(label, "!!", type(e).__module__ + "." + type(e).__name__, repr(str(e)))
    if len(TRACE) > n0:
        out("   trace", len(TRACE) - n0, h(repr(TRACE[n0:])))


def caches(tag):
    out("cache", tag, "Q", ncg.Q.cache_info(), "QQ", ncg.QQ.cache_info(),
        "binomial", ncg.binomial.cache_info())


def graph_state(G):
    return (type(G).__name__, list(G.nodes(data=True)), list(G.edges(data=True)))


def exercise(phase):
    out("=== phase", phase)
    caches("start")

    # ---- binomial -------------------------------------------------------
    for n in range(-2, 9):
        for k in range(-2, 10):
            call(f"binomial({n},{k})", binomial, n, k)
    call("binomial(5.0,2)", binomial, 5.0, 2)
    call("binomial(5,2.0)", binomial, 5, 2.0)
    call("binomial('a',2)", binomial, "a", 2)
    call("binomial(np5,np2)", binomial, np.int64(5), np.int64(2))
    call("binomial(True,False)", binomial, True, False)
    call("binomial(60,30)", binomial, 60, 30)
    caches("binomial")

    # ---- Q --------------------------------------------------------------
    for n in range(-3, 10):
        for k in range(-4, n * (n - 1) // 2 + 3 if n > 0 else 5):
            call(f"Q({n},{k})", Q, n, k)
    caches("Q small")
    for n, k in [(12, 30), (15, 40), (20, 19), (20, 100), (20, 190), (20, 191),
                 (25, 24), (25, 150), (30, 200)]:
        call(f"Q({n},{k})", Q, n, k)
    for args in [(3.0, 2), (3, 2.0), (3, 2.5), (4.0, 4), (4, 4.0), (4, float("nan")),
                 (float("nan"), 3), ("a", 1), (3, "a"), (None, 1), (True, 0),
                 (np.int64(5), np.int64(7)), (np.int32(6), 9), (Fraction(4), 4),
                 (4, Fraction(4)), (5, 10 ** 30), (10 ** 6, 0), ([1], 2)]:
        call(f"Q{args!r}", Q, *args)
    call("Q(n=4,k=4)", Q, n=4, k=4)
    call("Q(4,k=4)", Q, 4, k=4)
    call("Q()", Q)
    call("Q(1,2,3)", Q, 1, 2, 3)
    caches("Q all")
    # repeated
    for n in range(1, 8):
        row = [Q(n, k) for k in range(0, n * (n - 1) // 2 + 1)]
        out("Qrow", n, row, "sum", sum(row))
    caches("Q rows")

    # ---- number_of_connected_graphs --------------------------------------
    def nocg(label, G, ak, i, k):
        before = graph_state(G) if hasattr(G, "nodes") else None
        ak_before = list(ak) if isinstance(ak, (list, tuple, set)) else ak
        call(label, number_of_connected_graphs, G, ak, i, k)
        if before is not None:
            after = graph_state(G)
            out("   G unchanged", before == after, h(repr(after)))
        out("   ak", repr(ak_before), "->", repr(ak))

    tri = nx.complete_graph(3)
    for k in range(-1, 5):
        nocg(f"nocg(tri,[1,2],0,{k})", tri, [1, 2], 0, k)
    k5 = nx.complete_graph(5)
    for k in range(0, 11):
        nocg(f"nocg(K5,[1,2,3,4],0,{k})", k5, [1, 2, 3, 4], 0, k)
    for ak in ([1], [1, 2], [2, 4], [], [0], [1, 1, 2], [7], (1, 3), {1, 2, 3}):
        for k in range(0, 4):
            nocg(f"nocg(K5,{ak!r},0,{k})", k5, ak, 0, k)
    for i in (0, 3, 9, None, "x"):
        nocg(f"nocg(K5,[1,2],{i!r},1)", k5, [1, 2], i, 1)
    cyc = nx.cycle_graph(6)
    for k in range(0, 4):
        nocg(f"nocg(C6,all,0,{k})", cyc, [1, 2, 3, 4, 5], 0, k)
        nocg(f"nocg(C6,[1,2,5],0,{k})", cyc, [1, 2, 5], 0, k)
        nocg(f"nocg(C6,[2,4],0,{k})", cyc, [2, 4], 0, k)
    pet = nx.petersen_graph()
    nx.set_node_attributes(pet, {n: n * 0.5 for n in pet}, "u")
    nx.set_edge_attributes(pet, 1.5, "w")
    for k in range(0, 4):
        nocg(f"nocg(petersen,[1,4,5,6,9],0,{k})", pet, [1, 4, 5, 6, 9], 0, k)
    rg = nx.gnm_random_graph(9, 16, seed=5)
    for k in range(0, 4):
        nocg(f"nocg(gnm,[1..6],0,{k})", rg, [1, 2, 3, 4, 5, 6], 0, k)
    strg = nx.Graph()
    strg.add_edges_from([("a", "b"), ("b", "c"), ("c", "a"), ("c", "d"), ("d", "a")])
    for k in range(0, 4):
        nocg(f"nocg(str,[b,c,d],a,{k})", strg, ["b", "c", "d"], "a", k)
    loop = nx.Graph()
    loop.add_edges_from([(0, 1), (1, 2), (2, 0), (1, 1), (0, 0)])
    for k in range(0, 4):
        nocg(f"nocg(loops,[1,2],0,{k})", loop, [1, 2], 0, k)
    mg = nx.MultiGraph()
    mg.add_edges_from([(0, 1), (0, 1), (1, 2), (2, 0), (2, 0), (2, 3)])
    for k in range(0, 5):
        nocg(f"nocg(multi,[1,2],0,{k})", mg, [1, 2], 0, k)
    dg = nx.DiGraph()
    dg.add_edges_from([(0, 1), (1, 2), (2, 0)])
    for k in range(0, 2):
        nocg(f"nocg(di,[1,2],0,{k})", dg, [1, 2], 0, k)
    empty = nx.Graph()
    nocg("nocg(empty,[],0,0)", empty, [], 0, 0)
    nocg("nocg(empty,[],0,1)", empty, [], 0, 1)
    single = nx.Graph()
    single.add_node(0)
    nocg("nocg(single,[],0,0)", single, [], 0, 0)
    nocg("nocg(single,[],0,1)", single, [], 0, 1)
    nocg("nocg(tri,None,0,1)", tri, None, 0, 1)
    nocg("nocg(tri,[1,2],0,'a')", tri, [1, 2], 0, "a")
    nocg("nocg(tri,[1,2],0,1.0)", tri, [1, 2], 0, 1.0)
    nocg("nocg(tri,[1,2],0,None)", tri, [1, 2], 0, None)
    nocg("nocg(None,...)", None, [1, 2], 0, 1)
    nocg("nocg(tri,[1,2],0,np1)", tri, [1, 2], 0, np.int64(1))
    frozen = nx.freeze(nx.complete_graph(4))
    nocg("nocg(frozenK4,[1,2],0,1)", frozen, [1, 2], 0, 1)
    nocg("nocg(frozenK4,[1,2,3],0,1)", frozen, [1, 2, 3], 0, 1)
    # repeated on the same object
    for _ in range(3):
        nocg("nocg(K5,[1,2,3],0,2) again", k5, [1, 2, 3], 0, 2)

    # ---- QQ ---------------------------------------------------------------
    caches("before QQ")
    for n in range(-1, 7):
        for k in range(-2, n * (n - 1) // 2 + 3 if n > 0 else 3):
            call(f"QQ({n},{k})", QQ, n, k)
    caches("QQ")
    for n in range(1, 7):
        for k in range(0, n * (n - 1) // 2 + 1):
            if QQ(n, k) != Q(n, k):  # not an assert: must also run under -O
                raise RuntimeError((n, k))
    out("QQ==Q for n<=6")
    for args in [(3.0, 2), (3, 2.0), ("a", 1), (3, "a"), (None, 1), (True, 0),
                 (np.int64(4), np.int64(4)), (4, 2.5), ([0, 1, 2], 1),
                 (Fraction(3), 2), (3, Fraction(2))]:
        call(f"QQ{args!r}", QQ, *args)
    caches("QQ all")

    # ---- clique_equation -----------------------------------------------------
    phi, u = 0.5645231765, 0.651284213
    for tau in range(-1, 9):
        call(f"clique({tau},phi,[u]*)", clique_equation, tau, phi, [u] * max(0, tau - 1))
    rnd = random.Random(7)
    for tau in range(2, 8):
        Hs = [rnd.random() for _ in range(tau - 1)]
        keep = list(Hs)
        for p in (0.0, 1.0, 0.1, 0.5, 0.9, rnd.random(), -0.3, 1.7, 1e-300, 1 - 1e-16):
            call(f"clique({tau},{p!r},Hs)", clique_equation, tau, p, Hs)
        out("   Hs unchanged", Hs == keep, [repr(x) for x in Hs])
        call(f"clique({tau},phi,tuple)", clique_equation, tau, phi, tuple(Hs))
        d = {i: x for i, x in enumerate(Hs)}
        call(f"clique({tau},phi,dict.values())", clique_equation, tau, phi, d.values())
        call(f"clique({tau},phi,dict)", clique_equation, tau, phi, d)
        call(f"clique({tau},phi,set)", clique_equation, tau, phi, set(Hs))
        call(f"clique({tau},phi,gen)", clique_equation, tau, phi, (x for x in Hs))
        call(f"clique({tau},phi,iter)", clique_equation, tau, phi, iter(Hs))
        call(f"clique({tau},phi,short)", clique_equation, tau, phi, Hs[:-1])
        call(f"clique({tau},phi,long)", clique_equation, tau, phi, Hs + [0.25, 0.75])
        call(f"clique({tau},phi,nparr)", clique_equation, tau, phi, np.array(Hs))
        call(f"clique({tau},npphi,Hs)", clique_equation, tau, np.float64(phi), Hs)
        call(f"clique({tau},f32,Hs)", clique_equation, tau, np.float32(phi), Hs)
        call(f"clique(np{tau},phi,Hs)", clique_equation, np.int64(tau), phi, Hs)
        call(f"clique({tau},arrphi,Hs)", clique_equation, tau, np.array([0.1, 0.5, 0.9]), Hs)
        call(f"clique({tau},phi,arrHs)", clique_equation, tau, phi,
             [np.array([x, 1 - x]) for x in Hs])
        call(f"clique({tau},Frac,Fracs)", clique_equation, tau, Fraction(3, 7),
             [Fraction(i + 1, i + 3) for i in range(tau - 1)])
        call(f"clique({tau},cplx,Hs)", clique_equation, tau, 0.3 + 0.2j, Hs)
        call(f"clique({tau},int0,ints)", clique_equation, tau, 0, [1] * (tau - 1))
        call(f"clique({tau},int1,ints)", clique_equation, tau, 1, [2] * (tau - 1))
        call(f"clique({tau},T,Ts)", clique_equation, tau, T("p", Fraction(2, 5)),
             [T(f"h{i}", Fraction(i + 1, i + 4)) for i in range(tau - 1)])
        call(f"clique({tau},T,floats)", clique_equation, tau, T("p", 0.37), Hs)
        call(f"clique({tau},phi,Ts)", clique_equation, tau, phi,
             [T(f"h{i}", 0.1 * (i + 1)) for i in range(tau - 1)])
    for args in [("3", phi, [u, u]), (3.0, phi, [u, u]), (None, phi, [u, u]),
                 (3, "p", [u, u]), (3, None, [u, u]), (3, phi, None), (3, phi, 5),
                 (3, phi, ["a", "b"]), (3, phi, [None, u]), (3, phi, "ab"),
                 (1, "p", None), (0, "p", None), (1, phi, None), (2, "p", [u]),
                 (2, phi, ["a"]), (True, phi, []), (3, [0.5], [u, u]),
                 (3, phi, [[1], [2]])]:
        call(f"clique{args!r}", clique_equation, *args)
    call("clique(tau=3,phi=phi,Hs=[u,u])", clique_equation, tau=3, phi=phi, Hs=[u, u])
    call("clique()", clique_equation)
    call("clique(1,2,3,4)", clique_equation, 1, 2, 3, 4)
    caches("clique")
    for _ in range(3):
        call("clique(6,phi,[u]*5) again", clique_equation, 6, phi, [u] * 5)
    call("clique(10,phi,...)", clique_equation, 10, phi, [0.05 * i for i in range(1, 10)])
    caches("clique end")

    # ---- chordless_cycle_equation ---------------------------------------------
    for n in range(-2, 12):
        call(f"cycle({n},u,phi)", chordless_cycle_equation, n, u, phi)
    for n in (2, 3, 4, 5, 8, 13, 40):
        for uu, pp in [(0.0, 0.0), (1.0, 1.0), (0.0, 1.0), (1.0, 0.0), (0.3, 0.7),
                       (rnd.random(), rnd.random()), (-0.4, 1.3), (1e-200, 1e-200),
                       (2, 3), (0, 0), (1, 1)]:
            call(f"cycle({n},{uu!r},{pp!r})", chordless_cycle_equation, n, uu, pp)
        call(f"cycle({n},Frac,Frac)", chordless_cycle_equation, n, Fraction(2, 3),
             Fraction(4, 7))
        call(f"cycle({n},np,np)", chordless_cycle_equation, n, np.float64(u),
             np.float64(phi))
        call(f"cycle({n},f32,f32)", chordless_cycle_equation, n, np.float32(u),
             np.float32(phi))
        call(f"cycle(np{n},u,phi)", chordless_cycle_equation, np.int64(n), u, phi)
        call(f"cycle({n},arr,phi)", chordless_cycle_equation, n,
             np.array([0.2, 0.4, 0.6]), phi)
        arr_phi = np.array([0.2, 0.4, 0.6])
        arr_u = np.array([0.9, 0.5, 0.1])
        call(f"cycle({n},arr,arr)", chordless_cycle_equation, n, arr_u, arr_phi)
        out("   arrays unchanged", arr_phi.tobytes().hex(), arr_u.tobytes().hex())
        call(f"cycle({n},cplx,phi)", chordless_cycle_equation, n, 0.1 + 0.4j, phi)
        call(f"cycle({n},T,T)", chordless_cycle_equation, n, T("u", Fraction(3, 5)),
             T("p", Fraction(2, 7)))
        call(f"cycle({n},u,T)", chordless_cycle_equation, n, u, T("p", 0.41))
        call(f"cycle({n},T,phi)", chordless_cycle_equation, n, T("u", 0.77), phi)
    for args in [("3", u, phi), (3.0, u, phi), (None, u, phi), (3, "u", phi),
                 (3, u, "p"), (3, 2, "p"), (4, 2, "p"), (2, 2, "p"), (1, 2, "p"),
                 (3, "u", 2), (4, "u", 2), (2, "u", 2), (3, None, phi),
                 (3, u, None), (2, None, phi), (2, u, None), (1, None, None),
                 ("3", "u", "p"), (3, [1], phi), (3, u, [1]), (True, u, phi),
                 (3, "u", "p"), (0, 0.0, 0.5), (0, 0, 0), (1, 0, 0), (0, 0.5, 0.0),
                 (-3, 0.0, 0.3)]:
        call(f"cycle{args!r}", chordless_cycle_equation, *args)
    call("cycle(n=5,u=u,phi=phi)", chordless_cycle_equation, n=5, u=u, phi=phi)
    call("cycle()", chordless_cycle_equation)
    call("cycle(1,2,3,4)", chordless_cycle_equation, 1, 2, 3, 4)
    for _ in range(3):
        call("cycle(7,u,phi) again", chordless_cycle_equation, 7, u, phi)

    caches("end")
    out("warnings emitted", warn_handler.n)
    out("rng", h(repr(random.getstate())), h(repr(np.random.get_state())))
    out("rng next", repr(random.random()), repr(float(np.random.random())))


exercise("warning-level")

# Second pass with DEBUG enabled and every record formatted: results must not
# depend on whether the (new) log lines are evaluated.  Nothing about the
# records themselves is printed.
debug_handler = CountingHandler(logging.DEBUG)
logging.getLogger().addHandler(debug_handler)
logging.getLogger().setLevel(logging.DEBUG)
ncg.Q.cache_clear()
ncg.QQ.cache_clear()
ncg.binomial.cache_clear()
exercise("debug-level")

print("DIGEST", hashlib.sha256("\n".join(LINES).encode()).hexdigest())
