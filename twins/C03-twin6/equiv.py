"""
Equivalence digest for the C03 commit ("optional seed, shared stub-list helpers").

Run with cwd = a checkout of gcmpy. Exercises the functions the commit touched
(GCMAlgorithmFast.random_clustered_graph, GCMAlgorithmCustomMotifs.random_clustered_graph,
and GCMAlgorithmNetwork.random_clustered_graph which delegates to the former) through their
PRE-EXISTING signature `random_clustered_graph(jds)` only, and prints a deterministic digest:
outputs, exception types, the state of the module level / numpy RNGs afterwards and the
(possibly mutated) inputs.
"""
import copy
import hashlib
import os
import random
import sys

sys.path.insert(0, os.getcwd())

import numpy as np  # noqa: E402

from gcmpy.gcm_algorithm.gcm_algorithm_fast import GCMAlgorithmFast  # noqa: E402
from gcmpy.gcm_algorithm.gcm_algorithm_custom_motifs import (  # noqa: E402
    GCMAlgorithmCustomMotifs,
)
from gcmpy.gcm_algorithm.gcm_algorithm_network import GCMAlgorithmNetwork  # noqa: E402
from gcmpy.names.gcm_algorithm_names import GCMAlgorithmNames  # noqa: E402
from gcmpy.motif_generators.clique_motif import clique_motif  # noqa: E402


def h(obj) -> str:
    return hashlib.sha256(repr(obj).encode()).hexdigest()[:16]


def rng_digest() -> str:
    st = random.getstate()
    nst = np.random.get_state()
    return "py=" + h(st) + " np=" + h((nst[0], nst[1].tolist(), nst[2], nst[3], repr(nst[4])))


def show_edge_list(tag, g):
    print(tag, "type", type(g).__name__)
    print(tag, "n_edges", len(g.edge_list), "edges", h(g.edge_list))
    print(tag, "first", repr(g.edge_list[:6]))
    print(tag, "topologies", h(g.topologies), repr(g.topologies[:4]))
    print(tag, "motif_id", h(g.motif_id), repr(g.motif_id[:6]))
    if not hasattr(g.joint_degrees, "__next__"):
        print(tag, "joint_degrees", h(g.joint_degrees))


def show_network(tag, net):
    print(tag, "type", type(net).__name__)
    G = getattr(net, "G", None)
    if G is None:
        G = getattr(net, "_G", None)
    if G is not None:
        print(tag, "nodes", h(list(G.nodes())), "edges", h(list(G.edges(data=True))))
        print(tag, "n_nodes", G.number_of_nodes(), "n_edges", G.number_of_edges())
    else:
        print(tag, "attrs", sorted(vars(net)))


def run(tag, make, jds, shower=show_edge_list, repeats=2):
    """Call make().random_clustered_graph(jds) `repeats` times on ONE object."""
    is_gen = hasattr(jds, "__next__")
    jds_before = None if is_gen else copy.deepcopy(jds)
    try:
        alg = make()
    except BaseException as e:  # noqa: BLE001
        print(tag, "ctor raised", type(e).__name__)
        print(tag, "rng", rng_digest())
        return
    for r in range(repeats):
        t = f"{tag}#{r}"
        try:
            g = alg.random_clustered_graph(jds)
        except BaseException as e:  # noqa: BLE001
            print(t, "raised", type(e).__name__)
        else:
            shower(t, g)
            if shower is show_edge_list:
                print(t, "jds identity kept", g.joint_degrees is jds)
                if is_gen:
                    print(t, "joint_degrees is generator", hasattr(g.joint_degrees, "__next__"))
        print(t, "rng", rng_digest())
    if is_gen:
        print(tag, "input generator, left over", repr(list(jds)))
    else:
        print(tag, "input unchanged", bool(np.all(jds == jds_before)), h(jds))


def fast_params(sizes, names):
    return {
        GCMAlgorithmNames.MOTIF_SIZES: sizes,
        GCMAlgorithmNames.EDGE_NAMES: names,
        GCMAlgorithmNames.BUILD_FUNCTIONS: [clique_motif] * len(sizes),
    }


def make_jds(n, caps, mult):
    """Joint degree sequence whose column sums are multiples of `mult`."""
    jds = [tuple(random.randint(0, c) for c in caps) for _ in range(n)]
    sums = [sum(col) for col in zip(*jds)]
    fix = [(-s) % m for s, m in zip(sums, mult)]
    jds.append(tuple(fix))
    return jds


random.seed(20261004)
np.random.seed(20261004)
print("start rng", rng_digest())

# ---------------------------------------------------------------- GCMAlgorithmFast
for name, cls, shower in (
    ("fast", GCMAlgorithmFast, show_edge_list),
    ("network", GCMAlgorithmNetwork, show_network),
):
    p1 = fast_params([2], ["2-clique"])
    p2 = fast_params([2, 2], ["A", "B"])
    p23 = fast_params([2, 3], ["2-clique", "3-clique"])
    p234 = fast_params([2, 3, 4], ["2-clique", "3-clique", "4-clique"])

    run(f"{name}/single4", lambda: cls(p1), [(1,)] * 4, shower)
    run(f"{name}/twoAB", lambda: cls(p2), [(1, 1)] * 4, shower, repeats=4)
    run(f"{name}/equal-len", lambda: cls(p2), [(2, 2)] * 30, shower, repeats=3)
    run(f"{name}/2-3", lambda: cls(p23), make_jds(200, (5, 3), (2, 3)), shower, repeats=3)
    run(f"{name}/2-3-4", lambda: cls(p234), make_jds(500, (4, 3, 2), (2, 3, 4)), shower)
    # lists instead of tuples, zero degrees, one vertex
    run(f"{name}/lists", lambda: cls(p23), [[2, 3], [0, 0], [2, 0], [0, 3]], shower)
    run(f"{name}/zeros", lambda: cls(p23), [(0, 0)] * 5, shower)
    run(f"{name}/one-vertex", lambda: cls(p1), [(2,)], shower)
    # edge cases and error paths
    run(f"{name}/empty", lambda: cls(p1), [], shower)
    run(f"{name}/odd-stubs", lambda: cls(p1), [(1,)] * 3, shower)
    run(f"{name}/more-slots-than-topologies", lambda: cls(p1), [(1, 1)] * 4, shower)
    run(f"{name}/fewer-slots-than-topologies", lambda: cls(p23), [(1,)] * 4, shower)
    run(f"{name}/ragged", lambda: cls(p23), [(1, 1), (1,), (1, 2), (1, 1)], shower)
    run(f"{name}/non-iterable-rows", lambda: cls(p1), [1, 2, 3], shower)
    run(f"{name}/none", lambda: cls(p1), None, shower)
    run(f"{name}/float-degree", lambda: cls(p1), [(1.0,)] * 4, shower)
    run(f"{name}/negative-degree", lambda: cls(p1), [(-1,), (2,), (2,)], shower)
    run(f"{name}/str-degree", lambda: cls(p1), [("1",)] * 4, shower)
    run(f"{name}/numpy-jds", lambda: cls(p23), np.array([[2, 3], [2, 0], [0, 3], [2, 3]]), shower)
    run(f"{name}/generator-jds", lambda: cls(p1), ((1,) for _ in range(4)), shower)
    run(f"{name}/bad-params", lambda: cls({}), [(1,)] * 4, shower)

# ---------------------------------------------------------------- GCMAlgorithmCustomMotifs
head_tail = {
    GCMAlgorithmNames.MOTIF_SIZES: [1, 1],
    GCMAlgorithmNames.EDGE_NAMES: [lambda: ("head-tail",)],
    GCMAlgorithmNames.BUILD_FUNCTIONS: [lambda vs: ((vs[0], vs[1]),)],
    GCMAlgorithmNames.MOTIF_INDICES: [[0, 1]],
}


def diamond(vs):
    a, b, c, d = vs
    return [(a, b), (a, c), (a, d), (b, c), (b, d)]


# ordinary edges (slot 0), triangles (slot 1), diamonds (slots 2 and 3: two orbits of 2 vertices)
mixed = {
    GCMAlgorithmNames.MOTIF_SIZES: [2, 3, 2, 2],
    GCMAlgorithmNames.EDGE_NAMES: [
        lambda: "2-clique",
        lambda: ["3-clique"] * 3,
        lambda: ["diamond"] * 5,
    ],
    GCMAlgorithmNames.BUILD_FUNCTIONS: [
        lambda vs: (vs[0], vs[1]),
        lambda vs: [(vs[0], vs[1]), (vs[0], vs[2]), (vs[1], vs[2])],
        diamond,
    ],
    GCMAlgorithmNames.MOTIF_INDICES: [[0], [1], [2, 3]],
}

C = GCMAlgorithmCustomMotifs
run("custom/head-tail", lambda: C(head_tail), [(1, 1)] * 3, repeats=4)
run("custom/head-tail-big", lambda: C(head_tail), [(2, 2)] * 50, repeats=3)
jm = [(random.randint(0, 3), random.randint(0, 2), 1, 1) for _ in range(119)]
s0 = sum(r[0] for r in jm)
s1 = sum(r[1] for r in jm)
jm.append(((-s0) % 2, (-s1) % 3, 1, 1))
run("custom/mixed", lambda: C(mixed), jm, repeats=3)
run("custom/mixed-zeros", lambda: C(mixed), [(0, 0, 0, 0)] * 4)
run("custom/mixed-lists", lambda: C(mixed), [[1, 0, 1, 1], [1, 0, 1, 1]])
run("custom/empty", lambda: C(head_tail), [])
run("custom/unequal-orbits", lambda: C(head_tail), [(1, 0), (1, 1), (1, 1)])
run("custom/unequal-orbits-2", lambda: C(head_tail), [(0, 1), (1, 1), (1, 1)])
run("custom/too-few-slots", lambda: C(head_tail), [(1,)] * 3)
run("custom/too-many-slots", lambda: C(head_tail), [(1, 1, 1)] * 3)
run("custom/ragged", lambda: C(head_tail), [(1, 1), (1,), (1, 1)])
run("custom/non-iterable-rows", lambda: C(head_tail), [1, 2, 3])
run("custom/none", lambda: C(head_tail), None)
run("custom/float-degree", lambda: C(head_tail), [(1.0, 1.0)] * 3)
run("custom/negative-degree", lambda: C(head_tail), [(-1, 1), (1, 1), (1, 1)])
run("custom/numpy-jds", lambda: C(head_tail), np.array([[1, 1], [2, 2], [0, 0]]))
run("custom/bad-params", lambda: C({}), [(1, 1)] * 3)
run("custom/no-motif-indices", lambda: C(fast_params([2], ["x"])), [(1,)] * 4)

# interleaving: two objects sharing the module level stream
a = GCMAlgorithmFast(fast_params([2, 2], ["A", "B"]))
b = GCMAlgorithmCustomMotifs(head_tail)
for i in range(3):
    show_edge_list(f"interleave/a{i}", a.random_clustered_graph([(1, 1)] * 6))
    show_edge_list(f"interleave/b{i}", b.random_clustered_graph([(1, 1)] * 5))
    print(f"interleave/{i} rng", rng_digest())

# re-seeding the module level generator replays unseeded runs
for i in range(2):
    random.seed(7)
    show_edge_list(f"reseed/{i}", a.random_clustered_graph([(3, 2)] * 10))
    print(f"reseed/{i} rng", rng_digest())

print("end rng", rng_digest())
