import sys, os; sys.path.insert(0, os.getcwd())
import random
import hashlib
import itertools

import numpy as np
import networkx as nx

from gcmpy.covers.mpcc import MPCC
import gcmpy.covers
import gcmpy

assert gcmpy.covers.MPCC is MPCC and gcmpy.MPCC is MPCC

LOG = []


class Loud:
    """A size limit whose every comparison is recorded."""

    def __init__(self, v, broken=None):
        self.v = v
        self.broken = broken

    def _op(self, name, other, res):
        LOG.append((name, repr(other)))
        if self.broken == name:
            raise ArithmeticError(name)
        return res

    def __lt__(self, o):
        return self._op("lt", o, self.v < o)

    def __gt__(self, o):
        return self._op("gt", o, self.v > o)

    def __le__(self, o):
        return self._op("le", o, self.v <= o)

    def __ge__(self, o):
        return self._op("ge", o, self.v >= o)

    def __eq__(self, o):
        return self._op("eq", o, self.v == o)

    def __ne__(self, o):
        return self._op("ne", o, self.v != o)

    def __bool__(self):
        LOG.append(("bool", ""))
        return bool(self.v)

    __hash__ = None

    def __repr__(self):
        return f"Loud({self.v!r})"


class Falsy:
    """Comparison results with their own truth value."""

    def __init__(self, t):
        self.t = t

    def __bool__(self):
        LOG.append(("truth", self.t))
        return self.t


class Odd:
    def __init__(self, first, second):
        self.first = first
        self.second = second

    def __lt__(self, o):
        LOG.append(("Odd.lt", repr(o)))
        return Falsy(self.first)

    def __gt__(self, o):
        LOG.append(("Odd.gt", repr(o)))
        return Falsy(self.second)

    def __repr__(self):
        return "Odd"


class LoggedGraph(nx.Graph):
    """Records the order of structural calls made on the working copy."""

    calls = []

    def remove_edges_from(self, ebunch):
        eb = list(ebunch)
        LoggedGraph.calls.append(("remove", repr(eb)))
        return super().remove_edges_from(eb)

    def has_edge(self, u, v):
        LoggedGraph.calls.append(("has", repr((u, v))))
        return super().has_edge(u, v)


class BrokenRemoval(nx.Graph):
    def remove_edges_from(self, ebunch):
        raise RuntimeError("no removal")


def rng_digest():
    h = hashlib.sha256()
    h.update(repr(random.getstate()).encode())
    st = np.random.get_state()
    h.update(repr((st[0], st[1].tolist(), st[2], st[3], repr(st[4]))).encode())
    return h.hexdigest()[:16]


def graph_digest(G):
    try:
        body = repr(
            (
                type(G).__name__,
                list(G.nodes(data=True)),
                list(G.edges(data=True)),
                [(u, list(nb.items())) for u, nb in G.adjacency()],
                dict(G.graph),
            )
        )
    except Exception as ex:  # pragma: no cover
        body = "undigestable " + type(ex).__name__
    return body


def show(tag, G, *args, **kw):
    LOG.clear()
    LoggedGraph.calls = []
    try:
        before = graph_digest(G) if isinstance(G, nx.Graph) else repr(G)
    except Exception as ex:
        before = type(ex).__name__
    try:
        R = MPCC(G, *args, **kw)
        out = "ret_is_arg=%s " % (R is G) + graph_digest(R)
    except BaseException as ex:
        out = "EXC %s | state after: %s" % (
            type(ex).__name__,
            graph_digest(G) if isinstance(G, nx.Graph) else repr(G),
        )
    text = repr((before, out, list(LOG), list(LoggedGraph.calls)))
    print(
        tag,
        hashlib.sha256(text.encode()).hexdigest()[:20],
        "len", len(text),
        "rng", rng_digest(),
    )
    if len(text) < 1500:
        print("   ", text)


def builders():
    yield "empty", nx.Graph()
    yield "one-node", nx.empty_graph(1)
    yield "five-isolated", nx.empty_graph(5)
    yield "single-edge", nx.path_graph(2)
    yield "path5", nx.path_graph(5)
    yield "triangle", nx.complete_graph(3)
    for n in (4, 5, 6, 7):
        yield "K%d" % n, nx.complete_graph(n)
    yield "bowtie", nx.Graph([(0, 1), (1, 2), (0, 2), (2, 3), (3, 4), (2, 4)])
    yield "two-K4-sharing-edge", nx.Graph(
        list(itertools.combinations([0, 1, 2, 3], 2))
        + list(itertools.combinations([2, 3, 4, 5], 2))
    )
    yield "K5-minus-edge", nx.Graph(
        [e for e in itertools.combinations(range(5), 2) if e != (0, 4)]
    )
    yield "petersen", nx.petersen_graph()
    yield "karate", nx.karate_club_graph()
    yield "turan", nx.turan_graph(9, 3)
    yield "wheel", nx.wheel_graph(8)
    yield "ring-of-cliques", nx.ring_of_cliques(4, 4)
    yield "caveman", nx.connected_caveman_graph(3, 5)
    g = nx.complete_graph(4)
    g.add_edge(0, 0)
    g.add_edge(2, 2)
    yield "K4-selfloops", g
    g = nx.Graph()
    g.add_edges_from([("b", "a"), ("a", 3), (3, "b"), (3, (1, 2)), ((1, 2), "a")])
    yield "mixed-node-types", g
    g = nx.Graph()
    g.add_nodes_from([5, 3, 9, 1])
    g.add_edges_from([(9, 1), (1, 5), (5, 9), (3, 9), (3, 1), (3, 5)])
    yield "K4-odd-insertion-order", g
    g = nx.complete_graph(4)
    for u, v in g.edges():
        g.edges[u, v]["clique"] = "stale"
        g.edges[u, v]["w"] = u + v
    g.graph["name"] = "labelled before"
    yield "K4-prelabelled", g
    for i, (n, p) in enumerate(
        [(6, 0.5), (8, 0.6), (10, 0.4), (12, 0.5), (14, 0.7), (18, 0.35), (25, 0.3), (30, 0.25), (16, 0.85)]
    ):
        yield "gnp-%d-%s" % (n, p), nx.gnp_random_graph(n, p, seed=100 + i)
    for i in range(4):
        yield "regular-%d" % i, nx.random_regular_graph(4, 12, seed=7 + i)
    yield "geometric", nx.random_geometric_graph(30, 0.3, seed=3)


random.seed(20261004)
np.random.seed(20261004)

LIMITS = [(), (0,), (1,), (2,), (3,), (4,), (100,), (-1,), (-7,), (2.5,), (0.5,),
          (float("nan"),), (float("inf"),), (-float("inf"),), (True,), (False,)]

for name, G in builders():
    for lim in LIMITS:
        show("%s lim=%r" % (name, lim), G.copy(), *lim)
    show("%s kw" % name, G.copy(), max_size=3)

# repeated calls on one object, with different limits, labels overwritten
G = nx.gnp_random_graph(15, 0.6, seed=1)
for k, lim in enumerate([0, 2, 3, 0, 4, 1, 0]):
    show("repeat-%d lim=%d" % (k, lim), G, lim)

G = nx.ring_of_cliques(3, 5)
for k in range(5):
    show("repeat-ring-%d" % k, G)

# many tie-breaks: the shuffle decides which of equally large cliques wins
for s in range(25):
    G = nx.gnp_random_graph(11, 0.65, seed=500 + s)
    show("ties-%d" % s, G, s % 5)

# size limits of the wrong type and limits that log their comparisons
bad = [None, "3", "", [2], (), {}, 3 + 0j, np.int64(3), np.float64(2.0), np.array(3),
       np.array([3]), np.array([2, 3]), np.array([]), object(), Loud(3), Loud(0), Loud(-2), Loud(2.5),
       Loud(3, "lt"), Loud(3, "gt"), Loud(0, "gt"), Odd(True, True), Odd(True, False),
       Odd(False, True), Odd(False, False)]
for b in bad:
    for name, G in [("empty", nx.Graph()), ("iso", nx.empty_graph(3)), ("K4", nx.complete_graph(4)),
                    ("bowtie", nx.Graph([(0, 1), (1, 2), (0, 2), (2, 3), (3, 4), (2, 4)]))]:
        import warnings
        with warnings.catch_warnings():
            warnings.simplefilter("ignore")
            show("badlimit %s %s" % (name, type(b).__name__ + ":" + ("obj" if type(b) is object else repr(b)[:30])), G, b)

# graphs of the wrong kind
K = nx.complete_graph(4)
wrong = [
    ("digraph", nx.DiGraph(K)),
    ("empty-digraph", nx.DiGraph()),
    ("multigraph", nx.MultiGraph(K)),
    ("multigraph-parallel", nx.MultiGraph([(0, 1), (0, 1), (1, 2), (0, 2)])),
    ("multigraph-no-edges", nx.empty_graph(3, create_using=nx.MultiGraph)),
    ("multidigraph", nx.MultiDiGraph(K)),
    ("frozen", nx.freeze(nx.complete_graph(5))),
    ("subgraph-view", nx.complete_graph(7).subgraph([0, 2, 3, 5, 6])),
    ("edge-subgraph-view", nx.complete_graph(6).edge_subgraph([(0, 1), (1, 2), (0, 2), (3, 4)])),
    ("undirected-view-of-digraph", nx.DiGraph([(0, 1), (1, 0), (1, 2), (2, 0), (3, 2), (2, 3)]).to_undirected(as_view=True)),
    ("logged", LoggedGraph(nx.gnp_random_graph(9, 0.6, seed=4))),
    ("logged-K5", LoggedGraph(nx.complete_graph(5))),
    ("broken-removal", BrokenRemoval(nx.complete_graph(4))),
    ("broken-removal-iso", BrokenRemoval(nx.empty_graph(4))),
    ("none", None), ("int", 3), ("list", [(0, 1)]), ("dict", {0: [1], 1: [0]}), ("class", nx.Graph),
]
for name, G in wrong:
    for lim in [(), (2,), (3,), (None,)]:
        show("wrong %s lim=%r" % (name, lim), G, *lim)

try:
    MPCC()
except BaseException as ex:
    print("no-args", type(ex).__name__)
try:
    MPCC(nx.path_graph(3), 0, 1)
except BaseException as ex:
    print("three-args", type(ex).__name__)
try:
    MPCC(nx.path_graph(3), maxsize=1)
except BaseException as ex:
    print("bad-kw", type(ex).__name__)

print("final rng", rng_digest(), random.random(), repr(np.random.random()))
