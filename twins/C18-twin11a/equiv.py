import sys, os; sys.path.insert(0, os.getcwd())
import hashlib, random
import numpy as np
import networkx as nx

random.seed(1801)
np.random.seed(1801)

from gcmpy import (LightWeightEdgeList, EdgeListToNetwork, NetworkToEdgeList,
                   NetworkNames, Network, bond_percolate, clique_motif,
                   cycle_motif, diamond_motif)

out = []


def emit(*a):
    out.append(" | ".join(repr(x) for x in a))


def dump(g):
    return (type(g).__name__, list(g.nodes(data=True)), list(g.edges(data=True)))


def mk(edges, tops, jds, mids):
    el = LightWeightEdgeList()
    el.edge_list = edges
    el.topologies = tops
    el.joint_degrees = jds
    el.motif_id = mids
    return el


def attempt(tag, el):
    try:
        net = EdgeListToNetwork.convert(el)
    except BaseException as ex:
        emit(tag, "EXC", type(ex).__name__)
        return None
    emit(tag, type(net).__name__, dump(net.G))
    # key order of the node attribute / identity of stored objects
    try:
        jd_attr = nx.get_node_attributes(net.G, NetworkNames.JOINT_DEGREE)
        emit(tag, "jd-keys", list(jd_attr.keys()),
             [jd_attr[k] is el.joint_degrees[k] for k in jd_attr]
             if hasattr(el.joint_degrees, "__getitem__") else None)
    except BaseException as ex:
        emit(tag, "jd-EXC", type(ex).__name__)
    # the input container must not have been touched
    emit(tag, "input", repr(el.edge_list), repr(el.topologies),
         repr(el.joint_degrees), repr(el.motif_id))
    return net


# ---- regular inputs -------------------------------------------------------
attempt("empty", mk([], [], [], []))
attempt("one", mk([(0, 1)], ["2-clique"], [(1,), (1,)], [0]))

for trial in range(40):
    n = random.randint(1, 25)
    edges, tops, mids = [], [], []
    mid = 0
    for _ in range(random.randint(0, 8)):
        kind = random.choice(["clique", "cycle", "diamond"])
        if kind == "diamond":
            k = 4
        else:
            k = random.randint(2, 5)
        if k > n:
            continue
        vs = random.sample(range(n), k)
        es = {"clique": clique_motif, "cycle": cycle_motif,
              "diamond": diamond_motif}[kind](vs)
        edges += es
        tops += [kind] * len(es)
        mids += [mid] * len(es)
        mid += 1
    jds = [tuple(random.randint(0, 3) for _ in range(3)) for _ in range(n)]
    el = mk(edges, tops, jds, mids)
    net = attempt("rand%d" % trial, el)
    if net is not None:
        # repeated conversion of the same object gives an independent network
        net2 = EdgeListToNetwork.convert(el)
        emit("rand%d" % trial, "again", dump(net2.G) == dump(net.G),
             net2.G is net.G)
        before = dump(net.G)
        S = [bond_percolate(net.G, phi) for phi in (0.0, 0.3, 0.5, 1.0)]
        emit("rand%d" % trial, "perc", S, dump(net.G) == before)
        try:
            back = NetworkToEdgeList.convert(net)
            emit("rand%d" % trial, "back", back.edge_list, back.joint_degrees,
                 back.topologies, back.motif_id)
        except BaseException as ex:
            emit("rand%d" % trial, "back-EXC", type(ex).__name__)

# ---- odd joint-degree containers -----------------------------------------
attempt("jd-tuple", mk([(0, 1), (1, 2)], ["a", "b"], ((1,), (2,), (1,)), [0, 1]))
attempt("jd-str", mk([(0, 1)], ["a"], "xyz", [0]))
attempt("jd-range", mk([(0, 2)], ["a"], range(4), [0]))
attempt("jd-dict", mk([(0, 1)], ["a"], {5: "p", 7: "q", 9: "r"}, [0]))
attempt("jd-nparray", mk([(0, 1)], ["a"], np.arange(6).reshape(3, 2), [0]))
attempt("jd-unhashable", mk([(0, 1)], ["a"], [[1, 2], {"k": 1}, {3}], [0]))
attempt("jd-nested-none", mk([], [], [None, None], []))
attempt("jd-set", mk([(0, 1)], ["a"], {10, 20}, [0]))

# ---- malformed containers --------------------------------------------------
attempt("jd-None", mk([(0, 1)], ["a"], None, [0]))
attempt("jd-int", mk([(0, 1)], ["a"], 3, [0]))
attempt("jd-generator", mk([(0, 1)], ["a"], (x for x in [(1,), (1,)]), [0]))
attempt("edges-None", mk(None, ["a"], [(1,)], [0]))
attempt("edges-bad", mk([(0,)], ["a"], [(1,)], [0]))
attempt("edges-unhashable", mk([([], 1)], ["a"], [(1,)], [0]))
attempt("tops-None", mk([(0, 1)], None, [(1,), (1,)], [0]))
attempt("mids-None", mk([(0, 1)], ["a"], [(1,), (1,)], None))
attempt("short-tops", mk([(0, 1), (1, 2)], ["a"], [(1,), (2,), (1,)], [0, 1]))
attempt("short-jds", mk([(0, 1), (1, 5)], ["a", "b"], [(1,)], [0, 1]))
attempt("dup-edges", mk([(0, 1), (1, 0), (0, 1)], ["a", "b", "c"], [(1,), (1,)], [0, 1, 2]))
attempt("selfloop", mk([(0, 0), (0, 1)], ["a", "b"], [(1,), (1,)], [0, 1]))


class LenOnly:
    def __repr__(self):
        return "LenOnly()"

    def __len__(self):
        return 2


class LenGetitem:
    def __repr__(self):
        return "LenGetitem()"

    def __len__(self):
        return 3

    def __getitem__(self, i):
        if i >= 3:
            raise IndexError(i)
        return ("g", i)


class LenIterRaises:
    def __init__(self):
        self.calls = 0

    def __repr__(self):
        return "LenIterRaises()"

    def __len__(self):
        return 3

    def __iter__(self):
        self.calls += 1
        yield (0,)
        yield (1,)
        raise ZeroDivisionError("boom")


class NotAnEdgeList:
    pass


attempt("jd-lenonly", mk([(0, 1)], ["a"], LenOnly(), [0]))
attempt("jd-lengetitem", mk([(0, 1)], ["a"], LenGetitem(), [0]))
lir = LenIterRaises()
attempt("jd-iter-raises", mk([(0, 1)], ["a"], lir, [0]))
emit("jd-iter-raises", "iter-calls", lir.calls)
attempt("not-an-edge-list", NotAnEdgeList())
attempt("None", None)

emit("random", hashlib.sha256(repr(random.getstate()).encode()).hexdigest())
st = np.random.get_state()
emit("numpy", hashlib.sha256(repr((st[0], st[1].tolist(), st[2:])).encode()).hexdigest())

text = "\n".join(out)
print(text)
print("DIGEST", hashlib.sha256(text.encode()).hexdigest())
