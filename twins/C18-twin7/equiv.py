import sys, os; sys.path.insert(0, os.getcwd())
import hashlib
import random
import numpy as np
import networkx as nx
from gcmpy.tools.bond_percolate import bond_percolate
import gcmpy


def rng_digest():
    return hashlib.sha256(repr(random.getstate()).encode()).hexdigest()[:16] + "/" + \
        hashlib.sha256(repr(np.random.get_state()).encode()).hexdigest()[:16]


def graph_digest(g):
    return hashlib.sha256(repr((type(g).__name__, list(g.nodes(data=True)),
                                list(g.edges(data=True)), dict(g.graph))).encode()).hexdigest()[:16]


def run(label, g, phi, fn=bond_percolate):
    before = graph_digest(g)
    try:
        r = fn(g, phi)
        out = (type(r).__name__, repr(r))
    except BaseException as e:
        out = ("EXC", type(e).__name__, str(e))
    print(label, repr(phi), out, "mutated" if graph_digest(g) != before else "untouched",
          graph_digest(g), rng_digest())


class NanLike(float):
    pass


def graphs():
    yield "empty", nx.Graph()
    yield "single", nx.empty_graph(1)
    yield "isolated5", nx.empty_graph(5)
    yield "edge", nx.path_graph(2)
    yield "path10", nx.path_graph(10)
    yield "star30", nx.star_graph(30)
    yield "complete8", nx.complete_graph(8)
    yield "twoequal", nx.disjoint_union(nx.path_graph(4), nx.cycle_graph(4))
    yield "threecomp", nx.disjoint_union_all([nx.path_graph(3), nx.complete_graph(5), nx.path_graph(5)])
    yield "er200", nx.gnm_random_graph(200, 400, seed=7)
    yield "er500", nx.gnm_random_graph(500, 600, seed=8)
    g = nx.Graph(); g.add_edges_from([("a", "b"), ("b", "c"), ("x", "y")]); g.add_node("z", w=1); g.add_edge(1, 1)
    yield "strnodes_selfloop", g
    m = nx.MultiGraph(); m.add_edges_from([(0, 1), (0, 1), (1, 2), (2, 3), (3, 0), (4, 5), (4, 5), (4, 5)])
    yield "multigraph", m
    yield "digraph", nx.DiGraph([(0, 1), (1, 2)])
    yield "multidigraph", nx.MultiDiGraph([(0, 1), (0, 1)])
    yield "frozen", nx.freeze(nx.path_graph(6))
    g = nx.grid_2d_graph(6, 6); g.graph["name"] = "grid"
    for u, v in g.edges():
        g[u][v]["w"] = 0.5
    yield "grid_attr", g


random.seed(12345)
np.random.seed(54321)
print("start", rng_digest())
print("same_obj", gcmpy.bond_percolate is bond_percolate, bond_percolate.__name__)

phis = [0, 0.0, 1, 1.0, 0.5, 0.25, 0.9, -0.3, 1.7, float("nan"), np.float64(0.4), True, False]
for name, g in graphs():
    for phi in phis:
        run(name, g, phi)
    # repeated calls on the same object
    for i in range(3):
        run(name + "#rep%d" % i, g, 0.6)
    # error paths
    run(name + "#str", g, "0.5")
    run(name + "#none", g, None)
    run(name + "#list", g, [0.5])
    run(name + "#arr", g, np.array([0.2, 0.8]))
    run(name + "#complex", g, 0.5j)

# non-graph inputs
for bad in (None, 5, [(0, 1)], {0: [1]}):
    try:
        r = bond_percolate(bad, 0.5)
        print("bad", repr(bad), repr(r), rng_digest())
    except BaseException as e:
        print("bad", repr(bad), "EXC", type(e).__name__, str(e), rng_digest())

# via the package-level entry point, with reseeding: reproducibility and draw counts
g = nx.gnm_random_graph(300, 450, seed=3)
for seed in (0, 1, 2):
    random.seed(seed)
    vals = [repr(gcmpy.bond_percolate(g, p / 10)) for p in range(11)]
    print("sweep", seed, vals, rng_digest(), repr(random.random()))

# star distribution sample (digest)
star = nx.star_graph(40)
random.seed(99)
samples = [repr(bond_percolate(star, 0.3)) for _ in range(200)]
print("star", hashlib.sha256(",".join(samples).encode()).hexdigest(), samples[:5], rng_digest())
print("star untouched", graph_digest(star), star.number_of_edges())

# subclass with overridden order / copy
class Odd(nx.Graph):
    def order(self):
        return 2 * len(self._node)

o = Odd(); o.add_edges_from([(0, 1), (1, 2), (3, 4)])
random.seed(5)
for phi in (0, 1, 0.5):
    run("oddorder", o, phi)
print("end", rng_digest())
