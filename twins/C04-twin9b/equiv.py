import sys, os; sys.path.insert(0, os.getcwd())
import hashlib
import random

import numpy as np
import networkx as nx

from gcmpy.network.network import Network
from gcmpy.network.edge_list import LightWeightEdgeList
from gcmpy.network.edge_list_to_network import EdgeListToNetwork
from gcmpy.network.network_to_edge_list import NetworkToEdgeList
from gcmpy.covers.eecc import EECC
from gcmpy.names.network_names import NetworkNames
from gcmpy.names.joint_degree_names import JointDegreeNames
from gcmpy.names.gcm_algorithm_names import GCMAlgorithmNames
from gcmpy.joint_degree.joint_degree_loaders.joint_degree_manual import (
    JointDegreeManual,
)
from gcmpy.gcm_algorithm.gcm_algorithm_network import GCMAlgorithmNetwork
from gcmpy.motif_generators.clique_motif import clique_motif

random.seed(4242)
np.random.seed(4242)

JD, TOP, MID = NetworkNames.JOINT_DEGREE, NetworkNames.TOPOLOGY, NetworkNames.MOTIF_IDS

H = hashlib.sha256()
LINES = []


def emit(*parts):
    line = " | ".join(p if isinstance(p, str) else repr(p) for p in parts)
    LINES.append(line)
    H.update(line.encode() + b"\n")


def graph_digest(G):
    try:
        return (
            type(G).__name__,
            [(n, list(d.items())) for n, d in G.nodes(data=True)],
            [tuple(e[:-1]) + (list(e[-1].items()),) for e in G.edges(data=True)],
            repr([(n, list(nb.items())) for n, nb in G.adj.items()]),
        )
    except BaseException as exc:
        return ("undigestable", type(G).__name__, type(exc).__name__)


def el_digest(el):
    return (
        type(el).__name__,
        type(el.edge_list).__name__,
        el.edge_list,
        type(el.topologies).__name__,
        el.topologies,
        type(el.joint_degrees).__name__,
        el.joint_degrees,
        type(el.motif_id).__name__,
        el.motif_id,
    )


def run(label, net, repeat=3):
    results = []
    for k in range(repeat):
        before = graph_digest(net.G)
        try:
            el = NetworkToEdgeList.convert(net)
            results.append(el)
            emit(label, k, "ok", el_digest(el))
            lists = [el.edge_list, el.topologies, el.joint_degrees, el.motif_id]
            emit(
                label,
                k,
                "distinct-lists",
                len({id(x) for x in lists}),
                [any(a is b for b in prev_lists(results[:-1])) for a in lists],
            )
        except BaseException as exc:
            emit(label, k, "exc", type(exc).__name__, str(exc))
        emit(label, k, "graph-unchanged", before == graph_digest(net.G))
    # mutate a result and convert again: results must be independent of the graph
    if results:
        el = results[0]
        el.edge_list.append(("sentinel", "sentinel"))
        el.topologies.append("sentinel")
        try:
            emit(label, "after-mutation", el_digest(NetworkToEdgeList.convert(net)))
        except BaseException as exc:
            emit(label, "after-mutation", "exc", type(exc).__name__, str(exc))
        try:
            back = EdgeListToNetwork.convert(results[-1])
            emit(label, "back", graph_digest(back.G))
        except BaseException as exc:
            emit(label, "back", "exc", type(exc).__name__, str(exc))


def prev_lists(els):
    out = []
    for el in els:
        out.extend([el.edge_list, el.topologies, el.joint_degrees, el.motif_id])
    return out


def net_from(graph):
    n = Network()
    n.G = graph
    return n


def annotated(cls, nodes, edges, jd=True, top=True, mid=True):
    g = cls()
    for i, n in enumerate(nodes):
        if jd:
            g.add_node(n, **{})
            g.nodes[n][JD] = (i, i % 2)
        else:
            g.add_node(n)
    for i, e in enumerate(edges):
        g.add_edge(*e)
        d = g.edges[e] if not g.is_multigraph() else g.edges[e + (max(g[e[0]][e[1]]),)]
        if top:
            d[TOP] = "t%d" % i
        if mid:
            d[MID] = i * 10
    return g


# ---- hand-made graphs --------------------------------------------------
run("empty", Network())
run("empty-eecc", EECC())

n = Network()
n.G.add_nodes_from(range(3))
run("isolated-no-attrs", n)

n = Network()
n.G.add_nodes_from(range(3))
nx.set_node_attributes(n.G, {0: (0, 0), 1: (0, 0), 2: (0, 0)}, JD)
run("isolated-with-jd", n)

run("path", net_from(annotated(nx.Graph, [0, 1, 2, 3], [(0, 1), (1, 2), (2, 3)])))
run(
    "reverse-insertion",
    net_from(annotated(nx.Graph, [0, 1, 2, 3], [(3, 2), (2, 1), (1, 0), (3, 0)])),
)
run(
    "nodes-inserted-out-of-order",
    net_from(annotated(nx.Graph, [2, 0, 3, 1], [(1, 3), (0, 2), (3, 2), (1, 0)])),
)
run("self-loops", net_from(annotated(nx.Graph, [0, 1, 2], [(1, 1), (0, 1), (2, 2), (2, 0)])))
run("no-topology", net_from(annotated(nx.Graph, [0, 1, 2], [(0, 1), (1, 2)], top=False)))
run("no-motif-id", net_from(annotated(nx.Graph, [0, 1, 2], [(0, 1), (1, 2)], mid=False)))
run(
    "no-edge-attrs",
    net_from(annotated(nx.Graph, [0, 1, 2], [(0, 1), (1, 2)], top=False, mid=False)),
)
run("no-joint-degree", net_from(annotated(nx.Graph, [0, 1, 2], [(0, 1)], jd=False)))

g = annotated(nx.Graph, [0, 1, 2], [(0, 1), (1, 2), (0, 2)])
del g.edges[1, 2][TOP]
run("second-edge-lacks-topology", net_from(g))
g = annotated(nx.Graph, [0, 1, 2], [(0, 1), (1, 2), (0, 2)])
del g.edges[0, 2][MID]
run("last-edge-lacks-motif-id", net_from(g))
g = annotated(nx.Graph, [0, 1, 2], [(0, 1), (1, 2), (0, 2)])
del g.nodes[1][JD]
run("middle-node-lacks-jd", net_from(g))

run("noncontiguous-nodes", net_from(annotated(nx.Graph, [0, 1, 5], [(0, 1), (1, 5)])))
run("offset-nodes", net_from(annotated(nx.Graph, [1, 2, 3], [(1, 2), (2, 3)])))
run("string-nodes", net_from(annotated(nx.Graph, ["a", "b"], [("a", "b")])))
run("mixed-nodes", net_from(annotated(nx.Graph, [0, 1, "x"], [(0, "x"), ("x", 1)])))
run("float-alias-nodes", net_from(annotated(nx.Graph, [0.0, 1.0, 2], [(0, 1.0), (2, 0.0)])))

run("digraph", net_from(annotated(nx.DiGraph, [0, 1, 2], [(0, 1), (1, 0), (2, 1), (2, 2)])))
run("multigraph", net_from(annotated(nx.MultiGraph, [0, 1, 2], [(0, 1), (0, 1), (1, 2)])))
run("multigraph-empty", net_from(annotated(nx.MultiGraph, [0, 1, 2], [])))
run("multidigraph", net_from(annotated(nx.MultiDiGraph, [0, 1], [(0, 1), (1, 0), (0, 1)])))
run("frozen", net_from(nx.freeze(annotated(nx.Graph, [0, 1, 2], [(2, 1), (0, 2)]))))
base = annotated(nx.Graph, [0, 1, 2, 3], [(3, 1), (0, 2), (2, 3), (0, 1)])
run("subgraph-view", net_from(base.subgraph([0, 1, 2])))
run("edge-subgraph-view", net_from(base.edge_subgraph([(0, 2), (0, 1)])))
run("reverse-view", net_from(annotated(nx.DiGraph, [0, 1, 2], [(0, 1), (2, 1)]).reverse(copy=False)))
run("complete-unannotated", net_from(nx.complete_graph(4)))

for bad in (None, 5, "graph", [], {}, object()):
    run("G=%s" % type(bad).__name__, net_from(bad), repeat=2)
for bad in (None, 5, nx.Graph(), LightWeightEdgeList()):
    try:
        emit("network=%s" % type(bad).__name__, el_digest(NetworkToEdgeList.convert(bad)))
    except BaseException as exc:
        emit("network=%s" % type(bad).__name__, "exc", type(exc).__name__, str(exc))

# graph edited between conversions through the Network API
n = Network()
n.add_edges_from([(0, 1), (1, 2), (2, 0), (2, 3)])
for i, node in enumerate(n.G.nodes()):
    n.G.nodes[node][JD] = (i,)
for i, e in enumerate(list(n.G.edges())):
    n.G.edges[e][TOP] = "t%d" % i
    n.G.edges[e][MID] = i
run("api-built", n)
n.remove_edge(1, 2)
run("api-built-after-remove", n)
n.add_edge((1, 2))
run("api-built-after-readd-unannotated", n)
n.G.edges[1, 2][TOP] = "new"
n.G.edges[1, 2][MID] = 99
run("api-built-after-reannotate", n)
n.remove_edge(0, 1)
n.remove_edge(0, 2)
n.remove_edge(7, 8)
run("api-built-node0-isolated", n)

# EECC objects go through the same converter
ee = EECC()
for e in [(0, 1), (1, 2), (0, 2), (2, 3)]:
    ee.add_edge(e)
for i, node in enumerate(sorted(ee.G.nodes())):
    ee.G.nodes[node][JD] = (i, 0)
for i, e in enumerate(list(ee.G.edges())):
    ee.G.edges[e][TOP] = "c"
    ee.G.edges[e][MID] = i
run("eecc-before-cover", ee)
try:
    emit("eecc-cover", ee.get_EECC())
except BaseException as exc:
    emit("eecc-cover", "exc", type(exc).__name__, str(exc))
run("eecc-after-cover", ee)

# ---- random graphs -----------------------------------------------------
rng = random.Random(7)
for t in range(300):
    nn = rng.randrange(0, 9)
    m = rng.randrange(0, 16)
    edges = [(rng.randrange(0, nn + 1), rng.randrange(0, nn + 1)) for _ in range(m)]
    el = LightWeightEdgeList()
    el.edge_list = edges
    el.topologies = [rng.choice(["2-clique", "3-clique", "4-cycle"]) for _ in range(rng.randrange(max(0, m - 1), m + 2))]
    el.motif_id = [rng.randrange(0, 9) for _ in range(rng.randrange(max(0, m - 1), m + 2))]
    el.joint_degrees = [(rng.randrange(0, 4), rng.randrange(0, 3)) for _ in range(nn + rng.randrange(0, 2))]
    try:
        net = EdgeListToNetwork.convert(el)
    except BaseException as exc:
        emit("rand-%d" % t, "build-exc", type(exc).__name__, str(exc))
        continue
    for _ in range(rng.randrange(0, 3)):
        if net.G.number_of_edges():
            u, v = rng.choice(list(net.G.edges()))
            net.remove_edge(u, v)
            if rng.random() < 0.5:
                net.add_edge((v, u))
                net.G.edges[v, u][TOP] = "readded"
                net.G.edges[v, u][MID] = -1
    run("rand-%d" % t, net, repeat=2)

# ---- generated networks ------------------------------------------------
params = {}
params[JointDegreeNames.JDD] = {(1, 0): 0.2, (2, 1): 0.5, (3, 0): 0.1, (5, 1): 0.2}
params[JointDegreeNames.MOTIF_SIZES] = [2, 3]
for size in (0, 1, 9, 80, 500):
    try:
        jds = JointDegreeManual(params).sample_jds_from_jdd(size)
        p2 = {}
        p2[GCMAlgorithmNames.MOTIF_SIZES] = [2, 3]
        p2[GCMAlgorithmNames.EDGE_NAMES] = ["2-clique", "3-clique"]
        p2[GCMAlgorithmNames.BUILD_FUNCTIONS] = [clique_motif, clique_motif]
        g = GCMAlgorithmNetwork(p2).random_clustered_graph(jds)
        run("pipeline-%d" % size, g, repeat=2)
    except BaseException as exc:
        emit("pipeline-%d" % size, "exc", type(exc).__name__, str(exc))

emit("rng-python", hashlib.sha256(repr(random.getstate()).encode()).hexdigest())
st = np.random.get_state()
emit("rng-numpy", st[0], hashlib.sha256(st[1].tobytes()).hexdigest(), st[2], st[3], repr(st[4]))

for line in LINES:
    print(line if len(line) <= 400 else line[:200] + " ...sha:" + hashlib.sha256(line.encode()).hexdigest())
print("DIGEST", H.hexdigest())
