"""Equivalence digest for C16 additions. Uses only the pre-existing signatures.
Run with cwd = a checkout of gcmpy."""
import sys
import os
import random
import hashlib
import warnings
from fractions import Fraction

warnings.simplefilter("ignore")
sys.path.insert(0, os.getcwd())

import numpy as np
import networkx as nx

random.seed(20261003)
np.random.seed(20261003)

from gcmpy.message_passing.equations.clique_equation import clique_equation
from gcmpy.message_passing.equations.chordless_cycle_equation import (
    chordless_cycle_equation,
)
from gcmpy.message_passing import number_connected_graphs as ncg
from gcmpy.message_passing.number_connected_graphs import (
    number_of_connected_graphs,
    QQ,
    Q,
    binomial,
)
import gcmpy
from gcmpy.message_passing.message_passing import MessagePassing

LINES = []


def emit(*parts):
    LINES.append(" | ".join(str(p) for p in parts))


def call(label, fn, *args, **kwargs):
    try:
        res = fn(*args, **kwargs)
        emit(label, "OK", type(res).__name__, repr(res))
        return res
    except BaseException as e:  # noqa
        emit(label, "EXC", type(e).__name__, str(e)[:200])
        return None


def graph_sig(G):
    return (G.name, list(G.nodes(data=True)), list(G.edges(data=True)))


# ---------------------------------------------------------------- clique_equation
emit("== clique_equation")
phis = [0.0, 1.0, 0.5, 0.3, 0.123456789, random.random(), random.random()]
for tau in range(0, 8):
    for phi in phis:
        Hs = [random.random() for _ in range(max(tau - 1, 0))]
        Hs_before = list(Hs)
        call(f"ce tau={tau} phi={phi!r} list", clique_equation, tau, phi, Hs)
        emit("   Hs unchanged", Hs == Hs_before)
        call(f"ce tau={tau} phi={phi!r} tuple", clique_equation, tau, phi, tuple(Hs))
        d = {j: h for j, h in enumerate(Hs)}
        call(f"ce tau={tau} phi={phi!r} dictvalues", clique_equation, tau, phi, d.values())
        # repeated call
        call(f"ce tau={tau} phi={phi!r} repeat", clique_equation, tau, phi, Hs)

# mismatched lengths of Hs
call("ce short Hs", clique_equation, 5, 0.4, [0.2, 0.7])
call("ce long Hs", clique_equation, 3, 0.4, [0.2, 0.7, 0.9, 0.1, 0.5])
call("ce empty Hs", clique_equation, 4, 0.4, [])
# generator Hs (consumed by the first combinations call)
call("ce generator Hs", clique_equation, 4, 0.4, (h for h in [0.2, 0.7, 0.9]))
call("ce iterator Hs", clique_equation, 4, 0.4, iter([0.2, 0.7, 0.9]))
# exact arithmetic and other numeric types
call("ce fractions", clique_equation, 5, Fraction(1, 3), [Fraction(1, 2), Fraction(2, 3), Fraction(1, 5), Fraction(3, 7)])
call("ce int values", clique_equation, 4, 1, [1, 1, 1])
call("ce int zero", clique_equation, 4, 0, [2, 3, 4])
call("ce numpy", clique_equation, 4, np.float64(0.3), np.array([0.1, 0.2, 0.3]))
call("ce complex", clique_equation, 3, 0.3 + 0.1j, [0.5j, 0.25])
call("ce phi>1", clique_equation, 4, 1.5, [0.5, 0.5, 0.5])
call("ce phi<0", clique_equation, 4, -0.5, [0.5, 0.5, 0.5])
call("ce nan", clique_equation, 3, float("nan"), [0.5, 0.5])
call("ce inf H", clique_equation, 3, 0.5, [float("inf"), 0.5])
# error paths
call("ce tau float", clique_equation, 3.0, 0.5, [0.5, 0.5])
call("ce tau None", clique_equation, None, 0.5, [0.5, 0.5])
call("ce tau str", clique_equation, "3", 0.5, [0.5, 0.5])
call("ce tau negative", clique_equation, -2, 0.5, [0.5, 0.5])
call("ce tau bool", clique_equation, True, 0.5, [])
call("ce phi str", clique_equation, 3, "a", [0.5, 0.5])
call("ce phi None", clique_equation, 3, None, [0.5, 0.5])
call("ce Hs None", clique_equation, 3, 0.5, None)
call("ce Hs int", clique_equation, 3, 0.5, 7)
call("ce Hs str elems", clique_equation, 3, 0.5, ["a", "b"])
call("ce Hs string", clique_equation, 3, 0.5, "ab")
call("ce Hs None elems", clique_equation, 3, 0.5, [None, 0.5])
call("ce Hs list elems", clique_equation, 3, 2, [[1], [2]])
call("ce missing arg", clique_equation, 3, 0.5)
call("ce extra positional", clique_equation, 3, 0.5, [0.5, 0.5], 1)
call("ce kw form", clique_equation, tau=3, phi=0.5, Hs=[0.5, 0.25])


class Tracker(float):
    """float subclass recording multiplications, to pin evaluation order."""
    log = []

    def __mul__(self, other):
        Tracker.log.append(("mul", float(self), repr(other)))
        return float.__mul__(self, other)

    def __rmul__(self, other):
        Tracker.log.append(("rmul", float(self), repr(other)))
        return float.__rmul__(self, other)


Tracker.log = []
call("ce tracker", clique_equation, 4, 0.3, [Tracker(0.2), Tracker(0.5), Tracker(0.9)])
emit("   tracker log", hashlib.sha256(repr(Tracker.log).encode()).hexdigest(), len(Tracker.log))


class PhiSpy(float):
    log = []

    def __pow__(self, other, mod=None):
        PhiSpy.log.append(("pow", float(self), repr(other)))
        return float.__pow__(self, other)

    def __rsub__(self, other):
        PhiSpy.log.append(("rsub", float(self), repr(other)))
        return float.__rsub__(self, other)


PhiSpy.log = []
call("ce phispy", clique_equation, 4, PhiSpy(0.3), [0.2, 0.5, 0.9])
emit("   phispy log", hashlib.sha256(repr(PhiSpy.log).encode()).hexdigest(), len(PhiSpy.log))

# Q is resolved as a module global of clique_equation at call time
ce_mod = sys.modules["gcmpy.message_passing.equations.clique_equation"]

qcalls = []
_origQ = ce_mod.Q


def spyQ(n, k):
    qcalls.append((n, k))
    return _origQ(n, k)


ce_mod.Q = spyQ
try:
    call("ce with patched module Q", clique_equation, 5, 0.37, [0.1, 0.2, 0.3, 0.4])
finally:
    ce_mod.Q = _origQ
emit("   Q calls", qcalls)
emit("Q cache after clique", Q.cache_info())
emit("binomial cache after clique", binomial.cache_info())

# ---------------------------------------------------------------- chordless_cycle_equation
emit("== chordless_cycle_equation")
for n in list(range(-1, 12)) + [25, 60]:
    for phi in phis:
        u = random.random()
        call(f"cc n={n} u={u!r} phi={phi!r}", chordless_cycle_equation, n, u, phi)
        call(f"cc n={n} repeat", chordless_cycle_equation, n, u, phi)
call("cc fractions", chordless_cycle_equation, 6, Fraction(2, 3), Fraction(1, 4))
call("cc ints", chordless_cycle_equation, 4, 1, 1)
call("cc zero", chordless_cycle_equation, 4, 0, 0)
call("cc zero n=1", chordless_cycle_equation, 1, 0, 0.5)
call("cc zero n=0", chordless_cycle_equation, 0, 0, 0.5)
call("cc zero n=0 floats", chordless_cycle_equation, 0, 0.0, 0.5)
call("cc complex", chordless_cycle_equation, 4, 0.5j, 0.3)
call("cc numpy scalar", chordless_cycle_equation, 5, np.float64(0.5), np.float64(0.3))
call("cc numpy arrays", chordless_cycle_equation, 5, np.array([0.1, 0.5]), np.array([0.3, 0.9]))
call("cc nan", chordless_cycle_equation, 5, float("nan"), 0.3)
call("cc inf", chordless_cycle_equation, 5, float("inf"), 0.3)
call("cc n float", chordless_cycle_equation, 4.0, 0.5, 0.3)
call("cc n None", chordless_cycle_equation, None, 0.5, 0.3)
call("cc n str", chordless_cycle_equation, "4", 0.5, 0.3)
call("cc u str", chordless_cycle_equation, 4, "a", 0.3)
call("cc u None", chordless_cycle_equation, 4, None, 0.3)
call("cc phi None", chordless_cycle_equation, 4, 0.5, None)
call("cc phi str", chordless_cycle_equation, 4, 0.5, "x")
call("cc missing", chordless_cycle_equation, 4, 0.5)
call("cc extra positional", chordless_cycle_equation, 4, 0.5, 0.3, True)
call("cc kw form", chordless_cycle_equation, n=4, u=0.5, phi=0.3)
call("cc n bool", chordless_cycle_equation, True, 0.5, 0.3)

PhiSpy.log = []
call("cc phispy", chordless_cycle_equation, 5, 0.6, PhiSpy(0.3))
emit("   phispy log", hashlib.sha256(repr(PhiSpy.log).encode()).hexdigest(), len(PhiSpy.log))
Tracker.log = []
call("cc tracker u", chordless_cycle_equation, 5, Tracker(0.6), 0.3)
emit("   tracker log", hashlib.sha256(repr(Tracker.log).encode()).hexdigest(), len(Tracker.log))

# ---------------------------------------------------------------- number_of_connected_graphs
emit("== number_of_connected_graphs")


def test_graph():
    G = nx.Graph(name="house")
    G.add_edge(0, 1)
    G.add_edge(1, 2)
    G.add_edge(2, 3)
    G.add_edge(3, 4)
    G.add_edge(4, 0)
    G.add_edge(2, 0)
    G.add_edge(2, 4)
    G.add_edge(3, 1)
    return G


G = test_graph()
sig0 = graph_sig(G)
for ak in ([1, 2], [1], [], [1, 2, 3, 4], [4, 2], (1, 2), {1, 2}, [1, 2, 99], [3]):
    for k in range(0, 10):
        call(f"ncg house ak={ak!r} k={k}", number_of_connected_graphs, G, ak, 0, k)
emit("   house unchanged", graph_sig(G) == sig0)
call("ncg focal not in G", number_of_connected_graphs, G, [1, 2], 77, 0)
call("ncg focal not in G k=1", number_of_connected_graphs, G, [1, 2], 77, 1)
call("ncg nobody", number_of_connected_graphs, G, [], 77, 0)
call("ncg negative k", number_of_connected_graphs, G, [1, 2], 0, -1)
call("ncg float k", number_of_connected_graphs, G, [1, 2], 0, 1.0)
call("ncg None k", number_of_connected_graphs, G, [1, 2], 0, None)
call("ncg None ak", number_of_connected_graphs, G, None, 0, 1)
call("ncg int ak", number_of_connected_graphs, G, 3, 0, 1)
call("ncg None G", number_of_connected_graphs, None, [1], 0, 1)
call("ncg dict G", number_of_connected_graphs, {0: [1]}, [1], 0, 1)
call("ncg missing", number_of_connected_graphs, G, [1], 0)
call("ncg extra positional", number_of_connected_graphs, G, [1], 0, 1, None)
call("ncg kw form", number_of_connected_graphs, G=G, ak=[1, 2], i=0, k=1)
emit("   house unchanged 2", graph_sig(G) == sig0)

for n in range(1, 7):
    K = nx.complete_graph(n)
    ks = graph_sig(K)
    s = n * (n - 1) // 2
    for k in range(0, s + 2):
        call(f"ncg K{n} k={k}", number_of_connected_graphs, K, list(range(1, n)), 0, k)
    emit(f"   K{n} unchanged", graph_sig(K) == ks)

# other graph types and random graphs
DG = nx.DiGraph([(0, 1), (1, 2), (2, 0)])
call("ncg digraph", number_of_connected_graphs, DG, [1, 2], 0, 1)
MG = nx.MultiGraph([(0, 1), (0, 1), (1, 2), (2, 0)])
for k in range(0, 5):
    call(f"ncg multigraph k={k}", number_of_connected_graphs, MG, [1, 2], 0, k)
SG = nx.Graph([(0, 0), (0, 1), (1, 2), (2, 0)])
for k in range(0, 5):
    call(f"ncg selfloop k={k}", number_of_connected_graphs, SG, [1, 2], 0, k)
EG = nx.Graph()
call("ncg empty graph", number_of_connected_graphs, EG, [], 0, 0)
call("ncg empty graph k=1", number_of_connected_graphs, EG, [], 0, 1)
strg = nx.Graph([("a", "b"), ("b", "c"), ("c", "a"), ("c", "d")])
for k in range(0, 4):
    call(f"ncg string nodes k={k}", number_of_connected_graphs, strg, ["b", "c"], "a", k)
call("ncg string ak substring", number_of_connected_graphs, strg, "bc", "a", 1)
for trial in range(6):
    R = nx.gnp_random_graph(7, 0.5, seed=random.randint(0, 10**6))
    rs = graph_sig(R)
    ak = random.sample(range(1, 7), random.randint(1, 5))
    for k in range(0, 4):
        call(f"ncg random{trial} ak={ak} k={k}", number_of_connected_graphs, R, ak, 0, k)
    emit(f"   random{trial} unchanged", graph_sig(R) == rs)
# frozen graph
FG = nx.freeze(nx.complete_graph(4))
call("ncg frozen", number_of_connected_graphs, FG, [1, 2], 0, 1)
call("ncg frozen all", number_of_connected_graphs, FG, [1, 2, 3], 0, 1)
# graph with attributes
AG = nx.complete_graph(4)
AG.graph["name"] = "attr"
for nd in AG.nodes():
    AG.nodes[nd]["u"] = 0.1 * nd
for e in AG.edges():
    AG.edges[e]["w"] = sum(e)
asig = graph_sig(AG)
call("ncg attr graph", number_of_connected_graphs, AG, [1, 3], 0, 1)
emit("   attr graph unchanged", graph_sig(AG) == asig)

# module-global lookups at call time: nx.is_connected patched on the module's nx
conn_calls = []
_orig_conn = nx.is_connected


def spy_conn(g):
    conn_calls.append((sorted(g.nodes()), sorted(tuple(sorted(e)) for e in g.edges())))
    return _orig_conn(g)


nx.is_connected = spy_conn
try:
    call("ncg spy is_connected", number_of_connected_graphs, test_graph(), [1, 2, 3], 0, 2)
finally:
    nx.is_connected = _orig_conn
emit("   is_connected calls", hashlib.sha256(repr(conn_calls).encode()).hexdigest(), len(conn_calls))


class SpyGraph(nx.Graph):
    log = []

    def copy(self, as_view=False):
        SpyGraph.log.append("copy")
        return super().copy(as_view=as_view)

    def remove_node(self, n):
        SpyGraph.log.append(("remove_node", n))
        return super().remove_node(n)

    def remove_edge(self, u, v):
        SpyGraph.log.append(("remove_edge", u, v))
        return super().remove_edge(u, v)


SpyGraph.log = []
SPG = SpyGraph(test_graph().edges())
call("ncg spygraph", number_of_connected_graphs, SPG, [1, 2, 3], 0, 2)
emit("   spygraph log", hashlib.sha256(repr(SpyGraph.log).encode()).hexdigest(), len(SpyGraph.log))

# ---------------------------------------------------------------- Q / QQ / binomial (unchanged, but in the property)
emit("== Q / QQ / binomial")
for n in range(0, 8):
    s = n * (n - 1) // 2
    for k in range(-1, s + 2):
        call(f"Q({n},{k})", Q, n, k)
for n in range(1, 6):
    s = n * (n - 1) // 2
    for k in range(0, s + 1):
        call(f"QQ({n},{k})", QQ, n, k)
call("QQ too many edges", QQ, 3, 5)
call("QQ(0,0)", QQ, 0, 0)
call("Q(10,20)", Q, 10, 20)
call("Q float", Q, 4.0, 3)
call("Q str", Q, "a", 3)
call("Q unhashable", Q, [1], 3)
call("Q kw", Q, n=4, k=4)
call("binomial(5,2)", binomial, 5, 2)
call("binomial(2,5)", binomial, 2, 5)
call("binomial(5,-1)", binomial, 5, -1)
emit("Q cache", Q.cache_info())
emit("QQ cache", QQ.cache_info())
emit("binomial cache", binomial.cache_info())
emit("Q name", Q.__name__, Q.__wrapped__.__name__, QQ.__name__, binomial.__name__)

# ---------------------------------------------------------------- through the public callers
emit("== callers")
emit("pkg exports same objects",
     gcmpy.clique_equation is clique_equation,
     gcmpy.Q is Q, gcmpy.QQ is QQ,
     gcmpy.number_of_connected_graphs is number_of_connected_graphs)
emit("names", clique_equation.__name__, chordless_cycle_equation.__name__,
     number_of_connected_graphs.__name__,
     clique_equation.__module__, chordless_cycle_equation.__module__,
     number_of_connected_graphs.__module__)
emit("ce annotations", sorted(k for k in clique_equation.__annotations__ if k in ("tau", "phi", "Hs", "return")))

# ---------------------------------------------------------------- RNG state
emit("== rng")
emit("random state", hashlib.sha256(repr(random.getstate()).encode()).hexdigest())
st = np.random.get_state()
emit("numpy state", hashlib.sha256(repr((st[0], st[1].tolist(), st[2], st[3], st[4])).encode()).hexdigest())
emit("next draws", repr(random.random()), repr(np.random.random()))

out = "\n".join(LINES)
print(out)
print("DIGEST", hashlib.sha256(out.encode()).hexdigest())
