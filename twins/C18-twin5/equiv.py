"""Equivalence digest for gcmpy.tools.bond_percolate.bond_percolate.

Run with cwd = a checkout of gcmpy.  Uses only the pre-existing signature
bond_percolate(g, phi) so that it runs on the original code too.
"""
import os
import sys
import hashlib
import random

sys.path.insert(0, os.getcwd())

import numpy as np
import networkx as nx

from gcmpy.tools.bond_percolate import bond_percolate
import gcmpy


def rng_digest():
    h = hashlib.sha256(repr(random.getstate()).encode()).hexdigest()[:16]
    st = np.random.get_state()
    h2 = hashlib.sha256(st[1].tobytes() + repr(st[2:]).encode()).hexdigest()[:16]
    return "py=%s np=%s" % (h, h2)


def graph_digest(g):
    try:
        nodes = list(g.nodes(data=True))
        edges = list(g.edges(data=True))
        adj = [(u, list(nbrs)) for u, nbrs in g.adjacency()]
        return hashlib.sha256(
            repr((type(g).__name__, nodes, edges, adj, dict(g.graph))).encode()
        ).hexdigest()[:16]
    except Exception as e:  # non-graph inputs
        return "n/a(%s)" % type(e).__name__


def call(label, fn, g, phi):
    before = graph_digest(g)
    try:
        r = fn(g, phi)
        out = "%s %r" % (type(r).__name__, r)
    except BaseException as e:
        out = "EXC %s: %s" % (type(e).__name__, e)
    after = graph_digest(g)
    print(
        "%-34s phi=%-8r -> %s | input %s | %s"
        % (label, phi, out, "same" if before == after else "MUTATED " + after, rng_digest())
    )


class CountingRandom:
    """Wraps random.random to count module-level draws."""

    def __init__(self):
        self.n = 0
        self.orig = random.random

    def __enter__(self):
        def counted():
            self.n += 1
            return self.orig()

        random.random = counted
        return self

    def __exit__(self, *a):
        random.random = self.orig


def build_graphs():
    gs = []
    gs.append(("empty", nx.Graph()))
    g = nx.Graph()
    g.add_node(0)
    gs.append(("single", g))
    g = nx.Graph()
    g.add_nodes_from(range(5))
    gs.append(("isolated5", g))
    gs.append(("path2", nx.path_graph(2)))
    gs.append(("star7", nx.star_graph(7)))
    gs.append(("star50", nx.star_graph(50)))
    gs.append(("path20", nx.path_graph(20)))
    gs.append(("cycle15", nx.cycle_graph(15)))
    gs.append(("complete8", nx.complete_graph(8)))
    gs.append(("grid6x6", nx.grid_2d_graph(6, 6)))
    gs.append(("er200", nx.gnm_random_graph(200, 400, seed=11)))
    gs.append(("ba150", nx.barabasi_albert_graph(150, 2, seed=5)))
    # two equal-size components + a smaller one (tie-breaking in sorted)
    g = nx.disjoint_union(nx.complete_graph(4), nx.cycle_graph(4))
    g = nx.disjoint_union(g, nx.path_graph(3))
    gs.append(("ties", g))
    # self loops, string labels, attributes
    g = nx.Graph(name="attr")
    g.add_edge("a", "b", weight=2.5)
    g.add_edge("b", "c", motif_id=3)
    g.add_edge("c", "c")
    g.add_node("z", colour="red")
    gs.append(("attrs_selfloop", g))
    # multigraph and digraph inputs
    mg = nx.MultiGraph()
    mg.add_edges_from([(0, 1), (0, 1), (1, 2), (2, 3), (3, 0), (3, 0)])
    gs.append(("multigraph", mg))
    dg = nx.DiGraph()
    dg.add_edges_from([(0, 1), (1, 2), (2, 0), (3, 4)])
    gs.append(("digraph", dg))
    # frozen graph (copy() of a frozen graph is unfrozen in networkx)
    fg = nx.freeze(nx.path_graph(6))
    gs.append(("frozen_path6", fg))
    return gs


def main():
    random.seed(20261003)
    np.random.seed(424242)
    print("start", rng_digest())
    print("same object exported:", gcmpy.bond_percolate is bond_percolate)

    graphs = build_graphs()
    phis = [0, 0.0, 1, 1.0, 0.5, 0.25, 0.9, 1e-12, 1 - 1e-12, -0.3, 1.7,
            float("nan"), float("inf"), True, False]

    for name, g in graphs:
        for phi in phis:
            call(name, bond_percolate, g, phi)

    # repeated calls on the same object, via both import paths
    g = nx.gnm_random_graph(120, 300, seed=3)
    for i in range(12):
        call("repeat_er120[%d]" % i, bond_percolate if i % 2 else gcmpy.bond_percolate, g, 0.4)
    s = nx.star_graph(30)
    for i in range(12):
        call("repeat_star30[%d]" % i, bond_percolate, s, 0.35)

    # error paths: bad phi types, bad graph types
    for name, g in [("star7", nx.star_graph(7)), ("isolated5", graphs[2][1]), ("empty", nx.Graph())]:
        for phi in ["0.5", None, [0.5], 1 + 2j, np.float64(0.5), np.array([0.2, 0.8])]:
            call("badphi_" + name, bond_percolate, g, phi)
    for bad in [None, 5, "graph", [(0, 1)], {0: [1]}]:
        call("badgraph_%s" % type(bad).__name__, bond_percolate, bad, 0.5)

    # exception types raised with wrong arity / keywords of the OLD signature
    for label, thunk in [
        ("noargs", lambda: bond_percolate()),
        ("onearg", lambda: bond_percolate(nx.path_graph(3))),
        ("kw_old_names", lambda: bond_percolate(g=nx.path_graph(3), phi=1)),
        ("kw_swapped", lambda: bond_percolate(phi=1, g=nx.path_graph(3))),
    ]:
        try:
            print(label, "->", repr(thunk()), rng_digest())
        except BaseException as e:
            print(label, "-> EXC", type(e).__name__, rng_digest())

    # number of module-level draws = number of edges of the copy
    for name, g in graphs:
        with CountingRandom() as c:
            try:
                r = repr(bond_percolate(g, 0.6))
            except BaseException as e:
                r = "EXC " + type(e).__name__
        try:
            m = g.number_of_edges()
        except Exception:
            m = None
        print("draws %-16s edges=%r draws=%d -> %s | %s" % (name, m, c.n, r, rng_digest()))

    # monkeypatched module-level random.random is honoured per draw
    seq = iter([0.1, 0.9, 0.2, 0.8, 0.3, 0.7, 0.4])
    orig = random.random
    random.random = lambda: next(seq)
    try:
        print("patched star7 ->", repr(bond_percolate(nx.star_graph(7), 0.5)))
        try:
            print("patched exhausted ->", repr(bond_percolate(nx.star_graph(7), 0.5)))
        except BaseException as e:
            print("patched exhausted -> EXC", type(e).__name__)
    finally:
        random.random = orig

    # statistical digest on a star (Binomial(M, phi)/M), bit exact
    M = 40
    star = nx.star_graph(M)
    N = star.order()
    acc = hashlib.sha256()
    tot = 0.0
    for i in range(400):
        S = bond_percolate(star, 0.3)
        acc.update(repr(S).encode())
        tot += (N * S - 1) / M
    print("star stats", acc.hexdigest()[:16], repr(tot), graph_digest(star), rng_digest())

    # subclass whose copy() is instrumented: order of calls on the input
    class Spy(nx.Graph):
        log = None

        def copy(self, as_view=False):
            Spy.log.append("copy")
            return super().copy(as_view=as_view)

    Spy.log = []
    sp = Spy()
    sp.add_edges_from([(0, 1), (1, 2), (2, 3), (5, 6)])
    Spy.log = []
    call("spy", bond_percolate, sp, 0.5)
    call("spy", bond_percolate, sp, 1)
    print("spy log", Spy.log)

    print("end", rng_digest())


if __name__ == "__main__":
    main()
