"""Equivalence digest for the C17 optimisation (message passing / automated equation).

Run with cwd = a checkout of gcmpy:  /venv/bin/python /tmp/wt6/C17.out/equiv.py
Prints a deterministic transcript: bit-exact floats (repr), exception types and
messages, cache contents (in insertion order), mutated inputs and RNG states.
"""
import os
import sys

# str hashing is salted per process: pin it so that set orders over str vertices
# (which the library's floats depend on) are reproducible between runs.
if os.environ.get("PYTHONHASHSEED") != "0":
    os.environ["PYTHONHASHSEED"] = "0"
    os.execv(sys.executable, [sys.executable] + sys.argv)

sys.path.insert(0, os.getcwd())

import hashlib
import itertools
import random
import re

import numpy as np
import networkx as nx

from gcmpy.message_passing.message_passing import MessagePassing
from gcmpy.message_passing.message_passing_mixin import MessagePassingMixin
from gcmpy.message_passing.equations.automated_equation import AutomatedEquation

random.seed(1234)
np.random.seed(1234)

LINES = []


def out(*parts):
    line = " ".join(str(p) for p in parts)
    LINES.append(line)
    print(line)


def R(x):
    """bit-exact, order-preserving repr of nested results"""
    if isinstance(x, float):
        return repr(x) + "/" + x.hex()
    if isinstance(x, (np.floating,)):
        return "np:" + repr(float(x)) + "/" + float(x).hex()
    if isinstance(x, dict):
        return "{" + ", ".join(f"{R(k)}: {R(v)}" for k, v in x.items()) + "}"
    if isinstance(x, (list, tuple)):
        o, c = ("[", "]") if isinstance(x, list) else ("(", ")")
        return o + ", ".join(R(v) for v in x) + c
    if isinstance(x, (set, frozenset)):
        # iteration order of the sets is observable downstream (list(c) keys)
        return "set<" + ", ".join(R(v) for v in x) + ">"
    return type(x).__name__ + ":" + repr(x)


def call(tag, fn, *a, **k):
    try:
        res = fn(*a, **k)
        out(tag, "->", R(res))
        return res
    except BaseException as exc:  # noqa
        out(tag, "!!", type(exc).__name__, repr(re.sub(r"0x[0-9a-fA-F]+", "0xADDR", str(exc))))
        return None


def graph_digest(G):
    return R(
        [
            type(G).__name__,
            dict(G.graph),
            [(n, dict(d)) for n, d in G.nodes(data=True)],
            [tuple(e[:2]) + (dict(e[-1]),) for e in G.edges(data=True)],
            {n: list(G.adj[n]) for n in G},
        ]
    )


def ae_digest(AE):
    return R([AE._connected_subgraphs, AE._edge_combinations])


def rng_digest():
    h = hashlib.sha256()
    h.update(repr(random.getstate()).encode())
    st = np.random.get_state()
    h.update(repr((st[0], st[1].tolist(), st[2], st[3], st[4])).encode())
    return h.hexdigest()


# --------------------------------------------------------------------------- #
# helpers to build covered networks
# --------------------------------------------------------------------------- #
def clique_edges(vs):
    return [(a, b) for a, b in itertools.combinations(vs, 2)]


def cycle_edges(vs):
    return [(vs[i], vs[(i + 1) % len(vs)]) for i in range(len(vs))]


def covered_graph(motifs, extra_nodes=(), as_tuple=False):
    """motifs: list of (key, vertices, edges). Adds edges motif by motif."""
    G = nx.Graph()
    for uid, (key, vs, es) in enumerate(motifs):
        vs_l = tuple(vs) if as_tuple else list(vs)
        label = f"{key}-{vs_l}-{list(es)}-{uid}"
        for (a, b) in es:
            G.add_edge(a, b, CoverLabel=label)
    G.add_nodes_from(extra_nodes)
    return G


def random_cover(n, n_motifs, rng):
    """random edge-disjoint cover of cliques/cycles/diamonds on n vertices"""
    used = set()
    motifs = []
    tries = 0
    while len(motifs) < n_motifs and tries < 2000:
        tries += 1
        kind = rng.choice(["2", "3", "4c", "4k", "dia", "5c"])
        size = {"2": 2, "3": 3, "4c": 4, "4k": 4, "dia": 4, "5c": 5}[kind]
        vs = rng.sample(range(n), size)
        if kind in ("2", "3", "4k"):
            es = clique_edges(vs)
        elif kind in ("4c", "5c"):
            es = cycle_edges(vs)
        else:
            es = cycle_edges(vs) + [(vs[0], vs[2])]
        keyset = {frozenset(e) for e in es}
        if keyset & used:
            continue
        used |= keyset
        motifs.append((kind if kind.isdigit() else str(size) + kind[-1], vs, es))
    return motifs


# --------------------------------------------------------------------------- #
# 1. the mixin (unchanged file, but every path below goes through it)
# --------------------------------------------------------------------------- #
out("== mixin")
Gm = covered_graph([("3", [0, 1, 2], clique_edges([0, 1, 2])), ("2", [2, 3], [(2, 3)])])
M = MessagePassingMixin("motif cover", Gm)
for lab in [
    Gm.edges[0, 1]["CoverLabel"],
    Gm.edges[2, 3]["CoverLabel"],
    "7-[1, 2]-[(1, 2)]-12",
    "7-[-1, 2]-[(-1, 2)]-12",
    "nodash",
    "a-b",
    "",
    None,
]:
    for name in ("get_motif_topology", "get_motif_ID", "get_vertices_in_motif", "get_edges_in_motif"):
        call(f"mixin.{name}({lab!r})", getattr(M, name), lab)
call("mixin.label(0,1)", M.get_edge_cover_label, 0, 1)
call("mixin.label(1,0)", M.get_edge_cover_label, 1, 0)
call("mixin.label(0,3)", M.get_edge_cover_label, 0, 3)

# --------------------------------------------------------------------------- #
# 2. AutomatedEquation pieces, directly
# --------------------------------------------------------------------------- #
out("== automated equation")


def with_us(G, us=None, name=None):
    if us is None:
        us = {n: 0.3 + 0.6 * random.random() for n in G.nodes()}
    nx.set_node_attributes(G, us, "u")
    if name is not None:
        G.name = name
    return G


def diamond():
    G = nx.Graph()
    G.add_edges_from([(0, 1), (1, 2), (2, 3), (3, 0), (0, 2)])
    return G


def bowtie():
    G = nx.Graph()
    G.add_edges_from([(0, 1), (1, 2), (2, 0), (2, 3), (3, 4), (4, 2)])
    return G


def strnodes():
    G = nx.Graph()
    G.add_edges_from([("a", "b"), ("b", "c"), ("c", "a"), ("c", "d")])
    return G


def selfloop():
    G = nx.Graph()
    G.add_edges_from([(0, 1), (1, 2), (2, 0), (1, 1)])
    return G


def multi():
    G = nx.MultiGraph()
    G.add_edges_from([(0, 1), (0, 1), (1, 2), (2, 0)])
    return G


def digraph():
    G = nx.DiGraph()
    G.add_edges_from([(0, 1), (1, 2), (2, 0)])
    return G


def isolated_extra():
    G = nx.Graph()
    G.add_edges_from([(0, 1), (1, 2)])
    G.add_node(9)
    return G


makers = [
    ("K2", lambda: nx.complete_graph(2)),
    ("K3", lambda: nx.complete_graph(3)),
    ("K4", lambda: nx.complete_graph(4)),
    ("K5", lambda: nx.complete_graph(5)),
    ("C4", lambda: nx.cycle_graph(4)),
    ("C5", lambda: nx.cycle_graph(5)),
    ("C6", lambda: nx.cycle_graph(6)),
    ("P4", lambda: nx.path_graph(4)),
    ("star4", lambda: nx.star_graph(4)),
    ("diamond", diamond),
    ("bowtie", bowtie),
    ("strnodes", strnodes),
    ("selfloop", selfloop),
    ("multi", multi),
    ("digraph", digraph),
    ("isolated_extra", isolated_extra),
    ("single", lambda: nx.empty_graph(1)),
    ("K33", lambda: nx.complete_bipartite_graph(3, 3)),
    ("wheel5", lambda: nx.wheel_graph(5)),
]

PS = [0.0, 1.0, 0.5645231765, 0.1, 0.9, 1e-12, 0.3333333333333333]

for name, mk in makers:
    AE = AutomatedEquation()  # one object: repeated calls, shared caches
    G = with_us(mk(), name=name)
    before = graph_digest(G)
    roots = list(G.nodes())
    for root in roots[:3] + roots[-1:]:
        call(f"{name}.subgraphs(root={root!r})", AE.get_connected_subgraphs, G, root)
        call(f"{name}.subgraphs-again(root={root!r})", AE.get_connected_subgraphs, G, root)
        call(f"{name}.get_us(root={root!r})", AE.get_us, G, root)
        for p in PS:
            call(f"{name}.eq(p={p!r},root={root!r})", AE.automated_equation, G, p, root)
        for p in reversed(PS[:3]):
            call(f"{name}.eq-again(p={p!r},root={root!r})", AE.automated_equation, G, p, root)
    call(f"{name}.edge_combinations(whole)", AE.get_edge_combinations, G, roots)
    call(f"{name}.edge_combinations(whole) again", AE.get_edge_combinations, G, roots)
    out(f"{name}.cache", ae_digest(AE))
    out(f"{name}.G-unchanged", before == graph_digest(G), hashlib.sha256(graph_digest(G).encode()).hexdigest())
    # fresh object, reversed order of p -> must agree with the shared object
    AE2 = AutomatedEquation()
    for p in reversed(PS):
        call(f"{name}.fresh-eq(p={p!r},root={roots[0]!r})", AE2.automated_equation, G, p, roots[0])

# raw recursion helper with hand-made arguments
out("== _get_connected_subgraphs raw")
AE = AutomatedEquation()
for name, mk in makers[:12]:
    G = mk()
    r0 = list(G.nodes())[0]
    for max_size in (1, 2, len(G)):
        res = []
        call(f"raw {name} max={max_size}", AE._get_connected_subgraphs, G, {r0}, set(G.neighbors(r0)), {r0}, res, max_size)
        out(f"raw {name} max={max_size} results", R(res))
    res = []
    call(f"raw {name} excluded-extra", AE._get_connected_subgraphs, G, {r0}, set(G.nodes()), {r0, list(G.nodes())[-1]}, res, len(G))
    out(f"raw {name} excluded-extra results", R(res))

# edge combinations on graphs that are disconnected / too sparse / empty / directed
out("== get_edge_combinations edge cases")
AE = AutomatedEquation()


def two_comp():
    G = nx.Graph()
    G.add_edges_from([(0, 1), (2, 3)])
    return G


def sparse_di():
    G = nx.DiGraph()
    G.add_nodes_from(range(4))
    G.add_edge(0, 1)
    return G


def multi_sparse():
    G = nx.MultiGraph()
    G.add_nodes_from(range(4))
    G.add_edges_from([(0, 1), (0, 1), (0, 1)])
    return G


def loops_only():
    G = nx.Graph()
    G.add_edges_from([(0, 0), (1, 1), (0, 1)])
    return G


for name, mk in [
    ("two_comp", two_comp),
    ("empty0", lambda: nx.Graph()),
    ("empty3", lambda: nx.empty_graph(3)),
    ("sparse_di", sparse_di),
    ("multi_sparse", multi_sparse),
    ("loops_only", loops_only),
    ("K4", lambda: nx.complete_graph(4)),
    ("petersen-ish", lambda: nx.cycle_graph(7)),
    ("ladder3", lambda: nx.ladder_graph(3)),
]:
    G = mk()
    G.name = name
    before = graph_digest(G)
    call(f"ec {name}", AE.get_edge_combinations, G, list(G.nodes()))
    call(f"ec {name} again", AE.get_edge_combinations, G, list(G.nodes()))
    call(f"ec {name} other-c", AE.get_edge_combinations, G, [0])
    out(f"ec {name} unchanged", before == graph_digest(G))
out("ec cache", ae_digest(AE))

# error paths and cache-key sharing of automated_equation
out("== automated_equation error / aliasing paths")
AE = AutomatedEquation()
G = nx.complete_graph(3)
G.name = "nou"
call("no-u", AE.automated_equation, G, 0.5, 0)
out("no-u cache", ae_digest(AE))
G = with_us(nx.complete_graph(3), name="partial-u")
del G.nodes[2]["u"]
call("partial-u root0", AE.automated_equation, G, 0.5, 0)
call("partial-u root2", AE.automated_equation, G, 0.5, 2)
out("partial-u cache", ae_digest(AE))
G = with_us(nx.complete_graph(3), name="badroot")
call("root-missing", AE.automated_equation, G, 0.5, 17)
call("root-unhashable", AE.automated_equation, G, 0.5, [0])
call("p-none", AE.automated_equation, G, None, 0)
call("p-str", AE.automated_equation, G, "x", 0)
call("p-none-again", AE.automated_equation, G, None, 0)
call("p-int0", AE.automated_equation, G, 0, 0)
call("p-int1", AE.automated_equation, G, 1, 0)
call("p-np", AE.automated_equation, G, np.float64(0.25), 0)
call("p-neg", AE.automated_equation, G, -0.5, 0)
call("p-2", AE.automated_equation, G, 2.0, 0)
call("p-nan", AE.automated_equation, G, float("nan"), 0)
call("p-complex", AE.automated_equation, G, 0.5 + 0.25j, 0)
out("badroot cache", ae_digest(AE))
# same name, different graph: cached structures of the first one are reused
A = with_us(nx.complete_graph(3), {0: 0.2, 1: 0.4, 2: 0.6}, name="same")
B = with_us(nx.path_graph(3), {0: 0.25, 1: 0.45, 2: 0.65}, name="same")
C = with_us(nx.path_graph(2), {0: 0.25, 1: 0.45}, name="same")
AE = AutomatedEquation()
call("alias A", AE.automated_equation, A, 0.4, 0)
call("alias B", AE.automated_equation, B, 0.4, 0)
call("alias C", AE.automated_equation, C, 0.4, 0)
AE = AutomatedEquation()
call("alias C first", AE.automated_equation, C, 0.4, 0)
call("alias B second", AE.automated_equation, B, 0.4, 0)
call("alias A third", AE.automated_equation, A, 0.4, 0)
out("alias cache", ae_digest(AE))
# unnamed graphs share keys too
AE = AutomatedEquation()
call("unnamed K3", AE.automated_equation, with_us(nx.complete_graph(3), {0: 0.1, 1: 0.2, 2: 0.3}), 0.7, 1)
call("unnamed C4", AE.automated_equation, with_us(nx.cycle_graph(4), {0: 0.1, 1: 0.2, 2: 0.3, 3: 0.4}), 0.7, 1)
out("unnamed cache", ae_digest(AE))
# u values of other kinds
G = with_us(nx.complete_graph(3), {0: 1, 1: 2, 2: 3}, name="int-u")
call("int-u", AE.automated_equation, G, 0.5, 0)
call("int-u get_us", AE.get_us, G, 0)
G = with_us(nx.complete_graph(3), {0: None, 1: 0.5, 2: 0.5}, name="none-u")
call("none-u root0", AE.automated_equation, G, 0.5, 0)
call("none-u root1", AE.automated_equation, G, 0.5, 1)
call("get_us empty", AE.get_us, nx.Graph(), 0)
call("get_us root-absent", AE.get_us, with_us(nx.path_graph(3), {0: 0.5, 1: 0.25, 2: 0.125}), 99)

# --------------------------------------------------------------------------- #
# 3. MessagePassing on covered networks
# --------------------------------------------------------------------------- #
out("== message passing")
rng = random.Random(99)

networks = {
    "edge": [("2", [0, 1], [(0, 1)])],
    "path3": [("2", [0, 1], [(0, 1)]), ("2", [1, 2], [(1, 2)])],
    "triangle": [("3", [0, 1, 2], clique_edges([0, 1, 2]))],
    "bowtie": [("3", [0, 1, 2], clique_edges([0, 1, 2])), ("3", [2, 3, 4], clique_edges([2, 3, 4]))],
    "tri+tails": [
        ("3", [0, 1, 2], clique_edges([0, 1, 2])),
        ("2", [0, 3], [(0, 3)]),
        ("2", [1, 4], [(1, 4)]),
        ("2", [4, 5], [(4, 5)]),
    ],
    "k4+c4": [
        ("4", [0, 1, 2, 3], clique_edges([0, 1, 2, 3])),
        ("4c", [3, 4, 5, 6], cycle_edges([3, 4, 5, 6])),
        ("2", [6, 0], [(6, 0)]),
    ],
    "diamond+tri": [
        ("dia", [0, 1, 2, 3], cycle_edges([0, 1, 2, 3]) + [(0, 2)]),
        ("3", [3, 4, 5], clique_edges([3, 4, 5])),
        ("3", [1, 5, 6], clique_edges([1, 5, 6])),
    ],
    "two-components": [
        ("3", [0, 1, 2], clique_edges([0, 1, 2])),
        ("2", [10, 11], [(10, 11)]),
    ],
    "tree": [("2", [a, b], [(a, b)]) for a, b in nx.random_labeled_tree(12, seed=5).edges()]
    if hasattr(nx, "random_labeled_tree")
    else [("2", [a, b], [(a, b)]) for a, b in nx.balanced_tree(2, 3).edges()],
    "random-18": random_cover(18, 14, rng),
    "random-30": random_cover(30, 28, rng),
    "random-40-sparse": random_cover(40, 16, rng),
}

PHIS = [0.0, 0.15, 0.5, 0.85, 1.0, 0.3333333333333333]


def mp_state(mp):
    return hashlib.sha256(
        R([mp._H_tau, mp._AE._connected_subgraphs, mp._AE._edge_combinations, getattr(mp, "_phi", "unset")]).encode()
    ).hexdigest()


for name, motifs in networks.items():
    for as_tuple in (False, True):
        if as_tuple and name not in ("bowtie", "random-18"):
            continue
        extra = (100, 101) if name in ("triangle", "random-18") else ()
        G = covered_graph(motifs, extra_nodes=extra, as_tuple=as_tuple)
        tag = f"mp[{name}{'/tuple' if as_tuple else ''}]"
        before = graph_digest(G)
        iters = 6 if G.number_of_edges() > 40 else 9
        mp = MessagePassing(G, iterations=iters)
        out(tag, "state0", mp_state(mp))
        shared = []
        for phi in PHIS:
            shared.append(call(f"{tag} shared phi={phi!r}", mp.theoretical, phi))
            out(tag, "H_tau", R(mp._H_tau) if len(G) <= 7 else mp_state(mp))
        # any order, repeated
        order = PHIS[::-1] + [PHIS[2], PHIS[2], PHIS[0], PHIS[4], PHIS[1]]
        for phi in order:
            call(f"{tag} shared-again phi={phi!r}", mp.theoretical, phi)
        out(tag, "state-after", mp_state(mp))
        out(tag, "ae-cache-keys", R(list(mp._AE._connected_subgraphs)), R(list(mp._AE._edge_combinations)))
        # fresh objects
        for phi in PHIS[1:4]:
            fresh = MessagePassing(G, iterations=iters)
            call(f"{tag} fresh phi={phi!r}", fresh.theoretical, phi)
        # fewer / zero / one iterations, default cover type argument
        for it in (0, 1, 2):
            m2 = MessagePassing(G, "motif cover", it)
            call(f"{tag} iterations={it} phi=0.6", m2.theoretical, 0.6)
            out(tag, f"iterations={it} state", mp_state(m2))
        # the single-step entry points on a used object
        i, j = list(G.edges())[0]
        lab = G.edges[i, j]["CoverLabel"]
        call(f"{tag} calculate_H_tau({i})", mp.calculate_H_tau, i, lab)
        call(f"{tag} calculate_H_tau({j})", mp.calculate_H_tau, j, lab)
        call(f"{tag} calculate_H_tau(absent focal)", mp.calculate_H_tau, 12345, lab)
        vs = mp._MPM.get_vertices_in_motif(lab)
        call(
            f"{tag} resolve_equation",
            mp.resolve_equation,
            i,
            lab,
            {v: 0.25 + 0.5 * k / len(vs) for k, v in enumerate(vs) if v != i},
        )
        out(tag, "state-end", mp_state(mp))
        out(tag, "G-unchanged", before == graph_digest(G))

# error paths of the message passing object
out("== message passing error paths")
call("empty graph", MessagePassing(nx.Graph()).theoretical, 0.5)
call("nodes only", MessagePassing(nx.empty_graph(4)).theoretical, 0.5)
Gu = nx.path_graph(3)
mpu = MessagePassing(Gu)
call("unlabelled", mpu.theoretical, 0.5)
out("unlabelled state", mp_state(mpu))
Gh = nx.Graph()
Gh.add_edge(0, 1, CoverLabel="2-[0, 1]-[(0, 1)]-0")
Gh.add_edge(1, 2)
mph = MessagePassing(Gh, iterations=3)
call("half-labelled", mph.theoretical, 0.5)
out("half-labelled state", mp_state(mph), R(mph._H_tau))
Gb = nx.Graph()
Gb.add_edge(0, 1, CoverLabel="2-[0, 1]-[(0, 1)]-zero")
call("bad id", MessagePassing(Gb, iterations=2).theoretical, 0.5)
Gb = nx.Graph()
Gb.add_edge(0, 1, CoverLabel="2-[0, 1, 7]-[(0, 1)]-0")
mpb = MessagePassing(Gb, iterations=2)
call("vertex-not-in-graph", mpb.theoretical, 0.5)
out("vertex-not-in-graph state", mp_state(mpb), R(mpb._H_tau))
Gb = nx.Graph()
Gb.add_edge(0, 1, CoverLabel="2-[0, 1]-[(0, 1), (1, 5)]-0")
mpb = MessagePassing(Gb, iterations=2)
call("edge-vertex-without-u", mpb.theoretical, 0.5)
out("edge-vertex-without-u state", mp_state(mpb), R(mpb._H_tau))
Gb = nx.Graph()
Gb.add_edge(0, 1, CoverLabel="2-[]-[(0, 1)]-0")
mpb = MessagePassing(Gb, iterations=2)
call("empty vertex list", mpb.theoretical, 0.5)
out("empty vertex list state", mp_state(mpb), R(mpb._H_tau))
Gb = nx.Graph()
Gb.add_edge(0, 1, CoverLabel="2-5-[(0, 1)]-0")
mpb = MessagePassing(Gb, iterations=2)
call("vertex list is int", mpb.theoretical, 0.5)
Gb = nx.Graph()
Gb.add_edge(0, 1, CoverLabel="2-[[0], [1]]-[(0, 1)]-0")
mpb = MessagePassing(Gb, iterations=2)
call("vertex list unhashable", mpb.theoretical, 0.5)
Gb = nx.Graph()
Gb.add_edge(0, 1, CoverLabel=None)
call("label None", MessagePassing(Gb, iterations=2).theoretical, 0.5)
Gt = covered_graph(networks["bowtie"])
mpt = MessagePassing(Gt, iterations=4)
call("phi None", mpt.theoretical, None)
out("phi None state", mp_state(mpt))
call("phi after None", mpt.theoretical, 0.5)
call("phi str", mpt.theoretical, "0.5")
call("phi np", mpt.theoretical, np.float64(0.5))
call("phi int 1", mpt.theoretical, 1)
call("phi >1", mpt.theoretical, 1.5)
call("phi after all", mpt.theoretical, 0.5)
out("phi-mix state", mp_state(mpt))
mpc = MessagePassing(Gt, iterations=4)
call("calculate_H_tau before theoretical", mpc.calculate_H_tau, 0, Gt.edges[0, 1]["CoverLabel"])
out("pre-theoretical state", mp_state(mpc), R(mpc._H_tau))
# network edited between queries on one object (labels are read at query time)
Ge = covered_graph(networks["tri+tails"])
mpe = MessagePassing(Ge, iterations=5)
call("edit: before", mpe.theoretical, 0.6)
Ge.add_edge(5, 6, CoverLabel="2-[5, 6]-[(5, 6)]-77")
call("edit: after add", mpe.theoretical, 0.6)
Ge.remove_edge(0, 3)
call("edit: after remove", mpe.theoretical, 0.6)
out("edit state", mp_state(mpe))

# monotone / range sanity on one of the random networks (pure reporting)
Gr = covered_graph(networks["random-18"])
mpr = MessagePassing(Gr, iterations=8)
vals = [mpr.theoretical(k / 10) for k in range(11)]
out("sweep", R(vals))

out("== rng")
out("rng-state", rng_digest())
out("next-draws", R(random.random()), R(float(np.random.random())))
out("transcript-sha256", hashlib.sha256("\n".join(LINES).encode()).hexdigest())
