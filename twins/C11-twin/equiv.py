"""
Deterministic digest of the MCMC rewiring code paths (property C11).
Run with cwd = a checkout of gcmpy:  /venv/bin/python /tmp/wt3/C11.out/equiv.py
"""
import os
import sys
import random
import hashlib

sys.path.insert(0, os.getcwd())

import numpy as np
import networkx as nx

from gcmpy.joint_degree.joint_degree_loaders.joint_degree_manual import (
    JointDegreeManual,
)
from gcmpy.motif_generators.clique_motif import clique_motif
from gcmpy.gcm_algorithm.gcm_algorithm_network import GCMAlgorithmNetwork
from gcmpy.names.gcm_algorithm_names import GCMAlgorithmNames
from gcmpy.names.joint_degree_names import JointDegreeNames
from gcmpy.names.network_names import NetworkNames
from gcmpy.names.tools_names import ToolsNames
from gcmpy.network.network import Network
from gcmpy.tools.joint_excess_joint_degree_matrices import (
    JointExcessJointDegreeMatrices,
)
from gcmpy.tools.markov_chain_monte_carlo import MarkovChainMonteCarlo
from gcmpy.tools.markov_chain_monte_carlo_rewiring import (
    MarkovChainMonteCarloRewiring,
    ErrorMarkovChainMonteCarloRewiring,
)
from gcmpy.tools.joint_excess_from_ejk import JointExcessFromEjk
from gcmpy.tools.joint_degree_from_excess import JointDegreeFromExcess
from gcmpy.tools.draw_set import DrawSet

T = NetworkNames.TOPOLOGY
M = NetworkNames.MOTIF_IDS
JD = NetworkNames.JOINT_DEGREE

EDGE_NAMES = ["2-clique", "3-clique"]
MOTIF_SIZES = [2, 3]


class DrawBudgetExhausted(Exception):
    ...


class Budget:
    """Deterministic guard against chains that cannot make progress: count the
    draws from the edge set and abort the run after a fixed number of them."""

    left = 0
    _orig_draw = DrawSet.draw

    @staticmethod
    def draw(self):
        if Budget.left <= 0:
            raise DrawBudgetExhausted()
        Budget.left -= 1
        return Budget._orig_draw(self)


DrawSet.draw = Budget.draw


class RecGraph(nx.Graph):
    """nx.Graph that remembers the last copy made of it (the chain's working copy)."""

    last = None

    def copy(self, as_view=False):
        H = super().copy(as_view)
        RecGraph.last = H
        return H


def guarded_rewire(mcmc, budget):
    Budget.left = budget
    try:
        return mcmc.rewire(), "done", Budget.left
    except DrawBudgetExhausted:
        return None, "budget exhausted", Budget.left


def seed(n):
    random.seed(n)
    np.random.seed(n)


def digest(obj) -> str:
    return hashlib.sha256(repr(obj).encode()).hexdigest()[:20]


def graph_state(G: nx.Graph):
    nodes = [(u, sorted((str(k), repr(v)) for k, v in d.items())) for u, d in G.nodes(data=True)]
    edges = [
        (u, v, sorted((str(k), repr(val)) for k, val in d.items()))
        for u, v, d in G.edges(data=True)
    ]
    # keep iteration order (adjacency order is observable) and a sorted view
    return nodes, edges, sorted((min(u, v), max(u, v), a) for u, v, a in edges)


def counters(mcmc):
    return (
        MarkovChainMonteCarlo._proposal_count,
        MarkovChainMonteCarlo._proposals_accepted,
        mcmc._proposal_count,
        mcmc._proposals_accepted,
        [round(x, 12) for x in mcmc._acceptance_ratio],
        len(mcmc._proposal_edges),
        [(p._topology, p._motif_id, p._new_edge) for p in mcmc._proposal_edges],
    )


def target_ejks(eps):
    ejk_tree = {
        (0, 3, 0, 3): 9 / 81 - 2 * eps,
        (0, 3, 4, 1): eps,
        (0, 3, 2, 2): eps,
        (4, 1, 0, 3): eps,
        (4, 1, 4, 1): 45 / 81 - 2 * eps,
        (4, 1, 2, 2): eps,
        (2, 2, 0, 3): eps,
        (2, 2, 4, 1): eps,
        (2, 2, 2, 2): 27 / 81 - 2 * eps,
    }
    ejk_tri = {
        (3, 1, 3, 1): 48 / 144 - 2 * eps,
        (3, 1, 1, 2): eps,
        (3, 1, 5, 0): eps,
        (1, 2, 3, 1): eps,
        (1, 2, 1, 2): 72 / 144 - 2 * eps,
        (1, 2, 5, 0): eps,
        (5, 0, 3, 1): eps,
        (5, 0, 1, 2): eps,
        (5, 0, 5, 0): 24 / 144 - 2 * eps,
    }
    return JointExcessJointDegreeMatrices(
        {
            ToolsNames.EDGE_NAMES: EDGE_NAMES,
            ToolsNames.EJKS: {"2-clique": ejk_tree, "3-clique": ejk_tri},
        }
    )


def build_network(ejk_target, n):
    qks = JointExcessFromEjk.get_excess_joint_distributions(ejk_target)
    jdd = JointDegreeFromExcess.get_joint_degree_distribution(qks, EDGE_NAMES)
    D = JointDegreeManual(
        {JointDegreeNames.JDD: jdd, JointDegreeNames.MOTIF_SIZES: MOTIF_SIZES}
    )
    jds = D.sample_jds_from_jdd(n)
    params = {
        GCMAlgorithmNames.MOTIF_SIZES: MOTIF_SIZES,
        GCMAlgorithmNames.EDGE_NAMES: EDGE_NAMES,
        GCMAlgorithmNames.BUILD_FUNCTIONS: [clique_motif, clique_motif],
    }
    return GCMAlgorithmNetwork(params).random_clustered_graph(jds)


def run_rewire(label, s, n, eps, extra):
    seed(s)
    ejk = target_ejks(eps)
    g = build_network(ejk, n)
    before = graph_state(g.G)
    params = {ToolsNames.NETWORK: g, ToolsNames.EJKS: ejk}
    params.update(extra)
    mcmc = MarkovChainMonteCarloRewiring(params)
    print(label, "limits", mcmc.convergence_limit, mcmc.search_limit)
    seed(s + 1)
    G, status, left = guarded_rewire(mcmc, 3000000)
    print(label, "status", status, left)
    after_input = graph_state(g.G)
    print(label, "input untouched", before == after_input, G is not g.G)
    print(label, "input", digest(before))
    if G is not None:
        print(label, "output", digest(graph_state(G)), G.number_of_nodes(), G.number_of_edges())
    print(label, "counters", digest(counters(mcmc)), counters(mcmc)[:4])
    print(label, "rng", random.random(), float(np.random.random()))
    # second call on the same object (call history)
    G2, status, left = guarded_rewire(mcmc, 3000000)
    print(label, "status2", status, left)
    if G2 is not None:
        print(label, "output2", digest(graph_state(G2)))
    print(label, "counters2", digest(counters(mcmc)), counters(mcmc)[:4])
    print(label, "rng2", random.random())


def hand_made():
    """Two triangles plus two tree edges, hand-annotated; exercise the helpers."""
    net = Network()
    net.G = RecGraph()
    G = net.G
    tri = "3-clique"
    tree = "2-clique"
    for u in range(10):
        G.add_node(u)
    edges = [
        (0, 1, tri, 0), (1, 2, tri, 0), (0, 2, tri, 0),
        (3, 4, tri, 1), (4, 5, tri, 1), (3, 5, tri, 1),
        (0, 6, tree, 2), (3, 7, tree, 3), (8, 9, tree, 4), (2, 3, tree, 5),
    ]
    for u, v, t, m in edges:
        G.add_edge(u, v)
        G.edges[u, v][T] = t
        G.edges[u, v][M] = m
    for u in G.nodes():
        jd = [0, 0]
        for e in G.edges(u):
            jd[0 if G.edges[e][T] == tree else 1] += 1
        jd[1] //= 2
        G.nodes[u][JD] = tuple(jd)

    ejk = JointExcessJointDegreeMatrices(
        {
            ToolsNames.EDGE_NAMES: EDGE_NAMES,
            ToolsNames.EJKS: {
                tree: {
                    (a, b, c, d): 0.05 + 0.01 * (a + 2 * b + 3 * c + 5 * d)
                    for a in range(3) for b in range(2) for c in range(3) for d in range(2)
                },
                tri: {
                    (a, b, c, d): 0.07 + 0.01 * (2 * a + b + 5 * c + 3 * d)
                    for a in range(3) for b in range(2) for c in range(3) for d in range(2)
                },
            },
        }
    )
    mcmc = MarkovChainMonteCarloRewiring(
        {ToolsNames.NETWORK: net, ToolsNames.EJKS: ejk}
    )
    print("hand limits", mcmc.convergence_limit, mcmc.search_limit)

    out = []
    for (u, v, t, m) in edges:
        for u0, e in ((u, (u, v)), (v, (u, v)), (v, (v, u))):
            out.append(("all", u0, e, mcmc.get_all_edges(G, u0, e)))
    print("hand get_all_edges", digest(out), out[:4])

    corners = {}
    for (u, v, t, m) in edges:
        for u0 in (u, v):
            corners[(u0, m)] = mcmc.get_all_edges(G, u0, (u, v))
    hm = [(k, list(mcmc.get_hashmap(G, es).items())) for k, es in corners.items()]
    print("hand get_hashmap", digest(hm), hm[:2])
    mixed = mcmc.get_hashmap(G, [(0, 1), (0, 6), (0, 2), (3, 7)])
    print("hand get_hashmap mixed", list(mixed.items()))

    suit = []
    keys = list(corners)
    for a in keys:
        for b in keys:
            suit.append(
                (a, b, mcmc.is_edge_choice_suitable(G, a[0], b[0], corners[a], corners[b]))
            )
    print("hand suitable", digest(suit), sum(1 for x in suit if x[2]), len(suit))
    # mismatching topologies / sizes
    print(
        "hand suitable mixed",
        mcmc.is_edge_choice_suitable(G, 0, 3, [(0, 1), (0, 6)], [(3, 4), (3, 5)]),
        mcmc.is_edge_choice_suitable(G, 0, 3, [(0, 1), (0, 6)], [(3, 4), (3, 7)]),
        mcmc.is_edge_choice_suitable(G, 0, 3, [(0, 1), (0, 2), (0, 6)], [(3, 4), (3, 7), (3, 2)]),
        mcmc.is_edge_choice_suitable(G, 0, 3, [(0, 1)], [(3, 4), (3, 5)]),
    )

    keys_out = []
    for (u, v, t, m) in edges:
        for index in (0, 1):
            keys_out.append(mcmc.get_joint_excess_degree_key(G, (u, v), index))
            keys_out.append(mcmc.get_joint_excess_degree_key(G, (v, u), index))
    print("hand excess keys", digest(keys_out), keys_out[:3])
    view = mcmc.get_swapped_joint_excess_degree_key(G, (0, 1), (4, 3), 0, 3, 1)
    print(
        "hand swapped view", view._keys, view.get_u0v1(), view.get_v0u1(),
        view.get_u0u1(), view.get_v1v0(),
    )
    print("hand jd untouched", [G.nodes[u][JD] for u in G.nodes()])

    sw = []
    seed(7)
    for a in keys:
        for b in keys:
            if not mcmc.is_edge_choice_suitable(G, a[0], b[0], corners[a], corners[b]):
                continue
            try:
                r = mcmc.swap_condition(G, corners[a], corners[b], a[0], b[0])
            except ErrorMarkovChainMonteCarloRewiring as err:
                r = "ERR " + str(err)
            sw.append(
                (a, b, r, type(r).__name__,
                 [(p._topology, p._motif_id, p._new_edge) for p in mcmc._proposal_edges])
            )
    print("hand swap_condition", digest(sw), len(sw), sw[:2])
    print("hand counters", counters(mcmc)[:4], random.random())

    for s in (11, 12, 13):
        seed(s)
        mcmc.convergence_limit = 6
        before = graph_state(G)
        H, status, left = guarded_rewire(mcmc, 20000)
        W = RecGraph.last  # working copy of the chain, also available after an aborted run
        print("hand rewire", s, status, left, H is W, before == graph_state(G), graph_state(W)[1])
        print("hand rewire deg", s, sorted(dict(W.degree()).items()), counters(mcmc), random.random())

    for bad in ({}, {ToolsNames.NETWORK: net}, {ToolsNames.NETWORK: None, ToolsNames.EJKS: ejk},
                {ToolsNames.NETWORK: None, ToolsNames.EJKS: ejk, ToolsNames.CONVERGENCE_LIMIT: 3}):
        try:
            m = MarkovChainMonteCarloRewiring(bad)
            print("ctor ok", m.convergence_limit, m.search_limit, m.network)
        except ErrorMarkovChainMonteCarloRewiring as err:
            print("ctor error", " ".join(str(err).split()))
    try:
        mcmc.get_other_vertex(9, (0, 1))
    except ErrorMarkovChainMonteCarloRewiring as err:
        print("other vertex error", " ".join(str(err).split()))


if __name__ == "__main__":
    hand_made()
    run_rewire("A", 101, 600, 1e-8, {ToolsNames.SEARCH_LIMIT: 20, ToolsNames.CONVERGENCE_LIMIT: 150})
    run_rewire("B", 202, 900, 1e-3, {ToolsNames.CONVERGENCE_LIMIT: 400})
    run_rewire("C", 303, 150, 2e-2, {})
    run_rewire("D", 404, 400, 1e-2, {ToolsNames.SEARCH_LIMIT: 5, ToolsNames.CONVERGENCE_LIMIT: 0})
