import sys, os; sys.path.insert(0, os.getcwd())

# str hashes feed set iteration orders: pin them so that two runs are comparable
if os.environ.get("PYTHONHASHSEED") != "0":
    os.environ["PYTHONHASHSEED"] = "0"
    os.execv(sys.executable, [sys.executable] + sys.argv)

import hashlib
import logging
import random
import signal
import warnings

warnings.simplefilter("ignore")

import networkx as nx
import numpy as np

from gcmpy.joint_degree.joint_degree_loaders.joint_degree_manual import (
    JointDegreeManual,
)
from gcmpy.motif_generators.clique_motif import clique_motif
from gcmpy.gcm_algorithm.gcm_algorithm_network import GCMAlgorithmNetwork
from gcmpy.names.gcm_algorithm_names import GCMAlgorithmNames
from gcmpy.names.joint_degree_names import JointDegreeNames
from gcmpy.names.network_names import NetworkNames
from gcmpy.names.tools_names import ToolsNames
from gcmpy.network.network import Network
from gcmpy.tools.joint_excess_joint_degree_matrices import (
    JointExcessJointDegreeMatrices,
)
from gcmpy.tools.joint_excess_joint_degree_keys_view import (
    JointExcessJointDegreeKeysView,
)
from gcmpy.tools.markov_chain_monte_carlo import MarkovChainMonteCarlo
from gcmpy.tools.markov_chain_monte_carlo_rewiring import (
    MarkovChainMonteCarloRewiring,
    ErrorMarkovChainMonteCarloRewiring,
)
from gcmpy.tools.joint_excess_from_ejk import JointExcessFromEjk
from gcmpy.tools.joint_degree_from_excess import JointDegreeFromExcess
from gcmpy.tools.joint_excess_joint_degree import JointExcessJointDegree
from gcmpy.tools.proposal_edge import ProposalEdge

EDGE_NAMES = ["2-clique", "3-clique"]
WATCHDOG_SECONDS = 150


class Watchdog(BaseException):
    pass


def _on_alarm(signum, frame):
    raise Watchdog()


signal.signal(signal.SIGALRM, _on_alarm)


def seed_all(seed):
    random.seed(seed)
    np.random.seed(seed)


def rng_digest():
    h = hashlib.sha256()
    h.update(repr(random.getstate()).encode())
    st = np.random.get_state()
    h.update(repr((st[0], st[1].tolist(), st[2], st[3], repr(st[4]))).encode())
    return h.hexdigest()[:24]


def show(value):
    """repr that is bit exact for floats and shows container / scalar types."""
    if isinstance(value, dict):
        return (
            type(value).__name__
            + "{"
            + ", ".join(f"{show(k)}: {show(v)}" for k, v in value.items())
            + "}"
        )
    if isinstance(value, (list, tuple, set, frozenset)):
        items = list(value)
        return type(value).__name__ + "[" + ", ".join(show(v) for v in items) + "]"
    if isinstance(value, (bool, np.bool_, float, np.floating, int, np.integer)):
        return f"{type(value).__name__}:{value!r}"
    if isinstance(value, ProposalEdge):
        return f"ProposalEdge({show(value.topology)}, {show(value.motif_id)}, {show(value.new_edge)})"
    if isinstance(value, nx.Graph):
        return "Graph:" + graph_digest(value)
    return repr(value)


def graph_dump(G):
    lines = []
    for n, d in G.nodes(data=True):
        lines.append(f"n {n!r} {show(dict((str(k), v) for k, v in d.items()))}")
    for u, v, d in G.edges(data=True):
        lines.append(f"e {u!r} {v!r} {show(dict((str(k), v) for k, v in d.items()))}")
    # adjacency iteration order matters to later draws
    for n in G.nodes():
        lines.append(f"a {n!r} {list(G.adj[n])!r}")
    return lines


def graph_digest(G):
    h = hashlib.sha256("\n".join(graph_dump(G)).encode()).hexdigest()[:24]
    return f"{G.number_of_nodes()}n/{G.number_of_edges()}e/{h}"


class Capture(logging.Handler):
    def __init__(self):
        super().__init__(level=logging.DEBUG)
        self.messages = []

    def emit(self, record):
        self.messages.append(record.getMessage())


COUNT = [0]


def run(label, fn, *args, **kwargs):
    COUNT[0] += 1
    signal.alarm(WATCHDOG_SECONDS)
    try:
        result = fn(*args, **kwargs)
        out = "-> " + show(result)
    except Watchdog:
        out = "!! WATCHDOG"
    except BaseException as e:  # noqa
        out = f"!! {type(e).__name__}: {e}"
    finally:
        signal.alarm(0)
    print(f"[{COUNT[0]:03d}] {label} {out}")
    return out


def counters(mcmc=None):
    s = f"class_counts=({MarkovChainMonteCarlo._proposal_count},{MarkovChainMonteCarlo._proposals_accepted})"
    if mcmc is not None:
        s += f" inst_counts=({mcmc._proposal_count},{mcmc._proposals_accepted})"
        s += f" ratio={show(mcmc._acceptance_ratio)}"
        s += f" limits=({mcmc.convergence_limit!r},{mcmc.search_limit!r})"
    return s


# ----------------------------------------------------------------------------
# network builders
# ----------------------------------------------------------------------------
def build_from_motifs(n_vertices, motifs, node_order=None):
    """motifs: list of (topology, vertices). Returns Network with annotated G."""
    G = nx.Graph()
    for v in node_order if node_order is not None else range(n_vertices):
        G.add_node(v)
    jd = {v: [0, 0] for v in G.nodes()}
    for motif_id, (topology, vertices) in enumerate(motifs):
        for v in vertices:
            jd[v][EDGE_NAMES.index(topology)] += 1
        for i, a in enumerate(vertices):
            for b in vertices[i + 1 :]:
                G.add_edge(a, b)
                G.edges[a, b][NetworkNames.TOPOLOGY] = topology
                G.edges[a, b][NetworkNames.MOTIF_IDS] = motif_id
    for v in G.nodes():
        G.nodes[v][NetworkNames.JOINT_DEGREE] = tuple(jd[v])
    net = Network()
    net.G = G
    return net


def hand_network():
    motifs = [
        ("3-clique", (0, 1, 2)),
        ("3-clique", (3, 4, 5)),
        ("3-clique", (6, 7, 8)),
        ("3-clique", (9, 10, 11)),
        ("3-clique", (12, 13, 0)),
        ("2-clique", (0, 3)),
        ("2-clique", (1, 6)),
        ("2-clique", (4, 7)),
        ("2-clique", (9, 12)),
        ("2-clique", (2, 9)),
        ("2-clique", (5, 10)),
        ("2-clique", (8, 11)),
        ("2-clique", (11, 13)),
        ("2-clique", (14, 15)),
        ("2-clique", (15, 6)),
        ("2-clique", (14, 3)),
        ("2-clique", (16, 17)),
        ("2-clique", (17, 12)),
        ("3-clique", (16, 14, 18)),
        ("3-clique", (18, 19, 5)),
        ("2-clique", (19, 1)),
        ("2-clique", (19, 7)),
    ]
    return build_from_motifs(20, motifs)


def random_motif_network(n, n_tri, n_edge, seed):
    rnd = random.Random(seed)
    motifs = []
    used = set()
    tries = 0
    while sum(1 for m in motifs if m[0] == "3-clique") < n_tri and tries < 10000:
        tries += 1
        vs = tuple(rnd.sample(range(n), 3))
        pairs = {frozenset(p) for p in ((vs[0], vs[1]), (vs[0], vs[2]), (vs[1], vs[2]))}
        if pairs & used:
            continue
        used |= pairs
        motifs.append(("3-clique", vs))
    tries = 0
    while sum(1 for m in motifs if m[0] == "2-clique") < n_edge and tries < 10000:
        tries += 1
        vs = tuple(rnd.sample(range(n), 2))
        if frozenset(vs) in used:
            continue
        used.add(frozenset(vs))
        motifs.append(("2-clique", vs))
    order = list(range(n))
    rnd.shuffle(order)
    return build_from_motifs(n, motifs, node_order=order)


def excess_keys_of(G):
    keys = {name: [] for name in EDGE_NAMES}
    for n in G.nodes():
        jd = G.nodes[n][NetworkNames.JOINT_DEGREE]
        for i, name in enumerate(EDGE_NAMES):
            if jd[i] > 0:
                k = list(jd)
                k[i] -= 1
                k = tuple(k)
                if k not in keys[name]:
                    keys[name].append(k)
    return {name: sorted(ks) for name, ks in keys.items()}


def target_for(G, mode, seed=0, as_numpy=False):
    """
    mode 'full': every pairing positive;  'assort': diagonal heavy, rest tiny;
    'holes': some pairings zero, some absent;  'uniform': all weights equal.
    """
    rnd = random.Random(seed)
    ejks = {}
    present = measured(G).ejks if mode == "holes_safe" else None
    for name, ks in excess_keys_of(G).items():
        m = {}
        for i, a in enumerate(ks):
            for j, b in enumerate(ks):
                if j < i:
                    continue
                if mode == "full":
                    w = 0.05 + rnd.random()
                elif mode == "uniform":
                    w = 1.0
                elif mode == "assort":
                    w = 1.0 + rnd.random() if i == j else 1e-3 * (1 + rnd.random())
                elif mode == "holes_safe":
                    # pairings the network has now stay allowed, others may be zero / absent
                    r = rnd.random()
                    if (a + b) in present[name]:
                        w = 0.1 + r
                    elif r < 0.3:
                        continue
                    else:
                        w = 0.0 if r < 0.6 else 0.1 + rnd.random()
                elif mode == "holes":
                    r = rnd.random()
                    if i != j and r < 0.25:
                        continue  # absent
                    w = 0.0 if (i != j and r < 0.5) else 0.1 + rnd.random()
                else:
                    raise ValueError(mode)
                m[a + b] = w
                m[b + a] = w
        total = sum(m.values())
        m = {k: v / total for k, v in m.items()}
        if as_numpy:
            m = {k: np.float64(v) for k, v in m.items()}
        ejks[name] = m
    return JointExcessJointDegreeMatrices(
        {ToolsNames.EDGE_NAMES: list(EDGE_NAMES), ToolsNames.EJKS: ejks}
    )


def measured(G):
    C = JointExcessJointDegree(
        {ToolsNames.NETWORK: G, ToolsNames.EDGE_NAMES: list(EDGE_NAMES)}
    )
    return C.get_ejks()


def distance(G, target):
    got = measured(G)
    out = []
    for name in EDGE_NAMES:
        keys = list(target.ejks[name])
        keys += [k for k in got.ejks[name] if k not in target.ejks[name]]
        d = 0.0
        for k in keys:
            d += abs(target.ejks[name].get(k, 0.0) - got.ejks[name].get(k, 0.0))
        out.append(d)
    return out


def new_mcmc(net, target, **limits):
    params = {ToolsNames.NETWORK: net, ToolsNames.EJKS: target}
    if "conv" in limits:
        params[ToolsNames.CONVERGENCE_LIMIT] = limits["conv"]
    if "search" in limits:
        params[ToolsNames.SEARCH_LIMIT] = limits["search"]
    mcmc = MarkovChainMonteCarloRewiring(params)
    cap = Capture()
    mcmc._logger.addHandler(cap)
    return mcmc, cap


# ----------------------------------------------------------------------------
print("== JointExcessJointDegreeKeysView")
keys = [(1, 0), (2, 1), (0, 3), (4, 4)]
view = JointExcessJointDegreeKeysView(keys)
GETTERS = ["get_u0u1", "get_u1u0", "get_v0v1", "get_v1v0", "get_u0v1", "get_v0u1"]
for g in GETTERS:
    run(g, getattr(view, g))
keys[3] = (9, 9, 9)  # the view keeps the caller's list
keys[0] = (7,)
for g in GETTERS:
    run(g + " after mutation", getattr(view, g))
print("keys now", keys)
for bad in ([(1, 2), (3, 4)], [], [(1,), [2], (3,), (4,)], ["ab", "cd", "ef", "gh"],
            [(1,), None, (3,), (4,)], {0: (1,), 1: (2,), 2: (3,), 3: (4,)}, None):
    v = run(f"construct {bad!r}", lambda b=bad: type(JointExcessJointDegreeKeysView(b)).__name__)
    try:
        bv = JointExcessJointDegreeKeysView(bad)
    except BaseException:
        continue
    for g in GETTERS:
        run(f"  {g} on {bad!r}", getattr(bv, g))
print("public attrs", sorted(a for a in dir(JointExcessJointDegreeKeysView) if not a.startswith("_")))

# ----------------------------------------------------------------------------
print("== JointExcessJointDegreeMatrices")
m0 = JointExcessJointDegreeMatrices()
print("empty", show(m0.ejks), show(m0.excess_degree_keys), show(m0.topology_names))
run("index on empty names", m0.get_topology_index, "2-clique")
run("keys on empty", m0.get_excess_degree_keys)
print("empty after", show(m0.excess_degree_keys))
raw = {
    "2-clique": {
        (0, 3, 0, 3): 0.25, (0, 3, 4, 1): 0.125, (4, 1, 0, 3): 0.125,
        (4, 1, 4, 1): 0.25, (2, 2, 2, 2): 0.25, (9, 9, 1, 0): 0.0,
    },
    "3-clique": {(3, 1, 3, 1): 0.5, (3, 1, 1, 2): 0.25, (1, 2, 3, 1): 0.25},
    "odd": {(1, 2, 3): 1.0, (): 0.0, (5,): 0.5, "abcd": 0.1, frozenset([1]): 0.2},
}
names = ["2-clique", "3-clique", "odd"]
m1 = JointExcessJointDegreeMatrices({ToolsNames.EJKS: raw, ToolsNames.EDGE_NAMES: names})
print("m1 keys", show(m1.excess_degree_keys))
print("m1 shares", m1.ejks is raw, m1.topology_names is names)
first = m1.excess_degree_keys
run("recompute", m1.get_excess_degree_keys)
print("recomputed same object", m1.excess_degree_keys is first, "equal", m1.excess_degree_keys == first)
print("m1 keys again", show(m1.excess_degree_keys))
raw["3-clique"][(5, 0, 5, 0)] = 0.1
raw["late"] = {(1, 1): 1.0}
run("recompute after mutation", m1.get_excess_degree_keys)
print("m1 keys mutated", show(m1.excess_degree_keys))
for t in ["2-clique", "3-clique", "odd", "late", None, 3]:
    run(f"index {t!r}", m1.get_topology_index, t)
m1.topology_names = ("x", "y", "x")
run("index x (tuple names, dup)", m1.get_topology_index, "x")
run("index z (tuple names)", m1.get_topology_index, "z")
m1.topology_names = iter(["p", "q"])
run("index q (iterator names)", m1.get_topology_index, "q")
run("index q again (iterator exhausted)", m1.get_topology_index, "q")
m1.ejks = {"a": {((1, 2), (3, 4)): 1.0}, "b": 5}
run("keys nested/bad", m1.get_excess_degree_keys)
print("after bad", show(m1.excess_degree_keys))
m1.excess_degree_keys = {"manual": [1]}
print("setter", show(m1.excess_degree_keys))
for bad in ({}, {ToolsNames.EJKS: {}}, {ToolsNames.EDGE_NAMES: []}, {"ejks": {}, "edge_names": []}):
    run(f"construct {sorted(str(k) for k in bad)}", lambda b=bad: show(JointExcessJointDegreeMatrices(b).excess_degree_keys))
big = {"t": {(i % 7, i % 5, (i * 3) % 11, i % 3): 1.0 for i in range(200)}}
m2 = JointExcessJointDegreeMatrices({ToolsNames.EJKS: big, ToolsNames.EDGE_NAMES: ["t"]})
print("big key order", show(m2.excess_degree_keys))

# ----------------------------------------------------------------------------
print("== constructor")
net = hand_network()
tgt_full = target_for(net.G, "full", seed=1)
for label, params in [
    ("no params", {}),
    ("no ejks", {ToolsNames.NETWORK: net}),
    ("defaults", {ToolsNames.NETWORK: net, ToolsNames.EJKS: tgt_full}),
    ("graph instead of network", {ToolsNames.NETWORK: net.G, ToolsNames.EJKS: tgt_full}),
    ("graph + limit", {ToolsNames.NETWORK: net.G, ToolsNames.EJKS: tgt_full, ToolsNames.CONVERGENCE_LIMIT: 3}),
    ("both limits", {ToolsNames.NETWORK: net, ToolsNames.EJKS: None, ToolsNames.CONVERGENCE_LIMIT: 0, ToolsNames.SEARCH_LIMIT: 0}),
    ("string keys", {"network": net, "ejks": tgt_full}),
]:
    def make(p=params):
        m = MarkovChainMonteCarloRewiring(p)
        return (m.convergence_limit, m.search_limit, m.network is p.get(ToolsNames.NETWORK), m.ejks is p.get(ToolsNames.EJKS))
    run(label, make)
run("params None", MarkovChainMonteCarloRewiring, None)

# ----------------------------------------------------------------------------
print("== helpers on the hand network")
seed_all(11)
mcmc, cap = new_mcmc(net, tgt_full, conv=5, search=10)
G = net.G
before = graph_digest(G)
for u, e in [(0, (0, 1)), (0, (1, 0)), (1, (0, 1)), (5, (0, 1)), (0, (0, 0)), (0, (0,)), (0, ()),
             (0, [2, 0]), (0, (0, 1, 2)), (2, (0, 1, 2)), ("a", "ab"), (1.0, (1, 2)), (0, None)]:
    run(f"get_other_vertex {u!r} {e!r}", mcmc.get_other_vertex, u, e)

for u0, edge in [(0, (0, 1)), (0, (1, 0)), (0, (0, 3)), (0, (0, 12)), (1, (0, 1)), (2, (0, 1)),
                 (3, (3, 14)), (19, (19, 18)), (19, (1, 19)), (5, (3, 4)), (0, (0, 7)), (99, (0, 1)), (0, (0, 99))]:
    run(f"get_all_edges u0={u0} edge={edge}", mcmc.get_all_edges, G, u0, edge)

for es in [[], [(0, 1)], [(0, 1), (0, 2), (0, 3), (0, 12), (0, 13)], [(0, 3), (0, 1), (1, 6), (0, 2)],
           [(0, 1), (0, 1), (1, 0)], [(0, 1), (0, 7)], [(0, 1), (0, 99)], ((4, 7), (3, 4))]:
    run(f"get_hashmap {es!r}", mcmc.get_hashmap, G, es)
es_in = [(0, 1), (0, 3)]
hm = mcmc.get_hashmap(G, es_in)
hm["2-clique"].append("x")
print("hashmap lists are fresh", show(mcmc.get_hashmap(G, es_in)), es_in)

for e, idx in [((0, 1), 1), ((0, 1), 0), ((1, 0), 1), ((0, 3), 0), ((3, 0), 0), ((19, 7), 0), ((0, 0), 1),
               ((0, 1, 2), 1), ((0,), 1), ((), 0), ((0, 99), 0), ((99, 0), 0), ((0, 1), 2), ((0, 1), -1),
               ((0, 1), "a"), ([5, 10], 0)]:
    run(f"get_joint_excess_degree_key {e!r} {idx!r}", mcmc.get_joint_excess_degree_key, G, e, idx)

for e0, e1, u0, v0, idx in [((0, 1), (3, 4), 0, 3, 1), ((0, 1), (3, 4), 1, 4, 1), ((1, 0), (4, 3), 0, 3, 1),
                            ((0, 3), (1, 6), 0, 1, 0), ((0, 3), (1, 6), 3, 6, 0), ((0, 3), (1, 6), 5, 6, 0),
                            ((0, 3), (1, 6), 0, 5, 0), ((0, 3), (1, 6), 0, 1, 5), ((0, 99), (1, 6), 0, 1, 0)]:
    def swapped(e0=e0, e1=e1, u0=u0, v0=v0, idx=idx):
        kv = mcmc.get_swapped_joint_excess_degree_key(G, e0, e1, u0, v0, idx)
        return [type(kv).__name__] + [getattr(kv, g)() for g in GETTERS]
    run(f"get_swapped {e0} {e1} {u0} {v0} {idx}", swapped)
print("graph untouched", before == graph_digest(G))

print("== append_proposal_edges")
print("start", show(mcmc._proposal_edges))
for u0, old, new in [(0, (0, 1), (0, 4)), (0, (1, 0), (4, 0)), (3, (3, 0), (3, 1)), (0, (0, 1), (2, 5)),
                     (0, (0, 99), (0, 4)), (0, (0, 1), (0,)), (0, (0, 3), (0, 0))]:
    run(f"append u0={u0} old={old} new={new}", mcmc.append_proposal_edges, G, u0, old, new)
    print("   proposals", show(mcmc._proposal_edges))

print("== is_edge_choice_suitable")
cases = [
    ("ok triangles", 0, 3, [(0, 1), (0, 2)], [(3, 4), (3, 5)]),
    ("ok triangles far", 1, 10, [(1, 0), (1, 2)], [(10, 9), (10, 11)]),
    ("ok single edges", 14, 8, [(14, 15)], [(8, 11)]),
    ("unequal sizes", 0, 3, [(0, 1), (0, 2)], [(3, 4)]),
    ("different topologies", 0, 3, [(0, 1)], [(3, 0)]),
    ("different topology counts", 0, 3, [(0, 1), (0, 3), (0, 2)], [(3, 4), (3, 0), (3, 14)]),
    ("same motif", 0, 1, [(0, 1), (0, 2)], [(1, 0), (1, 2)]),
    ("same motif second pair", 0, 12, [(0, 1), (0, 12)], [(12, 13), (12, 0)]),
    ("shared vertex -> self loop", 0, 12, [(0, 1), (0, 2)], [(12, 13), (12, 0)]),
    ("target edge present", 0, 3, [(0, 3)], [(3, 14)]),
    ("target edge present 2", 0, 4, [(0, 1), (0, 2)], [(4, 3), (4, 5)]),
    ("adjacent motifs", 1, 6, [(1, 0), (1, 2)], [(6, 7), (6, 8)]),
    ("u0 not in edge", 9, 3, [(0, 1), (0, 2)], [(3, 4), (3, 5)]),
    ("v0 not in edge", 0, 9, [(0, 1), (0, 2)], [(3, 4), (3, 5)]),
    ("empty", 0, 3, [], []),
    ("missing edge", 0, 3, [(0, 99)], [(3, 4)]),
    ("missing edge right", 0, 3, [(0, 1)], [(3, 99)]),
    ("mixed ok", 0, 9, [(0, 1), (0, 2), (0, 3)], [(9, 10), (9, 11), (9, 2)]),
    ("mixed order swapped", 0, 9, [(0, 3), (0, 1), (0, 2)], [(9, 10), (9, 2), (9, 11)]),
]
for label, u0, v0, e0s, e1s in cases:
    n_before = len(cap.messages)
    e0c, e1c = list(e0s), list(e1s)
    run(f"suitable {label}", mcmc.is_edge_choice_suitable, G, u0, v0, e0s, e1s)
    print("   log", cap.messages[n_before:], "inputs kept", e0s == e0c and e1s == e1c)
print("graph untouched", before == graph_digest(G))

print("== swap_condition")
print(counters(mcmc))
tgt_holes = target_for(G, "holes", seed=5)
tgt_np = target_for(G, "full", seed=1, as_numpy=True)
tgt_uniform = target_for(G, "uniform")
zero_tgt = target_for(G, "full", seed=2)
for name in EDGE_NAMES:
    for k in list(zero_tgt.ejks[name]):
        zero_tgt.ejks[name][k] = 0.0
sw_cases = [
    ("triangles 0/3", [(0, 1), (0, 2)], [(3, 4), (3, 5)], 0, 3),
    ("triangles 1/10", [(1, 0), (1, 2)], [(10, 9), (10, 11)], 1, 10),
    ("triangles 6/19", [(6, 7), (6, 8)], [(19, 18), (19, 5)], 6, 19),
    ("edges 14/8", [(14, 15)], [(8, 11)], 14, 8),
    ("edges 16/5", [(16, 17)], [(5, 10)], 16, 5),
    ("edges 13/19", [(13, 11)], [(19, 7)], 13, 19),
    ("same degrees", [(1, 6)], [(6, 1)], 1, 6),
    ("mixed 0/9", [(0, 1), (0, 2), (0, 3)], [(9, 10), (9, 11), (9, 2)], 0, 9),
    ("too few partners", [(0, 1), (0, 2)], [(3, 4)], 0, 3),
    ("no partner topology", [(0, 1)], [(3, 0)], 0, 3),
    ("empty", [], [], 0, 3),
    ("longer right", [(14, 15)], [(8, 11), (8, 6)], 14, 8),
    ("u0 wrong", [(0, 1)], [(3, 4)], 7, 3),
    ("missing edge", [(0, 99)], [(3, 4)], 0, 3),
]
for tname, tgt in [("full", tgt_full), ("holes", tgt_holes), ("numpy", tgt_np), ("uniform", tgt_uniform), ("zeros", zero_tgt)]:
    mcmc.ejks = tgt
    for rep in range(2):
        seed_all(100 + rep)
        for label, e0s, e1s, u0, v0 in sw_cases:
            n_before = len(cap.messages)
            e0c, e1c = list(e0s), list(e1s)
            run(f"swap[{tname}/{rep}] {label}", mcmc.swap_condition, G, e0s, e1s, u0, v0)
            print("   proposals", show(mcmc._proposal_edges), "log", cap.messages[n_before:],
                  "inputs kept", e0s == e0c and e1s == e1c, "rng", rng_digest())
        print(counters(mcmc))
# denominators: current pairing absent from / zero in the target
for variant in ("absent", "zero"):
    t = target_for(G, "full", seed=3)
    k = mcmc.get_joint_excess_degree_key(G, (14, 15), 0)
    if variant == "absent":
        t.ejks["2-clique"].pop(k)
    else:
        t.ejks["2-clique"][k] = 0.0
    mcmc.ejks = t
    seed_all(7)
    n_before = len(cap.messages)
    run(f"swap denominator {variant}", mcmc.swap_condition, G, [(14, 15)], [(8, 11)], 14, 8)
    print("   log", cap.messages[n_before:], "rng", rng_digest())
mcmc.ejks = JointExcessJointDegreeMatrices({ToolsNames.EJKS: {}, ToolsNames.EDGE_NAMES: ["3-clique"]})
run("swap unknown topology name", mcmc.swap_condition, G, [(14, 15)], [(8, 11)], 14, 8)
run("swap topology missing in ejks", mcmc.swap_condition, G, [(0, 1), (0, 2)], [(3, 4), (3, 5)], 0, 3)
print("   log", cap.messages[-1:] )
print(counters(mcmc))
print("graph untouched", before == graph_digest(G))
print("swap_condition name/doc", mcmc.swap_condition.__name__, hashlib.sha256((MarkovChainMonteCarloRewiring.swap_condition.__doc__ or "").encode()).hexdigest()[:12])

# ----------------------------------------------------------------------------
print("== rewire on hand / random motif networks")


def rewire_report(label, mcmc, cap, net, target, seed, times=1):
    for t in range(times):
        seed_all(seed + t)
        src_before = graph_digest(net.G)
        d_before = distance(net.G, target)
        n_before = len(cap.messages)
        holder = {}

        def go():
            holder["G"] = mcmc.rewire()
            return holder["G"]

        out = run(f"rewire {label} #{t}", go)
        print("   source untouched", src_before == graph_digest(net.G), "rng", rng_digest())
        print("   " + counters(mcmc))
        msgs = cap.messages[n_before:]
        print("   log count", len(msgs), hashlib.sha256("\n".join(msgs).encode()).hexdigest()[:16])
        print("   proposals", show(mcmc._proposal_edges))
        if "G" in holder:
            H = holder["G"]
            print("   is copy", H is not net.G, "dist before", show(d_before), "after", show(distance(H, target)))
            # every edge present must be allowed by the target
            bad = 0
            for u, v in H.edges():
                if not net.G.has_edge(u, v):
                    name = H.edges[u, v][NetworkNames.TOPOLOGY]
                    key = mcmc.get_joint_excess_degree_key(H, (u, v), EDGE_NAMES.index(name))
                    if not target.ejks[name].get(key, 0.0) > 0.0:
                        bad += 1
            print("   new edges outside target support", bad)
            for line in graph_dump(H)[: 6]:
                print("   ", line)


for tname, mode, tseed in [("full", "full", 1), ("assort", "assort", 2), ("holes", "holes", 5), ("uniform", "uniform", 0),
                           ("holes_safe", "holes_safe", 8), ("holes_safe2", "holes_safe", 9)]:
    tgt = target_for(net.G, mode, seed=tseed)
    m, c = new_mcmc(net, tgt, conv=12, search=15)
    rewire_report(f"hand/{tname}", m, c, net, tgt, seed=21, times=3)

tgt = target_for(net.G, "full", seed=1, as_numpy=True)
m, c = new_mcmc(net, tgt, conv=8, search=15)
rewire_report("hand/numpy", m, c, net, tgt, seed=33, times=2)

m, c = new_mcmc(net, tgt_full, conv=-1)
rewire_report("hand/negative limit", m, c, net, tgt_full, seed=3)
m, c = new_mcmc(net, tgt_full, conv=0, search=25)
rewire_report("hand/zero limit", m, c, net, tgt_full, seed=4, times=2)
m, c = new_mcmc(net, tgt_full, conv=3, search=1)
rewire_report("hand/search 1", m, c, net, tgt_full, seed=5)

empty = Network()
m, c = new_mcmc(empty, tgt_full)
print("default limit on empty", m.convergence_limit)
rewire_report("empty network", m, c, empty, tgt_full, seed=1)
m, c = new_mcmc(net, tgt_full)
print("default limit on hand", m.convergence_limit, m.search_limit)

for i, (n, n_tri, n_edge) in enumerate([(30, 12, 25), (40, 10, 40), (25, 14, 10), (36, 0, 40), (36, 16, 0)]):
    rnet = random_motif_network(n, n_tri, n_edge, seed=50 + i)
    for mode in ("full", "holes", "holes_safe", "assort"):
        tgt = target_for(rnet.G, mode, seed=60 + i)
        m, c = new_mcmc(rnet, tgt, conv=15, search=20)
        rewire_report(f"random{i}/{mode}", m, c, rnet, tgt, seed=70 + i, times=2)

# ----------------------------------------------------------------------------
print("== rewire on a GCM-generated network (as in the test-suite, small)")


def gcm_network(size, seed, eps):
    seed_all(seed)
    e1 = e2 = e3 = eps
    tree = {
        (0, 3, 0, 3): 9 / 81 - e1 - e2, (0, 3, 4, 1): e1, (0, 3, 2, 2): e2,
        (4, 1, 0, 3): e1, (4, 1, 4, 1): 45 / 81 - e1 - e3, (4, 1, 2, 2): e3,
        (2, 2, 0, 3): e2, (2, 2, 4, 1): e3, (2, 2, 2, 2): 27 / 81 - e2 - e3,
    }
    tri = {
        (3, 1, 3, 1): 48 / 144 - e1 - e2, (3, 1, 1, 2): e1, (3, 1, 5, 0): e2,
        (1, 2, 3, 1): e1, (1, 2, 1, 2): 72 / 144 - e1 - e3, (1, 2, 5, 0): e3,
        (5, 0, 3, 1): e2, (5, 0, 1, 2): e3, (5, 0, 5, 0): 24 / 144 - e2 - e3,
    }
    target = JointExcessJointDegreeMatrices(
        {ToolsNames.EDGE_NAMES: list(EDGE_NAMES), ToolsNames.EJKS: {"2-clique": tree, "3-clique": tri}}
    )
    qks = JointExcessFromEjk.get_excess_joint_distributions(target)
    jdd = JointDegreeFromExcess.get_joint_degree_distribution(qks, EDGE_NAMES)
    jds = JointDegreeManual(
        {JointDegreeNames.JDD: jdd, JointDegreeNames.MOTIF_SIZES: [2, 3]}
    ).sample_jds_from_jdd(size)
    g = GCMAlgorithmNetwork(
        {
            GCMAlgorithmNames.MOTIF_SIZES: [2, 3],
            GCMAlgorithmNames.EDGE_NAMES: list(EDGE_NAMES),
            GCMAlgorithmNames.BUILD_FUNCTIONS: [clique_motif, clique_motif],
        }
    ).random_clustered_graph(jds)
    return g, target


for size, seed, eps, conv in [(120, 1, 1e-8, 40), (120, 2, 1e-3, 60), (200, 3, 1e-2, 80)]:
    holder = {}

    def build(size=size, seed=seed, eps=eps):
        holder["g"], holder["t"] = gcm_network(size, seed, eps)
        return holder["g"].G

    run(f"gcm build size={size} seed={seed}", build)
    if "g" not in holder:
        continue
    m, c = new_mcmc(holder["g"], holder["t"], conv=conv, search=20)
    rewire_report(f"gcm size={size} eps={eps}", m, c, holder["g"], holder["t"], seed=90 + seed, times=2)

print("== end", counters(), "rng", rng_digest())
