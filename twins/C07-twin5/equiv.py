"""Behaviour digest for the split-degree / delta joint degree loaders.

Run with cwd = a checkout of gcmpy.  Uses only the pre-existing public
signatures, so it runs identically on the original and the extended code.
"""
import copy
import hashlib
import os
import random
import sys

sys.path.insert(0, os.getcwd())

import numpy as np  # noqa: E402

from gcmpy.joint_degree.joint_degree_loaders.joint_degree_split_degree import (  # noqa: E402
    JointDegreeSplitDegree,
)
from gcmpy.joint_degree.joint_degree_loaders.joint_degree_delta import (  # noqa: E402
    JointDegreeDelta,
)
from gcmpy.joint_degree.joint_degree_factory import JointDegreeFactory  # noqa: E402
from gcmpy.joint_degree.joint_degree_type import JointDegreeType  # noqa: E402
from gcmpy.names.joint_degree_names import JointDegreeNames as N  # noqa: E402
from gcmpy.distributions.power_law import power_law  # noqa: E402
from gcmpy.distributions.poisson import poisson  # noqa: E402

LINES = []


def out(*parts):
    line = " ".join(str(p) for p in parts)
    LINES.append(line)
    print(line)


def r(x):
    """bit exact, deterministic rendering"""
    if isinstance(x, float):
        return repr(x) + "/" + x.hex()
    if isinstance(x, dict):
        return "{" + ", ".join(r(k) + ": " + r(v) for k, v in x.items()) + "}"
    if isinstance(x, (list, tuple)):
        o, c = ("[", "]") if isinstance(x, list) else ("(", ")")
        return o + ", ".join(r(v) for v in x) + c
    if isinstance(x, (np.floating, np.integer)):
        return type(x).__name__ + ":" + repr(x.item())
    if callable(x):
        return "<callable>"
    return repr(x)


def rng_state():
    h = hashlib.sha256()
    h.update(repr(random.getstate()).encode())
    st = np.random.get_state()
    h.update(repr((st[0], st[1].tolist(), st[2], st[3], st[4])).encode())
    return h.hexdigest()


def attempt(label, fn):
    try:
        res = fn()
        out(label, "->", r(res))
        return res
    except BaseException as e:  # noqa: B902
        out(label, "RAISED", type(e).__name__, repr(str(e)))
        return None


def jdd_digest(obj):
    jdd = getattr(obj, "_jdd", "<no _jdd>")
    if not isinstance(jdd, dict):
        return r(jdd)
    h = hashlib.sha256(r(jdd).encode()).hexdigest()
    items = list(jdd.items())
    return "n=%d sha=%s head=%s tail=%s sum=%s" % (
        len(items),
        h,
        r(items[:4]),
        r(items[-3:]),
        r(sum(jdd.values())) if items else "empty",
    )


class CountingFp:
    """degree function that records the order of its calls"""

    def __init__(self, f):
        self.f = f
        self.calls = []

    def __call__(self, k):
        self.calls.append(k)
        return self.f(k)


class OddNe:
    """target degree with its own comparison (records how it is compared)"""

    def __init__(self):
        self.log = []

    def __ne__(self, other):
        self.log.append(("ne", other))
        return other % 2 == 0  # non-bool truthiness below

    def __eq__(self, other):
        self.log.append(("eq", other))
        return False

    __hash__ = None


def mk(fp, probs, sizes, bounds, target=None):
    p = {}
    p[N.MOTIF_SIZES] = sizes
    p[N.PROBS] = probs
    p[N.FP] = fp
    p[N.LOW_HIGH_DEGREE_BOUND] = bounds
    if target is not None:
        p[N.TARGET_K] = target
    return p


def snapshot(p):
    return r([(k.name, v) for k, v in p.items()])


random.seed(20260307)
np.random.seed(77)

# ---------------------------------------------------------------- split degree
CASES = [
    ("pl2", lambda: power_law(2.5), [0.8, 0.2], [2, 3], (1, 40)),
    ("pl3", lambda: power_law(2.1), [0.6, 0.3, 0.1], [2, 3, 4], (1, 25)),
    ("poi3", lambda: poisson(4.0), [0.5, 0.25, 0.25], [2, 3, 4], (0, 18)),
    ("one", lambda: power_law(3.0), [1.0], [2], (1, 12)),
    ("unnorm", lambda: (lambda k: 3.0 * k + 1), [2.0, 0.5], [2, 3], (0, 9)),
    ("zero-first", lambda: power_law(2.5), [0.0, 1.0], [2, 3], (1, 10)),
    ("tiny", lambda: power_law(2.5), [1e-200, 1e-200], [2, 3], (1, 8)),
    ("four", lambda: poisson(2.5), [0.4, 0.3, 0.2, 0.1], [2, 3, 4, 5], (2, 14)),
    ("emptyrange", lambda: power_law(2.5), [0.8, 0.2], [2, 3], (5, 5)),
    ("revrange", lambda: power_law(2.5), [0.8, 0.2], [2, 3], (9, 3)),
    ("neg", lambda: (lambda k: 1.0), [0.8, 0.2], [2, 3], (-3, 4)),
    ("listbound", lambda: power_law(2.5), [0.8, 0.2], [2, 3], [1, 6, 99]),
    ("intfp", lambda: (lambda k: k + 1), [0.5, 0.5], [2, 3], (0, 7)),
]

for name, mkfp, probs, sizes, bounds in CASES:
    out("=== split", name)
    fp = CountingFp(mkfp())
    params = mk(fp, probs, sizes, bounds)
    before = snapshot(params)
    obj = attempt("ctor", lambda: JointDegreeSplitDegree(params) and "ok")
    out("params-unchanged", before == snapshot(params), "probs", r(probs), "sizes", r(sizes))
    out("fp-calls", r(fp.calls))
    if obj is None:
        continue
    obj = JointDegreeSplitDegree(params)
    out("type", obj._type, "attrs", sorted(vars(obj)))
    out("jdd", jdd_digest(obj))
    out("jdd-is-prop", obj.jdd is obj._jdd, "sizes-is", obj.motif_sizes is sizes, obj._probs is probs)
    # repeated calls on the same object
    first = copy.deepcopy(obj._jdd)
    out("create_jdd ret", r(obj.create_jdd()))
    out("same-after-recreate", r(first) == r(obj._jdd), list(first) == list(obj._jdd))
    # members
    for k in (0, 1, 2, 5, 7):
        for t in range(1, len(probs) + 1):
            attempt("valid k=%d t=%d" % (k, t), lambda: list(obj.get_valid_joint_degrees(k, t)))
    gen = obj.get_valid_joint_degrees(6, len(probs))
    out("gen-type", type(gen).__name__, r(next(gen)), r(next(gen, None)))
    for jd in ((0,) * len(probs), tuple(range(1, len(probs) + 1)), (3,), (), [2] * len(probs)):
        attempt("calc " + r(jd), lambda: obj.calc_prob_of_joint_degree(jd))
    attempt("calc too long", lambda: obj.calc_prob_of_joint_degree((1,) * (len(probs) + 1)))
    attempt("calc neg", lambda: obj.calc_prob_of_joint_degree((-1,) * len(probs)))
    attempt("calc float deg", lambda: obj.calc_prob_of_joint_degree((0.5,) * len(probs)))
    # resolve_degree: mutation of an existing distribution, order of keys
    keys_before = list(obj._jdd)
    attempt("resolve 4", lambda: obj.resolve_degree(4, 0.125))
    attempt("resolve 30", lambda: obj.resolve_degree(30, 0.5))
    attempt("resolve 0", lambda: obj.resolve_degree(0, 2))
    attempt("resolve -2", lambda: obj.resolve_degree(-2, 1.0))
    out("keys-prefix-kept", list(obj._jdd)[: len(keys_before)] == keys_before)
    out("jdd-after-resolve", jdd_digest(obj))
    attempt("normalise", lambda: obj.normalise_jdd())
    out("jdd-after-normalise", jdd_digest(obj))
    # sampling consumes the RNG
    s = attempt("sample", lambda: hashlib.sha256(r(obj.sample_jds_from_jdd(500)).encode()).hexdigest())
    out("rng", rng_state())

# ---------------------------------------------------------------- error paths
out("=== split errors")
attempt("missing key", lambda: JointDegreeSplitDegree({N.FP: power_law(2.5)}))
attempt("none params", lambda: JointDegreeSplitDegree(None))
attempt("no args", lambda: JointDegreeSplitDegree())
attempt("string keys", lambda: JointDegreeSplitDegree({"fp": 1, "probs": [1.0]}))
attempt("all zero probs", lambda: JointDegreeSplitDegree(mk(power_law(2.5), [0.0, 0.0], [2, 3], (1, 6))))
attempt("empty probs", lambda: JointDegreeSplitDegree(mk(power_law(2.5), [], [], (1, 6))))
attempt("zero fp", lambda: JointDegreeSplitDegree(mk(lambda k: 0.0, [0.8, 0.2], [2, 3], (1, 6))))
attempt("fp raises at 0", lambda: JointDegreeSplitDegree(mk(power_law(2.5), [0.8, 0.2], [2, 3], (0, 6))))
attempt("fp not callable", lambda: JointDegreeSplitDegree(mk(3.0, [0.8, 0.2], [2, 3], (1, 6))))
attempt("bound short", lambda: JointDegreeSplitDegree(mk(power_law(2.5), [0.8, 0.2], [2, 3], (1,))))
attempt("bound float", lambda: JointDegreeSplitDegree(mk(power_law(2.5), [0.8, 0.2], [2, 3], (1.0, 6.0))))
attempt("probs str", lambda: JointDegreeSplitDegree(mk(power_law(2.5), ["a", "b"], [2, 3], (1, 6))))
attempt("overflow", lambda: JointDegreeSplitDegree(mk(lambda k: 1.0, [1e300, 1.0], [2, 3], (1, 6))))
attempt("zero pow neg", lambda: JointDegreeSplitDegree(mk(lambda k: 1.0, [0.0, 1.0], [2, 3], (1, 3))).calc_prob_of_joint_degree((-1, 0)))


def partial_failure():
    """state left behind when the degree function fails half way"""
    calls = []

    def fp(k):
        calls.append(k)
        if k == 4:
            raise KeyError("boom")
        return 1.0 / k

    o = JointDegreeSplitDegree(mk(lambda k: 1.0 / k, [0.7, 0.3], [2, 3], (1, 7)))
    o._fp = fp
    try:
        o.create_jdd()
    except KeyError as e:
        out("partial raised", repr(e), "calls", calls)
    return jdd_digest(o)


attempt("partial", partial_failure)


def bare_object():
    """object assembled by hand, as a subclass / test double would"""
    o = JointDegreeSplitDegree.__new__(JointDegreeSplitDegree)
    res = []
    try:
        o.create_jdd()
    except Exception as e:
        res.append((type(e).__name__, str(e), sorted(vars(o))))
    o._low_high_degree_bound = (1, 5)
    o._fp = lambda k: float(k)
    o._probs = (0.25, 0.75)
    o.create_jdd()
    res.append(jdd_digest(o))
    o._jdd = None
    try:
        o.resolve_degree(3, 1.0)
    except Exception as e:
        res.append((type(e).__name__, str(e)))
    return res


attempt("bare", bare_object)


class Sub(JointDegreeSplitDegree):
    """overrides see the same internal call pattern"""

    def __init__(self, params):
        self.trace = []
        super().__init__(params)

    def get_valid_joint_degrees(self, remaining_degree, topology):
        self.trace.append(("valid", remaining_degree, topology))
        return super().get_valid_joint_degrees(remaining_degree, topology)

    def calc_prob_of_joint_degree(self, jd):
        self.trace.append(("calc", tuple(jd)))
        return super().calc_prob_of_joint_degree(jd)

    def resolve_degree(self, k, prob_overall_k):
        self.trace.append(("resolve", k, prob_overall_k))
        return super().resolve_degree(k, prob_overall_k)

    def normalise_jdd(self):
        self.trace.append(("norm", len(self._jdd)))
        return super().normalise_jdd()


def sub_trace():
    s = Sub(mk(power_law(2.5), [0.6, 0.3, 0.1], [2, 3, 4], (1, 7)))
    return [hashlib.sha256(r(s.trace).encode()).hexdigest(), len(s.trace), r(s.trace[:12]), jdd_digest(s)]


attempt("sub", sub_trace)

# ---------------------------------------------------------------- delta
DCASES = [
    ("pl2", lambda: power_law(2.5), [0.8, 0.2], [2, 3], (1, 40), 3),
    ("pl3", lambda: power_law(2.1), [0.6, 0.3, 0.1], [2, 3, 4], (1, 25), 12),
    ("poi", lambda: poisson(3.0), [0.5, 0.5], [2, 3], (0, 15), 0),
    ("outside", lambda: power_law(2.5), [0.8, 0.2], [2, 3], (1, 10), 50),
    ("floattarget", lambda: power_law(2.5), [0.8, 0.2], [2, 3], (1, 10), 4.0),
    ("nonetarget", lambda: power_law(2.5), [0.8, 0.2], [2, 3], (1, 10), "x"),
    ("sizes3probs2", lambda: power_law(2.5), [0.8, 0.2], [2, 3, 4], (1, 10), 5),
    ("sizes1probs2", lambda: power_law(2.5), [0.8, 0.2], [2], (1, 10), 5),
    ("emptyrange", lambda: power_law(2.5), [0.8, 0.2], [2, 3], (4, 4), 4),
    ("neg", lambda: (lambda k: 1.0), [0.8, 0.2], [2, 3], (-3, 4), -2),
    ("overwrite", lambda: (lambda k: 1.0 + k), [1.0, 0.0], [2, 3], (1, 8), 3),
]

for name, mkfp, probs, sizes, bounds, target in DCASES:
    out("=== delta", name)
    fp = CountingFp(mkfp())
    params = mk(fp, probs, sizes, bounds, target)
    before = snapshot(params)
    obj = attempt("ctor", lambda: JointDegreeDelta(params) and "ok")
    out("params-unchanged", before == snapshot(params), "probs", r(probs), "sizes", r(sizes))
    out("fp-calls", r(fp.calls))
    if obj is None:
        continue
    obj = JointDegreeDelta(params)
    out("type", obj._type, "attrs", sorted(vars(obj)), "mro", [c.__name__ for c in type(obj).__mro__][:3])
    out("jdd", jdd_digest(obj))
    first = copy.deepcopy(obj._jdd)
    out("create_jdd ret", r(obj.create_jdd()))
    out("same-after-recreate", r(first) == r(obj._jdd), list(first) == list(obj._jdd))
    obj._target_k = bounds[0] + 1
    attempt("retarget create", lambda: obj.create_jdd())
    out("jdd-retarget", jdd_digest(obj))
    attempt("resolve 6", lambda: obj.resolve_degree(6, 0.25))
    attempt("calc", lambda: obj.calc_prob_of_joint_degree((1,) * len(probs)))
    attempt("valid", lambda: list(obj.get_valid_joint_degrees(5, len(probs))))
    out("jdd-after", jdd_digest(obj))
    attempt("sample", lambda: hashlib.sha256(r(obj.sample_jds_from_jdd(300)).encode()).hexdigest())
    out("rng", rng_state())

out("=== delta errors")
attempt("missing target", lambda: JointDegreeDelta(mk(power_law(2.5), [0.8, 0.2], [2, 3], (1, 6))))
attempt("none params", lambda: JointDegreeDelta(None))
attempt("empty sizes", lambda: JointDegreeDelta(mk(power_law(2.5), [0.8, 0.2], [], (1, 6), 3)))
attempt("empty sizes only target", lambda: jdd_digest(JointDegreeDelta(mk(power_law(2.5), [0.8, 0.2], [], (3, 4), 3))))
attempt("sizes none", lambda: JointDegreeDelta(mk(power_law(2.5), [0.8, 0.2], None, (1, 6), 3)))
attempt("zero fp", lambda: JointDegreeDelta(mk(lambda k: 0.0, [0.8, 0.2], [2, 3], (1, 6), 3)))
attempt("zero probs target", lambda: JointDegreeDelta(mk(power_law(2.5), [0.0, 0.0], [2, 3], (1, 6), 3)))
attempt("zero probs no target", lambda: jdd_digest(JointDegreeDelta(mk(power_law(2.5), [0.0, 0.0], [2, 3], (1, 6), 30))))
attempt("fp raises at 0", lambda: JointDegreeDelta(mk(power_law(2.5), [0.8, 0.2], [2, 3], (0, 6), 3)))


def odd_target():
    t = OddNe()
    o = JointDegreeDelta(mk(lambda k: 1.0 + k, [0.5, 0.5], [2, 3], (1, 8), t))
    return [r(t.log), jdd_digest(o)]


attempt("odd target", odd_target)


def delta_partial():
    calls = []

    def fp(k):
        calls.append(k)
        if k == 5:
            raise ValueError("stop")
        return 1.0 / k

    o = JointDegreeDelta(mk(lambda k: 1.0 / k, [0.7, 0.3], [2, 3], (1, 9), 3))
    o._fp = fp
    try:
        o.create_jdd()
    except ValueError as e:
        out("partial raised", repr(e), "calls", calls)
    return jdd_digest(o)


attempt("delta partial", delta_partial)


def delta_bare():
    o = JointDegreeDelta.__new__(JointDegreeDelta)
    res = []
    try:
        o.create_jdd()
    except Exception as e:
        res.append((type(e).__name__, str(e), sorted(vars(o))))
    o._low_high_degree_bound = (1, 6)
    try:
        o.create_jdd()
    except Exception as e:
        res.append((type(e).__name__, str(e), sorted(vars(o))))
    o._motif_sizes = [2, 3]
    try:
        o.create_jdd()
    except Exception as e:
        res.append((type(e).__name__, str(e), sorted(vars(o))))
    o._target_k = 4
    o._fp = lambda k: 2.0 * k
    try:
        o.create_jdd()
    except Exception as e:
        res.append((type(e).__name__, str(e), sorted(vars(o)), jdd_digest(o)))
    o._probs = [0.9, 0.1]
    o.create_jdd()
    res.append(jdd_digest(o))
    o.target_k = 99  # plain instance attribute, not used by the loader
    o.summary_note = "x"
    o.create_jdd()
    res.append((jdd_digest(o), sorted(vars(o))))
    return res


attempt("delta bare", delta_bare)


class DSub(JointDegreeDelta):
    def __init__(self, params):
        self.trace = []
        super().__init__(params)

    def resolve_degree(self, k, prob_overall_k):
        self.trace.append(("resolve", k, prob_overall_k))
        return super().resolve_degree(k, prob_overall_k)

    def get_valid_joint_degrees(self, remaining_degree, topology):
        self.trace.append(("valid", remaining_degree, topology))
        return super().get_valid_joint_degrees(remaining_degree, topology)

    def calc_prob_of_joint_degree(self, jd):
        self.trace.append(("calc", tuple(jd)))
        return super().calc_prob_of_joint_degree(jd)

    def normalise_jdd(self):
        self.trace.append(("norm", r(self._jdd)))
        return super().normalise_jdd()


def dsub_trace():
    s = DSub(mk(power_law(2.5), [0.6, 0.3, 0.1], [2, 3, 4], (1, 9), 6))
    return [r(s.trace), jdd_digest(s)]


attempt("dsub", dsub_trace)

# ---------------------------------------------------------------- factory
out("=== factory")
for t, tgt in ((JointDegreeType.SPLIT_DEGREE, None), (JointDegreeType.DELTA, 4)):
    o = JointDegreeFactory.resolve_joint_degree(
        t, mk(power_law(2.2), [0.7, 0.2, 0.1], [2, 3, 4], (1, 15), tgt)
    )
    out(t, type(o).__name__, jdd_digest(o))
    out("bool", bool(o), "hasattr len/iter/contains", hasattr(o, "__len__"), hasattr(o, "__iter__"), hasattr(o, "__contains__"))
    attempt("sample", lambda: hashlib.sha256(r(o.sample_jds_from_jdd(1000)).encode()).hexdigest())
    out("rng", rng_state())

out("=== final rng", rng_state())
print("DIGEST", hashlib.sha256("\n".join(LINES).encode()).hexdigest())
