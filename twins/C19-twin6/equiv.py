"""
C19 equivalence digest. Run with cwd = a checkout of gcmpy. Exercises the four
built-in distribution factories through their PRE-EXISTING signatures only
(positional law parameters, returned callable called with a degree) and prints a
deterministic digest: bit-exact reprs, result types, exception types, warnings,
RNG states afterwards and the (un)mutated inputs.
"""
import hashlib
import inspect
import os
import random
import sys
import warnings

sys.path.insert(0, os.getcwd())

import numpy as np

import gcmpy
from gcmpy.distributions import exponential as exp_pkg_level  # package re-export
from gcmpy.distributions.exponential import exponential
from gcmpy.distributions.poisson import poisson
from gcmpy.distributions.power_law import power_law
from gcmpy.distributions.scale_free_cut_off import scale_free_cut_off
from gcmpy.joint_degree.joint_degree_loaders.joint_degree_marginal import (
    JointDegreeMarginal,
)
from gcmpy.joint_degree.joint_degree_loaders.joint_degree_delta import JointDegreeDelta
from gcmpy.names.joint_degree_names import JointDegreeNames

random.seed(12345)
np.random.seed(12345)


def show(x):
    if isinstance(x, np.ndarray):
        return f"ndarray[{x.dtype}]{[repr(v) for v in x.tolist()]}"
    if isinstance(x, float):  # includes np.float64
        return f"{type(x).__name__}:{float(x)!r}:{float(x).hex()}"
    return f"{type(x).__name__}:{x!r}"


def call(label, f, *args):
    with warnings.catch_warnings(record=True) as w:
        warnings.simplefilter("always")
        try:
            out = show(f(*args))
        except BaseException as e:  # noqa
            out = f"RAISED {type(e).__name__}: {e}"
        ws = sorted({f"{x.category.__name__}:{x.message}" for x in w})
    print(f"{label} -> {out}" + (f"  warnings={ws}" if ws else ""))


def make(label, factory, *args):
    with warnings.catch_warnings(record=True) as w:
        warnings.simplefilter("always")
        try:
            p = factory(*args)
        except BaseException as e:  # noqa
            print(f"{label} -> RAISED {type(e).__name__}: {e}")
            return None
        ws = sorted({f"{x.category.__name__}:{x.message}" for x in w})
    print(
        f"{label} -> callable name={getattr(p, '__name__', None)} "
        f"nparams={len(inspect.signature(p).parameters)}" + (f"  warnings={ws}" if ws else "")
    )
    return p


KS = [
    0, 1, 2, 3, 5, 10, 50, 170, 171, 1000, -1, -3,
    0.0, 0.5, 1.0, 2.5, -0.5,
    True, False,
    np.int64(0), np.int64(1), np.int64(7), np.int32(3), np.float64(0.0), np.float64(4.0),
    float("inf"), float("nan"),
    None, "2", [1, 2], (3,), 2 + 0j,
    np.array([0, 1, 2, 5]), np.array([1.0, 2.0, 3.5]), np.arange(1, 6), np.array([], dtype=int),
    np.array([[1, 2], [3, 4]]),
]


def ks_label(k):
    return show(k)


def sweep(name, factory, params):
    label = f"{name}{tuple(params)!r}"
    p = make(label, factory, *params)
    if p is None:
        return
    for k in KS:
        kk = k.copy() if isinstance(k, np.ndarray) else k
        call(f"  {label}({ks_label(k)})", p, kk)
        if isinstance(k, np.ndarray):
            print(f"    input after: {show(kk)}")
    # repeated calls on one object, interleaved
    for rep in range(3):
        call(f"  {label} repeat{rep} (1)", p, 1)
        call(f"  {label} repeat{rep} (4)", p, 4)
    # sums over a range (accumulated float order)
    def total(lo, hi):
        s = 0.0
        for k in range(lo, hi):
            s += p(k)
        return s
    call(f"  {label} sum[1,60)", total, 1, 60)
    call(f"  {label} sum[0,60)", total, 0, 60)
    # a second, independent instance gives the same thing
    p2 = factory(*params)
    call(f"  {label} second instance (2)", p2, 2)
    print(f"  {label} distinct objects: {p is not p2}")


print("== module surface")
print("gcmpy.exponential is", gcmpy.exponential is exponential, exp_pkg_level is exponential)
print("gcmpy.poisson is", gcmpy.poisson is poisson)
print("gcmpy.power_law is", gcmpy.power_law is power_law)
print("gcmpy.scale_free_cut_off is", gcmpy.scale_free_cut_off is scale_free_cut_off)
for f in (exponential, poisson, power_law, scale_free_cut_off):
    names = list(inspect.signature(f).parameters)
    print(f.__name__, "leading params:", names[: (2 if f is scale_free_cut_off else 1)])

print("== exponential")
for a in (0.2, 0.5, 1.0, 3.0, 0.0, -1.0, 1e-12, 800.0, 1, np.float64(0.7), float("nan"),
          float("inf"), "x", None, np.array([0.5, 1.0])):
    sweep("exponential", exponential, (a,))
call("exponential()", exponential)
try:  # arity error: type only (the message counts the new optional parameters)
    exponential(1, 2, 3, 4)
    print("exponential(1,2,3,4) -> no error")
except BaseException as e:  # noqa
    print("exponential(1,2,3,4) -> RAISED", type(e).__name__)

print("== poisson")
for m in (0.5, 1.0, 2.5, 6.0, 0.0, -2.0, 1e-9, 750.0, 3, np.float64(2.5), float("nan"),
          float("inf"), "x", None, np.array([0.5, 1.0])):
    sweep("poisson", poisson, (m,))
call("poisson()", poisson)

print("== power_law")
for alpha in (2.0, 2.5, 3.5, 1.5, 30.0, 2, np.float64(2.2), 1e3, "x", None):  # nan never terminates (before and after)
    sweep("power_law", power_law, (alpha,))
call("power_law()", power_law)

print("== scale_free_cut_off")
for alpha, kappa in (
    (2.0, 10.0), (2.5, 25.0), (3.0, 2.0), (2.0, 100.0), (1.0, 5.0), (0.0, 3.0), (-1.0, 2.0),
    (2.0, 0.05), (-5.0, 0.07), (2.5, 1e-3), (2.0, 0.0), (2.0, 0), (2, 7), (2.0, np.float64(12.0)),
    (np.float64(2.5), 4.0), (2.0, 1e3), ("x", 2.0), (2.0, "x"),
    (None, 2.0), (2.0, None), (2.0, np.float64(0.0)),  # nan parameters never terminate (before and after)
):
    sweep("scale_free_cut_off", scale_free_cut_off, (alpha, kappa))
call("scale_free_cut_off(2.0)", scale_free_cut_off, 2.0)

print("== library consumers (seeded)")


def digest_jds(jds):
    h = hashlib.sha256(repr(jds).encode()).hexdigest()
    return f"n={len(jds)} sha256={h} head={jds[:8]!r}"


def marginal(fps, bounds, sizes, sampling, n):
    params = {}
    params[JointDegreeNames.MOTIF_SIZES] = list(sizes)
    params[JointDegreeNames.ARR_FP] = list(fps)
    params[JointDegreeNames.LOW_HIGH_DEGREE_BOUND] = list(bounds)
    if sampling:
        params[JointDegreeNames.USE_SAMPLING] = True
        params[JointDegreeNames.N_SAMPLES] = 5000
    obj = JointDegreeMarginal(params)
    jdd = obj._jdd
    print("   jdd:", hashlib.sha256(repr(sorted((k, float(v).hex()) for k, v in jdd.items())).encode()).hexdigest(),
          "size", len(jdd))
    jds = obj.sample_jds_from_jdd(n)
    print("   params after:", params[JointDegreeNames.MOTIF_SIZES], params[JointDegreeNames.LOW_HIGH_DEGREE_BOUND],
          len(params[JointDegreeNames.ARR_FP]))
    return digest_jds(jds)


def run(label, f, *a):
    try:
        print(label, "->", f(*a))
    except BaseException as e:  # noqa
        print(label, "-> RAISED", type(e).__name__, e)
    print("   random state:", hashlib.sha256(repr(random.getstate()).encode()).hexdigest())
    st = np.random.get_state()
    print("   numpy state:", hashlib.sha256(repr((st[0], st[1].tolist(), st[2], st[3], st[4])).encode()).hexdigest())


run("marginal poisson direct", marginal, [poisson(2.5)], [(0, 10)], [2], False, 2000)
run("marginal poisson x2 direct", marginal, [poisson(2.5), poisson(1.0)], [(0, 8), (0, 6)], [2, 3], False, 2000)
run("marginal poisson x2 sampling", marginal, [poisson(2.5), poisson(2.5)], [(0, 10), (0, 10)], [2, 3], True, 2000)
run("marginal exponential sampling", marginal, [exponential(0.5)], [(0, 20)], [2], True, 2000)
run("marginal exponential direct", marginal, [exponential(0.5), exponential(1.0)], [(0, 9), (0, 5)], [2, 3], False, 2000)
run("marginal power_law direct", marginal, [power_law(2.5)], [(1, 60)], [2], False, 2000)
run("marginal power_law from 0 (error path)", marginal, [power_law(2.5)], [(0, 10)], [2], False, 100)
run("marginal cut-off sampling", marginal, [scale_free_cut_off(2.5, 20.0)], [(1, 80)], [3], True, 2000)
run("marginal cut-off from 0 (error path)", marginal, [scale_free_cut_off(2.5, 20.0)], [(0, 10)], [3], True, 100)


def delta(fp, bounds):
    params = {}
    params[JointDegreeNames.MOTIF_SIZES] = [2, 3]
    params[JointDegreeNames.PROBS] = [0.8, 0.2]
    params[JointDegreeNames.FP] = fp
    params[JointDegreeNames.LOW_HIGH_DEGREE_BOUND] = bounds
    params[JointDegreeNames.TARGET_K] = 3
    obj = JointDegreeDelta(params)
    return digest_jds(obj.sample_jds_from_jdd(2000))


run("delta power_law", delta, power_law(2.5), (1, 200))
run("delta cut-off", delta, scale_free_cut_off(2.2, 30.0), (1, 200))
run("delta poisson", delta, poisson(4.0), (0, 30))
run("delta power_law from 0 (error path)", delta, power_law(2.5), (0, 50))

print("== final RNG draws")
print(repr(random.random()), repr(float(np.random.random())))
