"""
Equivalence digest for C17 (message passing).  Run with cwd = a checkout of gcmpy.
Uses ONLY the pre-existing public / private API through its pre-existing signatures.
"""
import hashlib
import os
import pickle
import random
import sys

sys.path.insert(0, os.getcwd())

import numpy as np
import networkx as nx

from gcmpy.message_passing.message_passing import MessagePassing
from gcmpy.message_passing.message_passing_mixin import MessagePassingMixin
from gcmpy.message_passing.equations.automated_equation import AutomatedEquation
import gcmpy

random.seed(1717)
np.random.seed(1717)


def R(x):
    """bit-exact deterministic rendering"""
    if isinstance(x, float):
        return "f:" + repr(x) + ":" + x.hex()
    if isinstance(x, (np.floating,)):
        return "npf:" + repr(float(x)) + ":" + float(x).hex()
    if isinstance(x, dict):
        return "{" + ", ".join(R(k) + ": " + R(v) for k, v in x.items()) + "}"
    if isinstance(x, (list, tuple)):
        o, c = ("[", "]") if isinstance(x, list) else ("(", ")")
        return o + ", ".join(R(v) for v in x) + c
    if isinstance(x, (set, frozenset)):
        return "set" + R(sorted(x, key=repr))
    return type(x).__name__ + ":" + repr(x)


def call(tag, fn, *a, **k):
    try:
        r = fn(*a, **k)
        print(tag, "->", R(r))
        return r
    except BaseException as e:  # noqa
        print(tag, "!!", type(e).__name__, repr(e.args))
        return None


def graph_digest(G):
    return R(
        {
            "name": G.name,
            "nodes": [(n, dict(d)) for n, d in G.nodes(data=True)],
            "edges": [(u, v, dict(d)) for u, v, d in G.edges(data=True)],
            "graph": dict(G.graph),
        }
    )


def ae_state(AE):
    return R(
        {
            "cs": {k: [sorted(s) for s in v] for k, v in AE._connected_subgraphs.items()},
            "cs_raw": {k: [list(s) for s in v] for k, v in AE._connected_subgraphs.items()},
            "ec": dict(AE._edge_combinations),
        }
    )


def mp_state(mp):
    d = {}
    for k in sorted(vars(mp)):
        if k in ("_MPM", "_AE"):
            continue
        d[k] = vars(mp)[k]
    keys = sorted(vars(mp))
    keys = [k for k in keys if k in ("_MPM", "_AE", "_H_tau", "_iterations", "_phi")]
    return R({"attrs_known": keys, "H": dict(mp._H_tau), "it": mp._iterations,
              "phi": getattr(mp, "_phi", "<unset>")}) + " AE=" + hashlib.sha256(
        ae_state(mp._AE).encode()).hexdigest()


def rng_digest():
    a = hashlib.sha256(repr(random.getstate()).encode()).hexdigest()
    st = np.random.get_state()
    b = hashlib.sha256(repr((st[0], st[1].tolist(), st[2], st[3], st[4])).encode()).hexdigest()
    return a[:32] + " " + b[:32]


# --------------------------------------------------------------------------- #
# graph builders
# --------------------------------------------------------------------------- #
def add_motif(G, key, vertices, edges, uid, attr="CoverLabel"):
    label = f"{key}-{list(vertices)}-{list(edges)}-{uid}"
    for (a, b) in edges:
        G.add_edge(a, b)
        G.edges[a, b][attr] = label
    return label


def clique_edges(vs):
    return [(vs[i], vs[j]) for i in range(len(vs)) for j in range(i + 1, len(vs))]


def cycle_edges(vs):
    return [(vs[i], vs[(i + 1) % len(vs)]) for i in range(len(vs))]


def small_graph():
    G = nx.Graph()
    uid = 0
    add_motif(G, 3, [0, 1, 2], clique_edges([0, 1, 2]), uid); uid += 1
    add_motif(G, 3, [2, 3, 4], clique_edges([2, 3, 4]), uid); uid += 1
    add_motif(G, 2, [4, 5], [(4, 5)], uid); uid += 1
    add_motif(G, 4, [5, 6, 7, 8], cycle_edges([5, 6, 7, 8]), uid); uid += 1
    add_motif(G, 5, [8, 9, 10, 11], [(8, 9), (9, 10), (10, 11), (11, 8), (8, 10)], uid); uid += 1
    add_motif(G, 6, [11, 12, 13, 14], clique_edges([11, 12, 13, 14]), uid); uid += 1
    add_motif(G, 2, [0, 14], [(0, 14)], uid); uid += 1
    return G


def random_cover_graph(n, n_motifs, rng, isolated=0):
    G = nx.Graph()
    G.add_nodes_from(range(n + isolated))
    used = set()
    uid = 0
    tries = 0
    while uid < n_motifs and tries < 20 * n_motifs:
        tries += 1
        kind = rng.choice(["edge", "edge", "tri", "tri", "c4", "k4", "diamond", "c5"])
        size = {"edge": 2, "tri": 3, "c4": 4, "k4": 4, "diamond": 4, "c5": 5}[kind]
        vs = rng.sample(range(n), size)
        if kind in ("edge", "tri", "k4"):
            es = clique_edges(vs)
        elif kind in ("c4", "c5"):
            es = cycle_edges(vs)
        else:
            es = cycle_edges(vs) + [(vs[0], vs[2])]
        fs = {frozenset(e) for e in es}
        if fs & used:
            continue
        used |= fs
        add_motif(G, {"edge": 2, "tri": 3, "c4": 4, "k4": 6, "diamond": 5, "c5": 7}[kind], vs, es, uid)
        uid += 1
    return G


# --------------------------------------------------------------------------- #
print("=== 1. MessagePassingMixin")
G0 = small_graph()
snap0 = graph_digest(G0)
M = MessagePassingMixin("motif cover", G0)
print("mixin attrs", R({k: (v if not isinstance(v, nx.Graph) else "<G>") for k, v in vars(M).items()
                        if k in ("_CoverType", "_G")}), M._G is G0)
for (i, j) in list(G0.edges()) + [(1, 0), (14, 0)]:
    lab = call(f"label {i},{j}", M.get_edge_cover_label, i, j)
    if lab is not None:
        call(" topo", M.get_motif_topology, lab)
        call(" id", M.get_motif_ID, lab)
        call(" vs", M.get_vertices_in_motif, lab)
        call(" es", M.get_edges_in_motif, lab)
call("label missing edge", M.get_edge_cover_label, 0, 7)
call("label missing node", M.get_edge_cover_label, 99, 100)
G0b = nx.Graph(); G0b.add_edge(0, 1)
Mb = MessagePassingMixin(cover_type="x", G=G0b)
call("label no attr", Mb.get_edge_cover_label, 0, 1)
for bad in ["", "abc", "3", "3-[0,1]", "x-[0, 1]-[(0, 1)]-y", "3-[0, 1, 2]-[(0, 1)]-7-8", "2-[0,-1]-[(0,-1)]-4",
            "2_[0, 1]_[(0, 1)]_4", " 2 -[0, 1]-[(0, 1)]- 9 ", "2-(0, 1)-{(0, 1)}-9", "2.5-[0]-[]-1.5",
            "2-[0, 1-[(0, 1)]-3"]:
    call(f"bad[{bad!r}] topo", M.get_motif_topology, bad)
    call(f"bad[{bad!r}] id", M.get_motif_ID, bad)
    call(f"bad[{bad!r}] vs", M.get_vertices_in_motif, bad)
    call(f"bad[{bad!r}] es", M.get_edges_in_motif, bad)
call("nonstr topo", M.get_motif_topology, 5)
call("nonstr id", M.get_motif_ID, None)
call("mixin ctor too few", MessagePassingMixin, "a")
call("mixin ctor none", lambda: vars(MessagePassingMixin(None, None)).get("_G"))
print("G0 unchanged", graph_digest(G0) == snap0)

# --------------------------------------------------------------------------- #
print("=== 2. AutomatedEquation")


def with_us(G, us, name=None):
    nx.set_node_attributes(G, us, "u")
    if name is not None:
        G.name = name
    return G


AE = AutomatedEquation()
print("fresh", ae_state(AE))
motifs = {
    "K2": nx.complete_graph(2), "K3": nx.complete_graph(3), "K4": nx.complete_graph(4),
    "K5": nx.complete_graph(5), "C4": nx.cycle_graph(4), "C5": nx.cycle_graph(5), "C6": nx.cycle_graph(6),
    "P3": nx.path_graph(3), "S4": nx.star_graph(3),
}
D = nx.Graph(); D.add_edges_from([(0, 1), (1, 2), (2, 3), (3, 0), (0, 2)]); motifs["diamond"] = D
B = nx.Graph(); B.add_edges_from([(10, 20), (20, 30), (30, 10), (30, 40), (40, 50), (50, 30)]); motifs["bowtie"] = B
for name, H in motifs.items():
    us = {n: 0.1 + 0.8 * random.random() for n in H.nodes()}
    with_us(H, us, name)
    snap = graph_digest(H)
    for root in list(H.nodes())[:3]:
        for p in (0.0, 1.0, 0.5645231765, 0.3, 1e-9, 0.999999):
            call(f"ae {name} root={root} p={p}", AE.automated_equation, H, p, root)
        call(f"ae {name} root={root} again", AE.automated_equation, H, 0.3, root)
        call(f"us {name} root={root}", AE.get_us, H, root)
        call(f"cs {name} root={root}", lambda: [sorted(s) for s in AE.get_connected_subgraphs(H, root)])
    call(f"ec {name}", AE.get_edge_combinations, H, list(H.nodes()))
    call(f"ec {name} again", AE.get_edge_combinations, H, list(H.nodes()))
    print("unchanged", name, graph_digest(H) == snap)
print("state", hashlib.sha256(ae_state(AE).encode()).hexdigest())
print("state keys", R(list(AE._connected_subgraphs)), R(list(AE._edge_combinations)))

# cache behaviour: same name, different graph / different u
AE2 = AutomatedEquation()
A = with_us(nx.complete_graph(3), {0: 0.2, 1: 0.4, 2: 0.6}, "same")
Bq = with_us(nx.cycle_graph(4), {0: 0.2, 1: 0.4, 2: 0.6, 3: 0.7}, "same")
call("collide A", AE2.automated_equation, A, 0.4, 0)
call("collide B", AE2.automated_equation, Bq, 0.4, 0)
call("collide A2", AE2.automated_equation, A, 0.4, 0)
Aq = with_us(nx.complete_graph(3), {0: 0.9, 1: 0.1, 2: 0.3}, "same")
call("collide A new us", AE2.automated_equation, Aq, 0.4, 0)
r1 = AE2.get_connected_subgraphs(A, 0)
r2 = AE2.get_connected_subgraphs(A, 0)
print("cs identity", r1 is r2, r1 is AE2._connected_subgraphs["0-same"])
e1 = AE2.get_edge_combinations(A, [0, 1, 2])
e2 = AE2.get_edge_combinations(A, [0, 1, 2])
print("ec identity", e1 is e2, R(e1))
print("state2", ae_state(AE2))
# unnamed graphs
AE3 = AutomatedEquation()
U1 = with_us(nx.complete_graph(3), {0: 0.5, 1: 0.25, 2: 0.125})
call("unnamed", AE3.automated_equation, U1, 0.7, 1)
print("state3", ae_state(AE3))
# error paths
E1 = nx.complete_graph(3); E1.name = "nou"
call("no u attr", AE3.automated_equation, E1, 0.5, 0)
print("state3 after no-u", ae_state(AE3))
call("no u attr again", AE3.automated_equation, E1, 0.5, 0)
call("get_us no u", AE3.get_us, E1, 0)
E2 = with_us(nx.complete_graph(3), {0: 0.5, 1: 0.5, 2: 0.5}, "rootmissing")
call("root missing", AE3.automated_equation, E2, 0.5, 17)
call("cs root missing", AE3.get_connected_subgraphs, E2, 17)
call("us root missing", AE3.get_us, E2, 17)
E3 = with_us(nx.complete_graph(3), {0: 0.5, 1: "a", 2: 0.5}, "stru")
call("str u", AE3.automated_equation, E3, 0.5, 0)
call("p str", AE3.automated_equation, E2, "x", 0)
call("p None", AE3.automated_equation, E2, None, 0)
call("p int", AE3.automated_equation, E2, 1, 0)
call("p >1", AE3.automated_equation, E2, 1.5, 0)
call("p neg", AE3.automated_equation, E2, -0.25, 0)
call("p complex", AE3.automated_equation, E2, 0.5 + 0.5j, 0)
call("p np", AE3.automated_equation, E2, np.float64(0.3), 0)
call("p nparr", lambda: AE3.automated_equation(E2, np.array([0.1, 0.9]), 0).tolist())
E4 = nx.Graph(); E4.add_node(0); E4.name = "single"; with_us(E4, {0: 0.3})
call("single node", AE3.automated_equation, E4, 0.5, 0)
E5 = nx.Graph(name="empty")
call("empty graph", AE3.automated_equation, E5, 0.5, 0)
E6 = with_us(nx.Graph([(0, 1), (2, 3)]), {0: .1, 1: .2, 2: .3, 3: .4}, "disconnected")
call("disconnected", AE3.automated_equation, E6, 0.5, 0)
call("disconnected ec", AE3.get_edge_combinations, E6, [0, 1])
call("G None", AE3.automated_equation, None, 0.5, 0)
call("ctor args", AutomatedEquation, 1, 2)
print("state3 end", ae_state(AE3))
# direct private helper
res = []
call("_gcs direct", AE3._get_connected_subgraphs, motifs["diamond"], {0}, set(motifs["diamond"].neighbors(0)), {0}, res, 4)
print("_gcs res", R([sorted(s) for s in res]))

# --------------------------------------------------------------------------- #
print("=== 3. MessagePassing small graph")
G1 = small_graph()
snap1 = graph_digest(G1)
mp = MessagePassing(G1)
print("init", mp_state(mp), mp._MPM._CoverType, mp._MPM._G is G1, type(mp._AE).__name__)
call("calc before theoretical", mp.calculate_H_tau, 0, G1.edges[0, 1]["CoverLabel"])
call("resolve before theoretical", mp.resolve_equation, 0, G1.edges[0, 1]["CoverLabel"], {1: 0.5, 2: 0.5})
print("after early", mp_state(mp))
phis = [0.0, 1.0, 0.5, 0.25, 0.75, 0.5, 0.1, 0.9, 0.3333333333333333, 0.5]
first = {}
for phi in phis:
    r = call(f"theoretical {phi}", mp.theoretical, phi)
    print("  state", hashlib.sha256(mp_state(mp).encode()).hexdigest())
    print("  H", R(mp._H_tau))
    fresh = MessagePassing(small_graph()).theoretical(phi)
    print("  fresh equal", R(fresh), fresh == r)
# direct calls after theoretical
lab = G1.edges[2, 3]["CoverLabel"]
call("calc direct", mp.calculate_H_tau, 2, lab)
call("calc direct 3", mp.calculate_H_tau, 3, lab)
print("  H", R(mp._H_tau))
call("resolve direct", mp.resolve_equation, 2, lab, {3: 0.25, 4: 0.75})
call("resolve direct missing prods", mp.resolve_equation, 2, lab, {3: 0.25})
call("resolve direct extra prods", mp.resolve_equation, 2, lab, {3: 0.25, 4: 0.5, 77: 0.1})
call("calc focal not in motif", mp.calculate_H_tau, 9, lab)
call("calc bad label", mp.calculate_H_tau, 2, "nonsense")
call("calc None label", mp.calculate_H_tau, 2, None)
print("  H", R(mp._H_tau))
print("G1 unchanged", graph_digest(G1) == snap1)
print("AE keys", R(list(mp._AE._connected_subgraphs)), len(mp._AE._edge_combinations))

print("=== 4. constructor forms and iterations")
for kw in [dict(), dict(cover_type="clique"), dict(iterations=0), dict(iterations=1), dict(iterations=3),
           dict(cover_type="x", iterations=7), dict(iterations=-2), dict(iterations=2.5), dict(iterations=None),
           dict(iterations="3")]:
    def run(kw=kw):
        m = MessagePassing(small_graph(), **kw)
        out = [m.theoretical(p) for p in (0.2, 0.8, 0.2)]
        return out, dict(m._H_tau), m._iterations, m._MPM._CoverType
    call(f"ctor {kw}", run)
call("positional", lambda: MessagePassing(small_graph(), "cc", 4).theoretical(0.6))
call("too many", lambda: MessagePassing(small_graph(), "cc", 4, 5, 6, 7, 8))
call("no args", lambda: MessagePassing())
call("theoretical no args", lambda: MessagePassing(small_graph()).theoretical())
call("theoretical kw", lambda: MessagePassing(small_graph()).theoretical(phi=0.45))
# iterations changed after construction
m = MessagePassing(small_graph())
m._iterations = 2
call("it changed", m.theoretical, 0.6)
call("top-level export", lambda: gcmpy.MessagePassing is MessagePassing and gcmpy.MessagePassingMixin is MessagePassingMixin)

print("=== 5. edge-case graphs")
call("empty graph", lambda: MessagePassing(nx.Graph()).theoretical(0.5))
Gi = nx.Graph(); Gi.add_nodes_from([0, 1, 2])
call("isolated only", lambda: MessagePassing(Gi).theoretical(0.5))
Gs = nx.Graph(); add_motif(Gs, 2, [0, 1], [(0, 1)], 0)
for phi in (0.0, 0.5, 1.0):
    call(f"single edge {phi}", lambda: MessagePassing(Gs).theoretical(phi))
Gs2 = small_graph(); Gs2.add_nodes_from([100, 101])
call("with isolated", lambda: MessagePassing(Gs2).theoretical(0.7))
Gn = small_graph(); Gn.add_edge(0, 7)
mn = MessagePassing(Gn)
call("unlabelled edge", mn.theoretical, 0.5)
print("  state", mp_state(mn))
Gbad = small_graph(); Gbad.edges[4, 5]["CoverLabel"] = "garbage"
mb = MessagePassing(Gbad)
call("garbage label", mb.theoretical, 0.5)
print("  state", mp_state(mb))
Gbad2 = small_graph(); Gbad2.edges[4, 5]["CoverLabel"] = "2-[4, 5, 6]-[(4, 5)]-2"
call("inconsistent label", lambda: MessagePassing(Gbad2).theoretical(0.5))
Gdup = small_graph()
# two motifs sharing a UID
Gdup.edges[0, 14]["CoverLabel"] = "2-[0, 14]-[(0, 14)]-0"
call("duplicate uid", lambda: MessagePassing(Gdup).theoretical(0.5))
Gdi = nx.DiGraph(); add_motif(Gdi, 2, [0, 1], [(0, 1)], 0); add_motif(Gdi, 2, [1, 2], [(1, 2)], 1)
call("digraph", lambda: MessagePassing(Gdi).theoretical(0.5))
call("G None", lambda: MessagePassing(None).theoretical(0.5))
mm = MessagePassing(small_graph())
for bad in ("x", None, [0.5], -0.5, 1.5, 2, np.float64(0.5), True):
    call(f"phi {bad!r}", mm.theoretical, bad)
    print("  state", hashlib.sha256(mp_state(mm).encode()).hexdigest())
call("phi after bad", mm.theoretical, 0.5)
call("phi fresh", MessagePassing(small_graph()).theoretical, 0.5)
# other attribute name present but not CoverLabel
Go = nx.Graph(); add_motif(Go, 2, [0, 1], [(0, 1)], 0, attr="label")
call("other attr", lambda: MessagePassing(Go).theoretical(0.5))

print("=== 6. random covers, order independence, monotonicity")
rng = random.Random(99)
for trial, (n, nm, iso) in enumerate([(30, 25, 0), (40, 45, 3), (25, 40, 0)]):
    G = random_cover_graph(n, nm, rng, isolated=iso)
    snap = graph_digest(G)
    print("graph", trial, G.order(), G.size(), hashlib.sha256(snap.encode()).hexdigest())
    mp = MessagePassing(G, iterations=12)
    grid = [0.0, 0.05, 0.15, 0.3, 0.45, 0.6, 0.8, 1.0]
    order = grid[:]
    random.shuffle(order)
    got = {}
    for phi in order + order[:3]:
        r = mp.theoretical(phi)
        print(" ", trial, "phi", R(phi), R(r))
        if phi in got:
            print("    repeat equal", got[phi] == r)
        got[phi] = r
    print("  H digest", hashlib.sha256(R(mp._H_tau).encode()).hexdigest())
    fresh = {phi: MessagePassing(G, iterations=12).theoretical(phi) for phi in grid}
    print("  fresh", R(fresh))
    print("  same as fresh", all(fresh[p] == got[p] for p in grid))
    vals = [fresh[p] for p in grid]
    print("  range ok", all(-1e-12 <= v <= 1 + 1e-12 for v in vals), "zero", R(vals[0]),
          "monotone", all(b >= a - 1e-9 for a, b in zip(vals, vals[1:])))
    print("  G unchanged", graph_digest(G) == snap)
    print("  AE digest", hashlib.sha256(ae_state(mp._AE).encode()).hexdigest())

print("=== 7. subclass hooks still dispatched")


class CountingMP(MessagePassing):
    def __init__(self, *a, **k):
        super().__init__(*a, **k)
        self.n_calc = 0
        self.n_res = 0

    def calculate_H_tau(self, focal, label):
        self.n_calc += 1
        return super().calculate_H_tau(focal, label)

    def resolve_equation(self, focal, label, prods):
        self.n_res += 1
        return super().resolve_equation(focal, label, prods)


class CountingAE(AutomatedEquation):
    def __init__(self):
        super().__init__()
        self.calls = []

    def get_us(self, G, root):
        self.calls.append(("us", root))
        return super().get_us(G, root)

    def get_edge_combinations(self, G, c):
        self.calls.append(("ec", tuple(c)))
        return super().get_edge_combinations(G, c)

    def get_connected_subgraphs(self, G, root):
        self.calls.append(("cs", root))
        return super().get_connected_subgraphs(G, root)


cm = CountingMP(small_graph(), iterations=3)
call("counting mp", cm.theoretical, 0.55)
print("counts", cm.n_calc, cm.n_res)
cae = CountingAE()
call("counting ae", cae.automated_equation, motifs["diamond"], 0.4, 0)
print("ae calls", R(cae.calls))
cm2 = MessagePassing(small_graph(), iterations=2)
cm2._AE = cae
cae.calls = []
call("mp w/ counting ae", cm2.theoretical, 0.35)
print("ae calls digest", len(cae.calls), hashlib.sha256(R(cae.calls).encode()).hexdigest())

print("=== RNG", rng_digest())
print("random next", R(random.random()), R(float(np.random.random())))
