import sys, os; sys.path.insert(0, os.getcwd())
import hashlib
import random

import networkx as nx
import numpy as np

from gcmpy.tools.joint_excess_degree import JointExcessDegree

random.seed(1313)
np.random.seed(1313)


def fmt(d):
    return [(k, float(v).hex()) for k, v in d.items()]


def rng_digest():
    a = hashlib.sha256(repr(random.getstate()).encode()).hexdigest()[:16]
    s = np.random.get_state()
    b = hashlib.sha256(repr((s[0], s[1].tolist(), s[2], s[3], s[4])).encode()).hexdigest()[:16]
    return a, b


def run(label, G, full=False):
    try:
        d = JointExcessDegree.get_ejk(G)
        items = fmt(d)
        h = hashlib.sha256(repr(items).encode()).hexdigest()[:16]
        if full or len(items) <= 12:
            print(label, type(d).__name__, len(items), h, items)
        else:
            print(label, type(d).__name__, len(items), h, items[:4])
    except BaseException as ex:
        print(label, "EXC", type(ex).__name__, repr(ex.args)[:120])


# --- hand-made edge cases ---------------------------------------------
cases = []
cases.append(("empty", nx.Graph()))
g = nx.Graph(); g.add_nodes_from(range(4)); cases.append(("edgeless", g))
cases.append(("single_edge", nx.Graph([(0, 1)])))
g = nx.Graph(); g.add_edge(0, 0); cases.append(("only_selfloop", g))
g = nx.Graph([(0, 1), (1, 2), (2, 2), (2, 3), (3, 3)]); cases.append(("selfloops", g))
cases.append(("path", nx.path_graph(6)))
cases.append(("star", nx.star_graph(7)))
cases.append(("complete", nx.complete_graph(6)))
cases.append(("strings", nx.Graph([("a", "b"), ("b", "c"), ("c", "a"), ("c", "d")])))
# nodes that are tuples whose members are nodes as well (nbunch ambiguity)
g = nx.Graph()
g.add_edges_from([(0, 1), (1, 2), ((0, 1), 2), ((0, 1), (1, 2)), ((1, 2), 0), ((), 0)])
cases.append(("tuple_nodes", g))
g = nx.Graph()
g.add_edges_from([(frozenset([0, 1]), 0), (frozenset([0, 1]), 1), (0, 1), (frozenset(), 1)])
cases.append(("frozenset_nodes", g))
g = nx.Graph(); g.add_edges_from([(1, 1.5), (1.5, True), (2, "2"), ("2", 2.5)])
cases.append(("mixed_nodes", g))
g = nx.Graph(); g.add_weighted_edges_from([(0, 1, 3.0), (1, 2, 0.5), (2, 0, 7)])
cases.append(("weighted", g))
cases.append(("digraph", nx.DiGraph([(0, 1), (1, 2), (2, 0), (0, 2), (2, 2), (3, 0)])))
cases.append(("multigraph", nx.MultiGraph([(0, 1), (0, 1), (1, 2), (2, 2), (2, 2), (2, 3)])))
cases.append(("multidigraph", nx.MultiDiGraph([(0, 1), (0, 1), (1, 0), (1, 2), (2, 2)])))
base = nx.karate_club_graph()
cases.append(("karate", base))
cases.append(("frozen", nx.freeze(nx.karate_club_graph())))
cases.append(("subgraph_view", base.subgraph(range(0, 20))))
cases.append(("edge_subgraph", base.edge_subgraph(list(base.edges())[::3])))
cases.append(("filter_view", nx.subgraph_view(base, filter_node=lambda n: n % 3 != 0, filter_edge=lambda u, v: (u + v) % 5 != 0)))
cases.append(("reverse_view", nx.DiGraph([(0, 1), (1, 2), (0, 2), (3, 3)]).reverse(copy=False)))
cases.append(("to_directed_view", nx.path_graph(5).to_directed(as_view=True)))
cases.append(("to_undirected_view", nx.DiGraph([(0, 1), (1, 0), (1, 2)]).to_undirected(as_view=True)))
for label, G in cases:
    run(label, G, full=True)

# --- error paths ---------------------------------------------------------
class NoDegree:
    def edges(self):
        return [(0, 1)]


class Half:
    def __init__(self):
        self.g = nx.path_graph(3)

    def edges(self):
        return self.g.edges()


for label, G in [("none", None), ("int", 3), ("dict", {0: {1: {}}}), ("list", [(0, 1)]),
                 ("str", "ab"), ("nodegree", NoDegree()), ("half", Half()), ("class", nx.Graph)]:
    run("err_" + label, G)

# --- many random graphs ---------------------------------------------------
for t in range(120):
    n = random.randint(1, 40)
    p = random.random()
    kind = t % 6
    seed = random.randrange(10 ** 6)
    if kind == 0:
        G = nx.gnp_random_graph(n, p, seed=seed)
    elif kind == 1:
        G = nx.gnp_random_graph(n, p, seed=seed, directed=True)
    elif kind == 2:
        G = nx.MultiGraph()
        G.add_nodes_from(range(n))
        for _ in range(random.randint(0, 3 * n)):
            G.add_edge(random.randrange(n), random.randrange(n))
    elif kind == 3:
        G = nx.Graph()
        for _ in range(random.randint(0, 3 * n)):
            G.add_edge(random.randrange(n), random.randrange(n))
    elif kind == 4:
        G = nx.barabasi_albert_graph(n + 2, 1 + random.randrange(min(n, 3)), seed=seed)
    else:
        G = nx.MultiDiGraph()
        for _ in range(random.randint(0, 3 * n)):
            G.add_edge(random.randrange(n), random.randrange(n))
    run("rand%03d_k%d" % (t, kind), G)

# --- repeated calls on one object, with mutation in between ---------------
G = nx.gnp_random_graph(30, 0.2, seed=5)
run("rep1", G)
run("rep2", G)
_ = G.degree  # cached property already built
run("rep3", G)
G.add_edge(0, 0)
G.add_edge(100, 0)
run("rep_after_add", G)
G.remove_node(1)
run("rep_after_remove", G)
H = G.copy()
run("rep_copy", H)
G.clear()
run("rep_cleared", G)

print("rng", rng_digest())
