import sys, os; sys.path.insert(0, os.getcwd())
import copy
import hashlib
import itertools
import random

import numpy as np

from gcmpy import JointDegreeFromExcess, JointExcessfromJDD

random.seed(1414)
np.random.seed(1414)

H = hashlib.sha256()


def emit(tag, value):
    line = f"{tag} :: {value}"
    H.update(line.encode())
    print(line)


def fx(v):
    return v.hex() if isinstance(v, float) else repr(v)


def show(d):
    if isinstance(d, dict):
        return [(repr(k), show(v)) for k, v in d.items()]
    return fx(d)


def call(tag, fn, qks, keys_factory):
    """keys_factory builds a fresh `keys` argument (it may be a one-shot iterator)."""
    for rep in range(2):
        snapshot = copy.deepcopy(qks) if isinstance(qks, dict) else None
        try:
            out = fn(qks, keys_factory())
            emit(f"{tag}#{rep}", show(out))
        except BaseException as e:  # noqa
            emit(f"{tag}#{rep} EXC", type(e).__name__)
        if snapshot is not None:
            emit(f"{tag}#{rep} input-unmutated", show(snapshot) == show(qks))


def both(tag, qks, keys_factory):
    call(tag + "/obs", JointDegreeFromExcess.observations_from_dict, qks, keys_factory)
    call(tag + "/jdd", JointDegreeFromExcess.get_joint_degree_distribution, qks, keys_factory)


def random_jdd(ntop, nkeys, maxdeg, positive_key=True):
    ks = set()
    if positive_key:
        ks.add(tuple(random.randint(1, maxdeg) for _ in range(ntop)))
    while len(ks) < nkeys:
        ks.add(tuple(random.randint(0, maxdeg) for _ in range(ntop)))
    ks = sorted(ks)
    random.shuffle(ks)
    w = [random.random() for _ in ks]
    t = sum(w)
    return {k: x / t for k, x in zip(ks, w)}


# the library's own worked example
jdd = {(1, 2): 0.2, (2, 0): 0.5, (3, 1): 0.1, (5, 1): 0.2}
names = ["2-clique", "3-clique"]
qks = JointExcessfromJDD.convert_list_qks_to_dict(
    JointExcessfromJDD.get_joint_excess_distributions(jdd), names
)
both("worked", qks, lambda: names)

# round trips on random distributions: 1..5 topologies, different key container kinds
case = 0
for ntop in (1, 2, 3, 4, 5):
    for nkeys in (1, 2, 5, 17, 60):
        for positive in (True, False):
            case += 1
            P = random_jdd(ntop, min(nkeys, 3 ** ntop), 2 + case % 4, positive)
            nm = [f"t{j}" for j in range(ntop)]
            try:
                q = JointExcessfromJDD.convert_list_qks_to_dict(
                    JointExcessfromJDD.get_joint_excess_distributions(P), nm
                )
            except BaseException as e:  # noqa
                emit(f"rt-{case} build EXC", type(e).__name__)
                continue
            both(f"rt-{case}-list", q, lambda: list(nm))
            both(f"rt-{case}-tuple", q, lambda: tuple(nm))
            both(f"rt-{case}-iter", q, lambda: iter(nm))
            both(f"rt-{case}-gen", q, lambda: (x for x in nm))
            both(f"rt-{case}-dictkeys", q, lambda: q.keys())
            if ntop > 1:
                both(f"rt-{case}-reversed", q, lambda: list(reversed(nm)))
                both(f"rt-{case}-prefix", q, lambda: nm[:-1])
                both(f"rt-{case}-dup", q, lambda: [nm[0], nm[0]] + nm[1:])
                both(f"rt-{case}-rot", q, lambda: nm[1:] + nm[:1])

# one topology name that is a str passed as `keys` (iterates characters)
q1 = {"a": {(0, 1): 0.25, (2, 1): 0.75}, "b": {(1, 0): 0.5, (2, 0): 0.5}}
both("str-keys", q1, lambda: "ab")
both("str-keys-ba", q1, lambda: "ba")
both("str-keys-aab", q1, lambda: "aab")

# error paths
both("empty-keys", q1, lambda: [])
both("empty-qks", {}, lambda: [])
both("missing-topology", q1, lambda: ["a", "c"])
both("too-many-keys", q1, lambda: ["a", "b", "a"])  # index 2 out of range of 2-tuples
both("none-keys", q1, lambda: None)
both("int-keys", q1, lambda: 3)
both("unhashable-key", q1, lambda: [["a"]])
both("qks-none", None, lambda: ["a"])
both("qks-list", [q1["a"], q1["b"]], lambda: [0, 1])
both("empty-qk", {"a": {}, "b": {(1, 0): 1.0}}, lambda: ["a", "b"])
both("all-empty-qk", {"a": {}, "b": {}}, lambda: ["a", "b"])
both("minus-one-first", {"a": {(-1, 1): 0.5, (0, 1): 0.5}, "b": {(1, 0): 1.0}}, lambda: ["a", "b"])
both("minus-one-second", {"a": {(0, 1): 1.0}, "b": {(1, -1): 0.5, (1, 0): 0.5}}, lambda: ["a", "b"])
both("minus-one-last-index", {"a": {(0, 1, -1): 1.0}, "b": {(1, 0, -1): 1.0}}, lambda: ["a", "b"])
both("no-common", {"a": {(0, 0): 1.0}, "b": {(5, 5): 1.0}}, lambda: ["a", "b"])
both("zero-mass", {"a": {(0, 1): 0.0}, "b": {(1, 0): 0.0}}, lambda: ["a", "b"])
both("str-values", {"a": {(0, 1): "x"}, "b": {(1, 0): 1.0}}, lambda: ["a", "b"])
both("short-tuples", {"a": {(0,): 1.0}, "b": {(0,): 1.0}}, lambda: ["a", "b"])
both("non-tuple-excess", {"a": {3: 1.0}}, lambda: ["a"])
both("list-valued-excess", {"a": {"ab": 1.0}}, lambda: ["a"])
both("numpy-values", {"a": {(0, 1): np.float64(0.5), (1, 1): np.float64(0.5)},
                      "b": {(1, 0): np.float32(0.25), (2, 0): np.float32(0.75)}}, lambda: ["a", "b"])
both("int-values", {"a": {(0, 1): 1, (1, 1): 3}, "b": {(1, 0): 2, (2, 0): 2}}, lambda: ["a", "b"])

# asymmetric tuples: a wrong index would be visible in the resulting keys
asym = {"a": {(0, 10, 20): 0.5, (3, 10, 20): 0.5},
        "b": {(1, 9, 20): 0.25, (4, 9, 20): 0.75},
        "c": {(1, 10, 19): 0.4, (4, 10, 19): 0.6}}
for perm in itertools.permutations("abc"):
    both("asym-" + "".join(perm), asym, lambda: list(perm))
for r in (1, 2):
    for comb in itertools.combinations("abc", r):
        both("asym-sub-" + "".join(comb), asym, lambda: list(comb))

# a keys iterable that counts how often and how far it is consumed
class Counting:
    def __init__(self, items):
        self.items = items
        self.iters = 0
        self.nexts = 0

    def __iter__(self):
        self.iters += 1
        for x in self.items:
            self.nexts += 1
            yield x


for tag, items, q in (("ok", ["a", "b"], q1), ("fail-second", ["a", "zz", "b"], q1),
                      ("fail-index", ["a", "b", "a", "b"], q1)):
    c = Counting(items)
    try:
        out = JointDegreeFromExcess.observations_from_dict(q, c)
        emit(f"counting-{tag}", show(out))
    except BaseException as e:  # noqa
        emit(f"counting-{tag} EXC", type(e).__name__)
    emit(f"counting-{tag} consumption", (c.iters, c.nexts))

emit("random-state", hashlib.sha256(repr(random.getstate()).encode()).hexdigest())
emit("numpy-state", hashlib.sha256(repr(np.random.get_state()).encode()).hexdigest())
print("DIGEST", H.hexdigest())
