"""Equivalence digest for gcmpy/tools/draw_set.py (run with cwd = a checkout)."""
import hashlib
import os
import random
import sys

sys.path.insert(0, os.getcwd())

import numpy as np  # noqa: E402

from gcmpy.tools.draw_set import DrawSet  # noqa: E402

OUT = []


def emit(tag, value):
    OUT.append("%s: %r" % (tag, value))


def state(ds):
    # full internal state: list order and the position table, in insertion order
    return (list(ds._edges), list(ds._edge_hashmap.items()))


def rng_digest():
    h = hashlib.sha256()
    h.update(repr(random.getstate()).encode())
    st = np.random.get_state()
    h.update(repr((st[0], st[1].tolist(), st[2], st[3], st[4])).encode())
    return h.hexdigest()


class Loud(object):
    """Hashable element recording every __hash__ / __eq__ call."""

    log = None

    def __init__(self, k):
        self.k = k

    def __hash__(self):
        Loud.log.append(("h", self.k))
        return hash(self.k) % 3  # force collisions -> __eq__ calls

    def __eq__(self, other):
        Loud.log.append(("e", self.k, getattr(other, "k", None)))
        return isinstance(other, Loud) and self.k == other.k

    def __repr__(self):
        return "L%r" % (self.k,)


def scenario_basic():
    ds = DrawSet()
    emit("empty.state", state(ds))
    emit("empty.len", len(ds))
    emit("empty.iter", list(ds))
    emit("empty.contains", (1, 2) in ds)
    try:
        ds.draw()
        emit("empty.draw", "no error")
    except Exception as ex:  # IndexError from random.choice
        emit("empty.draw", (type(ex).__name__, str(ex)))
    try:
        ds.remove((1, 2))
        emit("empty.remove", "no error")
    except Exception as ex:
        emit("empty.remove", (type(ex).__name__, str(ex)))
    emit("empty.state.after", state(ds))

    emit("add.ret", ds.add((1, 2)))
    emit("s1", state(ds))
    emit("add.dup.ret", ds.add((1, 2)))
    emit("s1.dup", state(ds))
    emit("draw.single", ds.draw())
    emit("remove.only.ret", ds.remove((1, 2)))
    emit("s0", state(ds))
    # re-add after emptying
    ds.add((1, 2))
    ds.add((3, 4))
    ds.add((5, 6))
    emit("s3", state(ds))
    ds.remove((1, 2))  # remove first: last moved to front
    emit("s3.rm.first", state(ds))
    ds.remove((3, 4))  # remove last
    emit("s3.rm.last", state(ds))
    ds.add((3, 4))
    ds.add((1, 2))
    ds.remove((3, 4))  # remove middle
    emit("s3.rm.mid", state(ds))
    for bad in [(9, 9), None, 7]:
        try:
            ds.remove(bad)
            emit("rm.absent", "no error")
        except Exception as ex:
            emit("rm.absent", (type(ex).__name__, str(ex)))
        emit("rm.absent.state", state(ds))
    for bad in [[1, 2], {1: 2}, ([1], 2)]:
        for op in ("add", "remove", "contains"):
            try:
                if op == "add":
                    ds.add(bad)
                elif op == "remove":
                    ds.remove(bad)
                else:
                    bad in ds
                emit("unhashable." + op, "no error")
            except Exception as ex:
                emit("unhashable." + op, (type(ex).__name__, str(ex)))
            emit("unhashable.state", state(ds))
    # equal-but-distinct keys: 1 == 1.0 == True
    ds2 = DrawSet()
    ds2.add(1)
    ds2.add(1.0)
    ds2.add(True)
    ds2.add((1, 2))
    ds2.add((1.0, 2.0))
    emit("eqkeys", state(ds2))
    ds2.remove(1.0)
    emit("eqkeys.rm", state(ds2))
    ds2.remove((True, 2))
    emit("eqkeys.rm2", state(ds2))
    emit("rng.basic", rng_digest())


def scenario_random(seed, n_ops, universe):
    random.seed(seed)
    np.random.seed(seed)
    gen = random.Random(seed * 7919 + 1)  # private stream chooses the ops
    ds = DrawSet()
    model = set()
    h = hashlib.sha256()
    draws = []
    for step in range(n_ops):
        r = gen.random()
        a = gen.randrange(universe)
        b = gen.randrange(universe)
        e = tuple(sorted((a, b)))
        if r < 0.45:
            ret = ds.add(e)
            model.add(e)
            h.update(repr(("add", e, ret)).encode())
        elif r < 0.75:
            try:
                ret = ds.remove(e)
                model.discard(e)
                h.update(repr(("rm", e, ret)).encode())
            except Exception as ex:
                h.update(repr(("rm!", e, type(ex).__name__, str(ex))).encode())
        elif r < 0.9:
            try:
                d = ds.draw()
                draws.append(d)
                h.update(repr(("draw", d)).encode())
            except Exception as ex:
                h.update(repr(("draw!", type(ex).__name__, str(ex))).encode())
        else:
            h.update(repr(("in", e, e in ds, len(ds))).encode())
        h.update(repr(state(ds)).encode())
        assert set(ds) == model and len(ds) == len(model)
    emit("rand[%d,%d,%d].trace" % (seed, n_ops, universe), h.hexdigest())
    emit("rand[%d,%d,%d].final" % (seed, n_ops, universe), state(ds))
    emit("rand[%d,%d,%d].len" % (seed, n_ops, universe), len(ds))
    emit("rand[%d,%d,%d].iter" % (seed, n_ops, universe), list(iter(ds)))
    emit("rand[%d,%d,%d].draws" % (seed, n_ops, universe), draws[:25])
    # repeated draws on same object
    emit("rand[%d,%d,%d].moredraws" % (seed, n_ops, universe),
         [ds.draw() for _ in range(20)] if len(ds) else None)
    emit("rand[%d,%d,%d].rng" % (seed, n_ops, universe), rng_digest())


def scenario_loud():
    Loud.log = []
    ds = DrawSet()
    objs = [Loud(i) for i in range(9)]
    for o in objs:
        ds.add(o)
    ds.add(Loud(4))  # equal to a present element, different identity
    ds.add(objs[0])
    emit("loud.add.log", list(Loud.log))
    emit("loud.add.state", state(ds))
    Loud.log = []
    ds.remove(Loud(3))
    ds.remove(objs[8])
    ds.remove(objs[0])
    try:
        ds.remove(Loud(3))
    except Exception as ex:
        emit("loud.rm.absent", (type(ex).__name__, str(ex)))
    emit("loud.rm.log", list(Loud.log))
    emit("loud.rm.state", state(ds))
    Loud.log = []
    emit("loud.contains", [Loud(i) in ds for i in range(10)])
    emit("loud.contains.log", list(Loud.log))
    # identity of stored objects (first-inserted object is the one kept)
    emit("loud.identity", [any(x is o for o in objs) for x in ds])


def scenario_iteration_mutation():
    # iteration is a live list iterator; mutation during iteration is observable
    ds = DrawSet()
    for i in range(6):
        ds.add((i, i + 1))
    seen = []
    for x in ds:
        seen.append(x)
        if x == (1, 2):
            ds.remove((0, 1))
        if x == (3, 4):
            ds.add((10, 11))
    emit("itermut.seen", seen)
    emit("itermut.state", state(ds))


def scenario_mcmc_like():
    # the way the MCMC rewiring uses it
    import networkx as nx

    random.seed(2024)
    np.random.seed(2024)
    G = nx.gnm_random_graph(40, 120, seed=5)
    ds = DrawSet()
    for e in G.edges():
        ds.add(tuple(sorted(e)))
    emit("mcmc.init", state(ds))
    picks = []
    for _ in range(300):
        e0 = ds.draw()
        e1 = ds.draw()
        picks.append((e0, e1))
        if len({e0[0], e0[1], e1[0], e1[1]}) < 4:
            continue
        n0 = tuple(sorted((e0[0], e1[1])))
        n1 = tuple(sorted((e1[0], e0[1])))
        if n0 in ds or n1 in ds:
            continue
        ds.remove(e0)
        ds.remove(e1)
        ds.add(n0)
        ds.add(n1)
    emit("mcmc.picks", hashlib.sha256(repr(picks).encode()).hexdigest())
    emit("mcmc.final", state(ds))
    emit("mcmc.rng", rng_digest())


def main():
    random.seed(12345)
    np.random.seed(12345)
    scenario_basic()
    for seed, n_ops, universe in [(0, 50, 3), (1, 400, 5), (2, 2000, 12), (3, 3000, 40), (4, 10, 1)]:
        scenario_random(seed, n_ops, universe)
    scenario_loud()
    scenario_iteration_mutation()
    scenario_mcmc_like()
    emit("final.rng", rng_digest())
    sys.stdout.write("\n".join(OUT) + "\n")


if __name__ == "__main__":
    main()
