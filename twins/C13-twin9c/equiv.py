import sys, os; sys.path.insert(0, os.getcwd())
import random
import hashlib
import numpy as np
import networkx as nx
from gcmpy.names.network_names import NetworkNames
from gcmpy.names.tools_names import ToolsNames
from gcmpy.tools.joint_excess_joint_degree import JointExcessJointDegree
from gcmpy.tools.joint_excess_joint_degree_matrices import JointExcessJointDegreeMatrices

random.seed(1303)
np.random.seed(1303)

JD = NetworkNames.JOINT_DEGREE
TOP = NetworkNames.TOPOLOGY
LINES = []


def out(*a):
    LINES.append(" ".join(str(x) for x in a))


def state(M, stable):
    k = M.excess_degree_keys
    if stable:
        keys = [(repr(t), [repr(x) for x in v]) for t, v in k.items()]
    else:  # str hashes are salted per process: compare as sorted lists
        keys = [(repr(t), sorted(repr(x) for x in v), len(v)) for t, v in k.items()]
    return (keys, repr(M.topology_names), repr(M.ejks))


def build(tag, params, stable=True):
    try:
        M = JointExcessJointDegreeMatrices(params)
    except BaseException as e:
        out(tag, "ctor EXC", type(e).__name__)
        return None
    out(tag, "ctor OK", state(M, stable))
    for rep in range(2):
        try:
            r = M.get_excess_degree_keys()
            out(tag, rep, "again OK", repr(r), state(M, stable))
        except BaseException as e:
            out(tag, rep, "again EXC", type(e).__name__, state(M, stable))
    return M


def P(ejks, names):
    return {ToolsNames.EJKS: ejks, ToolsNames.EDGE_NAMES: names}


rng = random.Random(5)

# default construction, setters, recomputation after the setter
M = JointExcessJointDegreeMatrices()
out("default", state(M, True))
M.get_excess_degree_keys(); out("default/recomputed", state(M, True))
M.ejks = {"a": {(0, 1): 0.5, (1, 0): 0.5}}
M.get_excess_degree_keys(); out("default/set", state(M, True))
M.ejks["b"] = {(3, 4, 5): 1.0}
M.get_excess_degree_keys(); out("default/odd", state(M, True))

# keys of every length 0..9, one topology each
for n in range(10):
    d = {}
    for _ in range(6):
        d[tuple(rng.randrange(4) for _ in range(n))] = rng.random()
    build(f"len{n}", P({"t": d}, ["t"]))

# mixed lengths inside one matrix
d = {(): 0.1, (1,): 0.2, (1, 2): 0.3, (1, 2, 3): 0.1, (1, 2, 3, 4): 0.1, (1, 2, 3, 4, 5): 0.2}
build("mixed", P({"t": d}, ["t"]))

# many topologies, random even keys
for s in range(20):
    k = rng.randint(1, 4)
    names = [f"t{j}" for j in range(k)]
    ejks = {}
    for name in names:
        d = {}
        for _ in range(rng.randint(0, 12)):
            a = tuple(rng.randrange(5) for _ in range(k))
            b = tuple(rng.randrange(5) for _ in range(k))
            d[a + b] = d.get(a + b, 0) + 0.25
            d[b + a] = d.get(b + a, 0) + 0.25
        ejks[name] = d
    build(f"rand{s}", P(ejks, names))

# non-tuple keys: lists are unhashable so use str, bytes, range, frozenset, generators are not hashable keys -> skip
build("str_keys", P({"t": {"abcd": 1.0, "xyz": 0.5, "": 0.1, "q": 0.2}}, ["t"]), stable=False)
build("bytes_keys", P({"t": {b"abcd": 1.0, b"xyz": 0.5}}, ["t"]))
build("range_keys", P({"t": {range(5): 1.0, range(4): 0.5, range(0): 0.1}}, ["t"]))
build("frozenset_keys", P({"t": {frozenset([1, 2, 3]): 1.0}}, ["t"]))
build("float_elems", P({"t": {(0.5, 1.5, float("inf"), -0.0): 1.0}}, ["t"]))
build("nested", P({"t": {((1, 2), (3, 4), (5,)): 1.0}}, ["t"]))
build("unhashable_half", P({"t": {(1, 2): 0.5}, "u": {((1,), 2): 0.5}}, ["t", "u"]))

# keys that cannot be listed / hashed after the split
build("int_key", P({"t": {5: 1.0}}, ["t"]))
build("none_key", P({"t": {None: 1.0}}, ["t"]))
build("good_then_int", P({"s": {(1, 2): 1.0}, "t": {(1, 1): 0.5, 7: 0.5}}, ["s", "t"]))



class HKey:
    """hashable key whose elements are unhashable lists"""

    def __init__(self, n):
        self.n = n

    def __iter__(self):
        return iter([[j] for j in range(self.n)])

    def __repr__(self):
        return f"HKey({self.n})"


for n in range(4):
    build(f"hkey{n}", P({"s": {(1, 2, 3): 1.0}, "t": {HKey(n): 1.0}}, ["s", "t"]))

# failure half way through a recomputation leaves the earlier topologies filled in
M = JointExcessJointDegreeMatrices(P({"s": {(1, 2): 1.0}}, ["s"]))
for bad in [{"s": {(4, 5, 6): 1.0}, "t": {(1, 1): 0.5, 7: 0.5}, "u": {(1, 2): 1.0}},
            {"s": {(4, 5, 6, 7, 8): 1.0}, "t": {HKey(1): 1.0}},
            {"s": {(9,): 1.0}, "t": {HKey(0): 1.0}, "u": None}]:
    M.ejks = bad
    try:
        M.get_excess_degree_keys()
        out("partial OK", state(M, True))
    except BaseException as e:
        out("partial EXC", type(e).__name__, state(M, True))

# matrices that are not dicts
build("list_matrix", P({"t": [(1, 2), (3, 4, 5)]}, ["t"]))
build("set_matrix", P({"t": {(1, 2, 3, 4)}}, ["t"]))
build("none_matrix", P({"t": None}, ["t"]))
build("int_matrix", P({"t": 3}, ["t"]))
build("ejks_list", P([], ["t"]))
build("ejks_none", P(None, ["t"]))
build("ejks_str", P("ab", ["t"]))

# bad params
build("empty_params", {})
build("no_names", {ToolsNames.EJKS: {"t": {(1, 2): 1.0}}})
build("no_ejks", {ToolsNames.EDGE_NAMES: ["t"]})
build("str_param_keys", {"ejks": {}, "edge_names": []})
build("params_list", [1, 2])
build("params_zero", 0)

# get_topology_index on the built objects
M = build("idx", P({"a": {(0, 0): 1.0}, "b": {}}, ["a", "b"]))
for t in ["a", "b", "c", None]:
    try:
        out("topology_index", repr(t), M.get_topology_index(t))
    except BaseException as e:
        out("topology_index", repr(t), "EXC", type(e).__name__)

# round trip: extract from annotated networks, rebuild the container from the extracted matrices
for s in range(15):
    k = rng.randint(1, 3)
    names = [f"t{j}" for j in range(k)]
    G = nx.gnp_random_graph(rng.randint(2, 20), rng.random(), seed=s)
    for e in G.edges():
        G.edges[e][TOP] = rng.choice(names)
    for n in G.nodes():
        jd = [0] * k
        for nb in G[n]:
            jd[names.index(G.edges[n, nb][TOP])] += 1
        G.nodes[n][JD] = tuple(jd)
    E = JointExcessJointDegree({ToolsNames.NETWORK: G, ToolsNames.EDGE_NAMES: names}).get_ejks()
    out(f"rt{s}", "extracted", state(E, True))
    R = build(f"rt{s}", P(E.ejks, E.topology_names))
    out(f"rt{s}", "same-key-sets", [sorted(R.excess_degree_keys[t]) == sorted(set(a[:k] for a in E.ejks[t])) for t in E.ejks])

out("py-rng", hashlib.sha256(repr(random.getstate()).encode()).hexdigest())
out("np-rng", hashlib.sha256(repr(np.random.get_state()).encode()).hexdigest())
body = "\n".join(LINES)
print(body)
print("DIGEST", hashlib.sha256(body.encode()).hexdigest())
