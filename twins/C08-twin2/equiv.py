"""Equivalence digest for the C08 refactoring (run with cwd = a checkout)."""
import hashlib
import os
import random
import sys

sys.path.insert(0, os.getcwd())

import numpy as np  # noqa: E402

from gcmpy.joint_degree.joint_degree import JointDegree  # noqa: E402
from gcmpy.joint_degree.joint_degree_loaders.joint_degree_cover import (  # noqa: E402
    JointDegreeCover,
)
from gcmpy.names.joint_degree_names import JointDegreeNames  # noqa: E402


def rng_digest() -> str:
    blob = repr(random.getstate()) + repr(np.random.get_state()[1].tolist())
    return hashlib.sha256(blob.encode()).hexdigest()[:16]


def seed(n: int) -> None:
    random.seed(n)
    np.random.seed(n)


def attempt(label, fn):
    try:
        out = fn()
        print(f"{label}: OK {out!r}")
    except BaseException as e:  # noqa: BLE001
        print(f"{label}: EXC {type(e).__name__}: {e}")
    print(f"{label}: rng {rng_digest()}")


class Dummy(JointDegree):
    def __init__(self, jdd=None, motif_sizes=None):
        self._jdd = jdd
        self._motif_sizes = motif_sizes

    def create_jdd(self) -> None:
        pass


def show(obj):
    jdd = obj.jdd
    return (
        obj.motif_sizes,
        list(jdd.items()) if isinstance(jdd, dict) else jdd,
        type(jdd).__name__,
    )


# ---------------------------------------------------------------- cover loader
COVERS = {
    "zero_based": [[0, 1, 2], [2, 3], [3, 4, 5, 6], [0, 6], [1, 5]],
    "one_based": [[1, 2, 3], [3, 4], [4, 5, 6, 7], [1, 7], [2, 6]],
    "gap_sizes": [[0, 1], [1, 2, 3, 4, 5], [5, 6], [6, 7, 8, 9, 0]],
    "single_clique": [[0, 1, 2, 3]],
    "single_vertex_cliques": [[0], [1], [2], [0]],
    "tuples_and_sets": [(0, 1, 2), (2, 3), frozenset([3, 4])],
    "repeated_clique": [[1, 2], [1, 2], [2, 3, 4], [4, 1]],
    "with_empty_clique": [[0, 1], [], [1, 2, 3]],
    "only_empty_clique": [[]],
    "empty_cover": [],
    "two_based_oob": [[2, 3], [3, 4]],
    "gap_in_ids_oob": [[0, 1], [1, 7]],
    "negative_ids_wrap": [[-1, 0], [0, 1, 2]],
    "numpy_ids": [list(np.array([0, 1, 2])), list(np.array([2, 3]))],
    "float_ids": [[0.0, 1.0], [1.0, 2.0]],
    "big_only_5": [[1, 2, 3, 4, 5], [5, 6, 7, 8, 9]],
    "unhashable_vertex": [[[0], [1]]],
}

rnd = random.Random(12345)
big = []
for _ in range(200):
    k = rnd.choice([2, 3, 4, 6, 9])
    big.append(rnd.sample(range(60), k))
# make ids contiguous from 0
present = sorted({v for c in big for v in c})
remap = {v: i for i, v in enumerate(present)}
COVERS["random_big"] = [[remap[v] for v in c] for c in big]
COVERS["random_big_one_based"] = [[remap[v] + 1 for v in c] for c in big]

for name, cover in COVERS.items():
    seed(7)
    import copy

    original = copy.deepcopy(cover)

    def build(cover=cover):
        obj = JointDegreeCover({JointDegreeNames.COVER: cover})
        return show(obj), obj.cover is cover

    attempt(f"cover[{name}]", build)
    print(f"cover[{name}]: input unchanged {cover == original}")

# generator cover (single-pass iterable), missing key, wrong params
attempt(
    "cover[generator]",
    lambda: show(JointDegreeCover({JointDegreeNames.COVER: (c for c in [[0, 1], [1, 2]])})),
)
attempt("cover[missing_key]", lambda: show(JointDegreeCover({})))
attempt("cover[params_none]", lambda: show(JointDegreeCover(None)))
attempt("cover[cover_none]", lambda: show(JointDegreeCover({JointDegreeNames.COVER: None})))
attempt("cover[cover_int_items]", lambda: show(JointDegreeCover({JointDegreeNames.COVER: [1, 2]})))


# call history: change the cover via the setter and recreate
def history():
    out = []
    obj = JointDegreeCover({JointDegreeNames.COVER: COVERS["zero_based"]})
    out.append(show(obj))
    obj.cover = COVERS["gap_sizes"]
    obj.create_jdd()
    out.append(show(obj))  # motif sizes deliberately stale
    obj.cover = []
    try:
        obj.create_jdd()
    except Exception as e:  # noqa: BLE001
        out.append((type(e).__name__, str(e)))
    out.append(show(obj))
    obj.cover = COVERS["gap_in_ids_oob"]
    try:
        obj.create_jdd()
    except Exception as e:  # noqa: BLE001
        out.append((type(e).__name__, str(e)))
    out.append(show(obj))
    obj.cover = COVERS["one_based"]
    obj.create_jdd()
    obj.create_jdd()
    out.append(show(obj))
    return out


attempt("cover[history]", history)


# sampling from cover-derived distributions
for name in ["zero_based", "one_based", "gap_sizes", "random_big", "single_clique"]:
    for s in (0, 1, 2):
        for N in (0, 1, 7, 50):
            seed(s)

            def sample(name=name, N=N):
                obj = JointDegreeCover({JointDegreeNames.COVER: COVERS[name]})
                jds = obj.sample_jds_from_jdd(N)
                return jds, show(obj)

            attempt(f"cover_sample[{name},seed={s},N={N}]", sample)

# ------------------------------------------------------------ abstract guards
attempt("abstract", lambda: JointDegree())

# ---------------------------------------------------------- handshaking_lemma
HS_CASES = {
    "empty": ([], [2, 3]),
    "empty_tuples": ([(), ()], [2, 3]),
    "already_ok": ([(1, 0), (1, 3), (0, 0)], [2, 3]),
    "needs_one": ([(1, 0), (0, 3)], [2, 3]),
    "needs_many": ([(1, 1, 1), (0, 2, 5), (3, 0, 1), (1, 1, 1)], [4, 5, 7]),
    "single_row": ([(1, 1)], [3, 4]),
    "list_rows": ([[1, 0], [0, 2]], [2, 3]),
    "short_motif_sizes": ([(1, 1, 1), (0, 2, 5)], [2]),
    "short_motif_sizes_late": ([(2, 1, 1), (0, 2, 5)], [2, 3]),
    "long_motif_sizes": ([(1, 1), (0, 2)], [2, 3, 4, 5]),
    "zero_motif_size": ([(1, 1), (0, 2)], [0, 3]),
    "zero_motif_size_late": ([(1, 1), (0, 1)], [2, 0]),
    "negative_motif_size": ([(1, 1), (0, 3)], [-3, 3]),
    "motif_size_one": ([(1, 1), (0, 3)], [1, 1]),
    "ragged": ([(1, 1, 5), (0, 3)], [2, 3, 4]),
    "float_counts": ([(1.0, 1.5), (0.0, 3.0)], [2, 3]),
    "numpy_counts": ([tuple(np.array([1, 1])), tuple(np.array([0, 3]))], [2, 3]),
    "motif_sizes_none": ([(1, 1), (0, 3)], None),
    "motif_sizes_dict": ([(1, 1), (0, 3)], {0: 2, 1: 5}),
    "tuple_of_rows": (((1, 0), (0, 3)), [2, 3]),
    "tuple_of_rows_ok": (((2, 0), (0, 3)), [2, 3]),
}

for name, (jds, sizes) in HS_CASES.items():
    for s in (0, 3):
        seed(s)
        arg = copy.deepcopy(jds)

        def run(arg=arg, sizes=sizes):
            d = Dummy(motif_sizes=copy.deepcopy(sizes))
            res = d.handshaking_lemma(arg)
            return res, res is arg, d.motif_sizes

        attempt(f"handshake[{name},seed={s}]", run)
        print(f"handshake[{name},seed={s}]: arg after {arg!r}")

# generator input: consumed by zip, then len() only needed when padding
seed(5)
attempt(
    "handshake[generator_ok]",
    lambda: list(Dummy(motif_sizes=[2, 3]).handshaking_lemma(r for r in [(2, 0), (0, 3)])),
)
seed(5)
attempt(
    "handshake[generator_pad]",
    lambda: list(Dummy(motif_sizes=[2, 3]).handshaking_lemma(r for r in [(1, 0), (0, 3)])),
)
seed(5)
attempt(
    "handshake[generator_negative_size]",
    lambda: list(Dummy(motif_sizes=[-3, 3]).handshaking_lemma(r for r in [(4, 0), (0, 3)])),
)

# larger randomised inputs
for s in range(6):
    gen = random.Random(1000 + s)
    ncols = gen.randint(1, 5)
    sizes = [gen.randint(1, 9) for _ in range(ncols)]
    rows = [tuple(gen.randint(0, 6) for _ in range(ncols)) for _ in range(gen.randint(1, 40))]
    seed(s)
    attempt(
        f"handshake[random{s}]",
        lambda rows=rows, sizes=sizes: Dummy(motif_sizes=sizes).handshaking_lemma(rows),
    )
    print(f"handshake[random{s}]: rows after {rows!r}")

# ------------------------------------------------------- sample_jds_from_jdd
JDDS = {
    "simple": ({(1, 0): 0.25, (0, 1): 0.25, (2, 2): 0.5}, [2, 3]),
    "unnormalised": ({(1, 0): 3, (0, 1): 1, (4, 2): 6}, [2, 3]),
    "single_key": ({(1,): 1.0}, [3]),
    "zero_weights": ({(1, 0): 0.0, (0, 1): 0.0}, [2, 3]),
    "empty": ({}, [2, 3]),
    "none": (None, [2, 3]),
    "list": ([((1, 0), 1.0)], [2, 3]),
    "string_keys": ({"ab": 0.5, "cd": 0.5}, [2, 3]),
    "negative_weight": ({(1, 0): -1.0, (0, 1): 2.0}, [2, 3]),
}
for name, (jdd, sizes) in JDDS.items():
    for s in (0, 9):
        for N in (0, 1, 5, 33):
            seed(s)
            d = Dummy(jdd=copy.deepcopy(jdd), motif_sizes=list(sizes))

            def run(d=d, N=N):
                return d.sample_jds_from_jdd(N)

            attempt(f"sample[{name},seed={s},N={N}]", run)
            print(f"sample[{name},seed={s},N={N}]: state {show(d)!r}")
seed(1)
attempt("sample[N=-1]", lambda: Dummy(jdd={(1,): 1.0}, motif_sizes=[2]).sample_jds_from_jdd(-1))
seed(1)
attempt("sample[N=None]", lambda: Dummy(jdd={(1,): 1.0}, motif_sizes=[2]).sample_jds_from_jdd(None))
seed(1)
attempt("sample[N=2.0]", lambda: Dummy(jdd={(1,): 1.0}, motif_sizes=[2]).sample_jds_from_jdd(2.0))

# -------------------------------------------------------- convert_jds_to_jdd
CONVERT = {
    "tuples": [(1, 0), (0, 1), (1, 0), (2, 2)],
    "empty": [],
    "single": [(3,)],
    "order": [(9,), (1,), (9,), (5,), (1,), (9,)],
    "mixed_equal_keys": [(1,), (1.0,), (True,)],
    "strings": ["a", "b", "a"],
    "unhashable": [[1, 0], [0, 1]],
    "partly_unhashable": [(1, 0), [0, 1]],
    "tuple_input": ((1, 0), (1, 0), (0, 2)),
    "string_input": "abca",
    "dict_input": {(1, 0): 5, (0, 1): 7},
    "none": None,
    "int": 5,
}
for name, jds in CONVERT.items():
    seed(2)
    d = Dummy(jdd={"old": 1.0}, motif_sizes=[2, 3])
    arg = copy.deepcopy(jds)
    attempt(f"convert[{name}]", lambda d=d, arg=arg: d.convert_jds_to_jdd(arg))
    print(f"convert[{name}]: state {show(d)!r} arg {arg!r}")

d = Dummy(jdd={"old": 1.0}, motif_sizes=[2])
attempt("convert[generator]", lambda: d.convert_jds_to_jdd(x for x in [(1,), (2,)]))
print(f"convert[generator]: state {show(d)!r}")


class Sized:
    """Has len() but is a single-pass iterable."""

    def __init__(self, items):
        self.items = items

    def __len__(self):
        return 10

    def __iter__(self):
        return iter(self.items)


d = Dummy(jdd={"old": 1.0}, motif_sizes=[2])
attempt("convert[sized_mismatch]", lambda: d.convert_jds_to_jdd(Sized([(1,), (2,), (1,)])))
print(f"convert[sized_mismatch]: state {show(d)!r}")

# identity: the dict is replaced, never updated in place
d = Dummy(jdd=None, motif_sizes=[2])
previous = {"keep": 1}
d.jdd = previous
d.convert_jds_to_jdd([(1,), (2,)])
print(f"convert[identity]: previous {previous!r} same {d.jdd is previous} state {show(d)!r}")

# ------------------------------------------------------------- normalise_jdd
for name, jdd in {
    "plain": {(1, 0): 3, (0, 1): 1},
    "floats": {(1,): 0.2, (2,): 0.3},
    "empty": {},
    "zero_sum": {(1,): 0, (2,): 0},
    "none": None,
}.items():
    d = Dummy(jdd=copy.deepcopy(jdd), motif_sizes=[2])
    attempt(f"normalise[{name}]", d.normalise_jdd)
    print(f"normalise[{name}]: state {show(d)!r}")

# ----------------------------------------------- end-to-end (property itself)
from gcmpy.names.joint_degree_names import JointDegreeNames as N_  # noqa: E402,F401

for s in (0, 1):
    seed(s)

    def end_to_end():
        obj = JointDegreeCover({JointDegreeNames.COVER: COVERS["random_big"]})
        jds = obj.sample_jds_from_jdd(len(present))
        totals = list(map(sum, zip(*jds)))
        return obj.motif_sizes, totals, [t % m for t, m in zip(totals, obj.motif_sizes)]

    attempt(f"end_to_end[seed={s}]", end_to_end)

print("final rng", rng_digest())
