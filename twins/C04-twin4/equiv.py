"""
Equivalence driver for the C04 hardening patch.
Run with cwd = a checkout of gcmpy. Prints a deterministic digest.
"""
import hashlib
import io
import logging
import os
import random
import sys

sys.path.insert(0, os.getcwd())

import numpy as np
import networkx as nx

from gcmpy.network.edge_list import LightWeightEdgeList
from gcmpy.network.network import Network
from gcmpy.network.edge_list_to_network import EdgeListToNetwork
from gcmpy.network.network_to_edge_list import NetworkToEdgeList
from gcmpy.names.network_names import NetworkNames
from gcmpy.names.joint_degree_names import JointDegreeNames
from gcmpy.names.gcm_algorithm_names import GCMAlgorithmNames
from gcmpy.joint_degree.joint_degree_loaders.joint_degree_manual import (
    JointDegreeManual,
)
from gcmpy.gcm_algorithm.gcm_algorithm_network import GCMAlgorithmNetwork
from gcmpy.gcm_algorithm.gcm_algorithm_fast import GCMAlgorithmFast
from gcmpy.motif_generators.clique_motif import clique_motif

# ---- logging capture: WARNING and above goes into the digest ---------------
_log_stream = io.StringIO()
_handler = logging.StreamHandler(_log_stream)
_handler.setLevel(logging.WARNING)
_handler.setFormatter(logging.Formatter("%(levelname)s:%(name)s:%(message)s"))
logging.getLogger().addHandler(_handler)
logging.getLogger().setLevel(logging.WARNING)


class _StrictDebugHandler(logging.Handler):
    """Formats every record (so broken format strings blow up) and drops it."""

    def emit(self, record):
        self.format(record)

    def handleError(self, record):
        raise


def rng_state():
    h = hashlib.sha256()
    h.update(repr(random.getstate()).encode())
    st = np.random.get_state()
    h.update(repr((st[0], st[1].tolist(), st[2], st[3], repr(st[4]))).encode())
    return h.hexdigest()[:16]


def r(x):
    """Deterministic bit-exact representation."""
    if isinstance(x, float):
        return repr(x)
    if isinstance(x, np.ndarray):
        return "nd" + r(x.tolist())
    if isinstance(x, (list, tuple)):
        o, c = ("[", "]") if isinstance(x, list) else ("(", ")")
        return o + ",".join(r(i) for i in x) + c
    if isinstance(x, dict):
        return "{" + ",".join(r(k) + ":" + r(v) for k, v in x.items()) + "}"
    if isinstance(x, NetworkNames):
        return "NN." + x.name
    if isinstance(x, (np.integer, np.floating)):
        return type(x).__name__ + ":" + repr(x.item())
    return repr(x)


def digest(s):
    if len(s) > 400:
        return "sha:" + hashlib.sha256(s.encode()).hexdigest()[:24] + " len=%d" % len(s)
    return s


def describe_graph(G):
    nodes = [(n, dict(d)) for n, d in G.nodes(data=True)]
    edges = [(u, v, dict(d)) for u, v, d in G.edges(data=True)]
    adj = [(n, list(G.adj[n])) for n in G.nodes()]
    return digest("N=" + r(nodes) + " E=" + r(edges) + " A=" + r(adj))


def describe_el(el):
    def mat(x):
        try:
            return r(list(x)) if not isinstance(x, list) else r(x)
        except TypeError:
            return repr(type(x))

    return digest(
        "type=%s el=%s top=%s jd=%s mid=%s"
        % (
            type(el).__name__,
            mat(el.edge_list),
            mat(el.topologies),
            mat(el.joint_degrees),
            mat(el.motif_id),
        )
    )


def attempt(label, fn):
    try:
        out = fn()
        print(label, "->", out)
    except BaseException as ex:  # noqa
        print(label, "-> EXC", type(ex).__name__, repr(ex.args))
    print("   rng", rng_state())


def mk(edges, tops, jds, mids):
    el = LightWeightEdgeList()
    el.edge_list = edges
    el.topologies = tops
    el.joint_degrees = jds
    el.motif_id = mids
    return el


def case_to_network(label, el, roundtrip=True):
    holder = {}

    def go():
        g = EdgeListToNetwork.convert(el)
        holder["g"] = g
        return type(g).__name__ + " " + describe_graph(g.G)

    attempt(label + " e2n", go)
    attempt(label + " input-after", lambda: describe_el(el))
    if roundtrip and "g" in holder:
        g = holder["g"]

        def back():
            el2 = NetworkToEdgeList.convert(g)
            holder["el2"] = el2
            return describe_el(el2)

        attempt(label + " n2e", back)
        attempt(label + " n2e again", back)
        attempt(label + " graph-after", lambda: describe_graph(g.G))
        if "el2" in holder:

            def again():
                g3 = EdgeListToNetwork.convert(holder["el2"])
                return describe_graph(g3.G)

            attempt(label + " e2n(n2e)", again)
            attempt(label + " e2n(n2e) repeat", again)


def run_all():
    random.seed(12345)
    np.random.seed(54321)
    print("start rng", rng_state())

    # ---------------- LightWeightEdgeList -----------------------------------
    el = LightWeightEdgeList()
    attempt("LWEL fresh", lambda: describe_el(el))
    attempt("LWEL vars", lambda: r(sorted(vars(el).items())))
    a, b, c, d = [(0, 1)], ["x"], [(1,), (1,)], [7]
    el.edge_list, el.topologies, el.joint_degrees, el.motif_id = a, b, c, d
    attempt(
        "LWEL identity",
        lambda: r(
            [
                el.edge_list is a,
                el.topologies is b,
                el.joint_degrees is c,
                el.motif_id is d,
                el._edge_list is a,
                el._topologies is b,
                el._joint_degrees is c,
                el._motif_id is d,
            ]
        ),
    )
    el.edge_list = None
    el.motif_id = "abc"
    attempt("LWEL odd values", lambda: r([el.edge_list, el.motif_id, el.topologies]))
    el2 = LightWeightEdgeList()
    attempt(
        "LWEL independent",
        lambda: r([el2.edge_list is not LightWeightEdgeList().edge_list, el2.edge_list]),
    )
    attempt(
        "LWEL props",
        lambda: r(
            sorted(
                k
                for k, v in vars(LightWeightEdgeList).items()
                if isinstance(v, property)
            )
        ),
    )

    # ---------------- Network ----------------------------------------------
    n = Network()
    attempt("NET fresh", lambda: describe_graph(n.G) + " has=" + r(n.has_edges()))
    attempt("NET cliques empty", lambda: r(n.find_cliques()))
    attempt("NET add_edge", lambda: r(n.add_edge((0, 1))))
    attempt("NET add_edge 3", lambda: r(n.add_edge((1, 2, 3))))
    attempt("NET add_edge attr", lambda: r(n.add_edge((1, 2, {"w": 0.1 + 0.2}))))
    attempt("NET add_edge bad", lambda: r(n.add_edge((1,))))
    attempt("NET add_edge none", lambda: r(n.add_edge(None)))
    attempt("NET add_edges_from", lambda: r(n.add_edges_from([(2, 3), (3, 0), (0, 2), (5, 5)])))
    attempt("NET add_edges_from gen", lambda: r(n.add_edges_from((i, i + 1) for i in range(6, 9))))
    attempt("NET add_edges_from bad", lambda: r(n.add_edges_from([(1, 2), (3,)])))
    attempt("NET add_edges_from none", lambda: r(n.add_edges_from(None)))
    attempt("NET state", lambda: describe_graph(n.G) + " has=" + r(n.has_edges()))
    attempt("NET cliques", lambda: r(n.find_cliques()))
    attempt("NET cliques again", lambda: r(n.find_cliques()))
    attempt("NET remove", lambda: r(n.remove_edge(0, 1)))
    attempt("NET remove again", lambda: r(n.remove_edge(0, 1)))
    attempt("NET remove rev", lambda: r(n.remove_edge(3, 2)))
    attempt("NET remove missing node", lambda: r(n.remove_edge(100, 200)))
    attempt("NET remove unhashable", lambda: r(n.remove_edge([1], 2)))
    attempt("NET remove none", lambda: r(n.remove_edge(None, None)))
    attempt("NET remove selfloop", lambda: r(n.remove_edge(5, 5)))
    attempt("NET state2", lambda: describe_graph(n.G) + " has=" + r(n.has_edges()))
    for u, v in list(n.G.edges()):
        n.remove_edge(u, v)
    attempt("NET emptied", lambda: describe_graph(n.G) + " has=" + r(n.has_edges()))
    g_new = nx.path_graph(4)
    n.G = g_new
    attempt("NET setter", lambda: r([n.G is g_new, n._G is g_new, n.has_edges()]))
    attempt("NET cliques path", lambda: r(n.find_cliques()))
    n.G = nx.DiGraph([(0, 1)])
    attempt("NET cliques digraph", lambda: r(n.find_cliques()))
    attempt("NET has digraph", lambda: r(n.has_edges()))
    n.G = None
    attempt("NET none has", lambda: r(n.has_edges()))
    attempt("NET none remove", lambda: r(n.remove_edge(0, 1)))
    attempt("NET none cliques", lambda: r(n.find_cliques()))
    attempt("NET none add", lambda: r(n.add_edge((0, 1))))
    attempt(
        "NET members",
        lambda: r(sorted(k for k in vars(Network) if not k.startswith("__"))),
    )

    # ---------------- conversions: hand made inputs ------------------------
    case_to_network("empty", mk([], [], [], []))
    case_to_network("isolated only", mk([], [], [(0, 0), (0, 0), (0, 0)], []))
    case_to_network(
        "simple",
        mk(
            [(0, 1), (1, 2), (2, 0), (3, 4)],
            ["3-clique", "3-clique", "3-clique", "2-clique"],
            [(0, 1), (0, 1), (0, 1), (1, 0), (1, 0), (0, 0)],
            [0, 0, 0, 1],
        ),
    )
    case_to_network(
        "duplicates+reversed",
        mk(
            [(0, 1), (1, 0), (0, 1), (2, 1)],
            ["a", "b", "c", "d"],
            [(1, 0), (2, 0), (1, 0)],
            [0, 1, 2, 3],
        ),
    )
    case_to_network(
        "selfloop", mk([(0, 0), (0, 1)], ["s", "t"], [(2, 0), (1, 0)], [4, 5])
    )
    case_to_network(
        "edge beyond jds", mk([(0, 5)], ["t"], [(1, 0), (0, 0)], [9])
    )
    case_to_network(
        "short topologies",
        mk([(0, 1), (1, 2)], ["only"], [(1,), (2,), (1,)], [1, 2]),
    )
    case_to_network(
        "short motif ids",
        mk([(0, 1), (1, 2)], ["p", "q"], [(1,), (2,), (1,)], [1]),
    )
    case_to_network(
        "no annotations", mk([(0, 1), (1, 2)], [], [(1,), (2,), (1,)], [])
    )
    case_to_network(
        "long annotations",
        mk([(0, 1)], ["p", "q", "r"], [(1,), (1,)], [1, 2, 3]),
    )
    case_to_network(
        "float annotations",
        mk(
            [(0, 1), (1, 2)],
            [0.1 + 0.2, 1e-320],
            [(0.5, 1 / 3), (2.0,), (float("inf"),)],
            [1 / 7, -0.0],
        ),
    )
    case_to_network(
        "numpy jds",
        mk(
            [(0, 1), (2, 1)],
            ["x", "y"],
            np.array([[1, 0], [2, 0], [1, 0]]),
            np.array([3, 4]),
        ),
        roundtrip=True,
    )
    case_to_network(
        "tuple containers",
        mk(((0, 1), (1, 2)), ("x", "y"), ((1,), (2,), (1,)), (3, 4)),
    )
    case_to_network(
        "generator edges",
        mk(((i, i + 1) for i in range(3)), ["x", "y", "z"], [(1,)] * 4, [1, 2, 3]),
    )
    case_to_network(
        "generator jds", mk([(0, 1)], ["x"], ((1,) for _ in range(2)), [1])
    )
    case_to_network(
        "generator annotations",
        mk([(0, 1), (1, 2)], (s for s in "ab"), [(1,), (2,), (1,)], iter([5, 6])),
    )
    case_to_network(
        "3-tuple edges with dict",
        mk([(0, 1, {"w": 2})], ["x"], [(1,), (1,)], [1]),
    )
    case_to_network(
        "3-tuple edges hashable",
        mk([(0, 1, 2)], ["x"], [(1,), (1,)], [1]),
    )
    case_to_network("1-tuple edge", mk([(0,)], ["x"], [(1,)], [1]))
    case_to_network("list edges", mk([[0, 1]], ["x"], [(1,), (1,)], [1]))
    case_to_network("string nodes", mk([("a", "b")], ["x"], [(1,), (1,)], [1]))
    case_to_network("unhashable node", mk([([0], 1)], ["x"], [(1,), (1,)], [1]))
    case_to_network("None node", mk([(None, 1)], ["x"], [(1,), (1,)], [1]))
    case_to_network("edge_list None", mk(None, ["x"], [(1,)], [1]))
    case_to_network("jds None", mk([(0, 1)], ["x"], None, [1]))
    case_to_network("topologies None", mk([(0, 1)], None, [(1,), (1,)], [1]))
    case_to_network("motif None", mk([(0, 1)], ["x"], [(1,), (1,)], None))
    case_to_network("jds int", mk([(0, 1)], ["x"], 3, [1]))
    attempt("e2n None", lambda: EdgeListToNetwork.convert(None))
    attempt("e2n object", lambda: EdgeListToNetwork.convert(object()))
    attempt("n2e None", lambda: NetworkToEdgeList.convert(None))
    attempt("n2e object", lambda: NetworkToEdgeList.convert(object()))
    attempt("e2n noarg", lambda: EdgeListToNetwork.convert())
    attempt("n2e noarg", lambda: NetworkToEdgeList.convert())

    # shared / aliased inputs: same object converted repeatedly
    shared = mk(
        [(0, 1), (1, 2), (0, 2), (3, 0)],
        ["t", "t", "t", "e"],
        [(1, 1), (0, 1), (0, 1), (1, 0), (0, 0)],
        [0, 0, 0, 1],
    )
    for k in range(3):
        case_to_network("shared#%d" % k, shared)
    g_a = EdgeListToNetwork.convert(shared)
    g_b = EdgeListToNetwork.convert(shared)
    attempt("distinct results", lambda: r([g_a is g_b, g_a.G is g_b.G]))
    g_a.G.nodes[0][NetworkNames.JOINT_DEGREE] = "mutated"
    g_a.remove_edge(0, 1)
    attempt("no aliasing b", lambda: describe_graph(g_b.G))
    attempt("no aliasing input", lambda: describe_el(shared))
    jd_obj = shared.joint_degrees[1]
    attempt(
        "annotation identity",
        lambda: r([g_b.G.nodes[1][NetworkNames.JOINT_DEGREE] is jd_obj]),
    )

    # ---------------- n2e on hand made networks ----------------------------
    net = Network()
    attempt("n2e empty network", lambda: describe_el(NetworkToEdgeList.convert(net)))
    net.add_edges_from([(0, 1), (1, 2)])
    attempt("n2e unannotated", lambda: describe_el(NetworkToEdgeList.convert(net)))
    nx.set_node_attributes(net.G, {0: (1,), 1: (2,), 2: (1,)}, NetworkNames.JOINT_DEGREE)
    attempt("n2e nodes only", lambda: describe_el(NetworkToEdgeList.convert(net)))
    nx.set_edge_attributes(net.G, {(0, 1): "a", (1, 2): "b"}, NetworkNames.TOPOLOGY)
    attempt("n2e no motif ids", lambda: describe_el(NetworkToEdgeList.convert(net)))
    nx.set_edge_attributes(net.G, {(0, 1): 1}, NetworkNames.MOTIF_IDS)
    attempt("n2e partial motif ids", lambda: describe_el(NetworkToEdgeList.convert(net)))
    nx.set_edge_attributes(net.G, {(2, 1): 2}, NetworkNames.MOTIF_IDS)
    attempt("n2e full", lambda: describe_el(NetworkToEdgeList.convert(net)))
    attempt("n2e full again", lambda: describe_el(NetworkToEdgeList.convert(net)))
    net.G.add_node("z")
    attempt("n2e non-contiguous labels", lambda: describe_el(NetworkToEdgeList.convert(net)))
    net.G.remove_node("z")
    net.G.remove_node(1)
    attempt("n2e label gap", lambda: describe_el(NetworkToEdgeList.convert(net)))
    dnet = Network()
    dnet.G = nx.DiGraph()
    dnet.G.add_edge(1, 0, **{})
    nx.set_node_attributes(dnet.G, {0: (1,), 1: (1,)}, NetworkNames.JOINT_DEGREE)
    nx.set_edge_attributes(dnet.G, {(1, 0): "d"}, NetworkNames.TOPOLOGY)
    nx.set_edge_attributes(dnet.G, {(1, 0): 0}, NetworkNames.MOTIF_IDS)
    attempt("n2e digraph", lambda: describe_el(NetworkToEdgeList.convert(dnet)))
    mnet = Network()
    mnet.G = nx.MultiGraph([(0, 1), (0, 1)])
    nx.set_node_attributes(mnet.G, {0: (2,), 1: (2,)}, NetworkNames.JOINT_DEGREE)
    attempt("n2e multigraph", lambda: describe_el(NetworkToEdgeList.convert(mnet)))

    # ---------------- conversions on random GCM graphs ---------------------
    for size in (0, 1, 7, 60, 400):
        params = {}
        params[JointDegreeNames.JDD] = {
            (0, 0): 0.1,
            (1, 0): 0.2,
            (2, 1): 0.4,
            (3, 0): 0.1,
            (5, 1): 0.2,
        }
        params[JointDegreeNames.MOTIF_SIZES] = [2, 3]
        holder = {}

        def sample():
            holder["jds"] = JointDegreeManual(params).sample_jds_from_jdd(size)
            return digest(r(holder["jds"]))

        attempt("gcm%d jds" % size, sample)
        if "jds" not in holder:
            continue
        aparams = {}
        aparams[GCMAlgorithmNames.MOTIF_SIZES] = [2, 3]
        aparams[GCMAlgorithmNames.EDGE_NAMES] = ["2-clique", "3-clique"]
        aparams[GCMAlgorithmNames.BUILD_FUNCTIONS] = [clique_motif, clique_motif]

        def build_net():
            holder["g"] = GCMAlgorithmNetwork(aparams).random_clustered_graph(
                list(holder["jds"])
            )
            return describe_graph(holder["g"].G)

        attempt("gcm%d network" % size, build_net)

        def build_el():
            holder["el"] = GCMAlgorithmFast(aparams).random_clustered_graph(
                list(holder["jds"])
            )
            return describe_el(holder["el"])

        attempt("gcm%d fast" % size, build_el)
        if "el" in holder:
            case_to_network("gcm%d" % size, holder["el"])
        if "g" in holder:
            g = holder["g"]
            attempt("gcm%d n2e" % size, lambda: describe_el(NetworkToEdgeList.convert(g)))
            attempt("gcm%d has_edges" % size, lambda: r(g.has_edges()))
            attempt("gcm%d cliques" % size, lambda: digest(r(g.find_cliques())))

            def strip():
                for (u, v) in list(g.G.edges())[::2]:
                    g.remove_edge(u, v)
                    g.remove_edge(v, u)
                return describe_graph(g.G)

            attempt("gcm%d strip" % size, strip)
            attempt("gcm%d n2e stripped" % size, lambda: describe_el(NetworkToEdgeList.convert(g)))

    print("end rng", rng_state())


print("===== pass 1: default logging (WARNING) =====")
run_all()
print("captured log output:", repr(_log_stream.getvalue()))

# pass 2: same work with DEBUG logging switched on and a strict handler that
# formats every record; results must be unaffected by logging being enabled
print("===== pass 2: DEBUG logging enabled =====")
_strict = _StrictDebugHandler()
_strict.setLevel(logging.DEBUG)
logging.getLogger("gcmpy").addHandler(_strict)
logging.getLogger("gcmpy").setLevel(logging.DEBUG)
run_all()
print("captured log output:", repr(_log_stream.getvalue()))
