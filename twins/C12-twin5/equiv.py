"""
Equivalence digest for property C12 (MCMC rewiring / keys view / ejk matrices).
Run with cwd = a checkout of gcmpy. Uses only the pre-existing API.
"""
import os
import sys

if os.environ.get("PYTHONHASHSEED") != "0":
    os.environ["PYTHONHASHSEED"] = "0"
    os.execv(sys.executable, [sys.executable] + sys.argv)

sys.path.insert(0, os.getcwd())

import hashlib
import logging
import random
import signal
import warnings

warnings.simplefilter("ignore")

import networkx as nx

from gcmpy.joint_degree.joint_degree_loaders.joint_degree_manual import (
    JointDegreeManual,
)
from gcmpy.motif_generators.clique_motif import clique_motif
from gcmpy.gcm_algorithm.gcm_algorithm_network import GCMAlgorithmNetwork
from gcmpy.names.gcm_algorithm_names import GCMAlgorithmNames
from gcmpy.names.joint_degree_names import JointDegreeNames
from gcmpy.names.network_names import NetworkNames
from gcmpy.names.tools_names import ToolsNames
from gcmpy.network.network import Network
from gcmpy.tools.joint_excess_joint_degree_matrices import (
    JointExcessJointDegreeMatrices,
)
from gcmpy.tools.joint_excess_joint_degree_keys_view import (
    JointExcessJointDegreeKeysView,
)
from gcmpy.tools.markov_chain_monte_carlo import MarkovChainMonteCarlo
from gcmpy.tools.markov_chain_monte_carlo_rewiring import (
    MarkovChainMonteCarloRewiring,
    ErrorMarkovChainMonteCarloRewiring,
)
from gcmpy.tools.joint_excess_from_ejk import JointExcessFromEjk
from gcmpy.tools.joint_excess_joint_degree import JointExcessJointDegree
from gcmpy.tools.proposal_edge import ProposalEdge

WATCHDOG_SECONDS = 60


class Watchdog(Exception):
    pass


def _alarm(signum, frame):
    raise Watchdog()


signal.signal(signal.SIGALRM, _alarm)


def out(*args):
    print(*args)


def rng_digest():
    return hashlib.sha256(repr(random.getstate()).encode()).hexdigest()[:16]


def counters():
    return (
        MarkovChainMonteCarlo._proposal_count,
        MarkovChainMonteCarlo._proposals_accepted,
        MarkovChainMonteCarloRewiring.__dict__.get("_proposal_count", "-"),
        MarkovChainMonteCarloRewiring.__dict__.get("_proposals_accepted", "-"),
    )


def attempt(label, fn, *args, **kwargs):
    """Runs fn, prints the repr of result or the exception; returns result."""
    signal.alarm(WATCHDOG_SECONDS)
    try:
        r = fn(*args, **kwargs)
        signal.alarm(0)
        out(label, "->", canon(r))
        return r
    except Watchdog:
        out(label, "-> WATCHDOG")
        return None
    except BaseException as e:  # noqa
        signal.alarm(0)
        if isinstance(e, (KeyboardInterrupt, SystemExit)):
            raise
        out(label, "-> EXC", type(e).__name__, " ".join(str(e).split()))
        return None


def canon(x):
    if isinstance(x, float):
        return repr(x)
    if isinstance(x, nx.Graph):
        return graph_digest(x)
    if isinstance(x, JointExcessJointDegreeKeysView):
        return "KeysView(" + canon(x._keys) + ")"
    if isinstance(x, ProposalEdge):
        return "PE(%r,%r,%r)" % (x._topology, x._motif_id, x._new_edge)
    if isinstance(x, dict):
        return "{" + ", ".join(canon(k) + ": " + canon(v) for k, v in x.items()) + "}"
    if isinstance(x, list):
        return "[" + ", ".join(canon(v) for v in x) + "]"
    if isinstance(x, tuple):
        return "(" + ", ".join(canon(v) for v in x) + ",)"
    if isinstance(x, set):
        return "set(" + ", ".join(sorted(canon(v) for v in x)) + ")"
    return repr(x)


def graph_digest(G, full=False):
    """Order-sensitive digest of a graph: nodes, adjacency order and attributes."""
    parts = []
    for n in G.nodes():
        parts.append(("n", n, canon(dict(G.nodes[n]))))
    for e in G.edges():
        parts.append(("e", e, canon(dict(G.edges[e]))))
    for n in G.nodes():
        parts.append(("a", n, list(G.adj[n])))
    s = repr(parts)
    if full:
        return s
    return "G<%d,%d,%s>" % (
        G.number_of_nodes(),
        G.number_of_edges(),
        hashlib.sha256(s.encode()).hexdigest()[:16],
    )


def ejks_digest(m):
    return canon(
        {
            "ejks": m._ejks,
            "keys": m._excess_degree_keys,
            "names": m._topology_names,
        }
    )


def mcmc_state(m):
    return canon(
        {
            "conv": m._convergence_limit,
            "search": m._search_limit,
            "pe": m._proposal_edges,
            "pc": m._proposal_count,
            "pa": m._proposals_accepted,
            "ar": m._acceptance_ratio,
            "cls": counters(),
        }
    )


# ---------------------------------------------------------------------------
# section A: keys view
# ---------------------------------------------------------------------------
def section_keys_view():
    out("== A keys view")
    getters = ["get_u0u1", "get_u1u0", "get_v0v1", "get_v1v0", "get_u0v1", "get_v0u1"]
    cases = [
        [(0, 3), (4, 1), (2, 2), (0, 3)],
        [(1,), (2,), (3,), (4,)],
        [(), (), (), ()],
        [[1, 2], [3, 4], [5, 6], [7, 8]],
        ["ab", "cd", "ef", "gh"],
        [(1, 2), (3, 4)],
        [],
        [(1, 2), [3, 4], (5, 6), None],
        [1.5, 2.25, 0.1, 0.2],
        ((1, 2), (3, 4), (5, 6), (7, 8), (9, 9)),
        None,
        {0: (1,), 1: (2,), 2: (3,), 3: (4,)},
    ]
    for ci, keys in enumerate(cases):
        kv = JointExcessJointDegreeKeysView(keys)
        for rep in range(2):
            for g in getters:
                attempt("A%d.%d %s" % (ci, rep, g), getattr(kv, g))
        out("A%d keys after" % ci, canon(kv._keys), kv._keys is keys)
        out("A%d vars" % ci, sorted(vars(kv)))


# ---------------------------------------------------------------------------
# section B: matrices
# ---------------------------------------------------------------------------
def test_target():
    epsilon = 1e-8
    tree = {
        (0, 3, 0, 3): 9 / 81 - 2 * epsilon,
        (0, 3, 4, 1): epsilon,
        (0, 3, 2, 2): epsilon,
        (4, 1, 0, 3): epsilon,
        (4, 1, 4, 1): 45 / 81 - 2 * epsilon,
        (4, 1, 2, 2): epsilon,
        (2, 2, 0, 3): epsilon,
        (2, 2, 4, 1): epsilon,
        (2, 2, 2, 2): 27 / 81 - 2 * epsilon,
    }
    tri = {
        (3, 1, 3, 1): 48 / 144 - 2 * epsilon,
        (3, 1, 1, 2): epsilon,
        (3, 1, 5, 0): epsilon,
        (1, 2, 3, 1): epsilon,
        (1, 2, 1, 2): 72 / 144 - 2 * epsilon,
        (1, 2, 5, 0): epsilon,
        (5, 0, 3, 1): epsilon,
        (5, 0, 1, 2): epsilon,
        (5, 0, 5, 0): 24 / 144 - 2 * epsilon,
    }
    return {"2-clique": tree, "3-clique": tri}


def section_matrices():
    out("== B matrices")
    m = JointExcessJointDegreeMatrices()
    out("B0", ejks_digest(m), sorted(vars(m)))
    attempt("B0 idx empty", m.get_topology_index, "2-clique")
    attempt("B0 idx none", m.get_topology_index, None)
    attempt("B0 keys", m.get_excess_degree_keys)
    out("B0 after", ejks_digest(m))

    attempt("B1 ctor missing names", JointExcessJointDegreeMatrices, {ToolsNames.EJKS: {}})
    attempt("B1 ctor missing ejks", JointExcessJointDegreeMatrices, {ToolsNames.EDGE_NAMES: []})
    attempt("B1 ctor bad", JointExcessJointDegreeMatrices, 5)
    attempt("B1 ctor empty dict", lambda: ejks_digest(JointExcessJointDegreeMatrices({})))

    names = ["2-clique", "3-clique"]
    target = test_target()
    params = {ToolsNames.EDGE_NAMES: names, ToolsNames.EJKS: target}
    m = JointExcessJointDegreeMatrices(params)
    out("B2", ejks_digest(m))
    out("B2 identity", m._ejks is target, m._topology_names is names, m.ejks is target)
    for t in ["2-clique", "3-clique", "4-clique", "", None, 0, ("2-clique",)]:
        attempt("B2 idx %r" % (t,), m.get_topology_index, t)
    for rep in range(3):
        attempt("B2 keys rep%d" % rep, m.get_excess_degree_keys)
        out("B2 after rep%d" % rep, ejks_digest(m))
    out("B2 qks", canon(JointExcessFromEjk.get_excess_joint_distributions(m)))
    out("B2 props", canon(m.excess_degree_keys), canon(m.topology_names))

    # duplicates in names, non-str names
    m.topology_names = ["a", "b", "a", 1, 1.0, None]
    for t in ["a", "b", 1, 1.0, None, True, "c"]:
        attempt("B3 idx %r" % (t,), m.get_topology_index, t)
    m.topology_names = ()
    attempt("B3 idx tuple-empty", m.get_topology_index, "a")
    m.topology_names = "abc"
    attempt("B3 idx str b", m.get_topology_index, "b")
    attempt("B3 idx str z", m.get_topology_index, "z")
    m.topology_names = None
    attempt("B3 idx names None", m.get_topology_index, "b")

    # odd shaped keys
    m = JointExcessJointDegreeMatrices()
    m.ejks = {
        "x": {(1, 2, 3): 0.5, (4,): 0.25, (): 0.25, (1, 2, 3, 4, 5, 6): 0.0},
        "y": {"abcd": 1.0, (7, 8): 0.0},
        "z": {},
    }
    attempt("B4 keys", m.get_excess_degree_keys)
    out("B4 after", ejks_digest(m))
    m.excess_degree_keys = {"stale": [(9,)]}
    attempt("B4 keys again", m.get_excess_degree_keys)
    out("B4 after again", ejks_digest(m))

    # error in the middle: state is partially filled
    m = JointExcessJointDegreeMatrices()
    m.ejks = {"ok": {(1, 2): 1.0}, "bad": {5: 1.0}, "never": {(3, 4): 1.0}}
    m.excess_degree_keys = {"stale": [(9,)]}
    attempt("B5 keys", m.get_excess_degree_keys)
    out("B5 after", ejks_digest(m))
    m.ejks = {"ok": {(1, 2): 1.0}, "bad": 7}
    attempt("B5b keys", m.get_excess_degree_keys)
    out("B5b after", ejks_digest(m))
    m.ejks = None
    attempt("B5c keys", m.get_excess_degree_keys)
    out("B5c after", ejks_digest(m))

    # large-ish key sets: set iteration order matters
    r = random.Random(5)
    big = {}
    for _ in range(200):
        k = tuple(r.randrange(0, 40) for _ in range(4))
        big[k] = r.random()
    m = JointExcessJointDegreeMatrices(
        {ToolsNames.EDGE_NAMES: ["big"], ToolsNames.EJKS: {"big": big}}
    )
    out("B6", hashlib.sha256(ejks_digest(m).encode()).hexdigest()[:16])
    out("B6 keys", canon(m.excess_degree_keys["big"][:25]))
    out("B6 vars", sorted(vars(m)))
    out("B rng", rng_digest())


# ---------------------------------------------------------------------------
# section C: MCMC
# ---------------------------------------------------------------------------
EDGE_NAMES = ["2-clique", "3-clique"]
MOTIF_SIZES = [2, 3]


def build_network(n, seed):
    random.seed(seed)
    target = JointExcessJointDegreeMatrices(
        {ToolsNames.EDGE_NAMES: list(EDGE_NAMES), ToolsNames.EJKS: test_target()}
    )
    # joint degree distribution of the suite's MCMC test
    jdd = {(1, 3): 1.0 / 3, (5, 1): 1.0 / 3, (3, 2): 1.0 / 3}
    params = {}
    params[JointDegreeNames.JDD] = jdd
    params[JointDegreeNames.MOTIF_SIZES] = MOTIF_SIZES
    jds = JointDegreeManual(params).sample_jds_from_jdd(n)
    params = {}
    params[GCMAlgorithmNames.MOTIF_SIZES] = MOTIF_SIZES
    params[GCMAlgorithmNames.EDGE_NAMES] = list(EDGE_NAMES)
    params[GCMAlgorithmNames.BUILD_FUNCTIONS] = [clique_motif, clique_motif]
    g = GCMAlgorithmNetwork(params).random_clustered_graph(jds)
    return g, target


def measured(G):
    params = {ToolsNames.NETWORK: G, ToolsNames.EDGE_NAMES: list(EDGE_NAMES)}
    return JointExcessJointDegree(params).get_ejks()


def full_support_target(kind):
    """Deterministic full-support targets over the excess keys of the test jdd."""
    tree_keys = [(0, 3), (4, 1), (2, 2)]
    tri_keys = [(1, 2), (5, 0), (3, 1)]
    r = random.Random(kind)
    out_ = {}
    for name, keys in (("2-clique", tree_keys), ("3-clique", tri_keys)):
        w = {}
        for i, a in enumerate(keys):
            for j, b in enumerate(keys):
                if j < i:
                    w[a + b] = w[b + a]
                else:
                    w[a + b] = (3.0 if i == j else 1.0) * (0.5 + r.random())
        total = sum(w.values())
        out_[name] = {k: v / total for k, v in w.items()}
    return JointExcessJointDegreeMatrices(
        {ToolsNames.EDGE_NAMES: list(EDGE_NAMES), ToolsNames.EJKS: out_}
    )


def partial_target(kind):
    t = full_support_target(kind)
    # zero some pairings, delete others
    t.ejks["2-clique"][(0, 3, 4, 1)] = 0.0
    t.ejks["2-clique"][(4, 1, 0, 3)] = 0.0
    del t.ejks["2-clique"][(2, 2, 0, 3)]
    del t.ejks["2-clique"][(0, 3, 2, 2)]
    t.ejks["3-clique"][(1, 2, 5, 0)] = 0.0
    t.ejks["3-clique"][(5, 0, 1, 2)] = 0.0
    del t.ejks["3-clique"][(3, 1, 3, 1)]
    return t


def absent_target(kind):
    """Pairings are deleted from (never zeroed in) the target."""
    t = full_support_target(kind)
    for k in [(0, 3, 4, 1), (4, 1, 0, 3)]:
        del t.ejks["2-clique"][k]
    for k in [(1, 2, 5, 0), (5, 0, 1, 2)]:
        del t.ejks["3-clique"][k]
    return t


def zero_diag_target(kind):
    t = full_support_target(kind)
    for name in EDGE_NAMES:
        for k in list(t.ejks[name]):
            if k[:2] == k[2:]:
                t.ejks[name][k] = 0.0
    return t


def make_mcmc(g, target, **kw):
    params = {ToolsNames.NETWORK: g, ToolsNames.EJKS: target}
    if "conv" in kw:
        params[ToolsNames.CONVERGENCE_LIMIT] = kw["conv"]
    if "search" in kw:
        params[ToolsNames.SEARCH_LIMIT] = kw["search"]
    return MarkovChainMonteCarloRewiring(params)


def section_ctor(g, target):
    out("== C1 constructor")
    attempt("C1 empty", MarkovChainMonteCarloRewiring, {})
    attempt("C1 no ejks", MarkovChainMonteCarloRewiring, {ToolsNames.NETWORK: g})
    attempt("C1 no network", MarkovChainMonteCarloRewiring, {ToolsNames.EJKS: target})
    attempt("C1 None", MarkovChainMonteCarloRewiring, None)
    attempt("C1 noargs", MarkovChainMonteCarloRewiring)
    attempt(
        "C1 graph not network",
        MarkovChainMonteCarloRewiring,
        {ToolsNames.NETWORK: g.G, ToolsNames.EJKS: target},
    )
    attempt(
        "C1 graph with conv",
        lambda: mcmc_state(
            MarkovChainMonteCarloRewiring(
                {
                    ToolsNames.NETWORK: g.G,
                    ToolsNames.EJKS: target,
                    ToolsNames.CONVERGENCE_LIMIT: 3,
                }
            )
        ),
    )
    m = make_mcmc(g, target)
    out("C1 default", mcmc_state(m), m.network is g, m.ejks is target)
    m = make_mcmc(g, target, conv=7, search=3)
    out("C1 given", mcmc_state(m), m.convergence_limit, m.search_limit)
    m.convergence_limit = 11
    m.search_limit = 5
    m.network = g
    m.ejks = target
    out("C1 set", mcmc_state(m))
    out("C1 vars", sorted(k for k in vars(m) if k != "_rng"))
    out("C1 logger", m._logger.name, m._logger.level)


def section_unit(g, target):
    out("== C2 unit functions")
    G = g.G
    m = make_mcmc(g, target, conv=5, search=5)
    edges = list(G.edges())
    r = random.Random(99)
    sample = [edges[r.randrange(len(edges))] for _ in range(12)]
    for e in sample:
        for u0 in e:
            es = attempt("C2 all_edges %r %r" % (u0, e), m.get_all_edges, G, u0, e)
            attempt("C2 hashmap", m.get_hashmap, G, es)
            for idx in (0, 1):
                attempt("C2 key %r idx%d" % (e, idx), m.get_joint_excess_degree_key, G, e, idx)
        attempt("C2 all_edges rev", m.get_all_edges, G, e[1], (e[1], e[0]))
    e = sample[0]
    attempt("C2 all_edges foreign u0", m.get_all_edges, G, 10 ** 6, e)
    other = [x for x in G.nodes() if x not in e and not G.has_edge(x, e[0])][0]
    attempt("C2 all_edges u0 not in edge", m.get_all_edges, G, other, e)
    attempt("C2 all_edges missing edge", m.get_all_edges, G, e[0], (e[0], 10 ** 6))
    attempt("C2 hashmap empty", m.get_hashmap, G, [])
    attempt("C2 hashmap dup", m.get_hashmap, G, [e, e, (e[1], e[0])])
    attempt("C2 hashmap missing", m.get_hashmap, G, [e, (10 ** 6, 1)])
    attempt("C2 hashmap mixed", m.get_hashmap, G, sample)
    attempt("C2 other 0", m.get_other_vertex, e[0], e)
    attempt("C2 other 1", m.get_other_vertex, e[1], e)
    attempt("C2 other bad", m.get_other_vertex, -1, e)
    attempt("C2 other loop", m.get_other_vertex, 3, (3, 3))
    attempt("C2 other short", m.get_other_vertex, 3, (4,))
    attempt("C2 other empty", m.get_other_vertex, 3, ())
    attempt("C2 key idx2", m.get_joint_excess_degree_key, G, e, 2)
    attempt("C2 key idx-1", m.get_joint_excess_degree_key, G, e, -1)
    attempt("C2 key idx str", m.get_joint_excess_degree_key, G, e, "a")
    attempt("C2 key 1-tuple", m.get_joint_excess_degree_key, G, (e[0],), 0)
    attempt("C2 key 3-tuple", m.get_joint_excess_degree_key, G, (e[0], e[1], e[0]), 0)
    attempt("C2 key missing node", m.get_joint_excess_degree_key, G, (e[0], 10 ** 6), 0)
    attempt("C2 key empty", m.get_joint_excess_degree_key, G, (), 0)
    H = nx.Graph()
    H.add_node(0, **{})
    H.add_node(1)
    H.nodes[1][NetworkNames.JOINT_DEGREE] = (2, 2)
    H.add_edge(0, 1)
    attempt("C2 key no attr", m.get_joint_excess_degree_key, H, (0, 1), 0)
    attempt("C2 key no attr rev", m.get_joint_excess_degree_key, H, (1, 0), 0)
    H.nodes[0][NetworkNames.JOINT_DEGREE] = [5, 0]
    attempt("C2 key list attr", m.get_joint_excess_degree_key, H, (0, 1), 1)
    out("C2 jd untouched", canon(dict(H.nodes[0])), canon(dict(H.nodes[1])))
    H.nodes[0][NetworkNames.JOINT_DEGREE] = (1,)
    attempt("C2 key short jd", m.get_joint_excess_degree_key, H, (1, 0), 1)
    H.nodes[0][NetworkNames.JOINT_DEGREE] = 7
    attempt("C2 key int jd", m.get_joint_excess_degree_key, H, (1, 0), 1)

    # swapped keys
    r = random.Random(3)
    for i in range(10):
        e0 = edges[r.randrange(len(edges))]
        e1 = edges[r.randrange(len(edges))]
        for idx in (0, 1):
            attempt(
                "C2 swapped %d.%d" % (i, idx),
                m.get_swapped_joint_excess_degree_key,
                G, e0, e1, e0[0], e1[0], idx,
            )
        attempt(
            "C2 swapped rev %d" % i,
            m.get_swapped_joint_excess_degree_key,
            G, e0, e1, e0[1], e1[1], 1,
        )
    attempt("C2 swapped bad u0", m.get_swapped_joint_excess_degree_key, G, e, e, -1, e[0], 0)
    attempt("C2 swapped bad v0", m.get_swapped_joint_excess_degree_key, G, e, e, e[0], -1, 0)
    attempt("C2 swapped idx 5", m.get_swapped_joint_excess_degree_key, G, e, e, e[0], e[1], 5)
    attempt(
        "C2 swapped missing node",
        m.get_swapped_joint_excess_degree_key,
        G, (e[0], 10 ** 6), e, e[0], e[1], 0,
    )

    # append proposal edges
    out("C2 pe before", canon(m._proposal_edges))
    attempt("C2 append", m.append_proposal_edges, G, e[0], e, (e[0], 77))
    attempt("C2 append rev", m.append_proposal_edges, G, e[0], e, (77, e[0]))
    attempt("C2 append bad", m.append_proposal_edges, G, e[0], e, (78, 77))
    attempt("C2 append missing old", m.append_proposal_edges, G, e[0], (e[0], 10 ** 6), (e[0], 77))
    out("C2 pe after", canon(m._proposal_edges))
    out("C2 state", mcmc_state(m))
    out("C2 graph untouched", graph_digest(G))
    out("C2 rng", rng_digest())


def section_pairs(g, targets):
    """Random pairs of corners: suitability and the swap condition."""
    out("== C3 suitability + swap condition")
    G = g.G
    edges = list(G.edges())
    for tname, target in targets:
        random.seed(1234)
        m = make_mcmc(g, target, conv=5, search=5)
        r = random.Random(17)
        n_suitable = 0
        lines = []
        for i in range(400):
            e0 = edges[r.randrange(len(edges))]
            e1 = edges[r.randrange(len(edges))]
            if r.random() < 0.5:
                e0 = (e0[1], e0[0])
            if r.random() < 0.5:
                e1 = (e1[1], e1[0])
            u0, v0 = e0[0], e1[0]
            e0s = m.get_all_edges(G, u0, e0)
            e1s = m.get_all_edges(G, v0, e1)
            try:
                ok = m.is_edge_choice_suitable(G, u0, v0, e0s, e1s)
            except BaseException as ex:  # noqa
                lines.append("suit EXC %s %s" % (type(ex).__name__, ex))
                continue
            line = "%d %r %r suit=%r" % (i, e0, e1, ok)
            # evaluate the swap condition also for unsuitable pairs of equal shape
            if ok or (i % 3 == 0):
                n_suitable += ok
                before = rng_digest()
                try:
                    res = m.swap_condition(G, e0s, e1s, u0, v0)
                    line += " swap=%r" % (res,)
                except BaseException as ex:  # noqa
                    line += " swap EXC %s %s" % (type(ex).__name__, " ".join(str(ex).split()))
                line += " drew=%r pe=%s e1s=%r" % (
                    before != rng_digest(),
                    canon(m._proposal_edges),
                    e1s,
                )
            lines.append(line)
        h = hashlib.sha256("\n".join(lines).encode()).hexdigest()[:16]
        out("C3", tname, "suitable", n_suitable, "digest", h)
        for line in lines[:40]:
            out("C3", tname, line)
        out("C3", tname, "state", mcmc_state(m))
        out("C3", tname, "target", hashlib.sha256(ejks_digest(target).encode()).hexdigest()[:16])
        out("C3", tname, "graph", graph_digest(G), "rng", rng_digest())


def section_handmade():
    """Hand-made graphs for the special branches."""
    out("== C4 hand-made")
    JD, TOP, MID = NetworkNames.JOINT_DEGREE, NetworkNames.TOPOLOGY, NetworkNames.MOTIF_IDS
    net = Network()
    G = net.G
    jds = {0: (1, 0), 1: (2, 0), 2: (2, 0), 3: (1, 0), 4: (1, 1), 5: (1, 1), 6: (0, 1), 7: (1, 0), 8: (1, 0)}
    for n, jd in jds.items():
        G.add_node(n)
        G.nodes[n][JD] = jd
    def add(u, v, top, mid):
        G.add_edge(u, v)
        G.edges[u, v][TOP] = top
        G.edges[u, v][MID] = mid
    add(0, 1, "2-clique", 0)
    add(2, 3, "2-clique", 1)
    add(1, 2, "2-clique", 2)
    add(4, 5, "3-clique", 3)
    add(5, 6, "3-clique", 3)
    add(4, 6, "3-clique", 3)
    add(4, 7, "2-clique", 4)
    add(5, 8, "2-clique", 5)
    tree = {}
    for a in [(0, 0), (1, 0), (0, 1)]:
        for b in [(0, 0), (1, 0), (0, 1)]:
            tree[a + b] = 1.0 / 9
    tri = {(1, 0, 1, 0): 0.5, (1, 0, 0, 0): 0.25, (0, 0, 1, 0): 0.25}
    target = JointExcessJointDegreeMatrices(
        {ToolsNames.EDGE_NAMES: ["2-clique", "3-clique"], ToolsNames.EJKS: {"2-clique": tree, "3-clique": tri}}
    )
    m = make_mcmc(net, target, conv=2, search=4)
    random.seed(8)
    sc = m.swap_condition
    suit = m.is_edge_choice_suitable

    def both(label, u0, v0, e0s, e1s):
        attempt("C4 suit " + label, suit, G, u0, v0, e0s, e1s)
        before = rng_digest()
        attempt("C4 swap " + label, sc, G, list(e0s), list(e1s), u0, v0)
        out("C4 drew", label, before != rng_digest(), canon(m._proposal_edges), counters())

    both("plain", 0, 2, [(0, 1)], [(2, 3)])
    both("plain again", 0, 2, [(0, 1)], [(2, 3)])
    both("same keys", 0, 3, [(0, 1)], [(3, 2)])
    both("adjacent", 0, 2, [(0, 1)], [(2, 1)])
    both("shared vertex", 1, 1, [(1, 0)], [(1, 2)])
    both("self", 0, 0, [(0, 1)], [(0, 1)])
    both("len mismatch", 0, 4, [(0, 1)], [(4, 5), (4, 6)])
    both("topology mismatch", 0, 4, [(0, 1)], [(4, 5)])
    both("empty", 0, 2, [], [])
    both("triangle same motif", 4, 5, [(4, 5), (4, 6)], [(5, 4), (5, 6)])
    both("mixed topologies", 4, 5, [(4, 5), (4, 7)], [(5, 8), (5, 6)])
    both("mixed counts", 4, 5, [(4, 5), (4, 6)], [(5, 8), (5, 6)])
    both("tree 4-7 vs 5-8", 4, 5, [(4, 7)], [(5, 8)])
    both("tree 7-4 vs 8-5", 7, 8, [(7, 4)], [(8, 5)])
    both("wrong focal", 9, 2, [(0, 1)], [(2, 3)])
    both("missing edge", 0, 2, [(0, 5)], [(2, 3)])

    # zero / absent pairings in the target
    tree[(0, 0, 0, 0)] = 0.0
    both("zero numerator", 0, 2, [(0, 1)], [(2, 3)])
    tree[(0, 0, 0, 0)] = 1.0 / 9
    del tree[(1, 0, 1, 0)]
    both("absent numerator", 0, 2, [(0, 1)], [(2, 3)])
    tree[(1, 0, 1, 0)] = 1.0 / 9
    tree[(0, 0, 1, 0)] = 0.0
    both("zero denominator", 0, 2, [(0, 1)], [(2, 3)])
    del tree[(0, 0, 1, 0)]
    both("absent denominator", 0, 2, [(0, 1)], [(2, 3)])
    tree[(0, 0, 1, 0)] = 1e-300
    tree[(1, 0, 0, 0)] = 1e-300
    both("tiny denominator", 0, 2, [(0, 1)], [(2, 3)])
    tree[(0, 0, 1, 0)] = 1.0 / 9
    tree[(1, 0, 0, 0)] = 1.0 / 9
    del target.ejks["2-clique"]
    both("absent topology", 0, 2, [(0, 1)], [(2, 3)])
    target.ejks["2-clique"] = tree
    target.topology_names = ["3-clique"]
    both("unknown topology name", 0, 2, [(0, 1)], [(2, 3)])
    target.topology_names = ["2-clique", "3-clique"]
    m.ejks = None
    both("ejks None", 0, 2, [(0, 1)], [(2, 3)])
    m.ejks = target

    out("C4 state", mcmc_state(m))
    out("C4 graph", graph_digest(G, full=True))
    out("C4 target", ejks_digest(target))

    # rewire on the hand-made graph: only the tree edges can be swapped
    for seed in (1, 2, 3):
        random.seed(seed)
        R = attempt("C4 rewire seed%d" % seed, m.rewire)
        if R is not None:
            out("C4 rewired", graph_digest(R, full=True))
        out("C4 after rewire", mcmc_state(m), graph_digest(G), rng_digest())

    # rewire with missing attributes -> error path
    net2 = Network()
    net2.G.add_edge(0, 1)
    net2.G.add_edge(2, 3)
    m2 = make_mcmc(net2, target, conv=2, search=2)
    random.seed(4)
    attempt("C4 rewire no attrs", m2.rewire)
    out("C4 no attrs rng", rng_digest())
    net3 = Network()
    m3 = make_mcmc(net3, target, search=2)
    random.seed(4)
    attempt("C4 rewire empty graph", m3.rewire)
    out("C4 empty rng", rng_digest(), mcmc_state(m3))
    m4 = make_mcmc(net, target, conv=-1, search=4)
    random.seed(4)
    R = attempt("C4 rewire conv -1", m4.rewire)
    out("C4 conv -1", rng_digest(), R is not net.G, mcmc_state(m4))


def distance(a, b):
    d = 0.0
    for t in EDGE_NAMES:
        for k in set(a.ejks[t]) | set(b.ejks[t]):
            d += abs(a.ejks[t].get(k, 0.0) - b.ejks[t].get(k, 0.0))
    return d


def section_rewire(nets, targets):
    out("== C5 rewire")
    for gi, g in enumerate(nets):
        gd = graph_digest(g.G)
        for tname, target in targets:
            td = ejks_digest(target)
            for seed, conv, search in ((1, 40, 20), (2, 150, 25), (3, 0, 3)):
                random.seed(seed)
                m = make_mcmc(g, target, conv=conv, search=search)
                label = "C5 g%d %s seed%d conv%d" % (gi, tname, seed, conv)
                R = attempt(label, m.rewire)
                out(label, "rng", rng_digest(), "state", mcmc_state(m))
                if R is not None:
                    ex = measured(R)
                    out(
                        label,
                        "dist",
                        repr(distance(measured(g.G), target)),
                        repr(distance(ex, target)),
                    )
                    # every created edge joins an allowed pairing
                    bad = 0
                    for e in R.edges():
                        if not g.G.has_edge(*e):
                            t = R.edges[e][NetworkNames.TOPOLOGY]
                            k = m.get_joint_excess_degree_key(R, e, target.get_topology_index(t))
                            if not target.ejks[t].get(k, 0.0) > 0.0:
                                bad += 1
                    out(label, "created-not-allowed", bad)
                    # repeated call on the same object, continuing the RNG stream
                    R2 = attempt(label + " again", m.rewire)
                    out(label, "again rng", rng_digest(), "state", mcmc_state(m))
                out(label, "input untouched", graph_digest(g.G) == gd, ejks_digest(target) == td)
    # default convergence limit (10 x edges) on the smallest network
    g = nets[0]
    random.seed(21)
    m = make_mcmc(g, targets[0][1])
    out("C5 default conv", m.convergence_limit)
    R = attempt("C5 default rewire", m.rewire)
    out("C5 default rng", rng_digest(), mcmc_state(m))


def main():
    logging.disable(logging.CRITICAL)
    random.seed(2026)
    section_keys_view()
    section_matrices()

    nets = []
    for n, seed in ((45, 11), (90, 12)):
        g, test_t = build_network(n, seed)
        out("net", n, seed, graph_digest(g.G))
        nets.append(g)
    targets = [
        ("full1", full_support_target(1)),
        ("full2", full_support_target(2)),
        ("partial", partial_target(3)),
        ("zerodiag", zero_diag_target(4)),
        ("absent", absent_target(5)),
        ("assorted", test_t),
    ]
    random.seed(77)
    section_ctor(nets[0], targets[0][1])
    section_unit(nets[1], targets[0][1])
    section_pairs(nets[1], targets)
    section_handmade()
    section_rewire(nets, targets[:5])
    out("final counters", counters())
    out("final rng", rng_digest())


if __name__ == "__main__":
    main()
