"""
Equivalence digest for property C08 (run with cwd = a gcmpy checkout).

Exercises, through their EXISTING signatures only:
  JointDegreeCover.__init__ / create_jdd / cover property,
  JointDegree.convert_jds_to_jdd / sample_jds_from_jdd / handshaking_lemma,
  and the factory / JointDegreeDistribution path that reaches them.
Prints results (floats via repr), exceptions, RNG state digests and mutated inputs.
"""
import os
import sys
import copy
import hashlib
import random
import warnings

if os.environ.get("PYTHONHASHSEED") != "0":
    # string hashing decides the iteration order of sets holding strings (used
    # in some error-path inputs): pin it so that the digest is deterministic
    os.environ["PYTHONHASHSEED"] = "0"
    os.execv(sys.executable, [sys.executable] + sys.argv)

warnings.simplefilter("ignore")
sys.path.insert(0, os.getcwd())

import numpy as np  # noqa: E402

from gcmpy.names.joint_degree_names import JointDegreeNames  # noqa: E402
from gcmpy.joint_degree.joint_degree import JointDegree  # noqa: E402
from gcmpy.joint_degree.joint_degree_type import JointDegreeType  # noqa: E402
from gcmpy.joint_degree.joint_degree_factory import JointDegreeFactory  # noqa: E402
from gcmpy.joint_degree.joint_degree_distribution import (  # noqa: E402
    JointDegreeDistribution,
)
from gcmpy.joint_degree.joint_degree_loaders.joint_degree_cover import (  # noqa: E402
    JointDegreeCover,
)
from gcmpy.joint_degree.joint_degree_loaders.joint_degree_manual import (  # noqa: E402
    JointDegreeManual,
)
from gcmpy.joint_degree.joint_degree_loaders.joint_degree_empirical import (  # noqa: E402
    JointDegreeEmpirical,
)


def rng_digest():
    h = hashlib.sha256()
    h.update(repr(random.getstate()).encode())
    st = np.random.get_state()
    h.update(repr((st[0], st[1].tolist(), st[2], st[3], st[4])).encode())
    return h.hexdigest()[:16]


def show(label, value):
    print("{} = {!r}".format(label, value))


def attempt(label, fn):
    try:
        r = fn()
        shown = "<%s instance>" % type(r).__name__ if isinstance(r, JointDegree) else repr(r)
        print("{} -> OK {}".format(label, shown))
        return r
    except BaseException as e:  # noqa
        print("{} -> EXC {} {!r}".format(label, type(e).__name__, e.args))
        return None


def state(obj):
    d = dict(vars(obj))
    return repr(sorted(d.items(), key=lambda kv: kv[0]))


def seed(n):
    random.seed(n)
    np.random.seed(n)


class Counting:
    """A clique container recording how it is accessed."""

    def __init__(self, items, log, name):
        self._items = list(items)
        self._log = log
        self._name = name

    def __len__(self):
        self._log.append((self._name, "len"))
        return len(self._items)

    def __iter__(self):
        self._log.append((self._name, "iter"))
        return iter(self._items)


class CountingCover(list):
    def __init__(self, items, log):
        list.__init__(self, items)
        self._log = log

    def __iter__(self):
        self._log.append(("cover", "iter"))
        return list.__iter__(self)


COVERS = {
    "one_based": [[1, 2, 3], [3, 4], [4, 5], [1, 5, 6, 2]],
    "zero_based": [[0, 1, 2], [2, 3], [3, 4], [0, 4, 5, 1]],
    "tuples": [(0, 1), (1, 2), (2, 0), (0, 1, 2)],
    "frozensets": [frozenset([1, 2, 3]), frozenset([2, 3, 4]), frozenset([4, 1])],
    "single_clique": [[0, 1, 2, 3, 4]],
    "single_vertex": [[0]],
    "single_vertex_one": [[1]],
    "only_big": [[1, 2, 3, 4, 5, 6], [1, 2, 3, 7, 8, 9]],
    "gaps_in_sizes": [[0, 1], [2, 3, 4, 5, 6], [6, 7], [0, 7, 3, 5, 1]],
    "repeated_cliques": [[1, 2], [1, 2], [2, 1], [1, 2, 3], [3, 2, 1]],
    "repeated_vertex_in_clique": [[0, 0, 1], [1, 2]],
    "starts_at_two": [[2, 3], [3, 4]],
    "starts_at_five": [[5, 6, 7]],
    "non_contiguous": [[0, 1], [5, 6]],
    "negative_ids": [[-1, 0], [0, 1, 2]],
    "empty_cover": [],
    "empty_clique": [[], [0, 1]],
    "only_empty_clique": [[]],
    "string_vertices": [["a", "b"], ["b", "c"]],
    "mixed_types": [[0, "b"], [1, 2]],
    "float_ids": [[0.0, 1.0], [1.0, 2.0, 0.0]],
    "bool_ids": [[False, True], [True, 2]],
    "numpy_ids": [list(np.array([0, 1, 2])), list(np.array([2, 3]))],
    "numpy_rows": list(np.array([[1, 2, 3], [3, 4, 5], [5, 6, 1]])),
    "tuple_cover": ((1, 2), (2, 3), (1, 2, 3)),
    "unsized_clique": [iter([0, 1])],
    "not_iterable_clique": [3, 4],
    "none_cover": None,
    "int_cover": 7,
    "dict_cover": {(0, 1): "x", (1, 2, 3): "y", (3, 0): "z"},
    "string_cover": ["ab", "bc"],
}


def big_cover(n, rnd):
    cover = []
    for v in range(n - 1):
        cover.append([v, v + 1])
    for _ in range(n):
        k = rnd.choice([3, 4, 6])
        cover.append(rnd.sample(range(n), k))
    return cover


def section(title):
    print("=" * 8 + " " + title)


def main():
    # ------------------------------------------------------------------
    section("constructor on many covers")
    seed(101)
    for name, cover in COVERS.items():
        original = copy.deepcopy(cover) if name != "unsized_clique" else None
        params = {JointDegreeNames.COVER: cover}
        before = rng_digest()
        obj = attempt("ctor[%s]" % name, lambda: JointDegreeCover(params))
        print("  rng unchanged:", before == rng_digest())
        print("  params keys:", sorted(k.name for k in params), "same cover obj:",
              params[JointDegreeNames.COVER] is cover)
        if original is not None:
            try:
                same = repr(cover) == repr(original)
            except Exception as e:  # noqa
                same = "repr-exc %s" % type(e).__name__
            print("  cover unmodified:", same)
        if obj is None:
            continue
        print("  is JointDegreeCover:", isinstance(obj, JointDegreeCover),
              isinstance(obj, JointDegree), obj._type)
        show("  state", state(obj))
        show("  motif_sizes", obj.motif_sizes)
        show("  jdd", obj.jdd)
        show("  jdd key order", list(obj.jdd.keys()))
        show("  jdd sum", sum(obj.jdd.values()))
        show("  cover is", obj.cover is cover)
        # repeated create_jdd on the same object
        old_jdd = obj.jdd
        r = attempt("  create_jdd again", lambda: obj.create_jdd())
        show("  new dict object", obj.jdd is not old_jdd)
        show("  jdd equal", obj.jdd == old_jdd and list(obj.jdd) == list(old_jdd))
        show("  state", state(obj))

    # ------------------------------------------------------------------
    section("constructor error paths")
    attempt("ctor missing key", lambda: JointDegreeCover({}))
    attempt("ctor string key", lambda: JointDegreeCover({"cover": [[0, 1]]}))
    attempt("ctor params None", lambda: JointDegreeCover(None))
    attempt("ctor no args", lambda: JointDegreeCover())
    attempt("ctor list params", lambda: JointDegreeCover([[0, 1]]))
    attempt("abstract", lambda: JointDegree())
    attempt("ctor generator cover", lambda: JointDegreeCover(
        {JointDegreeNames.COVER: (c for c in [[0, 1], [1, 2]])}))
    attempt("ctor iterator cover", lambda: JointDegreeCover(
        {JointDegreeNames.COVER: iter([[0, 1], [1, 2]])}))

    # failing create_jdd must leave previous state untouched
    obj = JointDegreeCover({JointDegreeNames.COVER: [[0, 1], [1, 2, 0]]})
    show("state ok", state(obj))
    for bad in ([], [[0, 1], [7, 8]], [["a", 1]], None, [[0, 1], 5]):
        obj.cover = bad
        attempt("create_jdd on bad cover %r" % (bad,), lambda: obj.create_jdd())
        show("  state", state(obj))
    obj.cover = [[1, 2, 3, 4], [4, 5]]
    attempt("create_jdd on new good cover", lambda: obj.create_jdd())
    show("  state (stale motif sizes kept)", state(obj))

    # ------------------------------------------------------------------
    section("access pattern of the cover (iteration / len calls)")
    log = []
    cover = CountingCover(
        [Counting([1, 2, 3], log, "A"), Counting([3, 4], log, "B"),
         Counting([4, 1], log, "C")], log)
    obj = attempt("ctor counting", lambda: JointDegreeCover({JointDegreeNames.COVER: cover}))
    show("log after ctor", log)
    del log[:]
    obj.create_jdd()
    show("log after create_jdd", log)
    show("state", repr(obj.motif_sizes) + repr(obj.jdd))

    # ------------------------------------------------------------------
    section("subclass overriding hooks keeps being dispatched to")

    class Sub(JointDegreeCover):
        calls = None

        def create_jdd(self):
            self.trace = getattr(self, "trace", []) + ["create_jdd"]
            return JointDegreeCover.create_jdd(self)

        def convert_jds_to_jdd(self, jds):
            self.trace = getattr(self, "trace", []) + [("convert", list(jds))]
            return JointDegreeCover.convert_jds_to_jdd(self, jds)

        def handshaking_lemma(self, jds):
            self.trace = getattr(self, "trace", []) + [("hand", len(jds))]
            return JointDegreeCover.handshaking_lemma(self, jds)

    seed(7)
    sub = attempt("Sub ctor", lambda: Sub({JointDegreeNames.COVER: COVERS["one_based"]}))
    show("trace", sub.trace)
    show("state", state(sub))
    show("sample", sub.sample_jds_from_jdd(11))
    show("trace tail", sub.trace[-1])
    show("rng", rng_digest())

    # ------------------------------------------------------------------
    section("factory / distribution loader path")
    seed(5)
    for name in ("one_based", "zero_based", "gaps_in_sizes", "empty_cover", "non_contiguous"):
        params = {
            JointDegreeNames.JOINT_DEGREE_TYPE: "cover",
            JointDegreeNames.COVER: COVERS[name],
        }
        o = attempt("load[%s]" % name, lambda: JointDegreeDistribution.load_joint_degree(params))
        if o is not None:
            show("  state", state(o))
        o = attempt("factory[%s]" % name, lambda: JointDegreeFactory.resolve_joint_degree(
            JointDegreeType.COVER, params))
        if o is not None:
            show("  state", state(o))
    attempt("load missing type", lambda: JointDegreeDistribution.load_joint_degree({}))
    show("rng", rng_digest())

    # ------------------------------------------------------------------
    section("convert_jds_to_jdd directly")
    obj = JointDegreeCover({JointDegreeNames.COVER: COVERS["one_based"]})
    inputs = [
        [(1, 0), (1, 0), (0, 2), (3, 1), (0, 2), (1, 0)],
        [(0,)] * 7,
        [(1, 2, 3)],
        [],
        [1, 2, 2, 3, 3, 3],
        ["x", "y", "x"],
        ((1, 1), (2, 2), (1, 1)),
        [(0.5, 1), (0.5, 1), (1, 0.5)],
        [[1, 2], [1, 2]],
        None,
        5,
        (t for t in [(1, 2), (1, 2)]),
        {(1, 2): 3, (0, 1): 4},
        "aab",
    ]
    for i, jds in enumerate(inputs):
        keep = copy.deepcopy(jds) if not hasattr(jds, "gi_frame") else None
        prev = obj.jdd
        r = attempt("convert[%d]" % i, lambda: obj.convert_jds_to_jdd(jds))
        show("  returned None", r is None)
        show("  jdd", obj.jdd)
        show("  jdd is new object", obj.jdd is not prev)
        show("  motif_sizes", obj.motif_sizes)
        if keep is not None:
            show("  input unmodified", repr(jds) == repr(keep))
    attempt("convert no args", lambda: obj.convert_jds_to_jdd())
    attempt("convert kw", lambda: obj.convert_jds_to_jdd(jds=[(1, 1), (1, 1), (2, 0)]))
    show("  jdd", obj.jdd)
    attempt("convert 2 positional-only-one-allowed? (list, list)",
            lambda: JointDegree.convert_jds_to_jdd(obj, [(4, 4)]))
    show("  jdd", obj.jdd)

    emp = attempt("empirical ctor", lambda: JointDegreeEmpirical({
        JointDegreeNames.MOTIF_SIZES: [2, 3],
        JointDegreeNames.JDS: [(1, 0), (2, 1), (2, 1), (0, 3), (1, 0), (2, 1)],
    }))
    show("  state", state(emp))

    # ------------------------------------------------------------------
    section("sample_jds_from_jdd")
    for name in ("one_based", "zero_based", "tuples", "single_clique", "only_big",
                 "gaps_in_sizes", "repeated_cliques", "single_vertex", "empty_clique",
                 "only_empty_clique"):
        seed(2024)
        obj = attempt("ctor", lambda: JointDegreeCover({JointDegreeNames.COVER: COVERS[name]}))
        if obj is None:
            continue
        jdd_before = repr(obj.jdd)
        for N in (0, 1, 2, 5, 17, 100, 1000):
            r = attempt("sample[%s,%d]" % (name, N), lambda: obj.sample_jds_from_jdd(N))
            if r is not None:
                h = hashlib.sha256(repr(r).encode()).hexdigest()[:16]
                print("  len", len(r), "digest", h, "type", type(r).__name__,
                      "sums", list(map(sum, zip(*r))))
            print("  rng", rng_digest())
        show("  jdd untouched", repr(obj.jdd) == jdd_before)
        show("  state", state(obj))
    seed(11)
    obj = JointDegreeCover({JointDegreeNames.COVER: COVERS["one_based"]})
    attempt("sample N=-1", lambda: obj.sample_jds_from_jdd(-1))
    attempt("sample N=None", lambda: obj.sample_jds_from_jdd(None))
    attempt("sample N='3'", lambda: obj.sample_jds_from_jdd("3"))
    attempt("sample N=2.0", lambda: obj.sample_jds_from_jdd(2.0))
    attempt("sample no args", lambda: obj.sample_jds_from_jdd())
    attempt("sample kw", lambda: obj.sample_jds_from_jdd(N=9))
    show("rng", rng_digest())
    obj.jdd = {}
    attempt("sample empty jdd", lambda: obj.sample_jds_from_jdd(3))
    obj.jdd = None
    attempt("sample None jdd", lambda: obj.sample_jds_from_jdd(3))
    obj.jdd = {(1, 1): 0.0}
    attempt("sample zero weights", lambda: obj.sample_jds_from_jdd(3))
    obj.jdd = {(1, 1): -1.0, (2, 0): 0.5}
    attempt("sample negative weights", lambda: obj.sample_jds_from_jdd(3))
    obj.jdd = {(1, 1, 1, 1): 1.0}
    attempt("sample more columns than motif sizes", lambda: obj.sample_jds_from_jdd(3))
    show("rng", rng_digest())
    obj.jdd = {(1,): 0.5, (2,): 0.5}
    attempt("sample fewer columns than motif sizes", lambda: obj.sample_jds_from_jdd(6))
    show("rng", rng_digest())
    obj.jdd = {(1, 2, 1): 3, (0, 1, 0): 1}
    attempt("sample integer weights", lambda: obj.sample_jds_from_jdd(10))
    obj.motif_sizes = [0, 1, 2]
    attempt("sample zero motif size", lambda: obj.sample_jds_from_jdd(10))
    obj.motif_sizes = None
    attempt("sample None motif sizes", lambda: obj.sample_jds_from_jdd(10))
    show("rng", rng_digest())

    seed(33)
    man = JointDegreeManual({
        JointDegreeNames.JDD: {(1, 0): 0.2, (2, 1): 0.5, (3, 0): 0.1, (5, 1): 0.2},
        JointDegreeNames.MOTIF_SIZES: [2, 3],
    })
    for N in (3, 50, 1001, 50):
        r = man.sample_jds_from_jdd(N)
        print("manual sample", N, hashlib.sha256(repr(r).encode()).hexdigest()[:16],
              list(map(sum, zip(*r))), rng_digest())
    show("manual state", state(man))

    # a large cover, sampling then regenerating: profile check input
    rnd = random.Random(99)
    cover = big_cover(300, rnd)
    seed(77)
    obj = JointDegreeCover({JointDegreeNames.COVER: cover})
    show("big motif sizes", obj.motif_sizes)
    show("big jdd digest", hashlib.sha256(repr(list(obj.jdd.items())).encode()).hexdigest()[:16])
    show("big jdd sum", sum(obj.jdd.values()))
    r = obj.sample_jds_from_jdd(300)
    show("big sample digest", hashlib.sha256(repr(r).encode()).hexdigest()[:16])
    show("big sample sums", list(map(sum, zip(*r))))
    show("rng", rng_digest())

    # ------------------------------------------------------------------
    section("handshaking_lemma directly")
    seed(404)
    obj = JointDegreeCover({JointDegreeNames.COVER: COVERS["one_based"]})  # sizes 2,3,4
    cases = [
        [(1, 1, 1), (1, 1, 1), (1, 1, 1)],
        [(2, 3, 4)],
        [(0, 0, 0), (0, 0, 0)],
        [(1, 0, 0), (0, 1, 0), (0, 0, 1), (5, 5, 5)],
        [],
        [(2, 3, 4), (2, 3, 4)],
        [[1, 1, 1], [0, 2, 2]],
        [(1, 1), (1, 0)],
        [(1, 1, 1, 1), (0, 0, 0, 1)],
        ((1, 1, 1), (1, 1, 1)),
        [(1.5, 1, 1), (1, 1, 1)],
        None,
        [1, 2, 3],
    ]
    for i, jds in enumerate(cases):
        keep = copy.deepcopy(jds)
        r = attempt("hand[%d] %r" % (i, keep), lambda: obj.handshaking_lemma(jds))
        show("  same object returned", r is jds)
        show("  input now", jds)
        show("  rng", rng_digest())
    # repeated on the same list
    jds = [(1, 1, 1)] * 5
    for i in range(4):
        r = obj.handshaking_lemma(jds)
        show("  repeat %d" % i, r)
        show("  rng", rng_digest())
    attempt("hand no args", lambda: obj.handshaking_lemma())
    attempt("hand kw", lambda: obj.handshaking_lemma(jds=[(1, 0, 0), (0, 0, 0)]))
    show("rng", rng_digest())
    show("final state", state(obj))

    # ------------------------------------------------------------------
    section("signatures visible to existing positional callers")
    # only positional use of the existing parameters
    seed(1)
    o = JointDegreeCover({JointDegreeNames.COVER: [[0, 1], [1, 2], [0, 1, 2]]})
    show("unbound sample", JointDegree.sample_jds_from_jdd(o, 4))
    show("unbound hand", JointDegree.handshaking_lemma(o, [(1, 0), (0, 1)]))
    show("unbound create", JointDegreeCover.create_jdd(o))
    show("properties", (o.cover, o.motif_sizes, o.jdd))
    o.motif_sizes = [2, 3]
    o.jdd = {(1, 1): 1.0}
    show("after setters", state(o))
    show("normalise", o.normalise_jdd())
    show("after normalise", state(o))
    show("rng", rng_digest())


if __name__ == "__main__":
    main()
