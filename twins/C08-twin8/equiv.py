import sys, os; sys.path.insert(0, os.getcwd())

import hashlib
import random
import warnings

warnings.simplefilter("ignore")

import numpy as np

from gcmpy.joint_degree.joint_degree_factory import JointDegreeFactory
from gcmpy.joint_degree.joint_degree_type import JointDegreeType
from gcmpy.joint_degree.joint_degree_loaders.joint_degree_cover import JointDegreeCover
from gcmpy.joint_degree.joint_degree_loaders.joint_degree_empirical import JointDegreeEmpirical
from gcmpy.joint_degree.joint_degree_loaders.joint_degree_manual import JointDegreeManual
from gcmpy.joint_degree.joint_degree_loaders.joint_degree_marginal import JointDegreeMarginal
from gcmpy.names.joint_degree_names import JointDegreeNames as N
from gcmpy.distributions.poisson import poisson


def seed(s):
    random.seed(s)
    np.random.seed(s)


def rng_state():
    h = hashlib.sha256(repr(random.getstate()).encode()).hexdigest()[:16]
    st = np.random.get_state()
    g = hashlib.sha256(st[1].tobytes() + repr(st[2:]).encode()).hexdigest()[:16]
    return f"py:{h} np:{g}"


def digest(obj):
    return hashlib.sha256(repr(obj).encode()).hexdigest()[:16]


def show_jdd(obj):
    try:
        jdd = obj.jdd
    except Exception as e:  # attribute missing etc.
        return f"<{type(e).__name__}>"
    if jdd is None:
        return "None"
    # insertion order matters (it fixes what random.choices draws)
    return "{" + ", ".join(f"{k!r}: {v!r}" for k, v in jdd.items()) + "}"


def attempt(label, fn):
    try:
        out = fn()
        print(f"{label}: {out}")
    except BaseException as e:
        print(f"{label}: raised {type(e).__name__}")
    print(f"    rng {rng_state()}")


# --------------------------------------------------------------------- covers
COVERS = {
    "2+3 asc 0-based": [[0, 1], [1, 2], [2, 3, 4], [4, 5, 6], [6, 0]],
    "2+4 asc 1-based": [[1, 2], [2, 3], [3, 4, 5, 6], [6, 7], [7, 8, 9, 1]],
    "4+2 big first": [[0, 1, 2, 3], [3, 4], [4, 5], [5, 6], [6, 0], [1, 7], [7, 2]],
    "5+2 mixed 1-based": [[1, 2, 3, 4, 5], [5, 6], [6, 7, 8, 9, 10], [10, 1], [2, 7], [3, 8]],
    "3+2+4 mixed": [[0, 1, 2], [2, 3], [3, 4, 5, 6], [6, 7], [7, 8, 0], [1, 4]],
    "4+3+2 descending": [[0, 1, 2, 3], [3, 4, 5], [5, 6], [6, 0]],
    "single size": [[0, 1, 2], [2, 3, 4], [4, 5, 0]],
    "single clique": [[1, 2, 3, 4, 5, 6]],
    "1-cliques and 3": [[0, 1, 2], [3], [4], [2, 3, 4]],
    "3 then 1-cliques": [[2, 3, 4], [0], [1], [0, 1, 2]],
    "tuples": ((0, 1, 2, 3), (3, 4), (4, 0)),
    "duplicate vertex in clique": [[0, 0, 1], [1, 2]],
    "repeated clique": [[0, 1], [0, 1], [1, 2, 3], [0, 1]],
    "empty clique first": [[], [0, 1], [1, 2, 3]],
    "empty clique last, desc": [[0, 1, 2], [2, 3], []],
    "only empty cliques": [[], []],
    "empty cover": [],
    "gap in ids (IndexError)": [[0, 1], [1, 5, 6]],
    "starts at 2 (IndexError)": [[2, 3], [3, 4, 5]],
    "negative ids": [[-1, 0, 1], [1, 2]],
    "string ids": [["a", "b"], ["b", "c", "d"]],
    "float ids": [[0.0, 1.0], [1.0, 2.0, 3.0]],
    "bool/int ids": [[False, True], [1, 2, 3]],
    "unhashable vertex": [[[0], [1]], [[1], [2]]],
    "cover not iterable": 7,
    "clique not sized": [3, 4],
    "numpy 2d": np.array([[0, 1, 2], [2, 3, 4], [4, 5, 0]]),
    "numpy ragged": [np.array([3, 4, 5, 6]), np.array([1, 2]), np.array([2, 3])],
    "sets as cliques": [{0, 1, 2}, {2, 3}, {3, 4, 5, 0}],
    "big mixed": None,  # filled below
}

seed(99)
big = []
for _ in range(400):
    k = random.choice([6, 2, 3, 5, 2, 2, 3])
    big.append(random.sample(range(300), k))
big.append(list(range(300)))  # make ids contiguous
COVERS["big mixed"] = big


def cover_case(name, cover, via_factory):
    def build():
        params = {N.COVER: cover}
        if via_factory:
            return JointDegreeFactory.resolve_joint_degree(JointDegreeType.COVER, params)
        return JointDegreeCover(params)

    seed(1234)
    print(f"== cover [{name}] factory={via_factory}")
    try:
        obj = build()
    except BaseException as e:
        print(f"  construct raised {type(e).__name__}")
        print(f"    rng {rng_state()}")
        return
    print(f"  motif_sizes {obj.motif_sizes!r}")
    jdd = show_jdd(obj)
    print(f"  jdd {jdd if len(jdd) < 900 else digest(jdd)}")
    print(f"  cover unchanged {digest(obj.cover)}")
    print(f"    rng {rng_state()}")
    for n in (0, 1, 7, 1000):
        def sample():
            jds = obj.sample_jds_from_jdd(n)
            tot = [sum(c) for c in zip(*jds)]
            return f"n={len(jds)} totals={tot} digest={digest(jds)} head={jds[:5]!r}"
        attempt(f"  sample({n})", sample)
    # repeated create_jdd on the same object, then after replacing the cover
    attempt("  create_jdd again", lambda: (obj.create_jdd(), show_jdd(obj) == jdd)[1])
    obj.cover = [[0, 1, 2, 3, 4], [4, 5], [5, 6, 7]]
    attempt("  create_jdd new cover (motif_sizes stale)",
            lambda: (obj.create_jdd(), f"{obj.motif_sizes!r} {show_jdd(obj)}")[1])
    attempt("  sample after new cover", lambda: digest(obj.sample_jds_from_jdd(50)))
    obj.cover = [[0, 1], ["x"]]
    attempt("  create_jdd bad cover", lambda: obj.create_jdd())
    print(f"  jdd after failure {show_jdd(obj)}")


for name, cover in COVERS.items():
    for via_factory in (False, True):
        cover_case(name, cover, via_factory)

print("== cover missing key")
attempt("  construct", lambda: JointDegreeCover({}))

# ------------------------------------------------------------------ empirical
print("== empirical")
seed(5)
EMP = {
    "tuples": [(1, 0), (2, 1), (1, 0), (0, 3), (2, 1), (1, 0), (5, 5)],
    "one column": [(3,), (1,), (3,), (2,), (3,)],
    "empty": [],
    "unhashable rows": [[1, 0], [2, 1]],
    "mixed hashability": [(1, 0), [2, 1]],
    "not sized": iter([(1, 0)]),
    "string": "abca",
    "thirds": [(k % 3, k % 7) for k in range(21)],
}
for name, jds in EMP.items():
    print(f"-- empirical [{name}]")
    def build():
        return JointDegreeEmpirical({N.MOTIF_SIZES: [2, 3], N.JDS: jds})
    try:
        obj = build()
    except BaseException as e:
        print(f"  construct raised {type(e).__name__}")
        continue
    print(f"  jdd {show_jdd(obj)}")
    for n in (0, 3, 500):
        attempt(f"  sample({n})", lambda: (lambda j: f"{digest(j)} {j[:4]!r}")(obj.sample_jds_from_jdd(n)))
    # failing recount on a live object: what is left in jdd afterwards?
    obj.empirical_jds = [[1, 2], [3, 4]]
    attempt("  create_jdd unhashable", lambda: obj.create_jdd())
    print(f"  jdd after failure {show_jdd(obj)}")
    obj.empirical_jds = [(4, 4), (4, 4), (1, 2)]
    attempt("  create_jdd ok again", lambda: (obj.create_jdd(), show_jdd(obj))[1])
    attempt("  convert directly (not sized)", lambda: obj.convert_jds_to_jdd(x for x in [(1, 2)]))
    print(f"  jdd after failure {show_jdd(obj)}")
    attempt("  convert directly (empty)", lambda: (obj.convert_jds_to_jdd([]), show_jdd(obj))[1])

# --------------------------------------------------- manual / handshaking lemma
print("== manual + handshaking_lemma")
MAN = [
    ({(1, 0): 0.25, (0, 1): 0.25, (2, 3): 0.5}, [2, 3]),
    ({(3,): 0.1, (1,): 0.9}, [4]),
    ({(1, 1, 1): 1.0}, [2, 3, 5]),
    ({(1, 1): 0.5, (2, 0): 0.5}, [2]),        # fewer sizes than columns -> IndexError
    ({(1, 1): 0.5, (2, 0): 0.5}, [2, 0]),     # zero size -> ZeroDivisionError
    ({(1, 1): 0.5, (2, 0): 0.5}, [1, 1]),     # always divisible
    ({}, [2]),                                # nothing to choose from
    ({(1,): 0.0}, [2]),                       # zero weights
    ({(1,): -1.0, (2,): 2.0}, [2]),
]
for jdd, sizes in MAN:
    print(f"-- manual jdd={jdd!r} sizes={sizes!r}")
    seed(77)
    obj = JointDegreeManual({N.JDD: dict(jdd), N.MOTIF_SIZES: list(sizes)})
    for n in (0, 1, 2, 9, 10, 333):
        attempt(f"  sample({n})", lambda: (lambda j: f"{digest(j)} {j[:6]!r}")(obj.sample_jds_from_jdd(n)))
    print(f"  jdd untouched {show_jdd(obj)} sizes {obj.motif_sizes!r}")

print("-- handshaking_lemma direct, input mutated in place")
obj = JointDegreeManual({N.JDD: {(0, 0): 1.0}, N.MOTIF_SIZES: [3, 4]})
HS = [
    [(1, 0), (0, 1), (2, 2)],
    [[1, 0], [0, 1], [2, 2]],       # list rows become tuples only where touched
    [(3, 4)],
    [(0, 0), (0, 0)],
    [],
    [(1,), (1,)],
    [(1, 2, 3)],                     # more columns than sizes
    [(1, 2), (3,)],                  # ragged: zip truncates
    [("a", 1)],                      # sum fails
    ((1, 1), (1, 1)),                # immutable outer container
    [(1.5, 2), (0, 1)],
]
for jds in HS:
    seed(31)
    before = repr(jds)
    def run():
        out = obj.handshaking_lemma(jds)
        return f"same_object={out is jds} out={out!r}"
    attempt(f"  hs {before}", run)
    print(f"    input now {jds!r}")

# ------------------------------------------------------------------- marginal
print("== marginal by sampling (uses convert_jds_to_jdd)")
seed(2024)
params = {
    N.MOTIF_SIZES: [2, 3],
    N.ARR_FP: [poisson(2.5), poisson(1.5)],
    N.LOW_HIGH_DEGREE_BOUND: [(0, 8), (0, 6)],
    N.USE_SAMPLING: True,
    N.N_SAMPLES: 3000,
}
obj = JointDegreeMarginal(params)
print(f"  jdd {digest(show_jdd(obj))} size {len(obj.jdd)}")
print(f"    rng {rng_state()}")
attempt("  sample(2000)", lambda: digest(obj.sample_jds_from_jdd(2000)))
attempt("  create_jdd again", lambda: (obj.create_jdd(), digest(show_jdd(obj)))[1])
params.pop(N.USE_SAMPLING)
obj = JointDegreeMarginal(params)
print(f"  direct jdd {digest(show_jdd(obj))}")
attempt("  sample(2001)", lambda: digest(obj.sample_jds_from_jdd(2001)))

print("done")
