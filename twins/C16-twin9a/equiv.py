import sys, os; sys.path.insert(0, os.getcwd())
import random, hashlib, itertools, fractions, decimal
import numpy as np

random.seed(1601)
np.random.seed(1601)

from gcmpy.message_passing.equations.clique_equation import clique_equation
from gcmpy.message_passing.number_connected_graphs import Q, binomial

out = []


def call(tag, *args):
    try:
        r = clique_equation(*args)
        out.append("%s -> %s %r" % (tag, type(r).__name__, r))
    except BaseException as e:
        out.append("%s !! %s" % (tag, type(e).__name__))


phis = [0.0, 1.0, 0.5, 0.1, 0.9, 1e-12, 1 - 1e-12, 1.5, -0.25, 0, 1, 2,
        fractions.Fraction(1, 3), float("inf"), float("nan"), np.float64(0.3)]
for tau in list(range(-2, 8)) + [True, False, np.int64(4), np.int32(3)]:
    for phi in phis:
        for L in (0, 1, int(tau) - 2, int(tau) - 1, int(tau), int(tau) + 2):
            if L < 0:
                continue
            Hs = [random.random() for _ in range(L)]
            call("t=%r p=%r L=%d" % (tau, phi, L), tau, phi, Hs)
            Hc = list(Hs)
            call("rep", tau, phi, Hs)
            out.append("Hs-untouched %r" % (Hs == Hc))

for tau in range(1, 8):
    Hs = [np.random.random() for _ in range(tau - 1)]
    call("np t=%d" % tau, tau, np.random.random(), Hs)
    call("tuple t=%d" % tau, tau, 0.37, tuple(Hs))
    g = (h for h in Hs)
    call("gen t=%d" % tau, tau, 0.37, g)
    out.append("gen-left %r" % (list(g),))
    call("frac t=%d" % tau, tau, fractions.Fraction(2, 7),
         [fractions.Fraction(random.randint(0, 9), 10) for _ in range(tau - 1)])
    call("ints t=%d" % tau, tau, 0.5, [random.randint(0, 1) for _ in range(tau - 1)])
    call("arr t=%d" % tau, tau, 0.5, np.random.random(tau - 1))

bad = [
    (3.0, 0.5, [0.1, 0.2]), (2.5, 0.5, [0.1, 0.2]), ("3", 0.5, [0.1, 0.2]),
    (None, 0.5, [0.1, 0.2]), (3, "x", [0.1, 0.2]), (3, None, [0.1, 0.2]),
    (3, 0.5, None), (3, 0.5, 7), (3, 0.5, ["a", "b"]), (3, 0.5, [None, 0.2]),
    (3, 0.5, "ab"), (3, [0.5], [0.1, 0.2]), (3, 0.5, [[1], [2]]),
    (3, decimal.Decimal("0.5"), [0.1, 0.2]),
    (3, decimal.Decimal("0.5"), [decimal.Decimal("0.1")] * 2),
    (3, 1j, [0.1, 0.2]), (3, 0.5, [1j, 0.2]), (4, 0.0, []), (1, 0.0, []),
    (0, 0.0, []), (5, 1.0, [1.0] * 4), (5, 0.0, [1.0] * 4),
    (np.float64(3.0), 0.5, [0.1, 0.2]), ([3], 0.5, [0.1, 0.2]),
    (3, 0.5, {0.1: 1, 0.2: 2}), (3, 0.5, {0.1, 0.2}),
    (6, 1e200, [0.5] * 5), (6, -1e200, [0.5] * 5), (4, 0.5, [1e308] * 3),
    (3, 0.5, [0.1, 0.2], 1), (3, 0.5),
]
for k, a in enumerate(bad):
    call("bad%d" % k, *a)

out.append("Qcache %r" % (Q.cache_info(),))
out.append("bincache %r" % (binomial.cache_info(),))
out.append("rng " + hashlib.sha256(repr(random.getstate()).encode()).hexdigest())
out.append("nprng " + hashlib.sha256(repr(np.random.get_state()).encode()).hexdigest())
print("\n".join(out))
print("digest", hashlib.sha256("\n".join(out).encode()).hexdigest())
