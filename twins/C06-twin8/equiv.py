import sys, os; sys.path.insert(0, os.getcwd())
"""
Equivalence digest for the C06 clean-up commit (joint degree loaders).
Run with cwd = a gcmpy checkout; prints a deterministic digest of every function
the commit touched, driven through the public pre-existing entry points.
"""
import copy
import hashlib
import random
import warnings

warnings.filterwarnings("ignore")

import numpy as np

from gcmpy.joint_degree.joint_degree_type import JointDegreeType
from gcmpy.joint_degree.joint_degree_distribution import JointDegreeDistribution
from gcmpy.joint_degree.joint_degree_loaders.joint_degree_manual import JointDegreeManual
from gcmpy.joint_degree.joint_degree_loaders.joint_degree_empirical import JointDegreeEmpirical
from gcmpy.joint_degree.joint_degree_loaders.joint_degree_marginal import JointDegreeMarginal
from gcmpy.joint_degree.joint_degree_loaders.joint_degree_function import JointDegreeFunction
from gcmpy.joint_degree.joint_degree_loaders.joint_degree_cover import JointDegreeCover
from gcmpy.joint_degree.joint_degree_loaders.joint_degree_delta import JointDegreeDelta
from gcmpy.joint_degree.joint_degree_loaders.joint_degree_split_degree import (
    JointDegreeSplitDegree,
)
from gcmpy.names.joint_degree_names import JointDegreeNames as N


def rng_state() -> str:
    h = hashlib.sha256()
    h.update(repr(random.getstate()).encode())
    h.update(repr(np.random.get_state()[1].tolist()).encode())
    h.update(repr(np.random.get_state()[2:]).encode())
    return h.hexdigest()[:16]


def show(x) -> str:
    """repr with the types of the leaves, dict order preserved."""
    if isinstance(x, dict):
        return "{" + ", ".join(f"{show(k)}: {show(v)}" for k, v in x.items()) + "}"
    if isinstance(x, (list, tuple)):
        o, c = ("[", "]") if isinstance(x, list) else ("(", ")")
        return o + ", ".join(show(e) for e in x) + c
    return f"{type(x).__name__}:{x!r}"


def big(x) -> str:
    s = show(x)
    if len(s) > 400:
        return f"<{len(s)} chars sha={hashlib.sha256(s.encode()).hexdigest()[:16]}> {s[:160]}..."
    return s


def case(label, fn):
    try:
        out = fn()
        print(f"[{label}] ok {big(out)}")
    except TypeError as e:
        # interpreter-generated TypeError wording depends on which operation first
        # touches the malformed argument (len() vs iteration): digest the type only
        print(f"[{label}] raised {type(e).__name__}")
    except BaseException as e:  # noqa: BLE001
        print(f"[{label}] raised {type(e).__name__}: {e}")
    print(f"[{label}] rng {rng_state()}")


def seed(n):
    random.seed(n)
    np.random.seed(n)


class CountingFn:
    """Callable that records the order of its calls."""

    def __init__(self, f, name, log):
        self.f, self.name, self.log = f, name, log

    def __call__(self, k):
        self.log.append((self.name, k))
        return self.f(k)


# --------------------------------------------------------------------------
# convert_jds_to_jdd via the empirical loader (direct and via dispatcher)
# --------------------------------------------------------------------------
def empirical_cases():
    seed(1)
    seqs = {
        "dups": [(1, 0), (2, 1), (1, 0), (0, 0), (2, 1), (1, 0), (3, 2)],
        "distinct": [(0, 1), (1, 2), (2, 3)],
        "single": [(4, 4)],
        "empty": [],
        "rand600": [(random.randrange(0, 4), random.randrange(0, 3)) for _ in range(600)],
        "rand7": [(random.randrange(0, 3),) for _ in range(7)],
        "tuple_of_tuples": ((1, 1), (1, 1), (2, 0)),
        "strings": ["ab", "ab", "cd"],
        "mixed_eq_keys": [(1, 0), (1.0, 0.0), (True, False), (2, 0)],
        "np_rows_as_tuples": [tuple(r) for r in np.array([[1, 2], [1, 2], [0, 1]])],
        "dict_as_jds": {(1, 2): 3, (0, 1): 1},
        "counter_like_str": "aabbbc",
    }
    for name, jds in seqs.items():
        before = copy.deepcopy(jds)

        def run(jds=jds):
            g = JointDegreeEmpirical({N.MOTIF_SIZES: [2, 3], N.JDS: jds})
            first = dict(g.jdd)
            g.create_jdd()
            assert show(first) == show(g.jdd)
            return g.jdd

        case(f"empirical/direct/{name}", run)

        def run2(jds=jds):
            g = JointDegreeDistribution.load_joint_degree(
                {N.MOTIF_SIZES: [2, 3], N.JDS: jds, N.JOINT_DEGREE_TYPE: JointDegreeType.EMPIRICAL}
            )
            return (g.jdd, sum(g.jdd.values()))

        case(f"empirical/dispatch/{name}", run2)
        print(f"[empirical/{name}] input unchanged {before == jds}")

    # error paths
    bad = {
        "none": None,
        "int": 5,
        "lists_unhashable": [[1, 2], [1, 2]],
        "np_2d": np.array([[1, 2], [1, 2]]),
        "generator": (x for x in [(1, 2), (1, 2)]),
        "iterator": iter([(1, 2), (3, 4)]),
        "set": {(1, 2), (3, 4)},
    }
    for name, jds in bad.items():
        case(
            f"empirical/bad/{name}",
            lambda jds=jds: JointDegreeEmpirical({N.MOTIF_SIZES: [2], N.JDS: jds}).jdd,
        )
    case("empirical/missing-key", lambda: JointDegreeEmpirical({N.MOTIF_SIZES: [2]}).jdd)

    # setter, then recompute on the same object; failure keeps which state?
    def reuse():
        g = JointDegreeEmpirical({N.MOTIF_SIZES: [2, 2], N.JDS: [(1, 1), (1, 1), (0, 2)]})
        out = [dict(g.jdd)]
        g.empirical_jds = [(5, 5)] * 3 + [(1, 1)]
        g.create_jdd()
        out.append(dict(g.jdd))
        g.convert_jds_to_jdd([(0, 0), (0, 0), (2, 2), (0, 0)])
        out.append(dict(g.jdd))
        seed(5)
        out.append(g.sample_jds_from_jdd(11))
        return out

    case("empirical/reuse", reuse)


# --------------------------------------------------------------------------
# cover loader also goes through convert_jds_to_jdd
# --------------------------------------------------------------------------
def cover_cases():
    covers = {
        "tri+edges": [[0, 1, 2], [2, 3], [3, 4], [4, 0, 1], [1, 3]],
        "one-based": [[1, 2], [2, 3], [3, 1], [1, 2, 3, 4]],
        "edges": [[0, 1], [1, 2], [2, 0], [0, 3]],
    }
    for name, cover in covers.items():
        before = copy.deepcopy(cover)
        case(f"cover/direct/{name}", lambda c=cover: JointDegreeCover({N.COVER: c}).jdd)
        case(
            f"cover/dispatch/{name}",
            lambda c=cover: JointDegreeDistribution.load_joint_degree(
                {N.COVER: c, N.JOINT_DEGREE_TYPE: JointDegreeType.COVER}
            ).jdd,
        )
        print(f"[cover/{name}] input unchanged {before == cover}")
    case("cover/empty", lambda: JointDegreeCover({N.COVER: []}).jdd)


# --------------------------------------------------------------------------
# marginal loader: direct and sampling
# --------------------------------------------------------------------------
def marginal_cases():
    fa = lambda k: 1.0 / (k + 1)
    fb = lambda k: float(k + 1)
    fc = lambda k: 0.1 * k + 0.3
    fi = lambda k: k + 1  # ints
    fnp = lambda k: np.float64(0.1) * (k + 1)  # numpy scalars
    fzero = lambda k: 0.0
    fneg = lambda k: -1.0 if k == 1 else 1.0

    def fraise(k):
        if k == 2:
            raise KeyError("boom")
        return 0.5

    configs = {
        "2d": dict(arr=[fa, fb], b=[(0, 4), (1, 4)], ms=[2, 3]),
        "3d": dict(arr=[fa, fb, fc], b=[(0, 3), (1, 3), (2, 5)], ms=[2, 3, 4]),
        "1d": dict(arr=[fc], b=[(0, 6)], ms=[2]),
        "ints": dict(arr=[fi, fi], b=[(0, 3), (0, 3)], ms=[2, 3]),
        "numpy": dict(arr=[fnp, fa], b=[(0, 3), (1, 4)], ms=[2, 3]),
        "tuple-bounds": dict(arr=(fa, fb), b=((0, 3), (2, 4)), ms=(2, 3)),
        "list-pairs": dict(arr=[fa, fb], b=[[0, 3], [2, 4]], ms=[2, 3]),
        "np-bounds": dict(arr=[fa, fb], b=np.array([[0, 3], [2, 4]]), ms=[2, 3]),
        "degenerate-range": dict(arr=[fa, fb], b=[(2, 2), (1, 3)], ms=[2, 3]),
        "inverted-range": dict(arr=[fa, fb], b=[(3, 1), (1, 3)], ms=[2, 3]),
        "single-value": dict(arr=[fa, fb], b=[(2, 3), (1, 2)], ms=[2, 3]),
        "empty-bounds": dict(arr=[], b=[], ms=[]),
        "too-few-fp": dict(arr=[fa], b=[(0, 3), (1, 3)], ms=[2, 3]),
        "extra-fp": dict(arr=[fa, fb, fc], b=[(0, 3), (1, 3)], ms=[2, 3]),
        "bad-pair": dict(arr=[fa, fb], b=[(0, 3, 5), (1, 3)], ms=[2, 3]),
        "bounds-not-iterable": dict(arr=[fa, fb], b=[3, 4], ms=[2, 3]),
        "bounds-none": dict(arr=[fa, fb], b=None, ms=[2, 3]),
        "float-bounds": dict(arr=[fa, fb], b=[(0.0, 3.0), (1, 3)], ms=[2, 3]),
        "all-zero": dict(arr=[fzero, fb], b=[(0, 3), (1, 3)], ms=[2, 3]),
        "negative": dict(arr=[fneg, fb], b=[(0, 3), (1, 3)], ms=[2, 3]),
        "raises": dict(arr=[fa, fraise], b=[(0, 3), (1, 4)], ms=[2, 3]),
        "fp-not-callable": dict(arr=[fa, 3.0], b=[(0, 3), (1, 4)], ms=[2, 3]),
        "fp-returns-str": dict(arr=[fa, lambda k: "x"], b=[(0, 3), (1, 4)], ms=[2, 3]),
    }
    for name, c in configs.items():
        for sampling, ns in ((False, None), (True, 0), (True, 1), (True, 257), (True, None)):
            params = {N.MOTIF_SIZES: c["ms"], N.ARR_FP: c["arr"], N.LOW_HIGH_DEGREE_BOUND: c["b"]}
            if sampling:
                params[N.USE_SAMPLING] = True
                if ns is not None:
                    params[N.N_SAMPLES] = ns
                elif name not in ("2d", "empty-bounds", "raises"):
                    continue  # default 100000 samples only for a few
            tag = f"marginal/{name}/{'sample' + str(ns) if sampling else 'direct'}"
            seed(7)

            def run(params=params):
                g = JointDegreeMarginal(dict(params))
                out = [dict(g.jdd), sum(g.jdd.values()) if g.jdd else None]
                g.create_jdd()  # repeated call on one object
                out.append(dict(g.jdd))
                return out

            case(tag + "/direct-ctor", run)
            seed(7)

            def run2(params=params):
                g = JointDegreeDistribution.load_joint_degree(
                    {**params, N.JOINT_DEGREE_TYPE: JointDegreeType.MARGINAL}
                )
                out = [dict(g.jdd)]
                out.append(g.sample_jds_from_jdd(13))
                return out

            case(tag + "/dispatch", run2)

    case("marginal/missing-key", lambda: JointDegreeMarginal({N.MOTIF_SIZES: [2]}))

    # call order of the marginal callbacks and the individual helpers
    for sampling in (False, True):
        log = []
        params = {
            N.MOTIF_SIZES: [2, 3],
            N.ARR_FP: [CountingFn(fa, "a", log), CountingFn(fb, "b", log)],
            N.LOW_HIGH_DEGREE_BOUND: [(0, 3), (1, 3)],
            N.USE_SAMPLING: sampling,
            N.N_SAMPLES: 9,
        }
        seed(11)
        case(f"marginal/callorder/{sampling}", lambda: JointDegreeMarginal(params).jdd)
        print(f"[marginal/callorder/{sampling}] log {log}")

    def helpers():
        seed(3)
        g = JointDegreeMarginal(
            {N.MOTIF_SIZES: [2, 3], N.ARR_FP: [fa, fi, fnp], N.LOW_HIGH_DEGREE_BOUND: [(0, 3), (1, 3), (0, 2)]}
        )
        out = {}
        out["all"] = g.generate_all_joint_degrees()
        out["prob"] = [
            g.evaluate_prob_of_joint_degree(jd)
            for jd in [(0, 1, 0), (2, 2, 1), [1, 1, 1], (5,), (), (2, 2)]
        ]
        g._n_samples = 6
        out["draw"] = g.draw_from_analytical_joint()
        out["draw2"] = g.draw_from_analytical_joint()
        g.create_jdd_by_sampling()
        out["sampled"] = dict(g.jdd)
        g.create_jdd_directly()
        out["direct"] = dict(g.jdd)
        g.normalise_jdd()
        out["renorm"] = dict(g.jdd)
        return out

    case("marginal/helpers", helpers)

    def helper_errors():
        g = JointDegreeMarginal(
            {N.MOTIF_SIZES: [2, 3], N.ARR_FP: [fa, fb], N.LOW_HIGH_DEGREE_BOUND: [(0, 3), (1, 3)]}
        )
        out = []
        for jd in [(1, 2, 3), None, 5, ("a", 1)]:
            try:
                out.append(g.evaluate_prob_of_joint_degree(jd))
            except Exception as e:  # noqa: BLE001
                out.append(f"{type(e).__name__}: {e}")
        g._n_samples = -3
        try:
            out.append(g.draw_from_analytical_joint())
        except Exception as e:  # noqa: BLE001
            out.append(f"{type(e).__name__}: {e}")
        g._n_samples = 2.5
        try:
            out.append(g.draw_from_analytical_joint())
        except Exception as e:  # noqa: BLE001
            out.append(f"{type(e).__name__}: {e}")
        g._n_samples = 4
        g._low_high_degree_bounds = []
        try:
            out.append(g.draw_from_analytical_joint())
        except Exception as e:  # noqa: BLE001
            out.append(f"{type(e).__name__}: {e}")
        try:
            out.append(g.generate_all_joint_degrees())
            g.create_jdd_directly()
            out.append(dict(g.jdd))
        except Exception as e:  # noqa: BLE001
            out.append(f"{type(e).__name__}: {e}")
        return out

    seed(13)
    case("marginal/helper-errors", helper_errors)


# --------------------------------------------------------------------------
# function loader
# --------------------------------------------------------------------------
def function_cases():
    def joint(jd):
        return (jd[0] + 1) * (jd[-1] + 2) / 100.0

    def jint(jd):
        return sum(jd)

    def jraise(jd):
        if jd == (1, 2):
            raise ZeroDivisionError("bad point")
        return 1.0

    configs = {
        "2d": (joint, [(0, 3), (1, 2)]),
        "3d": (joint, [(0, 2), (1, 2), (3, 4)]),
        "1d": (joint, [(2, 5)]),
        "ints": (jint, [(0, 2), (0, 2)]),
        "empty-dim": (joint, [(3, 2), (0, 2)]),
        "no-dims": (lambda jd: 1.0, []),
        "tuple-bounds": (joint, ((0, 1), (0, 1))),
        "np-bounds": (joint, np.array([[0, 1], [0, 2]])),
        "bad-pair": (joint, [(0, 1, 2)]),
        "flat-pair": (joint, (0, 5)),
        "none": (joint, None),
        "raises": (jraise, [(0, 2), (1, 3)]),
        "not-callable": (None, [(0, 1)]),
        "float-bounds": (joint, [(0.0, 2.0)]),
    }
    for name, (fp, b) in configs.items():
        log = []

        def logged(jd, fp=fp, log=log):
            log.append(jd)
            return fp(jd)

        use = logged if callable(fp) else fp
        params = {N.MOTIF_SIZES: [2, 3], N.FP: use, N.LOW_HIGH_DEGREE_BOUND: b}
        seed(17)

        def run(params=params):
            g = JointDegreeFunction(dict(params))
            out = [dict(g.jdd)]
            g.create_jdd()
            out.append(dict(g.jdd))
            return out

        case(f"function/direct/{name}", run)
        print(f"[function/direct/{name}] calls {big(log)}")
        del log[:]
        seed(17)

        def run2(params=params):
            g = JointDegreeDistribution.load_joint_degree(
                {**params, N.JOINT_DEGREE_TYPE: JointDegreeType.JOINT_FUNCTION}
            )
            return [dict(g.jdd), g.sample_jds_from_jdd(9)]

        case(f"function/dispatch/{name}", run2)
        print(f"[function/dispatch/{name}] calls {big(log)}")
    case("function/missing-key", lambda: JointDegreeFunction({N.MOTIF_SIZES: [2]}))


# --------------------------------------------------------------------------
# handshaking_lemma / sample_jds_from_jdd / normalise_jdd via manual, split, delta
# --------------------------------------------------------------------------
def base_cases():
    jdds = {
        "A": ({(1, 0): 0.2, (2, 1): 0.5, (3, 0): 0.1, (5, 1): 0.2}, [2, 3]),
        "B": ({(1,): 1.0}, [2]),
        "C": ({(1, 1, 1): 0.5, (0, 2, 1): 0.25, (3, 0, 2): 0.25}, [2, 3, 4]),
        "D-unnormalised": ({(1, 2): 3, (2, 2): 1}, [3, 5]),
        "E-size1": ({(1, 2): 0.5, (0, 1): 0.5}, [1, 1]),
    }
    for name, (jdd, ms) in jdds.items():
        for n in (0, 1, 2, 17, 200):
            seed(100 + n)

            def run(jdd=jdd, ms=ms, n=n):
                given = dict(jdd)
                g = JointDegreeManual({N.JDD: given, N.MOTIF_SIZES: ms})
                a = g.sample_jds_from_jdd(n)
                b = g.sample_jds_from_jdd(n)
                return [a, b, dict(g.jdd), given]

            case(f"manual/{name}/N{n}", run)

    # handshaking_lemma called directly: mutates and returns its argument
    def hs():
        out = []
        g = JointDegreeManual({N.JDD: {(1, 1): 1.0}, N.MOTIF_SIZES: [2, 3]})
        for jds in (
            [(1, 1), (2, 1), (0, 2)],
            [(2, 3), (0, 0)],
            [(1, 0)],
            [[1, 1], [0, 1]],
            [],
            [(1, 1, 1), (1, 0, 0)],
            ((1, 1), (0, 1)),
        ):
            orig = copy.deepcopy(jds)
            try:
                r = g.handshaking_lemma(jds)
                out.append((orig, r, r is jds, jds))
            except Exception as e:  # noqa: BLE001
                out.append((orig, f"{type(e).__name__}: {e}", jds))
            out.append(rng_state())
        g.motif_sizes = [2, 0]
        try:
            out.append(g.handshaking_lemma([(1, 1)]))
        except Exception as e:  # noqa: BLE001
            out.append(f"{type(e).__name__}: {e}")
        g.motif_sizes = [4]
        try:
            out.append(g.handshaking_lemma([(1, 1), (2, 2)]))
        except Exception as e:  # noqa: BLE001
            out.append(f"{type(e).__name__}: {e}")
        return out

    seed(23)
    case("handshaking/direct", hs)

    # normalise_jdd through split-degree and delta loaders
    fp = lambda k: 1.0 / (k + 1) ** 2
    for name, cls, extra, t in (
        ("split", JointDegreeSplitDegree, {}, JointDegreeType.SPLIT_DEGREE),
        ("delta", JointDegreeDelta, {N.TARGET_K: 4}, JointDegreeType.DELTA),
    ):
        params = {
            N.FP: fp,
            N.PROBS: [0.6, 0.4],
            N.MOTIF_SIZES: [2, 3],
            N.LOW_HIGH_DEGREE_BOUND: (1, 8),
            **extra,
        }
        seed(29)
        case(f"{name}/direct", lambda: [cls(dict(params)).jdd, cls(dict(params)).sample_jds_from_jdd(20)])
        case(
            f"{name}/dispatch",
            lambda: JointDegreeDistribution.load_joint_degree({**params, N.JOINT_DEGREE_TYPE: t}).jdd,
        )
        zero = {**params, N.FP: (lambda k: 0.0)}
        case(f"{name}/zero-total", lambda: cls(dict(zero)).jdd)
        intp = {**params, N.FP: (lambda k: k)}
        case(f"{name}/int-fp", lambda: cls(dict(intp)).jdd)

    def norm_direct():
        out = []
        for jdd in ({(1,): 2, (2,): 6}, {(1,): 0.0}, {}, {(1,): 1e308, (2,): 1e308}, {(0,): -1.0, (1,): 3.0}):
            g = JointDegreeManual({N.JDD: dict(jdd), N.MOTIF_SIZES: [2]})
            try:
                g.normalise_jdd()
                out.append(dict(g.jdd))
            except Exception as e:  # noqa: BLE001
                out.append((f"{type(e).__name__}: {e}", dict(g.jdd)))
        return out

    case("normalise/direct", norm_direct)


if __name__ == "__main__":
    empirical_cases()
    cover_cases()
    marginal_cases()
    function_cases()
    base_cases()
    print("final rng", rng_state())
