import sys, os; sys.path.insert(0, os.getcwd())
import hashlib
import random

import numpy as np

from gcmpy.gcm_algorithm.gcm_algorithm_fast import GCMAlgorithmFast
from gcmpy.gcm_algorithm.gcm_algorithm_factory import GCMAlgorithmFactory
from gcmpy.gcm_algorithm.gcm_algorithm_types import GCMAlgorithmTypes
from gcmpy.names.gcm_algorithm_names import GCMAlgorithmNames
from gcmpy.motif_generators.clique_motif import clique_motif
from gcmpy.motif_generators.cycle_motif import cycle_motif
from gcmpy.motif_generators.diamond_motif import diamond_motif


def h(x):
    return hashlib.sha256(repr(x).encode()).hexdigest()[:16]


def rng_digest():
    return h((random.getstate(), np.random.get_state()[1].tolist(), np.random.get_state()[2]))


CALLS = []


def bare_edge(vs):
    CALLS.append(("bare", tuple(vs)))
    return (vs[0], vs[1])


def two_edges(vs):
    CALLS.append(("two", tuple(vs)))
    return [(vs[0], vs[1]), (vs[1], vs[2])]


def empty(vs):
    CALLS.append(("empty", tuple(vs)))
    return []


def noisy(vs):
    CALLS.append(("noisy", tuple(vs), random.random()))
    random.shuffle(vs)
    return list(zip(vs, vs[1:]))


def gen_edges(vs):
    CALLS.append(("gen", tuple(vs)))
    return ((a, b) for a, b in zip(vs, vs[1:]))


class Boom(Exception):
    pass


def make_raiser(after):
    state = {"n": 0}

    def raiser(vs):
        state["n"] += 1
        CALLS.append(("raiser", state["n"], tuple(vs)))
        if state["n"] > after:
            raise Boom(state["n"])
        return clique_motif(vs)

    return raiser


def not_iterable(vs):
    CALLS.append(("notiter", tuple(vs)))
    return 7


def strict_tri(vs):
    CALLS.append(("strict", tuple(vs)))
    return [(vs[0], vs[1]), (vs[1], vs[2]), (vs[0], vs[2])]


def make_jds(n, widths, seed, mult):
    r = random.Random(seed)
    jds = []
    for _ in range(n):
        jds.append(tuple(r.randrange(0, w + 1) for w in widths))
    if mult:
        # make column sums multiples of the motif size
        cols = [sum(j[i] for j in jds) for i in range(len(widths))]
        last = list(jds[-1])
        for i, m in enumerate(mult):
            last[i] += (-cols[i]) % m
        jds[-1] = tuple(last)
    return jds


def run(label, params, jds, via_factory=False, repeat_calls=1):
    del CALLS[:]
    out = [label]
    try:
        if via_factory:
            alg = GCMAlgorithmFactory.resolve_algorithm(GCMAlgorithmTypes.FAST, params)
        else:
            alg = GCMAlgorithmFast(params)
    except BaseException as e:
        out.append(("ctor", type(e).__name__))
        print(out, rng_digest())
        return
    for c in range(repeat_calls):
        try:
            g = alg.random_clustered_graph(jds)
            out.append(
                (
                    "ok",
                    len(g.edge_list),
                    len(g.topologies),
                    len(g.motif_id),
                    h(g.edge_list),
                    h(g.topologies),
                    h(g.motif_id),
                    g.joint_degrees is jds,
                    h(g.joint_degrees),
                    g.motif_id[:6],
                    g.motif_id[-3:],
                    [type(x).__name__ for x in g.motif_id[:2]],
                )
            )
        except BaseException as e:
            out.append(("exc", type(e).__name__, h(str(e))))
        out.append(("state", h(alg.__dict__.get("_motif_sizes")), h(alg.__dict__.get("_edge_names")), len(alg.__dict__)))
        out.append(("calls", len(CALLS), h(CALLS)))
        out.append(("rng", rng_digest()))
    print(out)


def P(sizes, names, builds):
    return {
        GCMAlgorithmNames.MOTIF_SIZES: sizes,
        GCMAlgorithmNames.EDGE_NAMES: names,
        GCMAlgorithmNames.BUILD_FUNCTIONS: builds,
    }


random.seed(20261004)
np.random.seed(20261004)

# valid inputs
run("single", P([2], ["2-clique"], [clique_motif]), make_jds(60, [4], 1, [2]))
run("two", P([2, 3], ["2-clique", "3-clique"], [clique_motif, clique_motif]), make_jds(90, [3, 2], 2, [2, 3]), via_factory=True)
run("three", P([2, 3, 4], ["a", "b", "c"], [clique_motif, cycle_motif, diamond_motif]), make_jds(80, [3, 2, 2], 3, [2, 3, 4]), repeat_calls=3)
run("bare", P([2, 3], ["e", "t"], [bare_edge, strict_tri]), make_jds(40, [3, 2], 4, [2, 3]), repeat_calls=2)
run("two_edges", P([3], ["w"], [two_edges]), make_jds(40, [2], 5, [3]))
run("empty_build", P([2, 3], ["e", "t"], [empty, clique_motif]), make_jds(40, [3, 2], 6, [2, 3]))
run("noisy", P([4, 2], ["n", "e"], [noisy, clique_motif]), make_jds(50, [2, 3], 7, [4, 2]), repeat_calls=3)
run("size1", P([1], ["loop"], [clique_motif]), make_jds(10, [2], 8, None))
run("names_objs", P([2, 2], [("tuple", 1), None], [clique_motif, clique_motif]), make_jds(30, [2, 2], 9, [2, 2]))

# remainders: the last group is short
run("short_tail_clique", P([3], ["t"], [clique_motif]), [(1,), (1,), (1,), (1,)])
run("short_tail_strict", P([3], ["t"], [strict_tri]), [(1,), (1,), (1,), (1,)])
run("short_tail_two", P([2, 3], ["e", "t"], [clique_motif, strict_tri]), make_jds(31, [3, 2], 10, None), repeat_calls=2)

# empty / degenerate
run("empty_jds", P([2], ["e"], [clique_motif]), [])
run("all_zero", P([2, 3], ["e", "t"], [clique_motif, clique_motif]), [(0, 0)] * 5)
run("ragged", P([2, 3], ["e", "t"], [clique_motif, clique_motif]), [(2, 3), (2,), (2, 3)])
run("more_params_than_cols", P([2, 3, 4], ["e", "t", "q"], [clique_motif] * 3), make_jds(20, [2], 11, [2]))

# error paths
run("raiser0", P([2], ["e"], [make_raiser(0)]), make_jds(20, [2], 12, [2]), repeat_calls=2)
run("raiser5", P([2, 3], ["e", "t"], [clique_motif, make_raiser(5)]), make_jds(40, [2, 2], 13, [2, 3]), repeat_calls=2)
run("gen_edges", P([3], ["g"], [gen_edges]), make_jds(20, [2], 14, [3]))
run("not_iterable", P([2], ["g"], [not_iterable]), make_jds(20, [2], 15, [2]))
run("names_short", P([2, 3], ["e"], [clique_motif, clique_motif]), make_jds(20, [2, 2], 16, [2, 3]))
run("builds_short", P([2, 3], ["e", "t"], [clique_motif]), make_jds(20, [2, 2], 17, [2, 3]))
run("sizes_short", P([2], ["e", "t"], [clique_motif, clique_motif]), make_jds(20, [2, 2], 18, [2, 3]))
run("size_zero", P([0], ["e"], [clique_motif]), make_jds(5, [2], 19, None))
run("size_neg", P([-2], ["e"], [clique_motif]), make_jds(5, [2], 20, None))
run("size_float", P([2.0], ["e"], [clique_motif]), make_jds(5, [2], 21, None))
run("size_none", P([None], ["e"], [clique_motif]), make_jds(5, [2], 22, None))
run("neg_degree", P([2], ["e"], [clique_motif]), [(-1,), (2,), (2,)])
run("float_degree", P([2], ["e"], [clique_motif]), [(1.5,), (2,)])
run("jds_none", P([2], ["e"], [clique_motif]), None)
run("jds_ints", P([2], ["e"], [clique_motif]), [1, 2, 3])
run("build_not_callable", P([2], ["e"], [None]), make_jds(6, [2], 23, [2]))
run("missing_key", {GCMAlgorithmNames.MOTIF_SIZES: [2]}, make_jds(6, [2], 24, [2]))
run("numpy_jds", P([2, 3], ["e", "t"], [clique_motif, clique_motif]), np.array(make_jds(30, [2, 2], 25, [2, 3])))

# many random configurations
r = random.Random(99)
for t in range(60):
    ntop = r.randrange(1, 4)
    sizes = [r.randrange(1, 5) for _ in range(ntop)]
    builds = [r.choice([clique_motif, cycle_motif, bare_edge, two_edges, empty, noisy, gen_edges, make_raiser(r.randrange(0, 8))]) for _ in range(ntop)]
    names = ["n%d" % i for i in range(ntop)]
    jds = make_jds(r.randrange(0, 40), [r.randrange(0, 4) for _ in range(ntop)], 1000 + t, sizes if r.random() < 0.6 else None)
    run("rand%d" % t, P(sizes, names, builds), jds, repeat_calls=r.randrange(1, 3))

print("final", rng_digest())
