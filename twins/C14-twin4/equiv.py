"""
Behavioural digest for the degree-distribution algebra tools (property C14).

Run with cwd = a checkout of gcmpy. Prints a deterministic, bit-exact digest
of results, exceptions, mutated inputs, emitted log records (WARNING and
above) and RNG states. The output must be identical before / after the
refactoring, with and without -O.
"""
import copy
import hashlib
import io
import logging
import os
import random
import sys
from fractions import Fraction

# Sets of strings are ordered by the per-process string hash: pin it, so that
# two runs of this script are comparable (the -O flag is carried over).
if os.environ.get("PYTHONHASHSEED") != "0":
    _env = dict(os.environ, PYTHONHASHSEED="0")
    _flags = ["-O"] * sys.flags.optimize
    os.execve(sys.executable, [sys.executable] + _flags + sys.argv, _env)

sys.path.insert(0, os.getcwd())

import numpy as np
import networkx as nx

from gcmpy.tools.average_joint_degree_from_jdd import AverageJointDegreeFromJDD
from gcmpy.tools.joint_excess_from_jdd import JointExcessfromJDD
from gcmpy.tools.joint_degree_from_excess import JointDegreeFromExcess
from gcmpy.tools.joint_excess_from_ejk import JointExcessFromEjk
from gcmpy.tools.joint_degree_distribution_from_network import (
    JointDegreeDistributionFromNetwork,
)
from gcmpy.tools.joint_excess_joint_degree_matrices import (
    JointExcessJointDegreeMatrices,
)
from gcmpy.names.tools_names import ToolsNames
from gcmpy.names.network_names import NetworkNames


# ---------------------------------------------------------------- utilities
class _Recorder(logging.Handler):
    """Records everything at WARNING and above that reaches the root logger."""

    def __init__(self):
        super().__init__(level=logging.WARNING)
        self.records = []

    def emit(self, record):
        self.records.append((record.name, record.levelname, record.getMessage()))


RECORDER = _Recorder()
logging.getLogger().addHandler(RECORDER)


def canon(x):
    """Order-preserving, type-revealing, bit-exact representation."""
    if isinstance(x, dict):
        return (
            type(x).__name__
            + "{"
            + ", ".join(canon(k) + ": " + canon(v) for k, v in x.items())
            + "}"
        )
    if isinstance(x, list):
        return "[" + ", ".join(canon(v) for v in x) + "]"
    if isinstance(x, tuple):
        return "(" + ", ".join(canon(v) for v in x) + ",)"
    if isinstance(x, float):
        return "float:" + repr(x) + ":" + x.hex()
    if isinstance(x, np.generic):
        return type(x).__name__ + ":" + repr(x.item())
    if isinstance(x, (ToolsNames, NetworkNames)):
        return str(x)
    return type(x).__name__ + ":" + repr(x)


def rng_state():
    h = hashlib.sha256()
    h.update(repr(random.getstate()).encode())
    st = np.random.get_state()
    h.update(repr((st[0], st[1].tobytes(), st[2], st[3], st[4])).encode())
    return h.hexdigest()[:16]


COUNTER = [0]


def call(label, fn, *args, inputs=None):
    """Call fn, print result / exception, the inputs afterwards and the RNG."""
    COUNTER[0] += 1
    try:
        res = fn(*args)
        out = "OK  " + canon(res)
    except BaseException as e:  # noqa
        res = None
        out = "EXC " + type(e).__name__ + ": " + str(e)
    print("#%03d %s" % (COUNTER[0], label))
    print("     ->", out)
    if inputs is not None:
        print("     inputs after:", canon(inputs))
    print("     rng:", rng_state(), "log:", len(RECORDER.records))
    return res


def seed():
    random.seed(12345)
    np.random.seed(54321)


# ----------------------------------------------------------------- inputs
def random_jdd(rng, ntop, nkeys, maxdeg):
    keys = []
    nkeys = min(nkeys, (maxdeg + 1) ** ntop)
    while len(keys) < nkeys:
        k = tuple(rng.randint(0, maxdeg) for _ in range(ntop))
        if k not in keys:
            keys.append(k)
    w = [rng.random() for _ in keys]
    s = sum(w)
    return {k: x / s for k, x in zip(keys, w)}


def jdd_cases():
    rng = random.Random(99)
    nprng = np.random.RandomState(7)
    cases = [
        ("two-topologies", {(1, 2): 0.2, (2, 0): 0.5, (3, 1): 0.1, (5, 1): 0.2}),
        ("thirds", {(5, 1): 1 / 3, (3, 2): 1 / 3, (1, 3): 1 / 3}),
        ("one-topology", {(0,): 0.1, (1,): 0.3, (2,): 0.25, (7,): 0.35}),
        ("three-topologies", {(1, 1, 1): 0.5, (2, 0, 3): 0.25, (0, 4, 0): 0.25}),
        ("single-key", {(3, 2): 1.0}),
        ("with-zero-degree-vertex", {(0, 0): 0.4, (1, 1): 0.6}),
        ("topology-without-edges", {(1, 0): 0.5, (2, 0): 0.5}),
        ("zero-mass-on-positive", {(1, 0): 0.0, (0, 0): 1.0}),
        ("integer-masses", {(1, 2): 1, (2, 1): 3}),
        ("unnormalised", {(1, 2): 2.0, (2, 1): 3.5, (4, 4): 0.125}),
        ("fraction-masses", {(1, 2): Fraction(1, 3), (2, 5): Fraction(2, 3)}),
        ("float-degrees", {(0.5, 2.0): 0.5, (1.5, 1.0): 0.5}),
        ("negative-degrees", {(-1, 2): 0.5, (3, -2): 0.5}),
        ("bool-degrees", {(True, False): 0.5, (False, True): 0.5}),
        (
            "numpy-degrees",
            {
                (np.int64(1), np.int64(2)): np.float64(0.25),
                (np.int64(3), np.int64(0)): np.float64(0.75),
            },
        ),
        ("list-like-keys-as-str", {"ab": 0.5, "cd": 0.5}),
        ("ragged-keys", {(1, 2): 0.5, (3,): 0.5}),
        ("ragged-keys-long-first", {(1,): 0.5, (3, 4): 0.5}),
        ("empty", {}),
        ("nan-mass", {(1, 1): float("nan"), (2, 1): 0.5}),
        ("inf-mass", {(1, 1): float("inf"), (2, 1): 0.5}),
        ("tiny-masses", {(1, 1): 5e-324, (2, 3): 1e-310}),
        ("huge-degrees", {(10**30, 1): 0.5, (1, 10**30): 0.5}),
    ]
    for n in range(6):
        cases.append(
            (
                "random-%d" % n,
                random_jdd(rng, 1 + n % 4, 3 + 5 * n, 2 + 3 * n),
            )
        )
    # numpy generated
    ks = nprng.randint(0, 6, size=(12, 3))
    ps = nprng.dirichlet(np.ones(12))
    cases.append(
        ("numpy-random", {tuple(int(v) for v in k): float(p) for k, p in zip(ks, ps)})
    )
    return cases


def small_network(n, seed_value, directed=False):
    rng = random.Random(seed_value)
    G = nx.DiGraph() if directed else nx.Graph()
    for v in range(n):
        jd = (rng.randint(0, 3), rng.randint(0, 2))
        G.add_node(v, **{})
        G.nodes[v][NetworkNames.JOINT_DEGREE] = jd if v % 3 else list(jd)
    for _ in range(2 * n):
        a, b = rng.randrange(n), rng.randrange(n)
        G.add_edge(a, b)
    return G


def graph_digest(G):
    return canon(
        [(n, dict(G.nodes[n])) for n in G.nodes()]
    ) + canon(sorted(map(repr, G.edges(data=True))))


# ------------------------------------------------------------------ sections
def section_average_and_excess():
    print("== average joint degree / excess from jdd")
    for name, jdd in jdd_cases():
        original = copy.deepcopy(jdd)
        for rep in range(2):
            call(
                "average[%s] rep%d" % (name, rep),
                AverageJointDegreeFromJDD.get_average_joint_degrees,
                jdd,
                inputs=jdd,
            )
            qks = call(
                "excess[%s] rep%d" % (name, rep),
                JointExcessfromJDD.get_joint_excess_distributions,
                jdd,
                inputs=jdd,
            )
        print("     input unchanged:", canon(jdd) == canon(original))
        if qks is not None:
            for q in qks:
                print("     sum:", canon(sum(q.values())))
    # non-dict inputs
    call("average[list]", AverageJointDegreeFromJDD.get_average_joint_degrees, [(1, 2)])
    call("excess[list]", JointExcessfromJDD.get_joint_excess_distributions, [(1, 2)])
    call("average[None]", AverageJointDegreeFromJDD.get_average_joint_degrees, None)
    call("excess[None]", JointExcessfromJDD.get_joint_excess_distributions, None)


def section_converters():
    print("== list <-> dict converters")
    qa, qb, qc = {(0, 1): 0.5}, {(1, 0): 0.25}, {}
    lst = [qa, qb, qc]
    for keys in (
        ["a", "b", "c"],
        ["a", "b"],
        ["a", "b", "c", "d"],
        [],
        ["a", "a", "b"],
        ("x", "y", "z"),
    ):
        d = call(
            "list->dict keys=%r" % (keys,),
            JointExcessfromJDD.convert_list_qks_to_dict,
            lst,
            keys,
            inputs=(lst, keys),
        )
        if d is not None:
            print("     identity:", [d[k] is v for k, v in zip(keys, lst)])
    call(
        "list->dict iterator keys",
        JointExcessfromJDD.convert_list_qks_to_dict,
        lst,
        iter(["p", "q", "r"]),
    )
    call("list->dict keys=None", JointExcessfromJDD.convert_list_qks_to_dict, lst, None)
    call(
        "list->dict unhashable key",
        JointExcessfromJDD.convert_list_qks_to_dict,
        lst,
        [["u"], "v"],
    )
    dct = {"a": qa, "b": qb, "c": qc}
    for keys in (["a", "b", "c"], ["c", "a"], [], ["a", "a"], ["a", "zz"], ("b",)):
        r = call(
            "dict->list keys=%r" % (keys,),
            JointExcessfromJDD.convert_dict_qks_to_list,
            dct,
            keys,
            inputs=(dct, keys),
        )
        if r is not None:
            print("     identity:", [v is dct[k] for k, v in zip(keys, r)])
    call(
        "dict->list iterator keys",
        JointExcessfromJDD.convert_dict_qks_to_list,
        dct,
        iter(["b", "c"]),
    )
    call("dict->list keys=None", JointExcessfromJDD.convert_dict_qks_to_list, dct, None)


def section_inversion():
    print("== inversion of excess distributions")
    # single inversions
    singles = [
        ("simple", {(0, 2): 0.3, (1, 0): 0.7}, 0),
        ("simple-i1", {(0, 2): 0.3, (1, 0): 0.7}, 1),
        ("negative-index", {(0, 2): 0.3, (1, 0): 0.7}, -1),
        ("index-out-of-range", {(0, 2): 0.3, (1, 0): 0.7}, 2),
        ("empty", {}, 0),
        ("zero-masses", {(0, 2): 0.0, (1, 0): 0.0}, 0),
        ("int-masses", {(0, 2): 1, (1, 0): 3}, 0),
        ("minus-one-excess", {(-1, 2): 0.5, (1, 0): 0.5}, 0),
        ("colliding", {(0.0, 1): 0.5, (0, 1): 0.5}, 0),
        ("str-index", {(0, 2): 0.3}, "a"),
        ("not-a-dict", [(0, 2)], 0),
        ("nan", {(0, 2): float("nan"), (1, 1): 0.5}, 0),
    ]
    for name, qk, i in singles:
        for rep in range(2):
            call(
                "invert_single[%s] rep%d" % (name, rep),
                JointDegreeFromExcess.invert_single,
                qk,
                i,
                inputs=qk,
            )

    # round trips
    for name, jdd in jdd_cases():
        try:
            qks_list = JointExcessfromJDD.get_joint_excess_distributions(jdd)
        except BaseException:
            continue
        ntop = len(qks_list)
        names = ["t%d" % i for i in range(ntop)]
        qks = JointExcessfromJDD.convert_list_qks_to_dict(qks_list, names)
        for rep in range(2):
            call(
                "observations[%s] rep%d" % (name, rep),
                JointDegreeFromExcess.observations_from_dict,
                qks,
                names,
                inputs=(qks, names),
            )
            call(
                "jdd_from_excess[%s] rep%d" % (name, rep),
                JointDegreeFromExcess.get_joint_degree_distribution,
                qks,
                names,
                inputs=(qks, names),
            )
        # permuted dict insertion order
        rqks = {k: qks[k] for k in reversed(list(qks))}
        call(
            "jdd_from_excess[%s] reversed-dict" % name,
            JointDegreeFromExcess.get_joint_degree_distribution,
            rqks,
            names,
            inputs=(rqks, names),
        )

    qks = {
        "a": {(0, 2): 0.2, (1, 1): 0.8},
        "b": {(1, 1): 0.4, (2, 0): 0.6},
        "c": {(5, 5): 1.0},
    }
    variants = [
        ("two", ["a", "b"]),
        ("swapped", ["b", "a"]),
        ("no-common", ["a", "c"]),
        ("three-no-common", ["a", "b", "c"]),
        ("empty-keys", []),
        ("missing-key", ["a", "zz"]),
        ("duplicates", ["a", "a"]),
        ("dup-then-other", ["a", "a", "b"]),
        ("single", ["a"]),
        ("tuple-keys", ("a", "b")),
    ]
    for name, keys in variants:
        for rep in range(2):
            call(
                "observations/%s rep%d" % (name, rep),
                JointDegreeFromExcess.observations_from_dict,
                qks,
                keys,
                inputs=(qks, keys),
            )
            call(
                "jdd_from_excess/%s rep%d" % (name, rep),
                JointDegreeFromExcess.get_joint_degree_distribution,
                qks,
                keys,
                inputs=(qks, keys),
            )
    call(
        "jdd_from_excess/iterator-keys",
        JointDegreeFromExcess.get_joint_degree_distribution,
        qks,
        iter(["a", "b"]),
    )
    call(
        "jdd_from_excess/None-keys",
        JointDegreeFromExcess.get_joint_degree_distribution,
        qks,
        None,
    )
    call(
        "jdd_from_excess/zero-common",
        JointDegreeFromExcess.get_joint_degree_distribution,
        {"a": {(0, 1): 1.0, (1, 0): 0.0}, "b": {(1, 0): 0.0, (2, 2): 1.0}},
        ["a", "b"],
    )
    call(
        "jdd_from_excess/empty-observation",
        JointDegreeFromExcess.get_joint_degree_distribution,
        {"a": {}, "b": {(1, 0): 1.0}},
        ["a", "b"],
    )


def matrices_state(M):
    return canon(
        (M._ejks, M._excess_degree_keys, M._topology_names, sorted(vars(M).keys()))
    )


def section_matrices():
    print("== matrices container / excess from ejk")
    ejk_tree = {
        (0, 3, 0, 3): 1 / 81,
        (0, 3, 4, 1): 5 / 81,
        (0, 3, 2, 2): 3 / 81,
        (4, 1, 0, 3): 5 / 81,
        (4, 1, 4, 1): 25 / 81,
        (4, 1, 2, 2): 15 / 81,
        (2, 2, 0, 3): 3 / 81,
        (2, 2, 4, 1): 15 / 81,
        (2, 2, 2, 2): 9 / 81,
    }
    ejk_triangle = {
        (3, 1, 3, 1): 16 / 144,
        (3, 1, 1, 2): 24 / 144,
        (3, 1, 5, 0): 8 / 144,
        (1, 2, 3, 1): 24 / 144,
        (1, 2, 1, 2): 36 / 144,
        (1, 2, 5, 0): 12 / 144,
        (5, 0, 3, 1): 8 / 144,
        (5, 0, 1, 2): 12 / 144,
        (5, 0, 5, 0): 4 / 144,
    }
    names = ["2-clique", "3-clique"]

    M0 = JointExcessJointDegreeMatrices()
    print("     default state:", matrices_state(M0))
    call("excess_from_ejk[default]", JointExcessFromEjk.get_excess_joint_distributions, M0)
    call("topology_index[default, empty names]", M0.get_topology_index, "2-clique")
    call("excess_keys[default]", M0.get_excess_degree_keys)
    print("     state:", matrices_state(M0))

    params = {
        ToolsNames.EJKS: {"2-clique": ejk_tree, "3-clique": ejk_triangle},
        ToolsNames.EDGE_NAMES: names,
    }
    M = JointExcessJointDegreeMatrices(params)
    print("     state:", matrices_state(M))
    print("     shares params:", M.ejks is params[ToolsNames.EJKS], M.topology_names is names)
    for rep in range(3):
        qks = call(
            "excess_from_ejk[theory] rep%d" % rep,
            JointExcessFromEjk.get_excess_joint_distributions,
            M,
        )
        print("     state:", matrices_state(M))
    call(
        "jdd_from_excess[theory]",
        JointDegreeFromExcess.get_joint_degree_distribution,
        qks,
        names,
        inputs=(qks, names),
    )
    for t in ("2-clique", "3-clique", "4-clique", None, 0):
        call("topology_index[%r]" % (t,), M.get_topology_index, t)
    for rep in range(2):
        call("excess_keys rep%d" % rep, M.get_excess_degree_keys)
        print("     state:", matrices_state(M))

    # properties / setters
    print("     props:", canon((M.ejks, M.excess_degree_keys, M.topology_names)))
    M.topology_names = ["x", "2-clique", "2-clique"]
    call("topology_index after setter", M.get_topology_index, "2-clique")
    call("topology_index after setter (missing)", M.get_topology_index, "nope")
    M.excess_degree_keys = {"2-clique": [(0, 3), (4, 1)]}
    call(
        "excess_from_ejk[length mismatch]",
        JointExcessFromEjk.get_excess_joint_distributions,
        M,
    )
    M.excess_degree_keys = {"2-clique": [(0, 3), (4, 1)], "3-clique": [(9, 9), (1, 2)]}
    call(
        "excess_from_ejk[user keys]",
        JointExcessFromEjk.get_excess_joint_distributions,
        M,
    )
    M.excess_degree_keys = {"2-clique": [(0, 3), (4, 1)], "other": []}
    call(
        "excess_from_ejk[wrong key names]",
        JointExcessFromEjk.get_excess_joint_distributions,
        M,
    )
    M.excess_degree_keys = {"2-clique": [[0, 3]], "3-clique": []}
    call(
        "excess_from_ejk[list keys]",
        JointExcessFromEjk.get_excess_joint_distributions,
        M,
    )
    M.ejks = {"only": {(1, 2, 3): 0.5, (1,): 0.25, (): 0.25, (4, 4, 4, 4, 4): 1}}
    call(
        "excess_from_ejk[stale keys]",
        JointExcessFromEjk.get_excess_joint_distributions,
        M,
    )
    call("excess_keys[odd lengths]", M.get_excess_degree_keys)
    print("     state:", matrices_state(M))
    call(
        "excess_from_ejk[odd lengths]",
        JointExcessFromEjk.get_excess_joint_distributions,
        M,
    )
    M.ejks = {"s": {"abcd": 0.5, "ab": 0.5}, "i": {(1, 1): 2, (1, 2): 3, (2, 1): 3}}
    call("excess_keys[str and int]", M.get_excess_degree_keys)
    print("     state:", matrices_state(M))
    call(
        "excess_from_ejk[str and int]",
        JointExcessFromEjk.get_excess_joint_distributions,
        M,
    )
    M.ejks = {"bad": {5: 0.5}}
    call("excess_keys[non-iterable entry]", M.get_excess_degree_keys)
    print("     state:", matrices_state(M))
    M.ejks = None
    call("excess_keys[None]", M.get_excess_degree_keys)
    print("     state:", matrices_state(M))
    call("excess_from_ejk[None]", JointExcessFromEjk.get_excess_joint_distributions, M)
    call("excess_from_ejk[not a container]", JointExcessFromEjk.get_excess_joint_distributions, object())

    # constructor error paths
    call("ctor[missing names]", JointExcessJointDegreeMatrices, {ToolsNames.EJKS: {}})
    call("ctor[missing ejks]", JointExcessJointDegreeMatrices, {ToolsNames.EDGE_NAMES: []})
    call("ctor[empty params]", JointExcessJointDegreeMatrices, {})
    M2 = call(
        "ctor[empty ejks]",
        lambda: matrices_state(
            JointExcessJointDegreeMatrices(
                {ToolsNames.EJKS: {}, ToolsNames.EDGE_NAMES: ["a"]}
            )
        ),
    )
    # many topologies / hash-order sensitive sets of keys
    rng = random.Random(2024)
    big = {}
    for t in range(4):
        e = {}
        for _ in range(40):
            k = tuple(rng.randint(0, 9) for _ in range(2 * (t + 1)))
            e[k] = rng.random()
        big["top%d" % t] = e
    MB = JointExcessJointDegreeMatrices(
        {ToolsNames.EJKS: big, ToolsNames.EDGE_NAMES: list(big)}
    )
    print("     state:", hashlib.sha256(matrices_state(MB).encode()).hexdigest())
    for rep in range(2):
        call("excess_from_ejk[big] rep%d" % rep, JointExcessFromEjk.get_excess_joint_distributions, MB)
    print("     class attrs:", sorted(
        k for k in vars(JointExcessJointDegreeMatrices) if not k.startswith("_")
    ))


def section_network():
    print("== joint degree distribution from network")
    graphs = [
        ("empty", nx.Graph()),
        ("small", small_network(7, 1)),
        ("medium", small_network(200, 2)),
        ("directed", small_network(30, 3, directed=True)),
        ("multigraph", nx.MultiGraph(small_network(15, 4))),
    ]
    for name, G in graphs:
        before = graph_digest(G)
        for rep in range(2):
            call(
                "jdd_from_network[%s] rep%d" % (name, rep),
                JointDegreeDistributionFromNetwork.get_joint_degree_distribution,
                G,
            )
        print("     graph unchanged:", graph_digest(G) == before)
    G = small_network(5, 5)
    del G.nodes[3][NetworkNames.JOINT_DEGREE]
    call(
        "jdd_from_network[missing attribute]",
        JointDegreeDistributionFromNetwork.get_joint_degree_distribution,
        G,
    )
    G = nx.Graph()
    G.add_node(0)
    G.nodes[0][NetworkNames.JOINT_DEGREE] = 5
    call(
        "jdd_from_network[non-iterable attribute]",
        JointDegreeDistributionFromNetwork.get_joint_degree_distribution,
        G,
    )
    G.nodes[0][NetworkNames.JOINT_DEGREE] = [[1], 2]
    call(
        "jdd_from_network[unhashable attribute]",
        JointDegreeDistributionFromNetwork.get_joint_degree_distribution,
        G,
    )
    G.nodes[0]["joint_degree"] = (1, 2)
    del G.nodes[0][NetworkNames.JOINT_DEGREE]
    call(
        "jdd_from_network[string-keyed attribute]",
        JointDegreeDistributionFromNetwork.get_joint_degree_distribution,
        G,
    )
    call(
        "jdd_from_network[None]",
        JointDegreeDistributionFromNetwork.get_joint_degree_distribution,
        None,
    )
    view = nx.subgraph_view(small_network(12, 6), filter_node=lambda n: n % 2 == 0)
    call(
        "jdd_from_network[subgraph view]",
        JointDegreeDistributionFromNetwork.get_joint_degree_distribution,
        view,
    )
    view = nx.subgraph_view(small_network(12, 6), filter_node=lambda n: False)
    call(
        "jdd_from_network[empty view]",
        JointDegreeDistributionFromNetwork.get_joint_degree_distribution,
        view,
    )


def section_pipeline():
    print("== library pipeline: generated network -> matrices -> distributions")
    from gcmpy.tools.joint_excess_joint_degree import JointExcessJointDegree
    from gcmpy.joint_degree.joint_degree_loaders.joint_degree_manual import (
        JointDegreeManual,
    )
    from gcmpy.motif_generators.clique_motif import clique_motif
    from gcmpy.gcm_algorithm.gcm_algorithm_network import GCMAlgorithmNetwork
    from gcmpy.names.gcm_algorithm_names import GCMAlgorithmNames
    from gcmpy.names.joint_degree_names import JointDegreeNames

    seed()
    jdd = {(5, 1): 1 / 3, (3, 2): 1 / 3, (1, 3): 1 / 3}
    params = {JointDegreeNames.JDD: jdd, JointDegreeNames.MOTIF_SIZES: [2, 3]}
    jds = JointDegreeManual(params).sample_jds_from_jdd(1500)
    print("     rng after sampling:", rng_state())
    names = ["2-clique", "3-clique"]
    params = {
        GCMAlgorithmNames.MOTIF_SIZES: [2, 3],
        GCMAlgorithmNames.EDGE_NAMES: names,
        GCMAlgorithmNames.BUILD_FUNCTIONS: [clique_motif, clique_motif],
    }
    g = GCMAlgorithmNetwork(params).random_clustered_graph(jds)
    print("     rng after building:", rng_state())
    G = g._G
    before = graph_digest(G)
    emp = call(
        "pipeline jdd_from_network",
        lambda: JointDegreeDistributionFromNetwork.get_joint_degree_distribution(G),
    )
    call(
        "pipeline averages",
        AverageJointDegreeFromJDD.get_average_joint_degrees,
        emp,
        inputs=emp,
    )
    qlist = call(
        "pipeline excess from empirical jdd",
        JointExcessfromJDD.get_joint_excess_distributions,
        emp,
        inputs=emp,
    )
    C = JointExcessJointDegree({ToolsNames.NETWORK: G, ToolsNames.EDGE_NAMES: names})
    M = C.get_ejks()
    print("     rng after get_ejks:", rng_state())
    print("     matrices:", hashlib.sha256(matrices_state(M).encode()).hexdigest())
    for rep in range(2):
        qks = call(
            "pipeline excess from ejk rep%d" % rep,
            JointExcessFromEjk.get_excess_joint_distributions,
            M,
        )
    print("     matrices:", hashlib.sha256(matrices_state(M).encode()).hexdigest())
    for t in names + ["missing"]:
        call("pipeline topology_index[%s]" % t, M.get_topology_index, t)
    qd = JointExcessfromJDD.convert_list_qks_to_dict(qlist, names)
    call(
        "pipeline invert excess-from-jdd",
        JointDegreeFromExcess.get_joint_degree_distribution,
        qd,
        names,
        inputs=(qd, names),
    )
    call(
        "pipeline invert excess-from-ejk",
        JointDegreeFromExcess.get_joint_degree_distribution,
        qks,
        names,
        inputs=(qks, names),
    )
    back = JointExcessfromJDD.convert_dict_qks_to_list(qks, names)
    print("     back:", canon(back))
    print("     graph unchanged:", graph_digest(G) == before)
    print("     rng at end:", rng_state())


def main():
    seed()
    print("rng at start:", rng_state())
    print("hash seed:", os.environ.get("PYTHONHASHSEED"))
    section_average_and_excess()
    section_converters()
    section_inversion()
    section_matrices()
    section_network()
    print("rng before pipeline:", rng_state())
    section_pipeline()

    # the same again with debug logging switched on for the package: results
    # (not the debug records themselves) must not depend on the log level, and
    # formatting the records must not raise.
    print("== everything again with DEBUG logging enabled")
    sink = []

    class _Sink(logging.Handler):
        def emit(self, record):
            sink.append(record.getMessage())

    pkg_logger = logging.getLogger("gcmpy")
    old_level = pkg_logger.level
    handler = _Sink(level=logging.DEBUG)
    pkg_logger.addHandler(handler)
    pkg_logger.setLevel(logging.DEBUG)
    try:
        seed()
        section_average_and_excess()
        section_converters()
        section_inversion()
        section_matrices()
        section_network()
        section_pipeline()
    finally:
        pkg_logger.setLevel(old_level)
        pkg_logger.removeHandler(handler)

    print("== log records at WARNING and above:", canon(RECORDER.records))
    print("rng at end:", rng_state())


if __name__ == "__main__":
    buf = io.StringIO()
    real_stdout = sys.stdout
    real_stderr = sys.stderr
    sys.stderr = buf  # anything written to stderr is part of the digest
    try:
        main()
    finally:
        sys.stderr = real_stderr
    print("== stderr:", repr(buf.getvalue()))
