import sys, os; sys.path.insert(0, os.getcwd())
import hashlib
import re
import random

import numpy as np

from gcmpy.motif_generators.clique_motif import clique_motif
from gcmpy.motif_generators.cycle_motif import cycle_motif
from gcmpy.motif_generators.diamond_motif import diamond_motif
from gcmpy.gcm_algorithm.gcm_algorithm_custom_motifs import GCMAlgorithmCustomMotifs
from gcmpy.gcm_algorithm.gcm_algorithm_main import GCMAlgorithmMain
from gcmpy.gcm_algorithm.gcm_algorithm_factory import GCMAlgorithmFactory
from gcmpy.gcm_algorithm.gcm_algorithm_types import GCMAlgorithmTypes
from gcmpy.names.gcm_algorithm_names import GCMAlgorithmNames as N

random.seed(777)
np.random.seed(777)

H = hashlib.sha256()
LINES = 0
EXC_COUNTS = {}


def emit(*parts):
    global LINES
    line = re.sub(r"0x[0-9a-fA-F]+", "0x?", " | ".join(str(p) for p in parts))
    if " | EXC | " in line or " | CTOR-EXC | " in line:
        key = line.split("EXC | ", 1)[1].split(" | ")[0]
        EXC_COUNTS[key] = EXC_COUNTS.get(key, 0) + 1
    H.update(line.encode() + b"\n")
    LINES += 1
    if LINES <= 300 or os.environ.get("EQUIV_FULL"):
        print(line)


def rng_state():
    return hashlib.sha256(repr(random.getstate()).encode()).hexdigest()[:16]


CALLS = []


def spy(inner, tag):
    def f(vs):
        CALLS.append((tag, type(vs).__name__, repr(vs)))
        return inner(vs)

    f.__name__ = tag
    return f


def names(*xs):
    def f():
        CALLS.append(("names", xs))
        return xs if len(xs) != 1 else xs[0]

    return f


def twoclique(vs):
    return (vs[0], vs[1])


def threeclique(vs):
    return (vs[0], vs[1]), (vs[0], vs[2]), (vs[1], vs[2])


def diamond(vs):
    return ((vs[0], vs[1]), (vs[1], vs[2]), (vs[2], vs[3]), (vs[3], vs[1]), (vs[0], vs[2]))


def pentagon(vs):
    return ((vs[0], vs[1]), (vs[1], vs[2]), (vs[2], vs[3]), (vs[3], vs[4]), (vs[0], vs[4]), (vs[1], vs[3]))


def P(sizes, builders, edge_names, indices):
    return {N.MOTIF_SIZES: sizes, N.BUILD_FUNCTIONS: builders, N.EDGE_NAMES: edge_names, N.MOTIF_INDICES: indices}


def construct(kind, p):
    if kind == "direct":
        return GCMAlgorithmCustomMotifs(p)
    if kind == "main":
        q = dict(p)
        q[N.GCM_TYPE] = "motifs"
        return GCMAlgorithmMain.load_gcm_algorithm(q)
    return GCMAlgorithmFactory.resolve_algorithm(GCMAlgorithmTypes.MOTIFS, p)


def dump(label, g):
    if g is None:
        return
    emit(label, "edges", g.edge_list)
    emit(label, "topologies", g.topologies)
    emit(label, "motif_id", g.motif_id)
    emit(label, "jds", g.joint_degrees, type(g.joint_degrees).__name__)


def run(label, p, jds, kinds=("direct", "main", "factory"), reps=2):
    snapshot = repr(jds)
    for kind in kinds:
        try:
            alg = construct(kind, p)
        except BaseException as e:
            emit(label, kind, "CTOR-EXC", type(e).__name__, str(e))
            continue
        for rep in range(reps):
            del CALLS[:]
            g = None
            try:
                g = alg.random_clustered_graph(jds)
                emit(label, kind, rep, "OK", type(g).__name__, "jds-identity", g.joint_degrees is jds)
            except BaseException as e:
                emit(label, kind, rep, "EXC", type(e).__name__, str(e))
            dump(f"{label}-{kind}-{rep}", g)
            emit(label, kind, rep, "calls", CALLS)
            emit(label, kind, rep, "rng", rng_state(), "jds-unchanged", repr(jds) == snapshot)
            emit(label, kind, rep, "state", alg._motif_sizes, alg._motif_indices, len(alg._build_functions) if hasattr(alg._build_functions, "__len__") else alg._build_functions)


# ---- the manuscript example from the test-suite, reshuffled many times ------
MANUSCRIPT = [
    (2, 1, 0, 1, 1, 0, 0), (1, 1, 0, 1, 1, 0, 0), (3, 1, 1, 0, 0, 1, 0), (2, 0, 1, 0, 0, 1, 0),
    (0, 0, 0, 1, 0, 0, 1), (1, 0, 0, 1, 0, 0, 0), (1, 0, 1, 0, 0, 0, 0), (1, 0, 1, 0, 0, 0, 0),
    (1, 0, 0, 1, 0, 0, 0), (1, 0, 0, 1, 0, 0, 0), (1, 0, 1, 0, 0, 0, 0), (0, 0, 1, 0, 0, 0, 0),
]
MP = P(
    [2, 3, 2, 2, 2, 2, 1],
    [spy(twoclique, "K2"), spy(threeclique, "K3"), spy(diamond, "D"), spy(pentagon, "P")],
    [names("2-clique"), names("3-clique", "3-clique", "3-clique"),
     names("d-o", "d-o", "d-o", "d-o", "d-i"), names("p01", "p12", "p23", "p34", "p40", "p13")],
    [[0], [1], [2, 5], [3, 4, 6]],
)
for trial in range(25):
    jds = list(MANUSCRIPT)
    random.shuffle(jds)
    run(f"manuscript{trial}", MP, jds)


# ---- random single-orbit configurations (handshake holds) -------------------
def make_jds(n, cols, maxdeg, rowtype=tuple):
    return [rowtype(random.randint(0, maxdeg) for _ in range(cols)) for _ in range(n)]


def balance(jds, sizes):
    n = len(jds)
    for col, size in enumerate(sizes):
        while n and sum(r[col] for r in jds) % size:
            i = random.randrange(n)
            r = list(jds[i])
            r[col] += 1
            jds[i] = type(jds[i])(r)
    return jds


LIB = {2: (clique_motif, 1), 3: (clique_motif, 3), 4: (diamond_motif, 6), 5: (cycle_motif, 5), 6: (clique_motif, 15)}
for trial in range(40):
    sizes = [random.choice([2, 3, 4, 5, 6]) for _ in range(random.randint(1, 4))]
    n = random.choice([1, 2, 5, 9, 17, 30])
    jds = balance(make_jds(n, len(sizes), 3, random.choice([tuple, list])), sizes)
    builders = [spy(LIB[s][0], f"m{s}") for s in sizes]
    edge_names = [names(*[f"t{s}"] * LIB[s][1]) if s != 2 else names(["t2"]) for s in sizes]
    p = P(sizes, builders, edge_names, [[i] for i in range(len(sizes))])
    run(f"valid{trial}", p, jds)

# ---- unbalanced sequences: ragged last partition, exhausted orbits ----------
for trial in range(50):
    cols = random.randint(1, 4)
    sizes = [random.choice([1, 2, 3, 4]) for _ in range(cols)]
    n = random.choice([1, 2, 3, 4, 7, 11])
    jds = make_jds(n, cols, 3)
    # random grouping of the columns into motifs; orbits may be reused or skipped
    k = random.randint(1, 3)
    indices = [[random.randrange(cols) for _ in range(random.randint(1, 3))] for _ in range(k)]
    builders = [spy(random.choice([clique_motif, cycle_motif, list, lambda vs: [tuple(vs)]]), f"b{j}") for j in range(k)]
    edge_names = [names(*["x"] * random.randint(1, 4)) for _ in range(k)]
    run(f"ragged{trial}", P(sizes, builders, edge_names, indices), jds, kinds=("direct", "main"))

# ---- degenerate and invalid inputs -----------------------------------------
k2 = spy(twoclique, "K2")
cl = spy(clique_motif, "CL")
e1 = names("e")
cases = {
    "empty": (P([2], [k2], [e1], [[0]]), []),
    "empty-rows": (P([2], [k2], [e1], [[0]]), [(), ()]),
    "all-zero": (P([2, 3], [k2, cl], [e1, names("f", "f", "f")], [[0], [1]]), [(0, 0)] * 4),
    "single-stub": (P([2], [k2], [e1], [[0]]), [(1,), (0,)]),
    "three-stubs": (P([2], [k2], [e1], [[0]]), [(1,), (1,), (1,)]),
    "exhaust": (P([2, 2], [cl], [names("a", "b", "c", "d", "e", "f")], [[0, 1]]), [(2, 1), (2, 0), (2, 1), (2, 0)]),
    "exhaust-first": (P([2, 2], [cl], [names("a")], [[0, 0]]), [(1, 0), (1, 0)]),
    "reuse-orbit": (P([2], [cl, cl], [names("a"), names("b")], [[0], [0]]), [(1,), (1,), (1,), (1,)]),
    "size0": (P([0], [k2], [e1], [[0]]), [(1,), (1,)]),
    "size-neg": (P([-1], [k2], [e1], [[0]]), [(1,), (1,)]),
    "size-neg-empty": (P([-1], [k2], [e1], [[0]]), [(0,), (0,)]),
    "size-float": (P([2.0], [k2], [e1], [[0]]), [(1,), (1,)]),
    "size-bool": (P([True], [spy(lambda vs: [(vs[0], vs[0])], "loop")], [names(["l"])], [[0]]), [(1,), (2,)]),
    "size-str": (P(["2"], [k2], [e1], [[0]]), [(1,), (1,)]),
    "size-none": (P([None], [k2], [e1], [[0]]), [(1,), (1,)]),
    "size-huge": (P([10 ** 6], [cl], [names()], [[0]]), [(2,), (3,)]),
    "sizes-short": (P([2], [k2], [e1], [[0]]), [(1, 1), (1, 1)]),
    "sizes-long": (P([2, 3], [k2], [e1], [[0]]), [(1,), (1,)]),
    "index-out-of-range": (P([2], [k2], [e1], [[3]]), [(1,), (1,)]),
    "index-second-out-of-range": (P([2], [k2], [e1], [[0, 3]]), [(1,), (1,)]),
    "index-negative": (P([2, 2], [cl], [names(*"abcdef")], [[-1, 0]]), [(1, 1), (1, 1)]),
    "index-empty": (P([2], [k2], [e1], [[]]), [(1,), (1,)]),
    "index-str": (P([2], [k2], [e1], [["0"]]), [(1,), (1,)]),
    "index-bool": (P([2], [k2], [e1], [[False]]), [(1,), (1,)]),
    "indices-none": (P([2], [k2], [e1], None), [(1,), (1,)]),
    "indices-empty": (P([2], [k2], [e1], []), [(1,), (1,)]),
    "indices-flat": (P([2], [k2], [e1], [0]), [(1,), (1,)]),
    "indices-tuple": (P([2], [k2], [e1], ((0,),)), [(1,), (1,)]),
    "builders-short": (P([2, 2], [k2], [e1, e1], [[0], [1]]), [(1, 1), (1, 1)]),
    "names-short": (P([2, 2], [k2, k2], [e1], [[0], [1]]), [(1, 1), (1, 1)]),
    "names-not-callable": (P([2], [k2], ["e"], [[0]]), [(1,), (1,)]),
    "neg-degree": (P([2], [k2], [e1], [[0]]), [(-1,), (2,), (1,), (1,)]),
    "float-degree": (P([2], [k2], [e1], [[0]]), [(1.0,), (1,)]),
    "bool-degree": (P([2], [k2], [e1], [[0]]), [(True,), (True,), (False,)]),
    "ragged-rows": (P([2, 2], [k2, k2], [e1, e1], [[0], [1]]), [(1, 1), (1,), (2, 2)]),
    "jds-none": (P([2], [k2], [e1], [[0]]), None),
    "jds-ints": (P([2], [k2], [e1], [[0]]), [1, 2]),
    "jds-str": (P([2], [k2], [e1], [[0]]), ["11", "22"]),
    "jds-numpy": (P([2], [k2], [e1], [[0]]), np.array([[1], [2], [1]])),
    "builder-raises": (P([2], [spy(lambda vs: 1 / 0, "boom")], [e1], [[0]]), [(1,), (1,)]),
    "builder-none": (P([2], [spy(lambda vs: None, "none")], [e1], [[0]]), [(1,), (1,)]),
    "builder-empty": (P([2], [spy(lambda vs: [], "nil")], [names()], [[0]]), [(1,), (1,), (2,)]),
    "builder-two-edges": (P([3], [spy(lambda vs: [(vs[0], vs[1]), (vs[1], vs[2])], "path")], [names("p", "q")], [[0]]), [(1,), (1,), (1,)]),
    "builder-two-lists": (P([3], [spy(lambda vs: [[vs[0], vs[1]], [vs[1], vs[2]]], "pathl")], [names("p", "q")], [[0]]), [(1,), (1,), (1,)]),
    "builder-mutates": (P([2], [spy(lambda vs: [tuple(vs)] if vs.append(-1) is None else None, "mut")], [names(["m"])], [[0]]), [(2,), (2,), (2,)]),
}
for name, (p, jds) in cases.items():
    run("case-" + name, p, jds)

for drop in (N.MOTIF_SIZES, N.BUILD_FUNCTIONS, N.EDGE_NAMES, N.MOTIF_INDICES):
    p = P([2], [k2], [e1], [[0]])
    del p[drop]
    run("missing-" + drop.value, p, [(1,), (1,)])
run("params-none", None, [(1,), (1,)])

# ---- the public helper `partition` ------------------------------------------
alg = GCMAlgorithmCustomMotifs(P([2], [k2], [e1], [[0]]))
for lst in ([], [1], [1, 2, 3, 4, 5], list(range(12)), (1, 2, 3), "abcdefg", range(7), np.arange(5), None, 5, {1: 2}):
    for n in (1, 2, 3, 5, 12, 13, 0, -1, 2.0, True, None, "2"):
        try:
            src = list(lst) if isinstance(lst, list) else lst
            r = alg.partition(src, n)
            emit("partition", repr(lst), repr(n), "OK", repr(r), repr(src))
        except BaseException as e:
            emit("partition", repr(lst), repr(n), "EXC", type(e).__name__, str(e))

# larger run
sizes = [2, 3]
jds = balance(make_jds(2000, 2, 4), sizes)
run("large", P(sizes, [clique_motif, clique_motif], [names(["2-clique"]), names("3c", "3c", "3c")], [[0], [1]]), jds, kinds=("main",), reps=1)

emit("final-rng", rng_state(), repr(np.random.get_state()[1][:4].tolist()))
print("EXCEPTIONS", sorted(EXC_COUNTS.items()))
print("LINES", LINES)
print("DIGEST", H.hexdigest())
