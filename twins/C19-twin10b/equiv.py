import sys, os; sys.path.insert(0, os.getcwd())
import hashlib, random, warnings, pickle
from fractions import Fraction
from decimal import Decimal
import numpy as np

random.seed(1234)
np.random.seed(1234)

LINES = []


def show(v):
    if isinstance(v, np.ndarray) and v.dtype == object:
        return "ndarray[object,%s,%s]" % (v.shape, [show(x) for x in v.ravel().tolist()])
    if isinstance(v, np.ndarray):
        return "ndarray[%s,%s,%s]" % (v.dtype, v.shape, v.tobytes().hex())
    if isinstance(v, np.generic):
        return "%s:%s" % (type(v).__name__, v.tobytes().hex())
    if isinstance(v, float):
        return "float:%s" % v.hex() if v == v and abs(v) != float("inf") else "float:%r" % v
    return "%s:%r" % (type(v).__name__, v)


def call(label, f, *args):
    with warnings.catch_warnings(record=True) as w:
        warnings.simplefilter("always")
        try:
            r = f(*args)
            out = "OK " + (show(r) if not callable(r) else "callable:%s:%s" % (r.__name__, r.__qualname__))
        except BaseException as e:
            r = None
            out = "EXC %s: %s" % (type(e).__name__, e)
        ws = ",".join("%s(%s)" % (x.category.__name__, x.message) for x in w)
    LINES.append("%s -> %s | warn=[%s]" % (label, out, ws))
    return r


def finish():
    rs = hashlib.sha256(repr(random.getstate()).encode()).hexdigest()
    ns = hashlib.sha256(pickle.dumps(np.random.get_state())).hexdigest()
    LINES.append("random state " + rs)
    LINES.append("numpy state " + ns)
    body = "\n".join(LINES)
    print(body)
    print("DIGEST", hashlib.sha256(body.encode()).hexdigest())

from gcmpy.distributions.power_law import power_law
import gcmpy

assert gcmpy.power_law is power_law
ALPHAS = [2.5, 2, 3, 1.0, 1.5, 1.2, 1.05, 10.0, 100.0, 1e3, 1e4, 5000, float("inf"), np.float64(2.5),
          np.float32(2.5), np.float16(2.5), np.int64(3), np.int8(3), Fraction(5, 2), Fraction(3), Decimal("2.5"),
          complex(2, 1), complex(3, 0), True, "x", None, [2.0], (2.0,), np.array([2.5]), np.array([[3]]),
          np.array([2.5, 3.0]), np.array(2.5), np.array([2.5], dtype=np.float32)]
KS = list(range(1, 31)) + [100, 10 ** 6, 10 ** 400, 0, 0.0, -1, -2, 2.0, 0.5, np.int64(3), np.int8(3),
                           np.float64(3.0), True, "x", None, Fraction(3), Decimal(3), np.array([1, 2]),
                           np.array([1.0, 2.0]), complex(2, 0)]
for i, al in enumerate(ALPHAS):
    p = call("make[%d] %r" % (i, al), power_law, al)
    if p is None:
        continue
    for k in KS:
        call("p[%d](%r)" % (i, k), p, k)
    for k in (3, 1, 3, 0, 3):
        call("again p[%d](%r)" % (i, k), p, k)
    call("sum[%d]" % i, lambda: sum(p(k) for k in range(1, 2000)))
    p2 = call("remake[%d] %r" % (i, al), power_law, al)
    call("remade p[%d](3)" % i, p2, 3)
for j in range(150):
    al = random.uniform(1.3, 6.0)
    k = random.randrange(1, 80)
    call("rnd[%d] %r %d" % (j, al, k), power_law(al), k)
    al2 = 1.3 + float(np.random.exponential(1.5))
    call("rnd2[%d] %r %d" % (j, al2, k), power_law(al2), k)
    ali = random.randrange(2, 9)
    call("rndint[%d] %d %d" % (j, ali, k), power_law(ali), k)
finish()
