import sys, os; sys.path.insert(0, os.getcwd())
import hashlib, random, warnings, pickle
from fractions import Fraction
from decimal import Decimal
import numpy as np

random.seed(1234)
np.random.seed(1234)

LINES = []


def show(v):
    if isinstance(v, np.ndarray) and v.dtype == object:
        return "ndarray[object,%s,%s]" % (v.shape, [show(x) for x in v.ravel().tolist()])
    if isinstance(v, np.ndarray):
        return "ndarray[%s,%s,%s]" % (v.dtype, v.shape, v.tobytes().hex())
    if isinstance(v, np.generic):
        return "%s:%s" % (type(v).__name__, v.tobytes().hex())
    if isinstance(v, float):
        return "float:%s" % v.hex() if v == v and abs(v) != float("inf") else "float:%r" % v
    return "%s:%r" % (type(v).__name__, v)


def call(label, f, *args):
    with warnings.catch_warnings(record=True) as w:
        warnings.simplefilter("always")
        try:
            r = f(*args)
            out = "OK " + (show(r) if not callable(r) else "callable:%s:%s" % (r.__name__, r.__qualname__))
        except BaseException as e:
            r = None
            out = "EXC %s: %s" % (type(e).__name__, e)
        ws = ",".join("%s(%s)" % (x.category.__name__, x.message) for x in w)
    LINES.append("%s -> %s | warn=[%s]" % (label, out, ws))
    return r


def finish():
    rs = hashlib.sha256(repr(random.getstate()).encode()).hexdigest()
    ns = hashlib.sha256(pickle.dumps(np.random.get_state())).hexdigest()
    LINES.append("random state " + rs)
    LINES.append("numpy state " + ns)
    body = "\n".join(LINES)
    print(body)
    print("DIGEST", hashlib.sha256(body.encode()).hexdigest())

from gcmpy.distributions.poisson import poisson
import gcmpy

assert gcmpy.poisson is poisson
KMEANS = [2.5, 0.0, 0, 1, 3, -1.5, -2, 1e-300, 1e3, 800.0, 0.1, 37.25, np.float64(2.5),
          np.float32(2.5), np.int64(3), np.int8(3), Fraction(5, 2), Decimal("2.5"), complex(1, 1),
          True, "x", None, [1.0], np.array([1.0, 2.0]), np.array(2.5), float("inf"),
          float("-inf"), float("nan"), 10 ** 400, -(10 ** 400), 2 ** 70]
KS = list(range(0, 26)) + [50, 150, 170, 171, 200, 1000, 10 ** 4, -1, -5, 2.0, 2.5, np.int64(3),
                           np.int8(100), np.float64(3.0), True, False, "3", None, Fraction(3), Fraction(1, 2),
                           np.array([1, 2]), np.array(3), complex(2, 0), Decimal(3)]
for i, km in enumerate(KMEANS):
    p = call("make[%d] %r" % (i, km), poisson, km)
    if p is None:
        continue
    for k in KS:
        call("p[%d](%r)" % (i, k), p, k)
    for k in (3, 0, 3, 171, 3):
        call("again p[%d](%r)" % (i, k), p, k)
    call("sum[%d]" % i, lambda: sum(p(k) for k in range(0, 120)))
    call("sum0[%d]" % i, lambda: sum((p(k) for k in range(0, 120)), 0.0))
for j in range(200):
    km = random.uniform(0.0, 30.0)
    p = poisson(km)
    k = random.randrange(0, 60)
    call("rnd[%d] %r %d" % (j, km, k), p, k)
    km2 = float(np.random.gamma(2.0, 3.0))
    call("rnd2[%d] %r %d" % (j, km2, k), poisson(km2), k)
    kmi = random.randrange(0, 12)
    call("rndint[%d] %d %d" % (j, kmi, k), poisson(kmi), k)
finish()
