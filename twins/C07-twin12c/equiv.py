import sys, os; sys.path.insert(0, os.getcwd())
# Equivalence digest for the C07 no-op guards (split-degree / delta joint degree loaders).
# Exercises JointDegreeSplitDegree / JointDegreeDelta through their existing public entry
# points (constructor, factory, create_jdd, resolve_degree, get_valid_joint_degrees,
# calc_prob_of_joint_degree, sample_jds_from_jdd) on ordinary, boundary and malformed inputs
# and prints bit-exact results, exception types/messages, call logs and RNG states.
import hashlib, random, itertools
from fractions import Fraction
import numpy as np

from gcmpy.joint_degree.joint_degree_loaders.joint_degree_split_degree import JointDegreeSplitDegree
from gcmpy.joint_degree.joint_degree_loaders.joint_degree_delta import JointDegreeDelta
from gcmpy.joint_degree.joint_degree_factory import JointDegreeFactory
from gcmpy.joint_degree.joint_degree_type import JointDegreeType
from gcmpy.names.joint_degree_names import JointDegreeNames as N
from gcmpy.distributions.power_law import power_law

random.seed(20261004)
np.random.seed(20261004)

LINES = []


def canon(x):
    if isinstance(x, bool) or x is None:
        return repr(x)
    if isinstance(x, float):
        return "f:" + (x.hex() if x == x and x not in (float("inf"), float("-inf")) else repr(x))
    if isinstance(x, (np.floating, np.integer)):
        return type(x).__name__ + ":" + repr(x.item() if not isinstance(x, np.floating) else float(x).hex() if np.isfinite(x) else repr(float(x)))
    if isinstance(x, int):
        return "i:" + repr(x)
    if isinstance(x, complex):
        return "c:" + canon(x.real) + "," + canon(x.imag)
    if isinstance(x, dict):
        return "{" + ", ".join(canon(k) + ": " + canon(v) for k, v in x.items()) + "}"  # insertion order kept
    if isinstance(x, list):
        return "[" + ", ".join(canon(v) for v in x) + "]"
    if isinstance(x, tuple):
        return "(" + ", ".join(canon(v) for v in x) + ")"
    return type(x).__name__ + ":" + repr(x)


def out(*parts):
    LINES.append(" | ".join(str(p) for p in parts))


def attempt(label, fn):
    try:
        r = fn()
        out(label, "OK", canon(r))
        return r
    except BaseException as e:  # noqa
        ctx = e.__context__
        out(label, "EXC", type(e).__name__, str(e)[:120],
            "ctx=" + (type(ctx).__name__ if ctx is not None else "None"))
        return None


def rng_state():
    h = hashlib.sha256(repr(random.getstate()).encode()).hexdigest()[:16]
    s = np.random.get_state()
    h2 = hashlib.sha256(repr((s[0], s[1].tolist(), s[2], s[3], s[4])).encode()).hexdigest()[:16]
    return h + "/" + h2


class LoggedFp:
    """degree function that records every call (order and argument)"""

    def __init__(self, f):
        self.f = f
        self.calls = []

    def __call__(self, k):
        self.calls.append(k)
        return self.f(k)


def fp_rand(k):
    return random.random()  # consumes the global stream: order / number of calls matters


def fp_raise_at_4(k):
    if k == 4:
        raise KeyError("boom at 4")
    return 1.0 / (k + 1)


FPS = {
    "powerlaw": power_law(2.5),
    "const": lambda k: 1.0,
    "lin": lambda k: k,
    "zero": lambda k: 0,
    "zerof": lambda k: 0.0,
    "neg": lambda k: -1.0 * k,
    "rand": fp_rand,
    "raise4": fp_raise_at_4,
    "nan": lambda k: float("nan"),
    "inf": lambda k: float("inf"),
    "none": lambda k: None,
    "frac": lambda k: Fraction(1, abs(k) + 1),
    "npf": lambda k: np.float64(1.0) / (abs(k) + 1),
    "geom": lambda k: 0.5 ** abs(k),
}

PROBS = [
    [0.8, 0.2], [0.5, 0.3, 0.2], [1.0], [1], [0.3], [], [0.0, 0.0], [0, 0], [1.0, 0.0], [0.0, 1.0],
    [1, 1], [0.25, 0.25, 0.25, 0.25], [0.5, 0.5], [2, 3], [-0.5, 0.5], [1e-200, 1e-200],
    [1e200, 1e200], [float("nan"), 0.5], [float("inf"), 0.5], (0.8, 0.2), [True, False],
    [Fraction(1, 2), Fraction(1, 2)], [np.float64(0.8), np.float64(0.2)], [np.float32(0.5), np.float32(0.5)],
    ["a", "b"], [None, 0.5], None, "ab", {0: 0.5, 1: 0.5}, [0.1, 0.2, 0.3, 0.4, 0.0],
]
MOTIFS = [[2, 3], [2, 3, 4], [2], [], [2, 3, 4, 5], None, (2, 3), [3, 2], [2, 3, 4, 5, 6]]
BOUNDS = [
    (1, 8), (0, 6), (0, 0), (3, 3), (5, 2), (-3, 3), (-4, -1), (0, 1), (1, 2), (2, 12), (-1, 0),
    [1, 5], (1, 5, 99), (1,), (), None, (1.0, 4), (1, 4.0), (None, 3), ("1", "4"), (True, 4), 7,
    (np.int64(1), np.int64(5)),
]
TARGETS = [3, 0, 1, -2, 100, 3.0, None, "3", True, 2, 4, np.int64(3), float("nan")]


def params_for(fp, probs, motifs, bounds, target="<absent>", drop=None):
    p = {N.FP: fp, N.PROBS: probs, N.MOTIF_SIZES: motifs, N.LOW_HIGH_DEGREE_BOUND: bounds}
    if target != "<absent>":
        p[N.TARGET_K] = target
    if drop is not None:
        p.pop(drop, None)
    return p


def describe(obj):
    if obj is None:
        return "None"
    d = {k: v for k, v in vars(obj).items() if k != "_fp"}
    return canon(d)


def build(cls, p):
    return cls(p)


# ---------------------------------------------------------------- 1. constructor grid
out("== 1 constructor grid")
case = 0
for fname in ["powerlaw", "const", "lin", "zero", "rand", "geom"]:
    for probs in PROBS:
        for bounds in [(1, 8), (0, 0), (5, 2), (-3, 3), (-4, -1), (0, 1)]:
            for motifs in [[2, 3], [2, 3, 4]]:
                case += 1
                lf = LoggedFp(FPS[fname])
                o = attempt(f"S{case} {fname} {probs!r} {bounds!r} {motifs!r}",
                            lambda: describe(build(JointDegreeSplitDegree, params_for(lf, probs, motifs, bounds))))
                out("  calls", canon(lf.calls), rng_state())
                for tk in [3, 0, -2, 100]:
                    lf = LoggedFp(FPS[fname])
                    attempt(f"D{case} tk={tk!r}",
                            lambda: describe(build(JointDegreeDelta, params_for(lf, probs, motifs, bounds, tk))))
                    out("  calls", canon(lf.calls), rng_state())

# ---------------------------------------------------------------- 2. malformed bounds / motifs / targets / fps
out("== 2 malformed parameters")
case = 0
for bounds in BOUNDS:
    for motifs in MOTIFS:
        for probs in [[0.8, 0.2], [0.5, 0.3, 0.2], [1.0], []]:
            case += 1
            lf = LoggedFp(FPS["geom"])
            attempt(f"S{case} {bounds!r} {motifs!r} {probs!r}",
                    lambda: describe(build(JointDegreeSplitDegree, params_for(lf, probs, motifs, bounds))))
            out("  calls", canon(lf.calls))
            for tk in TARGETS:
                lf = LoggedFp(FPS["geom"])
                attempt(f"D{case} tk={tk!r}",
                        lambda: describe(build(JointDegreeDelta, params_for(lf, probs, motifs, bounds, tk))))
                out("  calls", canon(lf.calls))
case = 0
for fname in FPS:
    for bounds in [(1, 7), (-2, 3), (0, 0), (4, 5), (3, 5)]:
        for probs in [[0.8, 0.2], [0.0, 0.0], [1.0]]:
            case += 1
            lf = LoggedFp(FPS[fname])
            attempt(f"S-fp{case} {fname} {bounds!r} {probs!r}",
                    lambda: describe(build(JointDegreeSplitDegree, params_for(lf, probs, [2, 3], bounds))))
            out("  calls", canon(lf.calls), rng_state())
            for tk in [3, 4, 0, 99]:
                lf = LoggedFp(FPS[fname])
                attempt(f"D-fp{case} tk={tk}",
                        lambda: describe(build(JointDegreeDelta, params_for(lf, probs, [2, 3], bounds, tk))))
                out("  calls", canon(lf.calls), rng_state())
for drop in [N.FP, N.PROBS, N.MOTIF_SIZES, N.LOW_HIGH_DEGREE_BOUND, N.TARGET_K]:
    attempt(f"S-drop {drop.name}", lambda: describe(build(JointDegreeSplitDegree,
            params_for(FPS["const"], [0.8, 0.2], [2, 3], (1, 5), 3, drop))))
    attempt(f"D-drop {drop.name}", lambda: describe(build(JointDegreeDelta,
            params_for(FPS["const"], [0.8, 0.2], [2, 3], (1, 5), 3, drop))))
for bad in [None, [], 3, "x"]:
    attempt(f"S-params {bad!r}", lambda: describe(JointDegreeSplitDegree(bad)))
    attempt(f"D-params {bad!r}", lambda: describe(JointDegreeDelta(bad)))
attempt("factory S", lambda: describe(JointDegreeFactory.resolve_joint_degree(
    JointDegreeType.SPLIT_DEGREE, params_for(FPS["powerlaw"], [0.7, 0.2, 0.1], [2, 3, 4], (1, 15)))))
attempt("factory D", lambda: describe(JointDegreeFactory.resolve_joint_degree(
    JointDegreeType.DELTA, params_for(FPS["powerlaw"], [0.7, 0.2, 0.1], [2, 3, 4], (1, 15), 6))))
attempt("factory D empty", lambda: describe(JointDegreeFactory.resolve_joint_degree(
    JointDegreeType.DELTA, params_for(FPS["powerlaw"], [0.7, 0.2, 0.1], [2, 3, 4], (4, 4), 4))))

# ---------------------------------------------------------------- 3. direct method calls on one object, repeated
out("== 3 direct calls")
base = JointDegreeSplitDegree(params_for(FPS["const"], [0.6, 0.3, 0.1], [2, 3, 4], (1, 6)))
based = JointDegreeDelta(params_for(FPS["const"], [0.6, 0.3, 0.1], [2, 3, 4], (1, 6), 4))
REMS = [0, 1, 2, 3, 7, 12, -1, -2, -7, True, False, 0.0, 2.0, -3.0, 2.5, None, "4", Fraction(4), Fraction(-4),
        np.int64(5), np.int64(-5), 10 ** 3]
TOPS = [1, 2, 3, 4, 5, 0, -1, -2, True, False, 1.0, 2.0, 2.5, None, "2", Fraction(1), Fraction(2), Fraction(3),
        Fraction(5, 2), np.int64(1), np.int64(3)]
for obj, tag in [(base, "S"), (based, "D")]:
    for rem in REMS:
        for top in TOPS:
            if rem == 10 ** 3 and top not in (1, 2):
                continue
            if rem == 10 ** 3:
                attempt(f"{tag}.gvjd {rem!r} {top!r} (len/sha)", lambda: (
                    lambda rows: (len(rows), hashlib.sha256(canon(rows).encode()).hexdigest()[:16]))(
                    list(obj.get_valid_joint_degrees(rem, top))))
            else:
                attempt(f"{tag}.gvjd {rem!r} {top!r}", lambda: list(obj.get_valid_joint_degrees(rem, top)))
    # partial consumption of the generator
    g = obj.get_valid_joint_degrees(9, 3)
    attempt(f"{tag}.gvjd partial", lambda: [next(g) for _ in range(4)])
    attempt(f"{tag}.gvjd rest", lambda: list(g))
    attempt(f"{tag}.gvjd kw", lambda: list(obj.get_valid_joint_degrees(topology=2, remaining_degree=5)))

JDS = [(), [], (0,), (3,), (0, 0), (1, 1), (2, 0, 1), [2, 0, 1], (0, 0, 0), (0, 0, 0, 0), (1, 1, 1, 1), (-1, 2, 0),
       (1.5, 0, 0), (0.0, 0.0, 0.0), None, 5, "12", ("a",), (None,), (10 ** 4, 0, 0), (True, False, True),
       (Fraction(1, 2), 1, 1), (np.int64(2), 1, 0), {0: 1, 1: 2}, (0, 0, 0, 0, 0)]
for probs in PROBS:
    o = JointDegreeSplitDegree(params_for(FPS["const"], [0.5, 0.5], [2, 3], (0, 0)))
    o._probs = probs
    for jd in JDS:
        attempt(f"calc {probs!r} {jd!r}", lambda: o.calc_prob_of_joint_degree(jd))
    gen = (d for d in (1, 0, 2, 5, 7, 9))
    attempt(f"calc {probs!r} gen", lambda: o.calc_prob_of_joint_degree(gen))
    out("  gen left", canon(list(gen)))

for cls, tag in [(JointDegreeSplitDegree, "S"), (JointDegreeDelta, "D")]:
    for probs in PROBS:
        o = cls(params_for(FPS["const"], [0.5, 0.5], [2, 3], (0, 0), 1))
        out(f"{tag} empty-built", describe(o))
        o._probs = probs
        for k in [3, 0, -1, -5, 1, 6, 6, True, 2.0, -2.0, None, "3", np.int64(4), np.int64(-4), Fraction(3)]:
            for pk in [0.25, 0, 1, None, float("nan")]:
                attempt(f"{tag}.resolve {probs!r} k={k!r} pk={pk!r}", lambda: o.resolve_degree(k, pk))
                out("  jdd", canon(o._jdd))
        attempt(f"{tag}.normalise", lambda: o.normalise_jdd())
        out("  jdd", canon(o._jdd))
        attempt(f"{tag}.resolve kw", lambda: o.resolve_degree(prob_overall_k=0.5, k=4))
        out("  jdd", canon(o._jdd))

# ---------------------------------------------------------------- 4. repeated create_jdd / attribute changes / sampling
out("== 4 repeated create_jdd, jdd setter, sampling")
for cls, tag in [(JointDegreeSplitDegree, "S"), (JointDegreeDelta, "D")]:
    lf = LoggedFp(fp_rand)
    o = cls(params_for(lf, [0.7, 0.2, 0.1], [2, 3, 4], (1, 9), 5))
    out(tag, "built", describe(o), rng_state())
    for step, (bounds, probs, motifs, tk) in enumerate([
        ((1, 9), [0.7, 0.2, 0.1], [2, 3, 4], 5), ((4, 4), [0.7, 0.2, 0.1], [2, 3, 4], 5),
        ((9, 1), [0.7, 0.3], [2, 3], 5), ((-5, -1), [0.7, 0.3], [2, 3], -3), ((-5, 2), [0.7, 0.3], [2, 3], -3),
        ((-5, -1), [0.7], [2], -3), ((0, 1), [0.5, 0.5], [2, 3], 0), ((5, 6), [0.5, 0.5], [2, 3], 5),
        ((5, 6), [0.5, 0.5], [], 5), ((5, 6), [0.5, 0.5], [], 7), ((5, 6), [], [2, 3], 5), ((0, 4), [0.0, 0.0], [2, 3], 2),
        ((2, 7), [0.5, 0.25, 0.25], [2, 3], 4), ((2, 7), [0.5, 0.5], [2, 3, 4], 4), ((1, 9), [0.7, 0.2, 0.1], [2, 3, 4], 5),
        ((-3, -2), [0.7, 0.3], [2, 3], -3), ((-3, -2), [0.7], [2], -3), ((-3, -2), [0.7, 0.3], [], -3),
        ((2, 3), [0.0, 0.0], [2, 3], 2), ((0, 1), [0.0, 0.0], [2, 3], 0), ((1, 9), [0.7, 0.2, 0.1], [2, 3, 4], 5),
    ]):
        o._low_high_degree_bound, o._probs, o._motif_sizes, o._target_k = bounds, probs, motifs, tk
        attempt(f"{tag} recreate {step}", lambda: o.create_jdd())
        out("  ", describe(o), canon(lf.calls), rng_state(), canon(o.jdd))
        lf.calls.clear()
        attempt(f"{tag} sample {step}", lambda: o.sample_jds_from_jdd(25))
        out("  ", rng_state())
    o.jdd = {(1, 0, 0): 0.5, (0, 1, 0): 0.5}
    o.motif_sizes = [2, 3, 4]
    attempt(f"{tag} sample after setter", lambda: o.sample_jds_from_jdd(10))
    attempt(f"{tag} normalise", lambda: o.normalise_jdd())
    out("  ", canon(o.jdd), rng_state())
    o.jdd = {}
    attempt(f"{tag} normalise empty", lambda: o.normalise_jdd())
    attempt(f"{tag} sample empty", lambda: o.sample_jds_from_jdd(3))
    out("  ", canon(o.jdd), rng_state())

# ---------------------------------------------------------------- 5. the property itself on larger well-formed inputs
out("== 5 well-formed larger inputs")
for probs, motifs in [([0.8, 0.2], [2, 3]), ([0.6, 0.3, 0.1], [2, 3, 4]), ([0.4, 0.3, 0.2, 0.1], [2, 3, 4, 5]), ([1.0], [2])]:
    for bounds in [(1, 40), (0, 25), (3, 30)]:
        for fname in ["powerlaw", "geom", "rand"]:
            o = attempt(f"S {probs} {bounds} {fname}", lambda: (lambda ob: (hashlib.sha256(
                canon(ob.jdd).encode()).hexdigest(), len(ob.jdd), canon(sum(ob.jdd.values()))))(
                JointDegreeSplitDegree(params_for(FPS[fname], probs, motifs, bounds))))
            for tk in [bounds[0], bounds[1] - 1, bounds[1], 7]:
                attempt(f"D {probs} {bounds} {fname} {tk}", lambda: (lambda ob: (hashlib.sha256(
                    canon(ob.jdd).encode()).hexdigest(), len(ob.jdd), canon(sum(ob.jdd.values())),
                    canon(ob.sample_jds_from_jdd(7))))(
                    JointDegreeDelta(params_for(FPS[fname], probs, motifs, bounds, tk))))
            out("  ", rng_state())

out("== final RNG", rng_state(), canon(random.random()), canon(float(np.random.random())))
text = "\n".join(LINES)
print(text)
print("DIGEST", hashlib.sha256(text.encode()).hexdigest(), len(LINES))
