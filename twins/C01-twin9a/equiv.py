import sys, os; sys.path.insert(0, os.getcwd())
import hashlib
import re
import random

import numpy as np

from gcmpy.motif_generators.diamond_motif import diamond_motif
from gcmpy.motif_generators import diamond_motif as diamond_motif_pkg
from gcmpy.motif_generators.clique_motif import clique_motif
from gcmpy.gcm_algorithm.gcm_algorithm_fast import GCMAlgorithmFast
from gcmpy.gcm_algorithm.gcm_algorithm_network import GCMAlgorithmNetwork
from gcmpy.gcm_algorithm.gcm_algorithm_custom_motifs import GCMAlgorithmCustomMotifs
from gcmpy.gcm_algorithm.gcm_algorithm_main import GCMAlgorithmMain
from gcmpy.gcm_algorithm.gcm_algorithm_factory import GCMAlgorithmFactory
from gcmpy.gcm_algorithm.gcm_algorithm_types import GCMAlgorithmTypes
from gcmpy.names.gcm_algorithm_names import GCMAlgorithmNames as N

random.seed(20261004)
np.random.seed(20261004)

H = hashlib.sha256()
LINES = 0
EXC_COUNTS = {}


def emit(*parts):
    global LINES
    line = re.sub(r"0x[0-9a-fA-F]+", "0x?", " | ".join(str(p) for p in parts))
    if " | EXC | " in line or " | CTOR-EXC | " in line:
        key = line.split("EXC | ", 1)[1].split(" | ")[0]
        EXC_COUNTS[key] = EXC_COUNTS.get(key, 0) + 1
    H.update(line.encode() + b"\n")
    LINES += 1
    if LINES <= 400 or os.environ.get("EQUIV_FULL"):
        print(line)


def rng_state():
    return hashlib.sha256(repr(random.getstate()).encode()).hexdigest()[:16]


def attempt(label, fn):
    try:
        r = fn()
        emit(label, "OK", repr(r))
        return r
    except BaseException as e:
        emit(label, "EXC", type(e).__name__, str(e))
        return None


class Lenny:
    """sequence-like object with a configurable length and a call log"""

    def __init__(self, items, length=None, log=None):
        self.items = list(items)
        self.length = len(self.items) if length is None else length
        self.log = [] if log is None else log

    def __len__(self):
        self.log.append("len")
        return self.length

    def __iter__(self):
        self.log.append("iter")
        return iter(self.items)

    def __getitem__(self, i):
        self.log.append(("get", i))
        return self.items[i]


class BadLen:
    def __init__(self, v):
        self.v = v

    def __len__(self):
        return self.v


# ---- direct calls -----------------------------------------------------------
assert diamond_motif_pkg is diamond_motif
for n in range(0, 9):
    attempt(f"list{n}", lambda: diamond_motif(list(range(10, 10 + n))))
    attempt(f"tuple{n}", lambda: diamond_motif(tuple(range(n))))
    attempt(f"str{n}", lambda: diamond_motif("abcdefgh"[:n]))
    attempt(f"range{n}", lambda: diamond_motif(range(n)))
    attempt(f"np{n}", lambda: diamond_motif(np.arange(n)))
    attempt(f"dict{n}", lambda: diamond_motif({i: i * i for i in range(n)}))
    attempt(f"set{n}", lambda: diamond_motif(set(range(n))))
    attempt(f"bytes{n}", lambda: diamond_motif(bytes(range(n))))
    attempt(f"nested{n}", lambda: diamond_motif([[i] for i in range(n)]))
    for claimed in range(0, 7):
        log = []
        attempt(
            f"lenny{n}/{claimed}",
            lambda: diamond_motif(Lenny(range(n), claimed, log)),
        )
        emit(f"lenny{n}/{claimed}-log", log)

for bad in (None, 3, 4, 3.5, 4.0, True, object(), iter([1, 2, 3, 4]), (i for i in range(4))):
    attempt(f"bad-{type(bad).__name__}-{bad if not hasattr(bad, '__next__') and type(bad) is not object else ''}",
            lambda: diamond_motif(bad))
for v in (-1, 3.0, 4.5, "4", None, 2 ** 70, True, False):
    attempt(f"badlen-{v!r}", lambda: diamond_motif(BadLen(v)))
attempt("noargs", lambda: diamond_motif())
attempt("kw", lambda: diamond_motif(vertices=[4, 3, 2, 1]))
same = [7, 7, 7, 7]
attempt("same", lambda: diamond_motif(same))
emit("same-after", same)
fl = [0.5, float("nan"), -0.0, 1e300]
attempt("floats", lambda: diamond_motif(fl))
emit("rng-after-direct", rng_state())


# ---- through the generators -------------------------------------------------
def params_fast(sizes, builders, names, t=None):
    p = {N.MOTIF_SIZES: sizes, N.BUILD_FUNCTIONS: builders, N.EDGE_NAMES: names}
    if t is not None:
        p[N.GCM_TYPE] = t
    return p


def dump_edge_list(label, g):
    emit(label, "edges", g.edge_list)
    emit(label, "topologies", g.topologies)
    emit(label, "motif_id", g.motif_id)
    emit(label, "jds", g.joint_degrees)


def dump_network(label, g):
    emit(label, "nodes", sorted(g.G.nodes(data=True), key=lambda x: repr(x[0])))
    emit(label, "edges", sorted(((u, v, sorted(d.items(), key=repr)) for u, v, d in g.G.edges(data=True)), key=repr))


def dump(label, g):
    if g is None:
        return
    if hasattr(g, "G"):
        dump_network(label, g)
    else:
        dump_edge_list(label, g)


def make_jds(n, cols, maxdeg):
    return [tuple(random.randint(0, maxdeg) for _ in range(cols)) for _ in range(n)]


for trial in range(60):
    n = random.choice([0, 1, 2, 3, 4, 5, 8, 13, 40])
    jds = make_jds(n, 2, 3)
    if trial % 3 == 0:
        # make the diamond column a multiple of 4, the edge column even
        for col, size in ((0, 2), (1, 4)):
            while n and sum(r[col] for r in jds) % size:
                i = random.randrange(n)
                r = list(jds[i])
                r[col] += 1
                jds[i] = tuple(r)
    snapshot = repr(jds)
    for kind in ("fast", "network", "main-fast", "main-network", "factory-fast", "factory-network"):
        p = params_fast([2, 4], [clique_motif, diamond_motif], ["2-clique", "diamond"])
        label = f"gen{trial}-{kind}"

        def build():
            if kind == "fast":
                return GCMAlgorithmFast(p)
            if kind == "network":
                return GCMAlgorithmNetwork(p)
            if kind.startswith("main"):
                p[N.GCM_TYPE] = GCMAlgorithmTypes(kind.split("-")[1])
                return GCMAlgorithmMain.load_gcm_algorithm(p)
            return GCMAlgorithmFactory.resolve_algorithm(GCMAlgorithmTypes(kind.split("-")[1]), p)

        alg = attempt(label + "-ctor", lambda: type(build()).__name__) and build()
        for rep in range(2):
            g = None
            try:
                g = alg.random_clustered_graph(jds)
                emit(label, rep, "OK")
            except BaseException as e:
                emit(label, rep, "EXC", type(e).__name__, str(e))
            dump(f"{label}-{rep}", g)
            emit(label, rep, "rng", rng_state(), "jds-unchanged", repr(jds) == snapshot)

# wrong motif sizes for the diamond builder (3, 5) and the custom-motif generator
for size in (1, 2, 3, 4, 5, 6):
    for trial in range(6):
        jds = make_jds(random.choice([2, 6, 12]), 1, 3)
        p = params_fast([size], [diamond_motif], ["diamond"])
        for cls in (GCMAlgorithmFast, GCMAlgorithmNetwork):
            label = f"size{size}-{trial}-{cls.__name__}"
            g = None
            try:
                g = cls(p).random_clustered_graph(jds)
                emit(label, "OK")
            except BaseException as e:
                emit(label, "EXC", type(e).__name__, str(e))
            dump(label, g)
            emit(label, "rng", rng_state())
        pc = dict(p)
        pc[N.MOTIF_INDICES] = [[0]]
        pc[N.EDGE_NAMES] = [lambda: ["d"] * 6]
        label = f"size{size}-{trial}-custom"
        g = None
        try:
            g = GCMAlgorithmCustomMotifs(pc).random_clustered_graph(jds)
            emit(label, "OK")
        except BaseException as e:
            emit(label, "EXC", type(e).__name__, str(e))
        dump(label, g)
        emit(label, "rng", rng_state())

emit("final-rng", rng_state(), repr(np.random.get_state()[1][:4].tolist()))
print("EXCEPTIONS", sorted(EXC_COUNTS.items()))
print("LINES", LINES)
print("DIGEST", H.hexdigest())
