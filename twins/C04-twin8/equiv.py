import sys, os; sys.path.insert(0, os.getcwd())

"""
Equivalence digest for the "network package tidy-up" commit (C04).

Exercises, through pre-existing public entry points only:
  Network.add_edge / add_edges_from / remove_edge / has_edges / find_cliques / G,
  EECC.get_EECC (drives remove_edge + has_edges),
  LightWeightEdgeList properties,
  EdgeListToNetwork.convert, NetworkToEdgeList.convert,
  GCMAlgorithmFast / GCMAlgorithmNetwork.random_clustered_graph.
Prints a deterministic digest.  (LightWeightEdgeList.__repr__ is new in the commit,
so repr() of that class is never printed.)
"""
import hashlib
import random
import warnings

warnings.simplefilter("ignore")

import numpy as np
import networkx as nx

from gcmpy.network.network import Network
from gcmpy.network.edge_list import LightWeightEdgeList
from gcmpy.network.edge_list_to_network import EdgeListToNetwork
from gcmpy.network.network_to_edge_list import NetworkToEdgeList
from gcmpy.names.network_names import NetworkNames
from gcmpy.names.gcm_algorithm_names import GCMAlgorithmNames
from gcmpy.gcm_algorithm.gcm_algorithm_fast import GCMAlgorithmFast
from gcmpy.gcm_algorithm.gcm_algorithm_network import GCMAlgorithmNetwork
from gcmpy.motif_generators.clique_motif import clique_motif
from gcmpy.covers.eecc import EECC

random.seed(4041)
np.random.seed(4041)


def rng_state():
    h = hashlib.sha256()
    h.update(repr(random.getstate()).encode())
    st = np.random.get_state()
    h.update(repr((st[0], st[1].tolist(), st[2], st[3], repr(st[4]))).encode())
    return h.hexdigest()[:16]


def show(label, value):
    print(f"{label}: {value!r}")


def attempt(label, fn, type_only=False):
    try:
        out = fn()
    except BaseException as exc:
        # exception type, plus its arguments (the missing key, the offending edge ...);
        # TypeError texts are interpreter wording for the failing operation, so only
        # the type is digested for them
        args = "" if isinstance(exc, TypeError) or type_only else f" {exc.args!r}"
        print(f"{label}: RAISED {type(exc).__name__}{args}")
        return None
    return out


def dump_graph(label, G):
    print(f"{label}: type={type(G).__name__}")
    print(f"  nodes={[(n, sorted((str(k), repr(v)) for k, v in d.items())) for n, d in G.nodes(data=True)]!r}")
    print(f"  edges={[(u, v, sorted((str(k), repr(w)) for k, w in d.items())) for u, v, d in G.edges(data=True)]!r}")
    print(f"  adj_order={[(n, list(nb)) for n, nb in G.adjacency()]!r}")


def dump_el(label, el):
    print(f"{label}: type={type(el).__name__}")
    for name in ("edge_list", "topologies", "motif_id", "joint_degrees"):
        v = getattr(el, name)
        print(f"  {name}: {type(v).__name__} {v!r}")


def params():
    return {
        GCMAlgorithmNames.MOTIF_SIZES: [2, 3],
        GCMAlgorithmNames.EDGE_NAMES: ["2-clique", "3-clique"],
        GCMAlgorithmNames.BUILD_FUNCTIONS: [clique_motif, clique_motif],
    }


def make_el(jds, edges, tops, mids):
    el = LightWeightEdgeList()
    el.joint_degrees = jds
    el.edge_list = edges
    el.topologies = tops
    el.motif_id = mids
    return el


# --------------------------------------------------------------------------
print("== Network basics")
net = Network()
show("has_edges empty", net.has_edges())
show("remove_edge on empty graph", attempt("remove", lambda: net.remove_edge(0, 1)))
show("add_edge", net.add_edge((0, 1)))
show("add_edge selfloop", net.add_edge((2, 2)))
show("add_edges_from", net.add_edges_from([(1, 2), (2, 3), (3, 0), (0, 1)]))
show("has_edges", net.has_edges())
show("type has_edges", type(net.has_edges()).__name__)
dump_graph("net", net.G)
show("remove existing", net.remove_edge(1, 0))
show("remove again (missing edge)", net.remove_edge(1, 0))
show("remove missing node", net.remove_edge(77, 78))
show("remove one missing node", net.remove_edge(0, 78))
show("remove selfloop", net.remove_edge(2, 2))
attempt("remove unhashable", lambda: net.remove_edge([1], 2))
attempt("remove None", lambda: net.remove_edge(None, None))
dump_graph("net after removals", net.G)
show("cliques", sorted(sorted(c) for c in net.find_cliques()))
for e in list(net.G.edges()):
    net.remove_edge(*e)
    show(f"has_edges after removing {e}", net.has_edges())
dump_graph("net drained", net.G)
attempt("add_edge bad arity", lambda: net.add_edge((1,)))
attempt("add_edge non tuple", lambda: net.add_edge(5))
attempt("add_edges_from bad", lambda: net.add_edges_from([(1, 2), (3,)]))
dump_graph("net after bad adds", net.G)
# only a self-loop left
net2 = Network()
net2.add_edge((4, 4))
show("has_edges only selfloop", net2.has_edges())
net2.remove_edge(4, 4)
show("has_edges after selfloop removal", net2.has_edges())
# G setter with other graph kinds
for kind in (nx.Graph, nx.DiGraph, nx.MultiGraph):
    n3 = Network()
    n3.G = kind()
    show(f"{kind.__name__} has_edges empty", n3.has_edges())
    n3.add_edges_from([(0, 1), (1, 0), (1, 1)])
    show(f"{kind.__name__} has_edges", n3.has_edges())
    show(f"{kind.__name__} remove", n3.remove_edge(0, 1))
    show(f"{kind.__name__} remove missing", n3.remove_edge(5, 1))
    dump_graph(f"{kind.__name__} after", n3.G)
    while n3.has_edges():
        u, v = list(n3.G.edges())[0][:2]
        n3.remove_edge(u, v)
    show(f"{kind.__name__} drained edges", n3.G.number_of_edges())
print("rng", rng_state())

# --------------------------------------------------------------------------
print("== EECC (drives remove_edge / has_edges)")
EDGES = [
    (1, 2), (1, 14), (2, 4), (2, 13), (2, 14), (3, 4), (3, 5), (4, 5), (4, 13),
    (4, 14), (6, 7), (6, 13), (7, 8), (7, 9), (8, 9), (9, 10), (9, 11), (9, 12),
    (10, 11), (10, 12), (11, 12), (11, 13), (13, 14),
]
for m0 in (2, 3, 4, 5):
    for rep in range(3):
        g = EECC()
        for e in EDGES:
            g.add_edge(e)
        g.set_max_clique_size(m0)
        cover = attempt(f"EECC m0={m0} rep={rep}", g.get_EECC)
        show(f"EECC m0={m0} rep={rep}", cover)
        show("  has_edges after", g.has_edges())
        show("  nodes left", list(g.G.nodes()))
        # repeated call on the drained object
        show("  second call", attempt("second", g.get_EECC))
for seed in range(4):
    rg = nx.gnp_random_graph(14, 0.35, seed=seed)
    g = EECC()
    g.add_edges_from(list(rg.edges()))
    g.set_max_clique_size(3)
    show(f"EECC gnp seed={seed}", attempt("gnp", g.get_EECC))
g = EECC()
show("EECC empty", attempt("EECC empty", g.get_EECC))
print("rng", rng_state())

# --------------------------------------------------------------------------
print("== LightWeightEdgeList")
el = LightWeightEdgeList()
dump_el("fresh", el)
a, b = LightWeightEdgeList(), LightWeightEdgeList()
show("fresh lists independent", a.edge_list is not b.edge_list)
lst = [(0, 1)]
el.edge_list = lst
show("setter keeps identity", el.edge_list is lst)
el.topologies = ("x",)
el.motif_id = None
el.joint_degrees = {0: (1, 0)}
dump_el("odd values", el)
show("doc attr type", type(LightWeightEdgeList.__init__.__doc__).__name__)

# --------------------------------------------------------------------------
print("== EdgeListToNetwork.convert")
cases = {
    "empty": make_el([], [], [], []),
    "isolated only": make_el([(0, 0)] * 4, [], [], []),
    "one isolated": make_el([(0, 0)], [], [], []),
    "simple": make_el([(1, 0), (2, 0), (1, 0), (0, 0)], [(0, 1), (1, 2)], ["2-clique"] * 2, [0, 1]),
    "selfloop+repeat": make_el(
        [(2, 0), (3, 0), (0, 0), (3, 0), (0, 0)],
        [(0, 1), (1, 3), (3, 3), (0, 1)],
        ["2-clique", "a", "b", "c"],
        [0, 1, 2, 3],
    ),
    "repeat reversed": make_el(
        [(2, 0), (2, 0)], [(0, 1), (1, 0)], ["first", "second"], [10, 11]
    ),
    "edge beyond jds": make_el([(1, 0)], [(0, 5), (7, 6)], ["t", "u"], [0, 1]),
    "jds longer than used": make_el([(0, 0), (1, 0), (1, 0), (0, 0)], [(2, 1)], ["t"], [3]),
    "short topologies": make_el([(1, 0)] * 4, [(0, 1), (2, 3)], ["only"], [0, 1]),
    "short motif ids": make_el([(1, 0)] * 4, [(0, 1), (2, 3)], ["p", "q"], [9]),
    "long columns": make_el([(1, 0)] * 2, [(0, 1)], ["p", "q", "r"], [9, 8, 7]),
    "no columns": make_el([(1, 0)] * 2, [(0, 1)], [], []),
    "falsy annotations": make_el([(1, 0)] * 2, [(0, 1)], [""], [0]),
    "none annotations": make_el([None, None], [(0, 1)], [None], [None]),
    "string nodes": make_el([(1, 0)] * 2, [("a", "b")], ["t"], [0]),
    "tuple columns": make_el(((1, 0), (1, 0)), ((0, 1),), ("t",), (0,)),
    "jds dict": make_el({5: "x", 6: "y"}, [(0, 1)], ["t"], [0]),
    "edge list entries are lists": make_el([(1, 0)] * 2, [[0, 1]], ["t"], [0]),
    "edge triples with data": make_el([(1, 0)] * 2, [(0, 1, {"w": 1})], ["t"], [0]),
    "edge arity 1": make_el([(1, 0)] * 2, [(0,)], ["t"], [0]),
    "edge arity 4": make_el([(1, 0)] * 2, [(0, 1, 2, 3)], ["t"], [0]),
    "edge with None": make_el([(1, 0)] * 2, [(None, 1)], ["t"], [0]),
    "edge unhashable node": make_el([(1, 0)] * 2, [([0], 1)], ["t"], [0]),
    "edge list None": make_el([(1, 0)] * 2, None, ["t"], [0]),
    "jds None": make_el(None, [(0, 1)], ["t"], [0]),
    "jds int": make_el(3, [(0, 1)], ["t"], [0]),
    "topologies None": make_el([(1, 0)] * 2, [(0, 1)], None, [0]),
    "motif None": make_el([(1, 0)] * 2, [(0, 1)], ["t"], None),
    "bad edge after good ones": make_el([(1, 0)] * 3, [(0, 1), (1, 2), 7], ["a", "b", "c"], [0, 1, 2]),
}
nets = {}
for label, el in cases.items():
    before = (repr(el.edge_list), repr(el.topologies), repr(el.motif_id), repr(el.joint_degrees))
    g = attempt(f"to_network[{label}]", lambda: EdgeListToNetwork.convert(el))
    after = (repr(el.edge_list), repr(el.topologies), repr(el.motif_id), repr(el.joint_degrees))
    show(f"  input unchanged [{label}]", before == after)
    if g is not None:
        show(f"  result type [{label}]", type(g).__name__)
        dump_graph(f"to_network[{label}]", g.G)
        nets[label] = g
        # repeated call gives an independent, equal network
        g2 = EdgeListToNetwork.convert(el)
        show("  repeat independent", g2 is not g and g2.G is not g.G)
        show("  repeat equal", list(g2.G.edges(data=True)) == list(g.G.edges(data=True))
             and list(g2.G.nodes(data=True)) == list(g.G.nodes(data=True)))
attempt("to_network[None]", lambda: EdgeListToNetwork.convert(None))
attempt("to_network[Network]", lambda: EdgeListToNetwork.convert(Network()))
print("rng", rng_state())

# --------------------------------------------------------------------------
print("== NetworkToEdgeList.convert")
for label, g in nets.items():
    snap = (repr(list(g.G.nodes(data=True))), repr(list(g.G.edges(data=True))))
    back = attempt(f"to_edge_list[{label}]", lambda: NetworkToEdgeList.convert(g))
    show(f"  network unchanged [{label}]", snap == (repr(list(g.G.nodes(data=True))), repr(list(g.G.edges(data=True)))))
    if back is not None:
        dump_el(f"to_edge_list[{label}]", back)
        again = NetworkToEdgeList.convert(g)
        show("  repeat fresh lists", again.edge_list is not back.edge_list
             and again.joint_degrees is not back.joint_degrees
             and again.topologies is not back.topologies
             and again.motif_id is not back.motif_id)
        third = attempt(f"  second trip [{label}]", lambda: EdgeListToNetwork.convert(back))
        if third is not None:
            dump_graph(f"  second trip [{label}]", third.G)


def hand_network(kind=nx.Graph):
    n = Network()
    n.G = kind()
    return n


# hand-made networks, including malformed ones (exception type + args)
h = hand_network()
dump_el("bare empty network", attempt("bare empty", lambda: NetworkToEdgeList.convert(h)))

h = hand_network()
h.G.add_nodes_from(range(3))
attempt("nodes without joint degree, no edges", lambda: NetworkToEdgeList.convert(h))

h = hand_network()
h.G.add_edges_from([(0, 1), (1, 2)])
attempt("edges, nothing annotated", lambda: NetworkToEdgeList.convert(h))

h = hand_network()
h.G.add_nodes_from((n, {NetworkNames.JOINT_DEGREE: (1, 0)}) for n in range(3))
h.G.add_edges_from([(0, 1), (1, 2)])
attempt("vertices annotated, edges not", lambda: NetworkToEdgeList.convert(h))

h = hand_network()
h.G.add_nodes_from((n, {NetworkNames.JOINT_DEGREE: (1, 0)}) for n in range(3))
h.G.add_edge(0, 1, **{})
h.G.edges[0, 1][NetworkNames.TOPOLOGY] = "t"
attempt("topology but no motif id", lambda: NetworkToEdgeList.convert(h))

h = hand_network()
h.G.add_nodes_from((n, {NetworkNames.JOINT_DEGREE: (1, 0)}) for n in range(3))
h.G.add_edge(0, 1)
h.G.edges[0, 1][NetworkNames.MOTIF_IDS] = 4
attempt("motif id but no topology", lambda: NetworkToEdgeList.convert(h))

# malformed in two ways at once (an earlier edge lacks only its motif id, a later one
# lacks its topology): a KeyError either way; which of the two keys it names is not
# digested
h = hand_network()
h.G.add_nodes_from((n, {NetworkNames.JOINT_DEGREE: (1, 0)}) for n in range(3))
h.G.add_edges_from([(0, 1), (1, 2)])
h.G.edges[0, 1][NetworkNames.TOPOLOGY] = "t"
h.G.edges[1, 2][NetworkNames.MOTIF_IDS] = 4
attempt("first edge lacks motif id, second lacks topology", lambda: NetworkToEdgeList.convert(h), type_only=True)

h = hand_network()
h.G.add_edge(0, 1)
h.G.edges[0, 1][NetworkNames.TOPOLOGY] = "t"
h.G.edges[0, 1][NetworkNames.MOTIF_IDS] = 4
attempt("edges annotated, vertices not", lambda: NetworkToEdgeList.convert(h))

h = hand_network()
h.G.add_nodes_from((n, {NetworkNames.JOINT_DEGREE: (n, 0)}) for n in (1, 2, 3))
attempt("labels 1..3 (not 0..N-1), no edges", lambda: NetworkToEdgeList.convert(h))

h = hand_network()
h.G.add_nodes_from((n, {NetworkNames.JOINT_DEGREE: (n, 0)}) for n in (1, 2, 3))
h.G.add_edge(1, 2)
attempt("labels 1..3, unannotated edge", lambda: NetworkToEdgeList.convert(h))

h = hand_network()
h.G.add_nodes_from((n, {"joint_degree": (n, 0)}) for n in range(2))
attempt("string key instead of enum, no edges", lambda: NetworkToEdgeList.convert(h))

h = hand_network()
h.G.add_nodes_from((n, {NetworkNames.JOINT_DEGREE: (n, n)}) for n in (3, 1, 0, 2))
h.G.add_edge(3, 0, **{})
h.G.edges[3, 0].update({NetworkNames.TOPOLOGY: "x", NetworkNames.MOTIF_IDS: 0, "extra": 1.5})
h.G.add_edge(2, 2)
h.G.edges[2, 2].update({NetworkNames.TOPOLOGY: "loop", NetworkNames.MOTIF_IDS: 1})
dump_el("shuffled insertion order", attempt("shuffled", lambda: NetworkToEdgeList.convert(h)))

h = hand_network(nx.DiGraph)
h.G.add_nodes_from((n, {NetworkNames.JOINT_DEGREE: (1, 0)}) for n in range(3))
for k, (u, v) in enumerate([(0, 1), (1, 0), (2, 1)]):
    h.G.add_edge(u, v)
    h.G.edges[u, v].update({NetworkNames.TOPOLOGY: f"d{k}", NetworkNames.MOTIF_IDS: k})
dump_el("digraph", attempt("digraph", lambda: NetworkToEdgeList.convert(h)))

h = hand_network(nx.DiGraph)
h.G.add_nodes_from((n, {NetworkNames.JOINT_DEGREE: (0, 0)}) for n in range(2))
dump_el("digraph no edges", attempt("digraph no edges", lambda: NetworkToEdgeList.convert(h)))

attempt("to_edge_list[None]", lambda: NetworkToEdgeList.convert(None))
attempt("to_edge_list[edge list]", lambda: NetworkToEdgeList.convert(LightWeightEdgeList()))
attempt("to_edge_list[nx graph]", lambda: NetworkToEdgeList.convert(nx.Graph()))
print("rng", rng_state())

# --------------------------------------------------------------------------
print("== generators")
CHOICES = [(0, 0), (1, 0), (2, 1), (3, 0), (4, 2), (0, 1)]
for trial in range(8):
    n = [1, 3, 8, 12, 20, 40, 40, 100][trial]
    jds = [random.choice(CHOICES) for _ in range(n)]
    while sum(j[0] for j in jds) % 2:
        jds.append((1, 0))
    while sum(j[1] for j in jds) % 3:
        jds.append((0, 1))
    jds_copy = list(jds)
    el = attempt(f"fast #{trial}", lambda: GCMAlgorithmFast(params()).random_clustered_graph(jds))
    show(f"  jds unchanged #{trial}", jds == jds_copy)
    dump_el(f"fast #{trial}", el)
    g = EdgeListToNetwork.convert(el)
    dump_graph(f"fast->net #{trial}", g.G)
    back = NetworkToEdgeList.convert(g)
    dump_el(f"fast->net->el #{trial}", back)
    g2 = EdgeListToNetwork.convert(back)
    dump_graph(f"second trip #{trial}", g2.G)
    gn = attempt(f"network alg #{trial}", lambda: GCMAlgorithmNetwork(params()).random_clustered_graph(jds))
    dump_graph(f"network alg #{trial}", gn.G)
    dump_el(f"network alg -> el #{trial}", NetworkToEdgeList.convert(gn))
    print("rng", rng_state())

for n in (0, 1, 4, 50):
    jds = [(0, 0)] * n
    el = attempt(f"fast isolated {n}", lambda: GCMAlgorithmFast(params()).random_clustered_graph(jds))
    if el is None:
        continue
    dump_el(f"fast isolated {n}", el)
    gn = attempt(f"network alg isolated {n}", lambda: GCMAlgorithmNetwork(params()).random_clustered_graph(jds))
    if gn is None:
        continue
    dump_graph(f"network alg isolated {n}", gn.G)
    back = NetworkToEdgeList.convert(gn)
    dump_el(f"network alg isolated {n} -> el", back)
    dump_graph(f"isolated {n} second trip", EdgeListToNetwork.convert(back).G)
    show(f"isolated {n} has_edges", gn.has_edges())
print("rng", rng_state())
print("done")
