import sys, os; sys.path.insert(0, os.getcwd())
import hashlib
import random
import warnings

warnings.simplefilter("ignore")
import numpy as np
import networkx as nx

from gcmpy.joint_degree.joint_degree_loaders.joint_degree_manual import (
    JointDegreeManual,
)
from gcmpy.motif_generators.clique_motif import clique_motif
from gcmpy.gcm_algorithm.gcm_algorithm_network import GCMAlgorithmNetwork
from gcmpy.names.gcm_algorithm_names import GCMAlgorithmNames
from gcmpy.names.joint_degree_names import JointDegreeNames
from gcmpy.names.network_names import NetworkNames
from gcmpy.names.tools_names import ToolsNames
from gcmpy.network.network import Network
from gcmpy.tools.joint_excess_joint_degree_matrices import (
    JointExcessJointDegreeMatrices,
)
from gcmpy.tools.markov_chain_monte_carlo import MarkovChainMonteCarlo
from gcmpy.tools.markov_chain_monte_carlo_rewiring import (
    MarkovChainMonteCarloRewiring,
)
from gcmpy.tools.joint_excess_from_ejk import JointExcessFromEjk
from gcmpy.tools.joint_degree_from_excess import JointDegreeFromExcess
from gcmpy.tools.draw_set import DrawSet

EDGE_NAMES = ["2-clique", "3-clique"]
MOTIF_SIZES = [2, 3]
T = NetworkNames.TOPOLOGY
M = NetworkNames.MOTIF_IDS


def sha(obj) -> str:
    return hashlib.sha256(repr(obj).encode()).hexdigest()[:20]


def rng_digest() -> str:
    s = np.random.get_state()
    return sha((random.getstate(), s[0], s[1].tolist(), s[2], s[3], s[4]))


def graph_digest(G) -> str:
    nodes = [(n, sorted((str(getattr(k, "name", k)), repr(v)) for k, v in d.items())) for n, d in G.nodes(data=True)]
    adj = [
        (u, [(v, [(str(getattr(k, "name", k)), repr(x)) for k, x in d.items()]) for v, d in nbrs.items()])
        for u, nbrs in G.adj.items()
    ]
    shared = all(G._adj[u][v] is G._adj[v][u] for u, v in G.edges())
    return sha((nodes, adj, list(G.edges()), shared, sorted(G.graph.items())))


def target(e: float):
    ejk_tree = {
        (0, 3, 0, 3): 9 / 81 - 2 * e, (0, 3, 4, 1): e, (0, 3, 2, 2): e,
        (4, 1, 0, 3): e, (4, 1, 4, 1): 45 / 81 - 2 * e, (4, 1, 2, 2): e,
        (2, 2, 0, 3): e, (2, 2, 4, 1): e, (2, 2, 2, 2): 27 / 81 - 2 * e,
    }
    ejk_tri = {
        (3, 1, 3, 1): 48 / 144 - 2 * e, (3, 1, 1, 2): e, (3, 1, 5, 0): e,
        (1, 2, 3, 1): e, (1, 2, 1, 2): 72 / 144 - 2 * e, (1, 2, 5, 0): e,
        (5, 0, 3, 1): e, (5, 0, 1, 2): e, (5, 0, 5, 0): 24 / 144 - 2 * e,
    }
    return JointExcessJointDegreeMatrices(
        {ToolsNames.EDGE_NAMES: EDGE_NAMES,
         ToolsNames.EJKS: {"2-clique": ejk_tree, "3-clique": ejk_tri}}
    )


def build(n: int, seed: int, e: float = 1e-3):
    random.seed(seed)
    np.random.seed(seed)
    ejks = target(e)
    qks = JointExcessFromEjk.get_excess_joint_distributions(ejks)
    jdd = JointDegreeFromExcess.get_joint_degree_distribution(qks, EDGE_NAMES)
    jds = JointDegreeManual(
        {JointDegreeNames.JDD: jdd, JointDegreeNames.MOTIF_SIZES: MOTIF_SIZES}
    ).sample_jds_from_jdd(n)
    g = GCMAlgorithmNetwork(
        {GCMAlgorithmNames.MOTIF_SIZES: MOTIF_SIZES,
         GCMAlgorithmNames.EDGE_NAMES: EDGE_NAMES,
         GCMAlgorithmNames.BUILD_FUNCTIONS: [clique_motif, clique_motif]}
    ).random_clustered_graph(jds)
    return g, ejks


def attempt(label, fn):
    try:
        r = fn()
        print(label, "->", r)
    except BaseException as ex:  # noqa
        print(label, "!!", type(ex).__module__, type(ex).__name__, repr(ex.args)[:300])


def run_rewire(label, g, ejks, seed, repeat=1, **limits):
    params = {ToolsNames.NETWORK: g, ToolsNames.EJKS: ejks}
    if "search" in limits:
        params[ToolsNames.SEARCH_LIMIT] = limits["search"]
    if "conv" in limits:
        params[ToolsNames.CONVERGENCE_LIMIT] = limits["conv"]
    before = graph_digest(g.G)
    random.seed(seed)
    np.random.seed(seed)
    mcmc = MarkovChainMonteCarloRewiring(params)
    for r in range(repeat):
        def go():
            G = mcmc.rewire()
            return (
                graph_digest(G), G.number_of_edges(), G is g.G,
                [(p._topology, p._motif_id, p._new_edge) for p in mcmc._proposal_edges][:6],
                sha(mcmc._acceptance_ratio), len(mcmc._acceptance_ratio),
                MarkovChainMonteCarlo._proposal_count,
                MarkovChainMonteCarlo._proposals_accepted,
                mcmc.convergence_limit, mcmc.search_limit,
            )
        attempt(f"{label} run{r}", go)
        print(label, "input-untouched", before == graph_digest(g.G), "rng", rng_digest())


def rewire_battery():
    for n, seed in [(60, 1), (120, 2), (300, 3)]:
        g, ejks = build(n, seed)
        print("built", n, seed, g.G.number_of_nodes(), g.G.number_of_edges(), graph_digest(g.G))
        run_rewire(f"rw n={n} conv=0", g, ejks, 10, conv=0, search=20)
        run_rewire(f"rw n={n} conv=1", g, ejks, 11, conv=1, search=5)
        run_rewire(f"rw n={n} conv=7 x3", g, ejks, 12, repeat=3, conv=7, search=20)
        run_rewire(f"rw n={n} many swaps, default search", g, ejks, 13, conv=250 if n >= 120 else 60)
        run_rewire(f"rw n={n} search=1", g, ejks, 14, conv=30, search=1)
    g, ejks = build(60, 5, e=2e-2)
    run_rewire("rw defaults", g, ejks, 15)
    g, ejks = build(150, 6, e=1e-8)
    run_rewire("rw sharp target", g, ejks, 16, conv=40, search=20)
    # error paths of the entry point
    attempt("ctor no network", lambda: MarkovChainMonteCarloRewiring({ToolsNames.EJKS: ejks}))
    attempt("ctor no ejks", lambda: MarkovChainMonteCarloRewiring({ToolsNames.NETWORK: g}))
    attempt("ctor graph not Network", lambda: MarkovChainMonteCarloRewiring(
        {ToolsNames.NETWORK: g.G, ToolsNames.EJKS: ejks}))
    empty = Network()
    run_rewire("rw empty network", empty, ejks, 17, conv=3)
    lone = Network()
    lone.G.add_node(0)
    lone.G.nodes[0][NetworkNames.JOINT_DEGREE] = (0, 0)
    run_rewire("rw edgeless network", lone, ejks, 18)
    # a network whose keys are missing from the target (KeyError guard paths)
    g2, _ = build(80, 7)
    part = target(1e-3)
    for k in [(0, 3, 4, 1), (4, 1, 0, 3), (2, 2, 0, 3), (0, 3, 2, 2)]:
        del part.ejks["2-clique"][k]
    for k in [(3, 1, 1, 2), (1, 2, 3, 1)]:
        part.ejks["3-clique"][k] = 0.0
    run_rewire("rw partial target", g2, part, 19, conv=25, search=20)


def ds_state(ds):
    return (list(ds._edges), list(ds._edge_hashmap.items()), len(ds), list(iter(ds)))


def drawset_battery():
    random.seed(3)
    np.random.seed(3)
    ds = DrawSet()
    attempt("remove from empty", lambda: ds.remove((1, 2)))
    attempt("remove unhashable from empty", lambda: ds.remove([1, 2]))
    attempt("draw from empty", lambda: ds.draw())
    ds.add((1, 2))
    attempt("remove only", lambda: (ds.remove((1, 2)), ds_state(ds)))
    attempt("remove again", lambda: (ds.remove((1, 2)), ds_state(ds)))
    for e in [(1, 2), (2, 3), (3, 4), (1, 2), (4, 5), (1.0, 2.0), (True, 2)]:
        ds.add(e)
    print("state", ds_state(ds))
    attempt("remove equal-but-not-identical key", lambda: (ds.remove((1.0, 2)), ds_state(ds)))
    attempt("remove last", lambda: (ds.remove(ds._edges[-1]), ds_state(ds)))
    attempt("remove first", lambda: (ds.remove(ds._edges[0]), ds_state(ds)))
    attempt("remove missing", lambda: (ds.remove((9, 9)), ds_state(ds)))
    attempt("remove missing tuple-in-tuple", lambda: ds.remove(((9, 9),)))
    attempt("remove unhashable", lambda: ds.remove([2, 3]))
    attempt("remove unhashable nested", lambda: ds.remove((2, [3])))
    attempt("remove None", lambda: ds.remove(None))
    print("state after errors", ds_state(ds), (2, 3) in ds, (9, 9) in ds)

    class Key:
        def __init__(self, v):
            self.v = v
        def __hash__(self):
            return hash(self.v)
        def __eq__(self, o):
            return isinstance(o, Key) and self.v == o.v
        def __repr__(self):
            return f"Key({self.v})"

    class BadEq(Key):
        def __eq__(self, o):
            raise RuntimeError("eq")
        __hash__ = Key.__hash__

    ds2 = DrawSet()
    for i in range(5):
        ds2.add(Key(i))
    attempt("remove custom key", lambda: (ds2.remove(Key(2)), ds_state(ds2)))
    attempt("remove custom key, raising eq", lambda: ds2.remove(BadEq(3)))
    print("state ds2", ds_state(ds2))

    ds3 = DrawSet()
    backing, index = ds3._edges, ds3._edge_hashmap
    live = iter(ds3)
    ids = []
    for i in range(40):
        ds3.add((i, i + 1))
        ds3.add((i, i + 1))
        ids.append(ds3._edges is backing and ds3._edge_hashmap is index)
    print("same backing objects", all(ids), len(backing), list(vars(ds3)), next(live), len(list(live)))
    attempt("add unhashable", lambda: ds3.add([1, 2]))
    attempt("add unhashable nested", lambda: ds3.add((1, [2])))
    attempt("add None", lambda: (ds3.add(None), ds3.add(None), ds3._edges[-1], ds3._edge_hashmap[None]))
    attempt("add list-like tuple subclass", lambda: (ds3.add(type("E", (tuple,), {})((7, 8))), type(ds3._edges[-1]).__name__))
    print("state ds3", sha(ds_state(ds3)), len(ds3), backing is ds3._edges)
    ds3.remove((0, 1))
    ds3.add((0, 1))
    print("re-add", ds3._edges[-1], ds3._edge_hashmap[(0, 1)], ds3._edges[0], backing is ds3._edges)

    # long random op sequences, several sets alive at once
    ops = random.Random(99)
    random.seed(7)
    np.random.seed(7)
    sets = [DrawSet() for _ in range(3)]
    log = []
    for step in range(6000):
        d = sets[ops.randrange(3)]
        r = ops.random()
        e = (ops.randrange(12), ops.randrange(12))
        try:
            if r < 0.45:
                d.add(e)
                log.append(("a", len(d)))
            elif r < 0.8:
                d.remove(e)
                log.append(("r", len(d)))
            elif r < 0.9 and len(d):
                x = d._edges[ops.randrange(len(d))]
                d.remove(x)
                log.append(("rx", x, len(d)))
            else:
                log.append(("d", d.draw()))
        except Exception as ex:
            log.append((type(ex).__name__, repr(ex.args)))
        if step % 500 == 0:
            print("step", step, [sha(ds_state(s)) for s in sets])
        for s in sets:
            assert len(s._edges) == len(s._edge_hashmap)
            assert all(s._edges[p] == k for k, p in s._edge_hashmap.items())
    print("oplog", sha(log), [sha(ds_state(s)) for s in sets], "rng", rng_digest())


drawset_battery()
rewire_battery()
print("final rng", rng_digest())
