import sys, os; sys.path.insert(0, os.getcwd())
import hashlib
import random

import numpy as np
import networkx as nx

from gcmpy.network.edge_list import LightWeightEdgeList
from gcmpy.network.edge_list_to_network import EdgeListToNetwork
from gcmpy.network.network_to_edge_list import NetworkToEdgeList
from gcmpy.names.network_names import NetworkNames
from gcmpy.names.joint_degree_names import JointDegreeNames
from gcmpy.names.gcm_algorithm_names import GCMAlgorithmNames
from gcmpy.joint_degree.joint_degree_loaders.joint_degree_manual import (
    JointDegreeManual,
)
from gcmpy.gcm_algorithm.gcm_algorithm_network import GCMAlgorithmNetwork
from gcmpy.motif_generators.clique_motif import clique_motif

random.seed(20261004)
np.random.seed(20261004)

H = hashlib.sha256()
LINES = []


def emit(*parts):
    line = " | ".join(repr(p) if not isinstance(p, str) else p for p in parts)
    LINES.append(line)
    H.update(line.encode() + b"\n")


def graph_digest(G):
    return (
        type(G).__name__,
        [(n, list(d.items())) for n, d in G.nodes(data=True)],
        [(u, v, list(d.items())) for u, v, d in G.edges(data=True)],
        [(n, list(nb.items())) for n, nb in G.adj.items()].__repr__(),
    )


def el_digest(el):
    def show(x):
        if isinstance(x, (list, tuple, dict, set, str, range)) or x is None:
            return repr(x)
        try:
            rest = list(x)
            return "%s(remaining=%r)" % (type(x).__name__, rest)
        except TypeError:
            return "%s:%r" % (type(x).__name__, x)

    return (
        show(el.edge_list),
        show(el.topologies),
        show(el.joint_degrees),
        show(el.motif_id),
    )


def make(edges, tops, jds, mids):
    el = LightWeightEdgeList()
    el.edge_list = edges
    el.topologies = tops
    el.joint_degrees = jds
    el.motif_id = mids
    return el


def run(label, factory, repeat=1):
    el = factory()
    for k in range(repeat):
        try:
            net = EdgeListToNetwork.convert(el)
            emit(label, k, "ok", graph_digest(net.G))
        except BaseException as exc:
            emit(label, k, "exc", type(exc).__name__, str(exc))
    emit(label, "input-after", el_digest(el))


class Weird:
    def __init__(self, n):
        self.n = n

    def __hash__(self):
        return hash(self.n) % 3

    def __eq__(self, other):
        return isinstance(other, Weird) and self.n == other.n

    def __repr__(self):
        return "Weird(%r)" % self.n


CASES = {
    "empty": lambda: make([], [], [], []),
    "empty-with-isolated": lambda: make([], [], [(0, 0), (0, 0), (0, 0)], []),
    "single": lambda: make([(0, 1)], ["2-clique"], [(1, 0), (1, 0)], [0]),
    "triangle": lambda: make(
        [(0, 1), (1, 2), (0, 2)], ["3-clique"] * 3, [(0, 1)] * 3 + [(0, 0)], [7, 7, 7]
    ),
    "dup-same-orientation": lambda: make(
        [(0, 1), (0, 1), (1, 2)], ["a", "b", "c"], [(1, 0)] * 3, [1, 2, 3]
    ),
    "dup-reversed": lambda: make(
        [(0, 1), (1, 0), (2, 1), (1, 2)], ["a", "b", "c", "d"], [(1, 0)] * 3, [1, 2, 3, 4]
    ),
    "self-loop": lambda: make([(1, 1), (0, 1)], ["s", "t"], [(1, 0), (3, 0)], [5, 6]),
    "tops-short": lambda: make(
        [(0, 1), (1, 2), (2, 3)], ["a"], [(1, 0)] * 4, [1, 2, 3]
    ),
    "mids-short": lambda: make(
        [(0, 1), (1, 2), (2, 3)], ["a", "b", "c"], [(1, 0)] * 4, [1]
    ),
    "mids-empty": lambda: make([(0, 1), (1, 2)], ["a", "b"], [(1, 0)] * 3, []),
    "tops-empty": lambda: make([(0, 1), (1, 2)], [], [(1, 0)] * 3, [4, 5]),
    "edges-short": lambda: make([(0, 1)], ["a", "b", "c"], [(1, 0)] * 3, [1, 2, 3, 4]),
    "edges-empty-attrs-full": lambda: make([], ["a", "b"], [(1, 0)], [1, 2]),
    "all-different-lengths": lambda: make(
        [(0, 1), (1, 2), (2, 3), (3, 4)], ["a", "b", "c"], [(1, 0)] * 2, [1, 2]
    ),
    "nodes-beyond-range": lambda: make(
        [(0, 9), (9, 4)], ["a", "b"], [(1, 0), (0, 0)], [1, 2]
    ),
    "string-nodes": lambda: make([("x", "y"), ("y", 0)], ["a", "b"], [(1, 0)], [1, 2]),
    "float-nodes-alias-int": lambda: make(
        [(0.0, 1), (1.0, 2)], ["a", "b"], [(1,), (2,), (1,)], [1, 2]
    ),
    "bool-nodes": lambda: make([(True, False)], ["a"], [(1,), (1,)], [1]),
    "weird-hash-nodes": lambda: make(
        [(Weird(1), Weird(4)), (Weird(4), Weird(7)), (Weird(7), Weird(1))],
        ["a", "b", "c"],
        [(2,)] * 2,
        [1, 2, 3],
    ),
    "iter-topologies": lambda: make(
        [(0, 1), (1, 2)], iter(["a", "b", "c", "d"]), [(1,)] * 3, [1, 2]
    ),
    "iter-motif-ids": lambda: make(
        [(0, 1), (1, 2)], ["a", "b", "c"], [(1,)] * 3, iter([1, 2, 3, 4])
    ),
    "iter-both-short-edges": lambda: make(
        [(0, 1)], iter(["a", "b", "c"]), [(1,)] * 2, iter([1, 2, 3])
    ),
    "iter-edges": lambda: make(iter([(0, 1), (1, 2)]), ["a", "b"], [(1,)] * 3, [1, 2]),
    "gen-topologies-raises": lambda: make(
        [(0, 1), (1, 2)], (1 // (1 - i) for i in range(3)), [(1,)] * 3, [1, 2]
    ),
    "tuple-containers": lambda: make(
        ((0, 1), (1, 2)), ("a", "b"), ((1,), (2,), (1,)), (1, 2)
    ),
    "dict-containers": lambda: make(
        {(0, 1): 0, (1, 2): 0}, {"a": 0, "b": 0}, {5: "x", 6: "y", 7: "z"}, {1: 0, 2: 0}
    ),
    "str-topologies": lambda: make([(0, 1), (1, 2)], "ab", [(1,)] * 3, "xyz"),
    "range-joint-degrees": lambda: make([(0, 1)], ["a"], range(4), [1]),
    "list-edges-unhashable": lambda: make([[0, 1], [1, 2]], ["a", "b"], [(1,)] * 3, [1, 2]),
    "three-tuple-with-dict": lambda: make(
        [(0, 1, {"w": 1})], ["a"], [(1,)] * 2, [1]
    ),
    "three-tuple-bad": lambda: make([(0, 1, 2)], ["a"], [(1,)] * 2, [1]),
    "four-tuple": lambda: make([(0, 1, 2, 3)], ["a"], [(1,)] * 2, [1]),
    "one-tuple": lambda: make([(0,)], ["a"], [(1,)] * 2, [1]),
    "none-node": lambda: make([(None, 1)], ["a"], [(1,)] * 2, [1]),
    "unhashable-node": lambda: make([([], 1)], ["a"], [(1,)] * 2, [1]),
    "edge-not-iterable": lambda: make([5], ["a"], [(1,)] * 2, [1]),
    "none-topologies": lambda: make([(0, 1)], None, [(1,)] * 2, [1]),
    "none-motif-ids": lambda: make([(0, 1)], ["a"], [(1,)] * 2, None),
    "none-edges": lambda: make(None, ["a"], [(1,)] * 2, [1]),
    "none-joint-degrees": lambda: make([(0, 1)], ["a"], None, [1]),
    "int-joint-degrees": lambda: make([(0, 1)], ["a"], 3, [1]),
    "int-topologies": lambda: make([(0, 1)], 3, [(1,)] * 2, [1]),
    "unhashable-values": lambda: make(
        [(0, 1), (1, 2)], [["t"], {"k": 1}], [[1, 0], [2, 0], [1, 0]], [[1], {2}]
    ),
    "nan-values": lambda: make(
        [(0, 1)], [float("nan")], [(float("nan"),)] * 2, [float("inf")]
    ),
}

for name, factory in CASES.items():
    run(name, factory, repeat=3)

rng = random.Random(99)
for t in range(300):
    n = rng.randrange(0, 9)
    m = rng.randrange(0, 14)
    edges = [
        (rng.randrange(0, max(1, n + 2)), rng.randrange(0, max(1, n + 2)))
        for _ in range(m)
    ]
    tops = [rng.choice(["2-clique", "3-clique", "4-cycle"]) for _ in range(rng.randrange(0, m + 3))]
    mids = [rng.randrange(0, 6) for _ in range(rng.randrange(0, m + 3))]
    jds = [(rng.randrange(0, 4), rng.randrange(0, 3)) for _ in range(n)]
    run(
        "rand-%d" % t,
        lambda edges=edges, tops=tops, jds=jds, mids=mids: make(edges, tops, jds, mids),
        repeat=2,
    )

for t in range(100):
    n = rng.randrange(2, 9)
    m = rng.randrange(0, 14)
    edges = [(rng.randrange(0, n), rng.randrange(0, n)) for _ in range(m)]
    tops = [rng.choice(["2-clique", "3-clique"]) for _ in range(m)]
    mids = [rng.randrange(0, 6) for _ in range(m)]
    jds = [(rng.randrange(0, 4), rng.randrange(0, 3)) for _ in range(n)]
    el = make(edges, tops, jds, mids)
    try:
        net = EdgeListToNetwork.convert(el)
        back = NetworkToEdgeList.convert(net)
        again = EdgeListToNetwork.convert(back)
        emit("roundtrip-%d" % t, el_digest(back), graph_digest(again.G))
    except BaseException as exc:
        emit("roundtrip-%d" % t, "exc", type(exc).__name__, str(exc))

params = {}
params[JointDegreeNames.JDD] = {(1, 0): 0.2, (2, 1): 0.5, (3, 0): 0.1, (5, 1): 0.2}
params[JointDegreeNames.MOTIF_SIZES] = [2, 3]
for size in (0, 1, 7, 60, 400):
    try:
        jds = JointDegreeManual(params).sample_jds_from_jdd(size)
        p2 = {}
        p2[GCMAlgorithmNames.MOTIF_SIZES] = [2, 3]
        p2[GCMAlgorithmNames.EDGE_NAMES] = ["2-clique", "3-clique"]
        p2[GCMAlgorithmNames.BUILD_FUNCTIONS] = [clique_motif, clique_motif]
        g = GCMAlgorithmNetwork(p2).random_clustered_graph(jds)
        emit("pipeline-%d" % size, "ok", graph_digest(g.G))
    except BaseException as exc:
        emit("pipeline-%d" % size, "exc", type(exc).__name__, str(exc))

emit("rng-python", hashlib.sha256(repr(random.getstate()).encode()).hexdigest())
st = np.random.get_state()
emit("rng-numpy", st[0], hashlib.sha256(st[1].tobytes()).hexdigest(), st[2], st[3], repr(st[4]))

for line in LINES:
    print(line if len(line) <= 400 else line[:200] + " ...sha:" + hashlib.sha256(line.encode()).hexdigest())
print("DIGEST", H.hexdigest())
