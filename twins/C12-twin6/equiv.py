"""
Equivalence digest for the C12 commit (keys view takes the topology index).

Run with cwd = a checkout of gcmpy.  Exercises every function the commit
touched through its PRE-EXISTING signature only:

  JointExcessJointDegreeKeysView(keys) and its six getters
  MarkovChainMonteCarloRewiring.get_joint_excess_degree_key(G, e, index)
  MarkovChainMonteCarloRewiring.get_swapped_joint_excess_degree_key(G, e0, e1, u0, v0, index)
  MarkovChainMonteCarloRewiring.swap_condition(G, e0s, e1s, u0, v0)
  MarkovChainMonteCarloRewiring(params).rewire()

and prints a deterministic digest (repr of floats, exception types, RNG state
hash, mutated inputs).  Nothing the commit added (index=, excess, edge_key,
get_current, get_proposed) is used.
"""
import copy
import hashlib
import os
import random
import signal
import sys

sys.path.insert(0, os.getcwd())

import numpy as np  # noqa: E402

from gcmpy.network.network import Network  # noqa: E402
from gcmpy.names.network_names import NetworkNames  # noqa: E402
from gcmpy.names.tools_names import ToolsNames  # noqa: E402
from gcmpy.names.gcm_algorithm_names import GCMAlgorithmNames  # noqa: E402
from gcmpy.names.joint_degree_names import JointDegreeNames  # noqa: E402
from gcmpy.joint_degree.joint_degree_loaders.joint_degree_manual import (  # noqa: E402
    JointDegreeManual,
)
from gcmpy.motif_generators.clique_motif import clique_motif  # noqa: E402
from gcmpy.gcm_algorithm.gcm_algorithm_network import GCMAlgorithmNetwork  # noqa: E402
from gcmpy.tools.joint_excess_from_ejk import JointExcessFromEjk  # noqa: E402
from gcmpy.tools.joint_degree_from_excess import JointDegreeFromExcess  # noqa: E402
from gcmpy.tools.joint_excess_joint_degree_matrices import (  # noqa: E402
    JointExcessJointDegreeMatrices,
)
from gcmpy.tools.joint_excess_joint_degree_keys_view import (  # noqa: E402
    JointExcessJointDegreeKeysView,
)
from gcmpy.tools.markov_chain_monte_carlo import MarkovChainMonteCarlo  # noqa: E402
from gcmpy.tools.markov_chain_monte_carlo_rewiring import (  # noqa: E402
    MarkovChainMonteCarloRewiring,
)


def _watchdog(signum, frame):
    sys.stdout.flush()
    os.write(1, b"WATCHDOG: equiv.py did not terminate in time\n")
    os._exit(3)


signal.signal(signal.SIGALRM, _watchdog)
signal.alarm(300)

EDGE_NAMES = ["2-clique", "3-clique"]
TREE, TRI = EDGE_NAMES
JD = NetworkNames.JOINT_DEGREE
TOP = NetworkNames.TOPOLOGY
MID = NetworkNames.MOTIF_IDS
GETTERS = ["get_u0u1", "get_u1u0", "get_v0v1", "get_v1v0", "get_u0v1", "get_v0u1"]


def out(*a):
    print(*a)


def rng_digest():
    h = hashlib.sha256()
    h.update(repr(random.getstate()).encode())
    st = np.random.get_state()
    h.update(repr((st[0], st[1].tolist(), st[2], st[3], repr(st[4]))).encode())
    return h.hexdigest()[:16]


def seed(n):
    random.seed(n)
    np.random.seed(n)


def call(label, f, *a, **k):
    """Run f, print result repr or exception type."""
    try:
        r = f(*a, **k)
    except BaseException as e:  # noqa: BLE001
        if isinstance(e, (KeyboardInterrupt, SystemExit)):
            raise
        out(f"{label}: RAISED {type(e).__module__}.{type(e).__name__}")
        return None
    out(f"{label}: {r!r}")
    return r


def counters():
    return (
        MarkovChainMonteCarlo._proposal_count,
        MarkovChainMonteCarlo._proposals_accepted,
    )


def graph_digest(G):
    nodes = sorted((n, repr(dict(G.nodes[n]))) for n in G.nodes())
    edges = sorted(
        (tuple(sorted(e)), repr(G.edges[e].get(TOP)), repr(G.edges[e].get(MID)))
        for e in G.edges()
    )
    h = hashlib.sha256(repr((nodes, edges)).encode()).hexdigest()[:16]
    return h, len(nodes), len(edges)


def view_dump(label, view):
    out(f"{label}: type {type(view).__name__} keys {view._keys!r}")
    for g in GETTERS:
        call(f"{label}.{g}", getattr(view, g))


# ----------------------------------------------------------------------------
# 1. the keys view through its old one-argument constructor
# ----------------------------------------------------------------------------
def section_view():
    out("== 1. JointExcessJointDegreeKeysView(keys)")
    cases = {
        "tuples": [(0, 3), (4, 1), (2, 2), (1, 0)],
        "lists": [[0, 3], [4, 1], [2, 2], [1, 0]],
        "mixed_lens": [(1,), (2, 3, 4), (), (5, 6)],
        "zeros_raw_like": [(1, 0), (2, 0), (3, 0), (1, 0)],
        "strings": ["ab", "cd", "ef", "gh"],
        "short": [(0, 1), (2, 3)],
        "empty": [],
        "tuple_container": ((0, 1), (2, 3), (4, 5), (6, 7)),
        "five": [(0, 1), (2, 3), (4, 5), (6, 7), (8, 9)],
        "tuple_plus_list": [(0, 1), [2, 3], (4, 5), [6, 7]],
        "ints": [1, 2, 3, 4],
        "floats": [(0.1, 0.2), (0.30000000000000004, 1e-8), (2.5, 3.5), (1 / 3, 2 / 3)],
        "np_arrays": [np.array([1, 2]), np.array([3, 4]), np.array([5, 6]), np.array([7, 8])],
    }
    for name, keys in cases.items():
        snapshot = copy.deepcopy(keys)
        try:
            view = JointExcessJointDegreeKeysView(keys)
        except Exception as e:  # noqa: BLE001
            out(f"view[{name}]: ctor RAISED {type(e).__name__}")
            continue
        out(f"view[{name}]: keys is input {view._keys is keys}")
        view_dump(f"view[{name}]", view)
        # repeated calls on one object
        view_dump(f"view[{name}] again", view)
        out(f"view[{name}]: input unchanged {repr(snapshot) == repr(keys)}")

    # non-sequence inputs: constructor must not look at them
    for name, keys in (("None", None), ("int", 7), ("dict", {0: (1, 2), 1: (3, 4), 2: (5, 6), 3: (7, 8)})):
        try:
            view = JointExcessJointDegreeKeysView(keys)
        except Exception as e:  # noqa: BLE001
            out(f"view[{name}]: ctor RAISED {type(e).__name__}")
            continue
        view_dump(f"view[{name}]", view)

    # generator input is not consumed by the constructor
    gen = ((i, i + 1) for i in range(4))
    try:
        view = JointExcessJointDegreeKeysView(gen)
        out(f"view[gen]: keys is input {view._keys is gen}; next {next(gen)!r}")
        call("view[gen].get_u0u1", view.get_u0u1)
    except Exception as e:  # noqa: BLE001
        out(f"view[gen]: RAISED {type(e).__name__}")

    # aliasing: later edits of the caller's list are seen by the view
    keys = [(0, 3), (4, 1), (2, 2), (1, 0)]
    view = JointExcessJointDegreeKeysView(keys)
    keys[0] = (9, 9)
    keys[3] = (8, 8)
    view_dump("view[aliased after edit]", view)
    inner = [[0, 3], [4, 1], [2, 2], [1, 0]]
    view = JointExcessJointDegreeKeysView(inner)
    inner[1].append(77)
    view_dump("view[inner list edited]", view)
    r = view.get_u0u1()
    out(f"view getter result type {type(r).__name__}")

    # positional / keyword spelling of the old argument
    call("view kw keys", lambda: JointExcessJointDegreeKeysView(keys=[(1, 2)] * 4).get_v0u1())
    call("view no args", lambda: JointExcessJointDegreeKeysView())


# ----------------------------------------------------------------------------
# small hand-built networks
# ----------------------------------------------------------------------------
def toy_graph():
    """Two triangles, a few tree edges; joint degrees (tree, triangle)."""
    net = Network()
    G = net.G
    G.add_nodes_from(range(12))
    mid = 0
    for tri in ((0, 1, 2), (3, 4, 5)):
        for i in range(3):
            for j in range(i + 1, 3):
                G.add_edge(tri[i], tri[j])
                G.edges[tri[i], tri[j]][TOP] = TRI
                G.edges[tri[i], tri[j]][MID] = mid
        mid += 1
    for u, v in ((0, 6), (3, 7), (6, 8), (7, 9), (1, 10), (4, 11), (8, 9), (10, 11), (2, 6), (5, 7)):
        G.add_edge(u, v)
        G.edges[u, v][TOP] = TREE
        G.edges[u, v][MID] = mid
        mid += 1
    for n in G.nodes():
        t = sum(1 for e in G.edges(n) if G.edges[e][TOP] == TREE)
        c = sum(1 for e in G.edges(n) if G.edges[e][TOP] == TRI) // 2
        G.nodes[n][JD] = (t, c)
    return net


def uniform_target(G, scale=1.0, holes=()):
    keys = {TREE: set(), TRI: set()}
    for n in G.nodes():
        jd = G.nodes[n][JD]
        for i, name in enumerate(EDGE_NAMES):
            if jd[i] > 0:
                k = list(jd)
                k[i] -= 1
                keys[name].add(tuple(k))
    ejks = {}
    for name in EDGE_NAMES:
        ks = sorted(keys[name])
        d = {}
        for a_i, a in enumerate(ks):
            for b_i, b in enumerate(ks):
                d[a + b] = scale * (1.0 + 0.25 * ((a_i + b_i) % 3)) / (3.0 * len(ks) ** 2)
        ejks[name] = d
    for name, key, val in holes:
        if val is None:
            ejks[name].pop(key, None)
        else:
            ejks[name][key] = val
    return JointExcessJointDegreeMatrices(
        {ToolsNames.EDGE_NAMES: EDGE_NAMES, ToolsNames.EJKS: ejks}
    )


def make_mcmc(net, target, extra=None):
    params = {ToolsNames.NETWORK: net, ToolsNames.EJKS: target}
    params.update(extra or {})
    return MarkovChainMonteCarloRewiring(params)


class Weird:
    def __index__(self):
        return 1

    def __repr__(self):
        return "Weird(1)"


# ----------------------------------------------------------------------------
# 2./3. the two key methods of the rewiring class
# ----------------------------------------------------------------------------
def section_keys():
    out("== 2. get_joint_excess_degree_key")
    net = toy_graph()
    G = net.G
    m = make_mcmc(net, uniform_target(G))
    before = graph_digest(G)
    indices = [0, 1, -1, -2, 2, 5, -3, None, True, False, 1.0, "0", slice(0, 1), np.int64(1), Weird(), (0,)]
    edges = [(0, 6), (6, 0), (0, 1), (3, 7), (8, 9), (0, 0), (0,), (0, 6, 8), (), (0, 99), (99, 0), [1, 10], "ab", None, 5]
    for e in edges:
        for i in indices:
            call(f"key e={e!r} i={i!r}", m.get_joint_excess_degree_key, G, e, i)
    out(f"graph unchanged {graph_digest(G) == before}")

    # joint degrees stored as other container types / broken values
    G2 = toy_graph().G
    G2.nodes[0][JD] = [3, 1]
    G2.nodes[6][JD] = np.array([3, 0])
    G2.nodes[1][JD] = (2.5, 1.0)
    G2.nodes[10][JD] = None
    G2.nodes[3][JD] = 4
    G2.nodes[7][JD] = (3,)
    G2.nodes[8][JD] = ("a", "b")
    G2.nodes[9][JD] = ()
    del G2.nodes[11][JD]
    G2.nodes[2][JD] = {0: "x", 1: "y"}
    for e in [(0, 6), (6, 0), (0, 1), (1, 10), (10, 1), (3, 7), (7, 3), (8, 9), (9, 8), (4, 11), (11, 4), (7, 9), (3, 10), (10, 3), (2, 6), (0, 7), (7, 0)]:
        for i in (0, 1, -1, 2, None):
            call(f"key2 e={e!r} i={i!r}", m.get_joint_excess_degree_key, G2, e, i)
    out(f"jd kept: {G2.nodes[0][JD]!r} {G2.nodes[6][JD]!r} {G2.nodes[1][JD]!r} {G2.nodes[2][JD]!r}")
    r = m.get_joint_excess_degree_key(G2, (0, 6), 0)
    out(f"key2 types {[type(x).__name__ for x in r]}")

    out("== 3. get_swapped_joint_excess_degree_key")
    quads = [
        ((0, 6), (3, 7), 0, 3),
        ((0, 6), (3, 7), 6, 7),
        ((6, 0), (7, 3), 0, 3),
        ((0, 1), (3, 4), 0, 3),
        ((0, 1), (3, 4), 1, 4),
        ((8, 9), (10, 11), 8, 11),
        ((0, 6), (3, 7), 1, 3),  # u0 not in e0
        ((0, 6), (3, 7), 0, 4),  # v0 not in e1
        ((0, 6), (0, 6), 0, 0),
        ((0, 6), (99, 7), 0, 7),  # missing vertex
        ((0, 6, 8), (3, 7, 9), 0, 3),
        ((0,), (3, 7), 0, 3),
        ([0, 6], [3, 7], 0, 3),
    ]
    for e0, e1, u0, v0 in quads:
        for i in indices:
            label = f"swapped {e0!r} {e1!r} {u0} {v0} i={i!r}"
            try:
                view = m.get_swapped_joint_excess_degree_key(G, e0, e1, u0, v0, i)
            except Exception as e:  # noqa: BLE001
                out(f"{label}: RAISED {type(e).__module__}.{type(e).__name__}")
                continue
            view_dump(label, view)
            out(f"{label}: key types {[type(k).__name__ for k in view._keys]} container {type(view._keys).__name__}")
    out(f"graph unchanged {graph_digest(G) == before}")

    for e0, e1, u0, v0 in [((0, 6), (3, 7), 0, 3), ((1, 10), (8, 9), 1, 8), ((8, 9), (7, 9), 9, 7), ((4, 11), (2, 6), 4, 2), ((2, 6), (0, 6), 2, 0)]:
        for i in (0, 1, -1, 2, None):
            label = f"swapped2 {e0!r} {e1!r} {u0} {v0} i={i!r}"
            try:
                view = m.get_swapped_joint_excess_degree_key(G2, e0, e1, u0, v0, i)
            except Exception as e:  # noqa: BLE001
                out(f"{label}: RAISED {type(e).__module__}.{type(e).__name__}")
                continue
            view_dump(label, view)
    out(f"jd kept: {G2.nodes[0][JD]!r} {G2.nodes[6][JD]!r} {G2.nodes[1][JD]!r} {G2.nodes[2][JD]!r}")


# ----------------------------------------------------------------------------
# 4. swap_condition called directly
# ----------------------------------------------------------------------------
def section_swap_condition():
    out("== 4. swap_condition")
    proposals = [
        # (e0s, e1s, u0, v0)
        ([(0, 6)], [(3, 7)], 0, 3),
        ([(6, 0)], [(7, 3)], 6, 7),
        ([(6, 8)], [(1, 10)], 6, 1),
        ([(8, 9)], [(10, 11)], 8, 10),
        ([(8, 9)], [(10, 11)], 9, 10),
        ([(8, 6)], [(11, 4)], 8, 11),
        ([(0, 1), (0, 2)], [(3, 4), (3, 5)], 0, 3),
        ([(1, 0), (1, 2)], [(5, 3), (5, 4)], 1, 5),
        ([(2, 6)], [(10, 1)], 2, 10),
        ([(0, 6)], [(0, 1)], 0, 0),  # topology mismatch -> KeyError in hashmap
        ([(0, 6), (0, 1)], [(3, 7)], 0, 3),  # exhausted partner list
        ([(0, 6), (0, 6)], [(3, 7)], 0, 3),
        ([], [], 0, 3),
        ([(0, 6)], [(3, 7)], 1, 3),  # u0 not in edge
        ([(0, 99)], [(3, 7)], 0, 3),  # not an edge
    ]
    nets = toy_graph().G
    tree_keys = sorted(uniform_target(nets).ejks[TREE])
    tri_keys = sorted(uniform_target(nets).ejks[TRI])
    targets = {
        "uniform": [],
        "scaled": "scale",
        "tree holes zero": [(TREE, k, 0.0) for k in tree_keys[::3]],
        "tree holes absent": [(TREE, k, None) for k in tree_keys[1::3]],
        "tri holes zero": [(TRI, k, 0.0) for k in tri_keys[::2]],
        "tri holes absent": [(TRI, k, None) for k in tri_keys[1::2]],
        "all zero": [(TREE, k, 0.0) for k in tree_keys] + [(TRI, k, 0.0) for k in tri_keys],
        "tiny": [(TREE, k, 1e-300) for k in tree_keys[::2]] + [(TRI, k, 5e-324) for k in tri_keys[::2]],
        "big": [(TREE, k, 1e200) for k in tree_keys[1::2]],
        "nan": [(TREE, k, float("nan")) for k in tree_keys[::4]],
    }
    for tname, holes in targets.items():
        net = toy_graph()
        G = net.G
        if holes == "scale":
            target = uniform_target(G, scale=40.0)
        else:
            target = uniform_target(G, holes=holes)
        target_snapshot = repr(sorted((t, sorted(d.items(), key=repr)) for t, d in target.ejks.items()))
        m = make_mcmc(net, target)
        before = graph_digest(G)
        seed(4242)
        for rep in range(2):
            for n, (e0s, e1s, u0, v0) in enumerate(proposals):
                a, b = list(e0s), list(e1s)
                label = f"swap[{tname}] rep{rep} #{n}"
                try:
                    r = m.swap_condition(G, a, b, u0, v0)
                    res = repr(r)
                except Exception as e:  # noqa: BLE001
                    res = f"RAISED {type(e).__module__}.{type(e).__name__}"
                pes = [(p._topology, p._motif_id, p._new_edge) for p in m._proposal_edges]
                out(f"{label}: {res} proposals {pes!r} counters {counters()} inputs kept {a == list(e0s) and b == list(e1s)} rng {rng_digest()}")
        out(f"swap[{tname}]: graph unchanged {graph_digest(G) == before}; target unchanged "
            f"{target_snapshot == repr(sorted((t, sorted(d.items(), key=repr)) for t, d in target.ejks.items()))}; "
            f"instance counters {m._proposal_count} {m._proposals_accepted} ratio {m._acceptance_ratio!r}")

    # a topology the target does not know
    net = toy_graph()
    G = net.G
    target = uniform_target(G)
    target.topology_names = [TRI]
    m = make_mcmc(net, target)
    seed(7)
    call("swap unknown topology", m.swap_condition, G, [(0, 6)], [(3, 7)], 0, 3)
    call("swap known topology, shifted index", m.swap_condition, G, [(0, 1), (0, 2)], [(3, 4), (3, 5)], 0, 3)
    target.topology_names = [TRI, TREE]  # swapped order: index 0 is the triangle
    for n in G.nodes():
        G.nodes[n][JD] = tuple(reversed(G.nodes[n][JD]))
    rev = {}
    for name, d in target.ejks.items():
        rev[name] = {(k[1], k[0], k[3], k[2]): v for k, v in d.items()}
    target.ejks = rev
    for e0s, e1s, u0, v0 in proposals[:9]:
        call(f"swap reversed names {e0s!r} {e1s!r}", m.swap_condition, G, list(e0s), list(e1s), u0, v0)
    out(f"rng {rng_digest()} counters {counters()}")


# ----------------------------------------------------------------------------
# 5. rewire()
# ----------------------------------------------------------------------------
A, B, C = (0, 0), (1, 0), (2, 0)


class Builder:
    def __init__(self):
        self.net = Network()
        self.next_vertex = 0
        self.next_motif = 0

    def vertices(self, n):
        vs = list(range(self.next_vertex, self.next_vertex + n))
        self.next_vertex += n
        self.net.G.add_nodes_from(vs)
        return vs

    def edge(self, u, v):
        G = self.net.G
        G.add_edge(u, v)
        G.edges[u, v][TOP] = TREE
        G.edges[u, v][MID] = self.next_motif
        self.next_motif += 1

    def finish(self):
        G = self.net.G
        for n in G.nodes():
            G.nodes[n][JD] = (G.degree(n), 0)
        return self.net


def segregated_network():
    b = Builder()
    for _ in range(10):
        u, v = b.vertices(2)
        b.edge(u, v)
    for _ in range(4):
        vs = b.vertices(5)
        for i in range(5):
            b.edge(vs[i], vs[(i + 1) % 5])
    for _ in range(3):
        vs = b.vertices(4)
        for i in range(4):
            for j in range(i + 1, 4):
                b.edge(vs[i], vs[j])
    for _ in range(4):
        c, *leaves = b.vertices(4)
        for leaf in leaves:
            b.edge(c, leaf)
    for _ in range(2):
        x, y, *mid = b.vertices(5)
        for m in mid:
            b.edge(x, m)
            b.edge(m, y)
    return b.finish()


def abc_target(kind):
    ejk = {}
    for k in (A, B, C):
        for kk in (A, B, C):
            ejk[k + kk] = 1.0 / 9.0
    if kind == "zeroAB":
        ejk[A + B] = ejk[B + A] = 0.0
    elif kind == "dropAB":
        del ejk[A + B], ejk[B + A]
    elif kind == "wantAB":
        eps = 1e-6
        for k in ejk:
            ejk[k] = eps
        ejk[A + B] = ejk[B + A] = 0.3
        ejk[C + C] = 0.4 - 7 * eps
    elif kind == "assort":
        for k in (A, B, C):
            for kk in (A, B, C):
                ejk[k + kk] = 0.3 if k == kk else 0.1 / 6
    return JointExcessJointDegreeMatrices(
        {ToolsNames.EDGE_NAMES: EDGE_NAMES, ToolsNames.EJKS: {TREE: ejk, TRI: {}}}
    )


def run_rewire(label, net, target, extra=None):
    before = graph_digest(net.G)
    try:
        m = make_mcmc(net, target, extra)
        G = m.rewire()
    except Exception as e:  # noqa: BLE001
        out(f"{label}: RAISED {type(e).__module__}.{type(e).__name__} rng {rng_digest()} counters {counters()}")
        return None, None
    created = sorted(tuple(sorted(e)) for e in G.edges() if not net.G.has_edge(*e))
    out(f"{label}: result {graph_digest(G)} created {len(created)} "
        f"{hashlib.sha256(repr(created).encode()).hexdigest()[:12]} input kept {graph_digest(net.G) == before} "
        f"is copy {G is not net.G} ratio {m._acceptance_ratio!r} inst {m._proposal_count} {m._proposals_accepted} "
        f"class {counters()} proposals {[(p._topology, p._motif_id, p._new_edge) for p in m._proposal_edges]!r} "
        f"rng {rng_digest()}")
    return m, G


def mixed_network(n, s):
    """Small GCM network with tree and triangle motifs, as in the test-suite."""
    e1 = e2 = e3 = 1e-3
    tree = {
        (0, 3, 0, 3): 9 / 81 - e1 - e2, (0, 3, 4, 1): e1, (0, 3, 2, 2): e2,
        (4, 1, 0, 3): e1, (4, 1, 4, 1): 45 / 81 - e1 - e3, (4, 1, 2, 2): e3,
        (2, 2, 0, 3): e2, (2, 2, 4, 1): e3, (2, 2, 2, 2): 27 / 81 - e2 - e3,
    }
    tri = {
        (3, 1, 3, 1): 48 / 144 - e1 - e2, (3, 1, 1, 2): e1, (3, 1, 5, 0): e2,
        (1, 2, 3, 1): e1, (1, 2, 1, 2): 72 / 144 - e1 - e3, (1, 2, 5, 0): e3,
        (5, 0, 3, 1): e2, (5, 0, 1, 2): e3, (5, 0, 5, 0): 24 / 144 - e2 - e3,
    }
    target = JointExcessJointDegreeMatrices(
        {ToolsNames.EDGE_NAMES: EDGE_NAMES, ToolsNames.EJKS: {TREE: tree, TRI: tri}}
    )
    seed(s)
    qks = JointExcessFromEjk.get_excess_joint_distributions(target)
    jdd = JointDegreeFromExcess.get_joint_degree_distribution(qks, EDGE_NAMES)
    jds = JointDegreeManual(
        {JointDegreeNames.JDD: jdd, JointDegreeNames.MOTIF_SIZES: [2, 3]}
    ).sample_jds_from_jdd(n)
    g = GCMAlgorithmNetwork(
        {
            GCMAlgorithmNames.MOTIF_SIZES: [2, 3],
            GCMAlgorithmNames.EDGE_NAMES: EDGE_NAMES,
            GCMAlgorithmNames.BUILD_FUNCTIONS: [clique_motif, clique_motif],
        }
    ).random_clustered_graph(jds)
    return g, target


def section_rewire():
    out("== 5. rewire")
    for kind in ("uniform", "zeroAB", "dropAB", "wantAB", "assort"):
        # an almost-degenerate target stalls the chain once it is reached: keep it short
        for limit in ((0, 5, 8) if kind == "wantAB" else (0, 5, 40)):
            for s in range(3):
                seed(1000 + s)
                net = segregated_network()
                run_rewire(f"rewire seg[{kind}] limit {limit} seed {s}", net, abc_target(kind),
                           {ToolsNames.CONVERGENCE_LIMIT: limit})

    # search limit parameter, repeated rewire() on one object, rewiring the result again
    seed(31)
    net = segregated_network()
    m, G = run_rewire("rewire seg search-limit", net, abc_target("assort"),
                      {ToolsNames.CONVERGENCE_LIMIT: 30, ToolsNames.SEARCH_LIMIT: 40})
    for rep in range(2):
        G = m.rewire()
        out(f"rewire again {rep}: {graph_digest(G)} ratio {m._acceptance_ratio!r} inst {m._proposal_count} "
            f"{m._proposals_accepted} class {counters()} rng {rng_digest()}")
    net2 = Network()
    net2.G = G
    run_rewire("rewire of rewired", net2, abc_target("uniform"), {ToolsNames.CONVERGENCE_LIMIT: 20})

    # toy graph with both topologies
    for s in range(3):
        seed(500 + s)
        net = toy_graph()
        run_rewire(f"rewire toy uniform seed {s}", net, uniform_target(net.G),
                   {ToolsNames.CONVERGENCE_LIMIT: 15})

    # GCM-built mixed networks (2-cliques and 3-cliques), as in the suite but small
    for n, s, limit in ((150, 11, 40), (240, 12, 80), (240, 13, 0)):
        g, target = mixed_network(n, s)
        out(f"mixed n={n} seed={s}: built {graph_digest(g.G)} rng {rng_digest()}")
        run_rewire(f"rewire mixed n={n} seed={s} limit={limit}", g, target,
                   {ToolsNames.CONVERGENCE_LIMIT: limit, ToolsNames.SEARCH_LIMIT: 20})

    # error paths
    seed(77)
    call("ctor missing network", lambda: MarkovChainMonteCarloRewiring({ToolsNames.EJKS: abc_target("uniform")}))
    call("ctor missing ejks", lambda: MarkovChainMonteCarloRewiring({ToolsNames.NETWORK: segregated_network()}))
    call("ctor none", lambda: MarkovChainMonteCarloRewiring(None))
    net = segregated_network()
    run_rewire("rewire default limit", net, abc_target("uniform"))
    empty = Network()
    run_rewire("rewire empty network", empty, abc_target("uniform"), {ToolsNames.CONVERGENCE_LIMIT: 3})
    net = segregated_network()
    for n in list(net.G.nodes())[:6]:
        del net.G.nodes[n][JD]
    run_rewire("rewire missing joint degrees", net, abc_target("uniform"), {ToolsNames.CONVERGENCE_LIMIT: 200})
    net = segregated_network()
    t = abc_target("uniform")
    t.topology_names = [TRI]
    run_rewire("rewire unknown topology", net, t, {ToolsNames.CONVERGENCE_LIMIT: 3})


def main():
    seed(1)
    section_view()
    out(f"rng {rng_digest()}")
    section_keys()
    out(f"rng {rng_digest()}")
    section_swap_condition()
    section_rewire()
    out(f"final rng {rng_digest()} counters {counters()}")


if __name__ == "__main__":
    main()
