import sys, os; sys.path.insert(0, os.getcwd())
# Variant a: gcmpy/network/network.py  Network.__init__ stores its fresh graph
# through the G setter instead of writing the private field directly.
# Exercises Network / EECC construction and everything that consumes a Network.
import hashlib
import pickle
import random

import numpy as np
import networkx as nx

from gcmpy.network.network import Network
from gcmpy.network.edge_list import LightWeightEdgeList
from gcmpy.network.edge_list_to_network import EdgeListToNetwork
from gcmpy.network.network_to_edge_list import NetworkToEdgeList
from gcmpy.names.network_names import NetworkNames
from gcmpy.names.gcm_algorithm_names import GCMAlgorithmNames
from gcmpy.gcm_algorithm.gcm_algorithm_network import GCMAlgorithmNetwork
from gcmpy.gcm_algorithm.gcm_algorithm_factory import GCMAlgorithmFactory
from gcmpy.gcm_algorithm.gcm_algorithm_types import GCMAlgorithmTypes
from gcmpy.motif_generators.clique_motif import clique_motif
from gcmpy.motif_generators.cycle_motif import cycle_motif
from gcmpy.covers.eecc import EECC

LINES = []


def out(*parts):
    line = " ".join(str(p) for p in parts)
    LINES.append(line)
    print(line)


def rng_state():
    h = hashlib.sha256()
    h.update(repr(random.getstate()).encode())
    s = np.random.get_state()
    h.update(repr((s[0], s[1].tolist(), s[2], s[3], s[4])).encode())
    return h.hexdigest()[:16]


def attempt(label, fn):
    try:
        r = fn()
        out(label, "->", r)
        return r
    except BaseException as e:  # noqa
        out(label, "!!", type(e).__name__, "|", e)
        return None


def graph_digest(G):
    nodes = [(n, repr(sorted(d.items(), key=repr))) for n, d in G.nodes(data=True)]
    edges = [(u, v, repr(sorted(d.items(), key=repr))) for u, v, d in G.edges(data=True)]
    return hashlib.sha256(repr((type(G).__name__, nodes, edges)).encode()).hexdigest()[:16]


def el_digest(el):
    return hashlib.sha256(
        repr((el.edge_list, el.topologies, el.joint_degrees, el.motif_id)).encode()
    ).hexdigest()[:16]


random.seed(20261004)
np.random.seed(20261004)

# ---- 1. the class object itself --------------------------------------------
out("class dict", sorted(k for k in vars(Network) if not k.startswith("__")))
out("G descriptor", type(vars(Network)["G"]).__name__,
    vars(Network)["G"].fget is not None, vars(Network)["G"].fset is not None,
    vars(Network)["G"].fdel)
out("mro", [c.__name__ for c in Network.__mro__], [c.__name__ for c in EECC.__mro__])
out("has class attr _G", hasattr(Network, "_G"), hasattr(EECC, "_G"))

# ---- 2. fresh objects ---------------------------------------------------------
for cls in (Network, EECC):
    for rep in range(3):
        n = cls()
        out(cls.__name__, rep, "vars", list(vars(n).keys()),
            type(n._G).__name__, type(n._G) is nx.Graph, n.G is n._G,
            n._G.number_of_nodes(), n._G.number_of_edges(), dict(n._G.graph),
            n.has_edges(), n.find_cliques())
    a, b = cls(), cls()
    out(cls.__name__, "fresh graphs distinct", a.G is not b.G, a._G is not b._G)
    a.add_edge((1, 2))
    out(cls.__name__, "no sharing", sorted(a.G.edges()), sorted(b.G.edges()))
    # re-running __init__ on a live object replaces the graph with a new empty one
    old = a.G
    r = a.__init__()
    out(cls.__name__, "re-init", r, a.G is not old, list(vars(a).keys()),
        a.G.number_of_edges(), old.number_of_edges())

# object without __init__: the field does not exist
raw = Network.__new__(Network)
attempt("raw.G", lambda: raw.G)
attempt("raw._G", lambda: raw._G)
attempt("raw.has_edges", lambda: raw.has_edges())
attempt("raw vars", lambda: list(vars(raw).keys()))
attempt("Network(1)", lambda: Network(1))
attempt("EECC(1)", lambda: EECC(1))
attempt("Network(G=1)", lambda: Network(G=1))

# ---- 3. the container methods, repeated calls on one object -----------------------
n = Network()
attempt("add_edge ok", lambda: n.add_edge((0, 1)))
attempt("add_edge attr", lambda: n.add_edge((1, 2, {"w": 3})))
attempt("add_edge 1-tuple", lambda: n.add_edge((1,)))
attempt("add_edge 4-tuple", lambda: n.add_edge((1, 2, 3, 4)))
attempt("add_edge unhashable", lambda: n.add_edge(([1], 2)))
attempt("add_edge None node", lambda: n.add_edge((None, 2)))
attempt("add_edge int", lambda: n.add_edge(5))
attempt("add_edges_from", lambda: n.add_edges_from([(2, 3), (3, 0), (0, 2), (5, 5)]))
attempt("add_edges_from bad", lambda: n.add_edges_from([(7, 8), (9,)]))
attempt("add_edges_from None", lambda: n.add_edges_from(None))
out("graph", graph_digest(n.G), sorted(map(sorted, n.find_cliques())), n.has_edges())
attempt("remove present", lambda: n.remove_edge(0, 1))
attempt("remove absent", lambda: n.remove_edge(0, 1))
attempt("remove unknown node", lambda: n.remove_edge(100, 101))
attempt("remove unhashable", lambda: n.remove_edge([1], 2))
out("graph", graph_digest(n.G), n.has_edges())
for e in list(n.G.edges()):
    n.remove_edge(*e)
out("emptied", graph_digest(n.G), n.has_edges(), n.find_cliques())

# setter / getter with all kinds of values
for v in (nx.Graph([(1, 2)]), nx.DiGraph([(1, 2), (2, 1)]), nx.MultiGraph([(1, 2), (1, 2)]),
          None, 7, "graph"):
    m = Network()
    before = m.G
    m.G = v
    out("set", type(v).__name__, m.G is v, m._G is v, list(vars(m).keys()), before is not v)
    attempt("  has_edges", lambda: m.has_edges())
    attempt("  find_cliques", lambda: sorted(map(sorted, m.find_cliques())))
    attempt("  add_edge", lambda: m.add_edge((3, 4)))
    attempt("  remove_edge", lambda: m.remove_edge(3, 4))
attempt("del G", lambda: delattr(Network(), "G"))

# pickling / copying of the containers
n = Network()
n.add_edges_from([(0, 1), (1, 2)])
n2 = pickle.loads(pickle.dumps(n))
out("pickle", list(vars(n2).keys()), graph_digest(n2.G), n2.G is not n.G)
import copy
n3 = copy.copy(n)
n4 = copy.deepcopy(n)
out("copy", n3.G is n.G, n4.G is not n.G, graph_digest(n4.G))

# ---- 4. EECC on top of the base container -----------------------------------------
e = EECC()
out("eecc fresh", list(vars(e).keys()), e._m0, type(e.G) is nx.Graph)
e.add_edges_from([(0, 1), (1, 2), (0, 2), (2, 3), (3, 4), (2, 4), (4, 5), (0, 3), (1, 3)])
e.set_max_clique_size(3)
attempt("eecc limited", lambda: e.limited_maximal_cliques())
e.set_max_clique_size(4)
attempt("eecc limited 4", lambda: e.limited_maximal_cliques())
attempt("eecc cliques", lambda: sorted(map(sorted, e.find_cliques())))
out("rng", rng_state())

# ---- 5. EdgeListToNetwork builds on Network() ---------------------------------------


def mk(edges, tops, jds, ids):
    el = LightWeightEdgeList()
    el.edge_list = edges
    el.topologies = tops
    el.joint_degrees = jds
    el.motif_id = ids
    return el


CASES = {
    "empty": ([], [], [], []),
    "isolated only": ([], [], [(0, 0)] * 4, []),
    "simple": ([(0, 1), (1, 2)], ["2-clique", "2-clique"], [(1, 0), (2, 0), (1, 0), (0, 0)], [0, 1]),
    "triangle+edge": ([(0, 1), (0, 2), (1, 2), (2, 3)], ["3-clique"] * 3 + ["2-clique"],
                      [(0, 1), (0, 1), (1, 1), (1, 0), (0, 0)], [0, 0, 0, 1]),
    "duplicate pair": ([(0, 1), (1, 0), (0, 1)], ["a", "b", "c"], [(3,), (3,)], [0, 1, 2]),
    "self loop": ([(0, 0), (0, 1)], ["a", "b"], [(3,), (1,)], [0, 1]),
    "vertex beyond jds": ([(0, 5)], ["a"], [(1,), (0,)], [0]),
    "short topologies": ([(0, 1), (1, 2)], ["a"], [(1,), (2,), (1,)], [0, 1]),
    "short ids": ([(0, 1), (1, 2)], ["a", "b"], [(1,), (2,), (1,)], [0]),
    "lists as edges": ([[0, 1]], ["a"], [(1,), (1,)], [0]),
    "3-tuples": ([(0, 1, {"w": 1})], ["a"], [(1,), (1,)], [0]),
    "None jds": ([(0, 1)], ["a"], None, [0]),
    "None edges": (None, ["a"], [(1,)], [0]),
    "string nodes": ([("x", "y")], ["a"], [(1,), (1,)], [0]),
    "generator-free tuple seqs": (((0, 1), (1, 2)), ("a", "b"), ((1,), (2,), (1,)), (4, 9)),
}
for name, c in CASES.items():
    def run():
        el = mk(*c)
        g = EdgeListToNetwork.convert(el)
        d1 = (type(g).__name__, list(vars(g).keys()), type(g.G) is nx.Graph, graph_digest(g.G))
        g_again = EdgeListToNetwork.convert(el)
        back = NetworkToEdgeList.convert(g)
        d2 = (g_again.G is not g.G, graph_digest(g_again.G))
        d3 = (back.edge_list, back.topologies, back.joint_degrees, back.motif_id)
        return d1, d2, d3
    attempt("convert[" + name + "]", run)
attempt("convert(None)", lambda: EdgeListToNetwork.convert(None))
attempt("back(None)", lambda: NetworkToEdgeList.convert(None))
attempt("back(empty Network)", lambda: el_digest(NetworkToEdgeList.convert(Network())))
attempt("back(EECC)", lambda: el_digest(NetworkToEdgeList.convert(EECC())))
bare = Network()
bare.add_edge((0, 1))
attempt("back(unannotated)", lambda: el_digest(NetworkToEdgeList.convert(bare)))
bare.G = None
attempt("back(G None)", lambda: el_digest(NetworkToEdgeList.convert(bare)))
out("rng", rng_state())

# ---- 6. random graphs through the algorithm entry points -----------------------------
for seed in (1, 2, 3, 4, 5):
    random.seed(seed)
    np.random.seed(seed)
    nv = 30 + 7 * seed
    jds = [(random.randrange(0, 4), random.randrange(0, 3)) for _ in range(nv)]
    params = {
        GCMAlgorithmNames.MOTIF_SIZES: [2, 3],
        GCMAlgorithmNames.EDGE_NAMES: ["2-clique", "3-clique"],
        GCMAlgorithmNames.BUILD_FUNCTIONS: [clique_motif, cycle_motif if seed % 2 else clique_motif],
    }
    alg = GCMAlgorithmFactory.resolve_algorithm(GCMAlgorithmTypes.NETWORK, params)
    for rep in range(3):  # repeated calls on one object
        g = alg.random_clustered_graph(jds)
        back = NetworkToEdgeList.convert(g)
        g2 = EdgeListToNetwork.convert(back)
        back2 = NetworkToEdgeList.convert(g2)
        out("gcm", seed, rep, type(g).__name__, list(vars(g).keys()), graph_digest(g.G),
            el_digest(back), graph_digest(g2.G), el_digest(back2),
            g.has_edges(), len(g.find_cliques()), rng_state())
    alg2 = GCMAlgorithmNetwork(params)
    attempt("gcm empty jds", lambda: graph_digest(alg2.random_clustered_graph([]).G))
    attempt("gcm None jds", lambda: graph_digest(alg2.random_clustered_graph(None).G))
    out("rng", rng_state())

out("FINAL", hashlib.sha256("\n".join(LINES).encode()).hexdigest(), rng_state())
