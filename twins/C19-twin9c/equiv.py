import sys, os; sys.path.insert(0, os.getcwd())
import hashlib
import random
import warnings
from decimal import Decimal
from fractions import Fraction

import numpy as np

import gcmpy
from gcmpy.distributions.poisson import poisson

random.seed(1903)
np.random.seed(1903)
warnings.simplefilter("always")


def show(x):
    if isinstance(x, np.ndarray):
        return "ndarray(%s,%s,%s)" % (x.dtype, x.shape, [repr(v) for v in x.ravel().tolist()])
    return "%s:%r" % (type(x).__name__, x)


def attempt(label, fn):
    with warnings.catch_warnings(record=True) as w:
        warnings.simplefilter("always")
        try:
            out = show(fn())
        except BaseException as e:
            out = "EXC %s %s" % (type(e).__name__, e)
    ws = "; ".join("%s %s" % (x.category.__name__, x.message) for x in w)
    print(label, "->", out, "| warnings:", ws)


class Powerful:
    """Records how it is raised to a power."""

    def __init__(self):
        self.log = []

    def __neg__(self):
        self.log.append("neg")
        return -2.0

    def __pow__(self, other, mod="absent"):
        self.log.append(("pow", other, mod))
        return 3.0

    def __rpow__(self, other, mod="absent"):
        self.log.append(("rpow", other, mod))
        return 5.0


KS = [0, 1, 2, 3, 7, 10, 20, 100, 170, 171, 400, 2000, -1, -3, 0.5, 2.0, 2.5, True, False,
      np.int64(4), np.int32(3), np.uint8(5), np.float32(3.0), np.float64(2.0),
      float("inf"), float("nan"), 1 + 2j, "3", None, [1], Fraction(3, 2), Fraction(4, 1),
      Decimal(2), np.array([1, 2, 3]), np.array([2]), np.array([1.0, 4.0]), 5000]

MEANS = [2.5, 1.0, 0.0, -0.0, 0, 1, 3, 10, 1e-300, 1e-9, 0.3, 50.0, 700.0, 745.2, 800.0, 1e308,
         -1.0, -2.5, -3, float("inf"), -float("inf"), float("nan"), True, False,
         2 + 1j, Fraction(5, 2), np.float32(2.5), np.float16(3.0), np.float64(4.5),
         np.int64(3), np.int8(-2), np.array([2.0]), np.array(2.5), np.array([2.0, 3.0]),
         np.array([1, 2, 3]), np.array([], dtype=float), Decimal("2.5"), "2", None, [2.0], (2,)]

for mean in MEANS:
    tag = "kmean=" + show(mean)
    holder = {}

    def build(mean=mean, holder=holder):
        holder["p"] = poisson(mean)
        return "built"

    attempt(tag + " build", build)
    p = holder.get("p")
    if p is None:
        continue
    for k in KS:
        attempt("  " + tag + " k=" + show(k), lambda: p(k))
    attempt("  repeat k=3", lambda: p(3))
    attempt("  repeat k=3", lambda: p(3))
    attempt("  sum 0..170", lambda: sum(p(k) for k in range(0, 171)))
    print("  kmean after:", show(mean))

obj = Powerful()
p = poisson(obj)
for k in (0, 2, 3.5, "x", None, obj):
    attempt("Powerful kmean k=%s" % (k if k is not obj else "self"), lambda: p(k))
print("log:", [e if e == "neg" else (e[0], "self" if e[1] is obj else e[1], e[2]) for e in obj.log])

obj2 = Powerful()
for mean in (2.0, 3, np.float64(2.0), "s"):
    attempt("Powerful k kmean=%r" % (mean,), lambda: poisson(mean)(obj2))
print("log2:", obj2.log)

for mean in (2.5, 1.0, 7.0):
    attempt("pkg-level %r" % mean, lambda: gcmpy.poisson(mean)(5))
    attempt("keyword %r" % mean, lambda: poisson(kmean=mean)(k=5))

for _ in range(60):
    mean = 30.0 * random.random()
    p = poisson(mean)
    print("rand kmean=%r" % mean, [repr(p(k)) for k in (0, 1, 2, 5, 17, 50, 160)])

print("py rng:", hashlib.sha256(repr(random.getstate()).encode()).hexdigest())
st = np.random.get_state()
print("np rng:", hashlib.sha256(repr((st[0], st[1].tolist(), st[2], st[3], st[4])).encode()).hexdigest())
