"""
Behavioural digest of the existing degree distribution factories, exercised
through their EXISTING signatures only. Run with cwd = a checkout of gcmpy.
"""
import hashlib
import os
import random
import sys
import warnings
from fractions import Fraction

warnings.simplefilter("ignore")
sys.path.insert(0, os.getcwd())

import numpy as np  # noqa: E402

from gcmpy.distributions.exponential import exponential  # noqa: E402
from gcmpy.distributions.poisson import poisson  # noqa: E402
from gcmpy.distributions.power_law import power_law  # noqa: E402
from gcmpy.distributions.scale_free_cut_off import scale_free_cut_off  # noqa: E402
import gcmpy  # noqa: E402
import gcmpy.distributions as D  # noqa: E402

random.seed(12345)
np.random.seed(54321)


def show(x):
    if isinstance(x, np.ndarray):
        return "ndarray(%s,%s,%s)" % (x.dtype, x.shape, [show(v) for v in x.tolist()])
    if isinstance(x, (list, tuple)):
        return type(x).__name__ + "[" + ", ".join(show(v) for v in x) + "]"
    if callable(x) and hasattr(x, "__qualname__"):
        return "callable:%s:%s" % (type(x).__name__, x.__qualname__)
    if isinstance(x, float):  # includes np.float64
        return "%s:%s:%s" % (type(x).__name__, repr(float(x)), float(x).hex())
    return "%s:%r" % (type(x).__name__, x)


def attempt(label, fn, *args, **kwargs):
    try:
        with np.errstate(all="ignore"):
            res = fn(*args, **kwargs)
        out = "OK " + show(res)
    except BaseException as e:  # noqa: B902
        out = "EXC %s: %s" % (type(e).__name__, e)
        res = None
    print(label, "->", out)
    return res


def rng_digest():
    h = hashlib.sha256()
    h.update(repr(random.getstate()).encode())
    st = np.random.get_state()
    h.update(repr((st[0], st[1].tolist(), st[2], st[3], st[4])).encode())
    return h.hexdigest()


KS = [
    0,
    1,
    2,
    3,
    5,
    10,
    25,
    100,
    170,
    171,
    1000,
    -1,
    -3,
    2.0,
    2.5,
    True,
    np.int64(4),
    np.int32(7),
    np.float64(3.0),
    Fraction(3, 2),
    2000,
    "3",
    None,
    [1, 2],
    np.array([1, 2, 3]),
    np.array([0.0, 1.5]),
    1 + 2j,
    float("inf"),
    float("nan"),
]


def exercise(label, factory, args):
    print("=" * 8, label, show(list(args)))
    p = attempt(label + " construct", lambda: factory(*args))
    if p is None or not callable(p):
        # constructor raised
        return
    # identity facts about the returned function
    print(label, "type", type(p).__name__, "name", p.__name__, "qualname", p.__qualname__)
    print(label, "defaults", p.__defaults__, "dict", p.__dict__, "doc", p.__doc__)
    print(label, "annotations", sorted((k, getattr(v, "__name__", v)) for k, v in p.__annotations__.items()))
    for k in KS:
        attempt("%s p(%s)" % (label, show(k)), p, k)
    # repeated calls on the same object, and a second independent object
    for rep in range(3):
        attempt("%s repeat%d p(3)" % (label, rep), p, 3)
    p2 = factory(*args)
    print(label, "distinct objects", p2 is not p)
    attempt("%s second p(4)" % label, p2, 4)
    attempt("%s first again p(4)" % label, p, 4)
    # keyword call of the returned function
    attempt("%s p(k=2)" % label, lambda: p(k=2))
    attempt("%s p()" % label, lambda: p())
    attempt("%s p(1, 2)" % label, lambda: p(1, 2))
    # sums over the support
    lo = 1 if factory in (power_law, scale_free_cut_off) else 0
    def total(n):
        s = 0.0
        for k in range(lo, n):
            s += p(k)
        return s
    attempt("%s sum<60" % label, total, 60)
    attempt("%s sum<160" % label, total, 160)
    attempt("%s list" % label, lambda: [p(k) for k in range(lo, 40)])
    print(label, "rng", rng_digest())


# ---------------------------------------------------------------- exponential
for a in [0.5, 1.0, 2.0, 1e-3, 50.0, 800.0, 0.0, -0.5, 1, np.float64(0.7),
          np.float32(0.7), Fraction(1, 3), "x", None, np.array([0.5, 1.0]),
          float("inf"), float("nan"), 1j]:
    exercise("exponential", exponential, (a,))

# -------------------------------------------------------------------- poisson
for m in [2.5, 1.0, 0.0, 0.1, 10.0, 50.0, 800.0, -1.0, 3, np.float64(2.5),
          np.float32(2.5), Fraction(5, 2), "x", None, np.array([1.0, 2.0]),
          float("inf"), float("nan"), 2j]:
    exercise("poisson", poisson, (m,))

# ------------------------------------------------------------------ power_law
for al in [2.5, 2.0, 3.0, 1.5, 2.1, 4, 10.0, 60.0, np.float64(2.5),
           np.float32(2.5), Fraction(5, 2), "x", None, np.array([2.0, 3.0]),
           float("inf"), 2 + 1j, True + 1]:
    exercise("power_law", power_law, (al,))

# --------------------------------------------------------- scale_free_cut_off
for al, ka in [(2.5, 10.0), (2.0, 5.0), (3.0, 100.0), (1.0, 2.0), (0.0, 3.0),
               (0.5, 1.0), (-1.0, 2.0), (2.5, 1e-3), (2.5, 0.0), (2.5, 0),
               (2, 10), (np.float64(2.5), np.float64(10.0)),
               (np.float32(2.5), np.float32(10.0)), (Fraction(5, 2), 10.0),
               (2.5, Fraction(10, 1)), ("x", 10.0), (2.5, "y"), (None, 10.0),
               (2.5, None), (np.array([2.0, 3.0]), 10.0), (2.5, float("inf")),
               (2.5, 1e4)]:
    exercise("scale_free_cut_off", scale_free_cut_off, (al, ka))

# ------------------------------------------------------- wrong argument shapes
for name, f in [("exponential", exponential), ("poisson", poisson),
                ("power_law", power_law), ("scale_free_cut_off", scale_free_cut_off)]:
    attempt(name + "()", lambda: f())
    attempt(name + "(1,2,3,4,5)", lambda: f(1, 2, 3, 4, 5))
    attempt(name + "(bogus=1)", lambda: f(bogus=1))
attempt("exponential(a=0.5)(2)", lambda: exponential(a=0.5)(2))
attempt("poisson(kmean=2.5)(2)", lambda: poisson(kmean=2.5)(2))
attempt("power_law(alpha=2.5)(2)", lambda: power_law(alpha=2.5)(2))
attempt("scale_free_cut_off(alpha=2.5,kappa=10.0)(2)",
        lambda: scale_free_cut_off(alpha=2.5, kappa=10.0)(2))
attempt("scale_free_cut_off(kappa=10.0,alpha=2.5)(2)",
        lambda: scale_free_cut_off(kappa=10.0, alpha=2.5)(2))
attempt("scale_free_cut_off(2.5)", lambda: scale_free_cut_off(2.5))

# --------------------------------------------------- the same objects re-exported
print("reexport", gcmpy.exponential is exponential, gcmpy.poisson is poisson,
      gcmpy.power_law is power_law, gcmpy.scale_free_cut_off is scale_free_cut_off)
print("reexport", D.exponential is exponential, D.poisson is poisson,
      D.power_law is power_law, D.scale_free_cut_off is scale_free_cut_off)
for f in (exponential, poisson, power_law, scale_free_cut_off):
    print("factory", f.__name__, f.__qualname__, f.__module__)

# ------------------------------------ use through the library (draws randomness)
from gcmpy.joint_degree.joint_degree_loaders.joint_degree_marginal import (  # noqa: E402
    JointDegreeMarginal,
)
from gcmpy.names.joint_degree_names import JointDegreeNames  # noqa: E402


def marginal(fps, bounds, sizes, n):
    params = {}
    params[JointDegreeNames.MOTIF_SIZES] = sizes
    params[JointDegreeNames.ARR_FP] = fps
    params[JointDegreeNames.LOW_HIGH_DEGREE_BOUND] = bounds
    obj = JointDegreeMarginal(params)
    jds = obj.sample_jds_from_jdd(n)
    h = hashlib.sha256(repr(jds).encode()).hexdigest()
    return "n=%d head=%r sha=%s" % (len(jds), jds[:5], h)


attempt("marginal poisson", marginal, [poisson(2.5)], [(0, 10)], [2], 500)
print("rng", rng_digest())
attempt("marginal poisson x2", marginal, [poisson(2.5), poisson(1.5)],
        [(0, 10), (0, 8)], [2, 3], 400)
print("rng", rng_digest())
attempt("marginal power_law", marginal, [power_law(2.5)], [(1, 30)], [2], 500)
print("rng", rng_digest())
attempt("marginal scale_free", marginal, [scale_free_cut_off(2.5, 10.0)],
        [(1, 30)], [2], 500)
print("rng", rng_digest())
attempt("marginal exponential", marginal, [exponential(0.5)], [(0, 30)], [2], 500)
print("rng", rng_digest())
shared = poisson(2.0)
attempt("marginal shared object", marginal, [shared, shared], [(0, 9), (0, 9)],
        [2, 3], 300)
attempt("marginal shared object again", marginal, [shared, shared],
        [(0, 9), (0, 9)], [2, 3], 300)
print("rng final", rng_digest())
print("random next", repr(random.random()), "numpy next", repr(float(np.random.random())))
