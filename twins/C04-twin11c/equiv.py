import sys, os; sys.path.insert(0, os.getcwd())
# Variant c: gcmpy/gcm_algorithm/gcm_algorithm_network.py
# GCMAlgorithmNetwork.random_clustered_graph hands its three settings to GCMAlgorithmFast
# in a dict display instead of three subscript stores.  Exercises the method directly,
# through the factory, on good and malformed parameter dicts, on damaged objects, and
# repeatedly on one object; records what the inner algorithm actually receives.
import hashlib
import random

import numpy as np
import networkx as nx

from gcmpy.network.network import Network
from gcmpy.network.edge_list_to_network import EdgeListToNetwork
from gcmpy.network.network_to_edge_list import NetworkToEdgeList
from gcmpy.names.gcm_algorithm_names import GCMAlgorithmNames
from gcmpy.names.network_names import NetworkNames
from gcmpy.gcm_algorithm.gcm_algorithm import GCMAlgorithm
from gcmpy.gcm_algorithm.gcm_algorithm_fast import GCMAlgorithmFast
from gcmpy.gcm_algorithm.gcm_algorithm_network import GCMAlgorithmNetwork
from gcmpy.gcm_algorithm.gcm_algorithm_factory import GCMAlgorithmFactory
from gcmpy.gcm_algorithm.gcm_algorithm_types import GCMAlgorithmTypes
from gcmpy.motif_generators.clique_motif import clique_motif
from gcmpy.motif_generators.cycle_motif import cycle_motif
from gcmpy.motif_generators.diamond_motif import diamond_motif

LINES = []
N = GCMAlgorithmNames


def out(*parts):
    line = " ".join(str(p) for p in parts)
    LINES.append(line)
    print(line)


def rng_state():
    h = hashlib.sha256()
    h.update(repr(random.getstate()).encode())
    s = np.random.get_state()
    h.update(repr((s[0], s[1].tolist(), s[2], s[3], s[4])).encode())
    return h.hexdigest()[:16]


def attempt(label, fn):
    try:
        r = fn()
        out(label, "->", r)
        return r
    except BaseException as e:  # noqa
        out(label, "!!", type(e).__name__, "|", e, "| rng", rng_state())
        return None


def graph_digest(G):
    nodes = [(n, repr(sorted(d.items(), key=repr))) for n, d in G.nodes(data=True)]
    edges = [(u, v, repr(sorted(d.items(), key=repr))) for u, v, d in G.edges(data=True)]
    return hashlib.sha256(repr((type(G).__name__, nodes, edges)).encode()).hexdigest()[:16]


def el_digest(el):
    return hashlib.sha256(
        repr((el.edge_list, el.topologies, el.joint_degrees, el.motif_id)).encode()
    ).hexdigest()[:16]


def describe(g):
    if not isinstance(g, Network):
        return ("not a Network", type(g).__name__)
    back = NetworkToEdgeList.convert(g)
    return (type(g).__name__, list(vars(g).keys()), type(g.G) is nx.Graph, g.G.number_of_nodes(),
            g.G.number_of_edges(), graph_digest(g.G), el_digest(back))


class Spy(list):
    """a list that records every read made of it"""

    log = []

    def __init__(self, name, items):
        super().__init__(items)
        self.name = name

    def __getitem__(self, i):
        Spy.log.append((self.name, i))
        return super().__getitem__(i)


def padded_jds(nv, sizes, rng_hi):
    jds = [tuple(random.randrange(0, hi) for hi in rng_hi) for _ in range(nv)]
    for k, size in enumerate(sizes):
        for _ in range((-sum(jd[k] for jd in jds)) % size):
            jds.append(tuple(1 if i == k else 0 for i in range(len(sizes))))
    return jds


random.seed(2026)
np.random.seed(2026)

out("class dict", sorted(k for k in vars(GCMAlgorithmNetwork) if not k.startswith("__")),
    [c.__name__ for c in GCMAlgorithmNetwork.__mro__])

# ---- 1. good parameters, direct and via the factory, repeated calls ----------------------
GOOD = {
    "2+3 cliques": ([2, 3], ["2-clique", "3-clique"], [clique_motif, clique_motif], (4, 3)),
    "2+3+4": ([2, 3, 4], ["e", "cyc", "dia"], [clique_motif, cycle_motif, diamond_motif], (4, 3, 2)),
    "only edges": ([2], ["2-clique"], [clique_motif], (5,)),
    "tuples": ((2, 3), ("a", "b"), (clique_motif, cycle_motif), (3, 3)),
}
for name, (sizes, names, fns, hi) in GOOD.items():
    for seed in (11, 12, 13):
        random.seed(seed)
        np.random.seed(seed)
        jds = padded_jds(25 + seed, sizes, hi)
        params = {N.MOTIF_SIZES: sizes, N.EDGE_NAMES: names, N.BUILD_FUNCTIONS: fns}
        snapshot = dict(params)
        for how in ("direct", "factory"):
            alg = (GCMAlgorithmNetwork(params) if how == "direct"
                   else GCMAlgorithmFactory.resolve_algorithm(GCMAlgorithmTypes.NETWORK, params))
            state0 = dict(vars(alg))
            for rep in range(3):
                g = alg.random_clustered_graph(jds)
                out("good", name, seed, how, rep, len(jds), describe(g), rng_state())
            # neither the caller's dict nor the object's fields are touched
            out("  untouched", params == snapshot, list(params.keys()) == list(snapshot.keys()),
                list(vars(alg).keys()),
                all(vars(alg)[k] is state0[k] for k in state0),
                alg._motif_sizes is sizes, alg._build_functions is fns, alg._edge_names is names)
        # same stream as the fast algorithm followed by the converter
        random.seed(seed)
        np.random.seed(seed)
        ref = EdgeListToNetwork.convert(GCMAlgorithmFast(params).random_clustered_graph(jds))
        random.seed(seed)
        np.random.seed(seed)
        got = GCMAlgorithmNetwork(params).random_clustered_graph(jds)
        out("  same as fast+convert", graph_digest(ref.G) == graph_digest(got.G), rng_state())

# ---- 2. what the inner algorithm receives ----------------------------------------------------
seen = []
orig_init = GCMAlgorithmFast.__init__


def spying_init(self, params):
    seen.append((type(params).__name__, [k.name for k in params.keys()],
                 [type(v).__name__ for v in params.values()], len(params)))
    seen.append(params)
    return orig_init(self, params)


GCMAlgorithmFast.__init__ = spying_init
try:
    sizes, fns, names = Spy("sizes", [2, 3]), Spy("fns", [clique_motif, clique_motif]), Spy("names", ["a", "b"])
    alg = GCMAlgorithmNetwork({N.MOTIF_SIZES: sizes, N.BUILD_FUNCTIONS: fns, N.EDGE_NAMES: names})
    random.seed(5)
    jds = padded_jds(12, [2, 3], (3, 2))
    Spy.log.clear()
    g = alg.random_clustered_graph(jds)
    handed = seen[1]
    out("handed dict", seen[0], handed[N.MOTIF_SIZES] is sizes, handed[N.BUILD_FUNCTIONS] is fns,
        handed[N.EDGE_NAMES] is names, describe(g))
    out("reads", len(Spy.log), hashlib.sha256(repr(Spy.log).encode()).hexdigest()[:16], Spy.log[:12])
    g = alg.random_clustered_graph(jds)
    out("second call gets a new dict", seen[3] is not seen[1], seen[2] == seen[0], describe(g), rng_state())
finally:
    GCMAlgorithmFast.__init__ = orig_init
seen.clear()

# ---- 3. malformed parameter dicts (constructor) and malformed contents (method) -----------------
random.seed(77)
JDS = padded_jds(10, [2, 3], (3, 2))
BAD_CTOR = {
    "empty dict": {},
    "no sizes": {N.EDGE_NAMES: ["a", "b"], N.BUILD_FUNCTIONS: [clique_motif] * 2},
    "no names": {N.MOTIF_SIZES: [2, 3], N.BUILD_FUNCTIONS: [clique_motif] * 2},
    "no builders": {N.MOTIF_SIZES: [2, 3], N.EDGE_NAMES: ["a", "b"]},
    "string keys": {"motif_sizes": [2, 3], "edge_names": ["a", "b"], "build_functions": [clique_motif] * 2},
    "None": None,
    "list": [1, 2, 3],
}
for name, p in BAD_CTOR.items():
    attempt("ctor[" + name + "]", lambda: type(GCMAlgorithmNetwork(p)).__name__)
    attempt("factory[" + name + "]",
            lambda: type(GCMAlgorithmFactory.resolve_algorithm(GCMAlgorithmTypes.NETWORK, p)).__name__)
attempt("ctor no args", lambda: GCMAlgorithmNetwork())
attempt("abstract base", lambda: GCMAlgorithm({}))
attempt("factory unknown", lambda: GCMAlgorithmFactory.resolve_algorithm("network", {}))


def boom(vs):
    raise KeyError("builder failed")


BAD_CONTENT = {
    "extra key": {N.MOTIF_SIZES: [2, 3], N.EDGE_NAMES: ["a", "b"], N.BUILD_FUNCTIONS: [clique_motif] * 2,
                  N.MOTIF_INDICES: [[0]], "x": 1},
    "short sizes": {N.MOTIF_SIZES: [2], N.EDGE_NAMES: ["a", "b"], N.BUILD_FUNCTIONS: [clique_motif] * 2},
    "short names": {N.MOTIF_SIZES: [2, 3], N.EDGE_NAMES: ["a"], N.BUILD_FUNCTIONS: [clique_motif] * 2},
    "short builders": {N.MOTIF_SIZES: [2, 3], N.EDGE_NAMES: ["a", "b"], N.BUILD_FUNCTIONS: [clique_motif]},
    "None sizes": {N.MOTIF_SIZES: None, N.EDGE_NAMES: ["a", "b"], N.BUILD_FUNCTIONS: [clique_motif] * 2},
    "None names": {N.MOTIF_SIZES: [2, 3], N.EDGE_NAMES: None, N.BUILD_FUNCTIONS: [clique_motif] * 2},
    "None builders": {N.MOTIF_SIZES: [2, 3], N.EDGE_NAMES: ["a", "b"], N.BUILD_FUNCTIONS: None},
    "zero size": {N.MOTIF_SIZES: [0, 3], N.EDGE_NAMES: ["a", "b"], N.BUILD_FUNCTIONS: [clique_motif] * 2},
    "float size": {N.MOTIF_SIZES: [2.0, 3], N.EDGE_NAMES: ["a", "b"], N.BUILD_FUNCTIONS: [clique_motif] * 2},
    "raising builder": {N.MOTIF_SIZES: [2, 3], N.EDGE_NAMES: ["a", "b"], N.BUILD_FUNCTIONS: [clique_motif, boom]},
    "not callable": {N.MOTIF_SIZES: [2, 3], N.EDGE_NAMES: ["a", "b"], N.BUILD_FUNCTIONS: [clique_motif, 3]},
    "builder returns None": {N.MOTIF_SIZES: [2, 3], N.EDGE_NAMES: ["a", "b"],
                             N.BUILD_FUNCTIONS: [clique_motif, lambda vs: None]},
    "builder returns triples": {N.MOTIF_SIZES: [2, 3], N.EDGE_NAMES: ["a", "b"],
                                N.BUILD_FUNCTIONS: [clique_motif, lambda vs: [tuple(vs)]]},
    "unhashable names": {N.MOTIF_SIZES: [2, 3], N.EDGE_NAMES: [["a"], {"b": 1}],
                         N.BUILD_FUNCTIONS: [clique_motif] * 2},
    "dict as sizes": {N.MOTIF_SIZES: {0: 2, 1: 3}, N.EDGE_NAMES: {0: "a", 1: "b"},
                      N.BUILD_FUNCTIONS: {0: clique_motif, 1: clique_motif}},
}
for name, p in BAD_CONTENT.items():
    random.seed(31)
    np.random.seed(31)
    try:
        alg = GCMAlgorithmNetwork(p)
        out("make[" + name + "]", type(alg).__name__, list(vars(alg).keys()))
    except BaseException as e:  # noqa
        out("make[" + name + "] !!", type(e).__name__, e)
        continue
    for rep in range(2):
        attempt("run[%s] %d" % (name, rep), lambda: (describe(alg.random_clustered_graph(JDS)), rng_state()))

# malformed joint degree sequences
alg = GCMAlgorithmNetwork({N.MOTIF_SIZES: [2, 3], N.EDGE_NAMES: ["a", "b"], N.BUILD_FUNCTIONS: [clique_motif] * 2})
for name, jds in {
    "empty": [], "None": None, "int": 5, "ragged": [(1, 1), (1,)], "three columns": [(1, 0, 2), (1, 0, 2)],
    "all zero": [(0, 0)] * 5, "negative": [(-1, 0), (1, 0)], "floats": [(1.0, 0), (1.0, 0)],
    "strings": ["ab", "cd"], "odd": [(1, 0)] * 3, "incomplete triangle": [(0, 1)] * 4,
    "generator": (jd for jd in [(1, 0), (1, 0)]),
}.items():
    random.seed(8)
    np.random.seed(8)
    attempt("jds[" + name + "]", lambda: (describe(alg.random_clustered_graph(jds)), rng_state()))

# ---- 4. damaged / rebound objects ------------------------------------------------------------------
for field in ("_motif_sizes", "_build_functions", "_edge_names"):
    random.seed(9)
    np.random.seed(9)
    alg = GCMAlgorithmNetwork({N.MOTIF_SIZES: [2, 3], N.EDGE_NAMES: ["a", "b"],
                               N.BUILD_FUNCTIONS: [clique_motif] * 2})
    delattr(alg, field)
    attempt("deleted " + field, lambda: describe(alg.random_clustered_graph(JDS)))
    out("  state", list(vars(alg).keys()), rng_state())
raw = GCMAlgorithmNetwork.__new__(GCMAlgorithmNetwork)
attempt("uninitialised", lambda: describe(raw.random_clustered_graph(JDS)))
alg = GCMAlgorithmNetwork({N.MOTIF_SIZES: [2, 3], N.EDGE_NAMES: ["a", "b"], N.BUILD_FUNCTIONS: [clique_motif] * 2})
random.seed(10)
alg._motif_sizes = [3, 2]
alg._edge_names = ["tri", "edge"]
attempt("rebound fields", lambda: (describe(alg.random_clustered_graph([(1, 1)] * 6)), rng_state()))
gen = alg.infinite_sequence()
out("infinite_sequence", type(gen).__name__, [next(gen) for _ in range(4)])

# ---- 5. the result is a proper Network: round trip and annotations ---------------------------------------
for seed in range(20, 26):
    random.seed(seed)
    np.random.seed(seed)
    jds = padded_jds(40, [2, 3], (4, 3))
    alg = GCMAlgorithmNetwork({N.MOTIF_SIZES: [2, 3], N.EDGE_NAMES: ["2-clique", "3-clique"],
                               N.BUILD_FUNCTIONS: [clique_motif, clique_motif]})
    g = alg.random_clustered_graph(jds)
    jd_ok = all(g.G.nodes[n][NetworkNames.JOINT_DEGREE] == jds[n] for n in range(len(jds)))
    back = NetworkToEdgeList.convert(g)
    g2 = EdgeListToNetwork.convert(back)
    out("roundtrip", seed, len(jds), g.G.number_of_nodes() == len(jds), jd_ok,
        graph_digest(g.G) == graph_digest(g2.G), graph_digest(g.G), el_digest(back),
        sorted({d[NetworkNames.TOPOLOGY] for _, _, d in g.G.edges(data=True)}), rng_state())

out("FINAL", hashlib.sha256("\n".join(LINES).encode()).hexdigest(), rng_state())
