import sys, os; sys.path.insert(0, os.getcwd())
import hashlib, math, random, collections, types
import numpy as np

from gcmpy.joint_degree.joint_degree import JointDegree
from gcmpy.joint_degree.joint_degree_type import JointDegreeType
from gcmpy.joint_degree.joint_degree_factory import JointDegreeFactory
from gcmpy.joint_degree.joint_degree_distribution import JointDegreeDistribution
from gcmpy.joint_degree.joint_degree_loaders.joint_degree_manual import JointDegreeManual
from gcmpy.joint_degree.joint_degree_loaders.joint_degree_empirical import JointDegreeEmpirical
from gcmpy.joint_degree.joint_degree_loaders.joint_degree_marginal import JointDegreeMarginal
from gcmpy.joint_degree.joint_degree_loaders.joint_degree_function import JointDegreeFunction
from gcmpy.names.joint_degree_names import JointDegreeNames as N

random.seed(20261004)
np.random.seed(20261004)

LINES = []


def emit(*parts):
    line = " | ".join(str(p) for p in parts)
    LINES.append(line)
    print(line)


def fx(v):
    if isinstance(v, bool) or v is None:
        return repr(v)
    if isinstance(v, float):
        return v.hex()
    if isinstance(v, (int, str)):
        return repr(v)
    if isinstance(v, dict):
        return "{" + ", ".join(f"{fx(k)}: {fx(x)}" for k, x in v.items()) + "}"
    if isinstance(v, (list, tuple)):
        o, c = ("[", "]") if isinstance(v, list) else ("(", ")")
        return o + ", ".join(fx(x) for x in v) + c
    if callable(v):
        return "<callable %s>" % getattr(v, "__name__", type(v).__name__)
    return "<%s %r>" % (type(v).__name__, v)


def exc_chain(e):
    out = []
    while e is not None:
        out.append(f"{type(e).__name__}({e})")
        e = e.__context__
    return " <- ".join(out)


def state(obj):
    """publicly visible state of a loader: instance dict in insertion order"""
    if obj is None:
        return "None"
    return type(obj).__name__ + " " + fx(dict(vars(obj)))


def rng():
    h = hashlib.sha256(repr(random.getstate()).encode()).hexdigest()[:16]
    s = np.random.get_state()
    g = hashlib.sha256(s[1].tobytes() + repr(s[2:]).encode()).hexdigest()[:16]
    return f"py={h} np={g}"


def attempt(label, fn):
    try:
        r = fn()
        emit(label, "OK", r, rng())
    except BaseException as e:  # noqa
        emit(label, "EXC", exc_chain(e), rng())


def poisson(lam):
    return lambda k: math.exp(-lam) * lam ** k / math.factorial(k)


def geometric(p):
    return lambda k: p * (1 - p) ** k


def joint(jd):
    return math.exp(-sum(jd)) / (1 + jd[0])


class Weird:
    """equal to everything, hashable"""
    def __eq__(self, other):
        return True
    def __hash__(self):
        return 7
    def __repr__(self):
        return "Weird()"


class Never:
    def __eq__(self, other):
        return False
    __hash__ = None
    def __repr__(self):
        return "Never()"


class CountingDict(dict):
    """dict subclass recording the protocol calls made on it"""
    def __init__(self, *a, **k):
        super().__init__(*a, **k)
        self.log = []
    def __getitem__(self, k):
        self.log.append(("getitem", getattr(k, "name", k)))
        return super().__getitem__(k)
    def __contains__(self, k):
        self.log.append(("contains", getattr(k, "name", k)))
        return super().__contains__(k)
    def get(self, k, d=None):
        self.log.append(("get", getattr(k, "name", k)))
        return super().get(k, d)


def marginal_params(**over):
    p = {
        N.JOINT_DEGREE_TYPE: "marginal",
        N.MOTIF_SIZES: [2, 3],
        N.ARR_FP: [poisson(1.5), geometric(0.4)],
        N.LOW_HIGH_DEGREE_BOUND: [(0, 5), (1, 4)],
    }
    for k, v in over.items():
        key = N[k]
        if v is DROP:
            p.pop(key, None)
        else:
            p[key] = v
    return p


DROP = object()


def all_params():
    return {
        "manual": {N.JOINT_DEGREE_TYPE: "manual", N.MOTIF_SIZES: [2, 3],
                   N.JDD: {(1, 0): 0.25, (2, 1): 0.5, (0, 3): 0.25}},
        "empirical": {N.JOINT_DEGREE_TYPE: "empirical", N.MOTIF_SIZES: [2, 3],
                      N.JDS: [(1, 0), (2, 1), (1, 0), (0, 0), (2, 1), (1, 0), (3, 3)]},
        "function": {N.JOINT_DEGREE_TYPE: "function", N.MOTIF_SIZES: [2, 3],
                     N.FP: joint, N.LOW_HIGH_DEGREE_BOUND: [(0, 3), (1, 2)]},
        "marginal": marginal_params(),
        "marginal_s": marginal_params(USE_SAMPLING=True, N_SAMPLES=500),
        "split_degree": {N.JOINT_DEGREE_TYPE: "split_degree", N.MOTIF_SIZES: [2, 3],
                         N.FP: poisson(2.0), N.PROBS: [0.5, 0.5],
                         N.LOW_HIGH_DEGREE_BOUND: (0, 6)},
        "delta": {N.JOINT_DEGREE_TYPE: "delta", N.MOTIF_SIZES: [2, 3], N.TARGET_K: 4,
                  N.FP: poisson(2.0), N.PROBS: [0.5, 0.5],
                  N.LOW_HIGH_DEGREE_BOUND: (0, 6)},
        "cover": {N.JOINT_DEGREE_TYPE: "cover",
                  N.COVER: [[0, 1], [1, 2], [2, 3, 4], [0, 3, 4], [4, 5]]},
    }


def use(loader, n=25):
    """exercise a built loader repeatedly: jdd, sampling, re-create"""
    out = [state(loader)]
    out.append(fx(loader.jdd))
    try:
        out.append(fx(loader.sample_jds_from_jdd(n)))
        out.append(fx(loader.sample_jds_from_jdd(n + 1)))
    except BaseException as e:  # noqa
        out.append("sampleEXC " + exc_chain(e))
    try:
        loader.create_jdd()
        out.append(fx(loader.jdd))
        loader.create_jdd()
        out.append(fx(loader.jdd))
    except BaseException as e:  # noqa
        out.append("recreateEXC " + exc_chain(e))
    out.append(state(loader))
    return hashlib.sha256("\n".join(out).encode()).hexdigest()[:20] + " n=%d sum=%s" % (
        len(loader.jdd), fx(float(sum(loader.jdd.values()))))


# ---------------------------------------------------------------- variant b
# JointDegreeFactory.resolve_joint_degree : dispatch on the loader type
class EqLogger:
    """records every comparison made against it; equal to `target` only"""
    def __init__(self, target):
        self.target = target
        self.log = []
    def __eq__(self, other):
        self.log.append(getattr(other, "name", repr(other)))
        return other is self.target
    __hash__ = None


class TruthyNotBool:
    """== returns a non-bool whose truth value is consulted"""
    def __init__(self, hits):
        self.hits = hits
        self.log = []
    def __eq__(self, other):
        self.log.append(other.name)
        return [1] if other.name in self.hits else []
    __hash__ = None


class BoolRaises:
    def __eq__(self, other):
        return np.array([1, 2]) == np.array([1, 2])   # ambiguous truth value
    __hash__ = None


emit("== every member, good params, via factory and via entry point ==")
P = all_params()
TYPE_OF = {"manual": JointDegreeType.MANUAL, "empirical": JointDegreeType.EMPIRICAL,
           "function": JointDegreeType.JOINT_FUNCTION, "marginal": JointDegreeType.MARGINAL,
           "marginal_s": JointDegreeType.MARGINAL, "split_degree": JointDegreeType.SPLIT_DEGREE,
           "delta": JointDegreeType.DELTA, "cover": JointDegreeType.COVER}
for rep in range(3):
    for name, p in P.items():
        t = TYPE_OF[name]
        attempt("factory %s #%d" % (name, rep),
                lambda: (lambda o: type(o).__name__ + " " + use(o, 8))(
                    JointDegreeFactory.resolve_joint_degree(t, p)))
        attempt("factory-kw %s #%d" % (name, rep),
                lambda: (lambda o: type(o).__name__ + " " + use(o, 8))(
                    JointDegreeFactory.resolve_joint_degree(params=p, type=t)))
        attempt("load %s #%d" % (name, rep),
                lambda: (lambda o: type(o).__name__ + " " + use(o, 8))(
                    JointDegreeDistribution.load_joint_degree(p)))
        attempt("direct %s #%d" % (name, rep),
                lambda: (lambda o: type(o).__name__ + " " + use(o, 8))(
                    {"manual": JointDegreeManual, "empirical": JointDegreeEmpirical,
                     "function": JointDegreeFunction, "marginal": JointDegreeMarginal,
                     "marginal_s": JointDegreeMarginal}.get(name, lambda q: None)(p)
                    or JointDegreeFactory.resolve_joint_degree(t, p)))

emit("== every member x every params dict (mismatched -> constructor errors) ==")
for t in JointDegreeType:
    for name, p in P.items():
        before = list(p.items())
        attempt("cross %s <- %s" % (t.name, name),
                lambda: (lambda o: type(o).__name__ + " " + use(o, 4))(
                    JointDegreeFactory.resolve_joint_degree(t, p)))
        assert list(p.items()) == before

emit("== unknown / malformed type arguments ==")
BAD_TYPES = [JointDegreeType.UNDEFINED, None, "manual", "MANUAL", "undefined", "", 0, 1, 2.0,
             True, (), [], {}, set(), [JointDegreeType.MANUAL], (JointDegreeType.MANUAL,),
             JointDegreeType, N.JDD, N.COVER, object, float("nan"), b"manual",
             Never(), Weird(), np.float64(1.0), np.array(3), np.array([1]),
             np.array([1, 2]), BoolRaises()]
for i, t in enumerate(BAD_TYPES):
    for name in ("manual", "marginal", "cover"):
        try:
            lab = "bad[%d] %s <- %s" % (i, type(t).__name__, name)
        except Exception:
            lab = "bad[%d]" % i
        attempt(lab, lambda: (lambda o: type(o).__name__ + " " + use(o, 3))(
            JointDegreeFactory.resolve_joint_degree(t, P[name])))

emit("== order and number of comparisons performed on the type argument ==")
for target in list(JointDegreeType) + [None]:
    lg = EqLogger(target)
    nm = getattr(target, "name", "None")
    attempt("eqlog " + nm, lambda: type(
        JointDegreeFactory.resolve_joint_degree(lg, P.get(
            {"JOINT_FUNCTION": "function"}.get(nm, nm.lower()), P["manual"]))).__name__)
    emit("   compared with", lg.log)
for hits in (["COVER"], ["DELTA", "MANUAL"], ["EMPIRICAL", "MARGINAL", "COVER"], [], ["UNDEFINED"]):
    tn = TruthyNotBool(hits)
    attempt("truthy %s" % hits, lambda: type(
        JointDegreeFactory.resolve_joint_degree(tn, {**P["manual"], **P["empirical"], **P["cover"],
                                                     **P["delta"], **P["marginal"]})).__name__)
    emit("   compared with", tn.log)

emit("== malformed params handed through the factory ==")
for t in JointDegreeType:
    for bad in (None, {}, [], "x", 3, {N.MOTIF_SIZES: [2]}, {"motif_sizes": [2]}):
        attempt("badparams %s %s" % (t.name, fx(bad) if not isinstance(bad, dict) else sorted(map(str, bad))),
                lambda: state(JointDegreeFactory.resolve_joint_degree(t, bad)))

emit("== malformed params through the dispatching entry point ==")
for bad in (None, {}, [], "x", {N.JOINT_DEGREE_TYPE: "nope"}, {N.JOINT_DEGREE_TYPE: None},
            {N.JOINT_DEGREE_TYPE: "undefined"}, {N.JOINT_DEGREE_TYPE: JointDegreeType.MANUAL},
            {N.JOINT_DEGREE_TYPE: JointDegreeType.UNDEFINED},
            {N.JOINT_DEGREE_TYPE: "manual"}, {"joint_degree_type": "manual"},
            {N.JOINT_DEGREE_TYPE: "Manual", **P["manual"]}, {N.JOINT_DEGREE_TYPE: []}):
    attempt("load bad %s" % (sorted(map(str, bad.items())) if isinstance(bad, dict) else repr(bad)),
            lambda: state(JointDegreeDistribution.load_joint_degree(bad)))

emit("== identity of results: a fresh object per call, class attributes ==")
a1 = JointDegreeFactory.resolve_joint_degree(JointDegreeType.MANUAL, P["manual"])
a2 = JointDegreeFactory.resolve_joint_degree(JointDegreeType.MANUAL, P["manual"])
emit(a1 is a2, a1.jdd is a2.jdd, a1.jdd is P["manual"][N.JDD], a1._type, type(a1).__mro__[1].__name__)
emit("factory attrs", sorted(k for k in vars(JointDegreeFactory) if not k.startswith("__")),
     type(vars(JointDegreeFactory)["resolve_joint_degree"]).__name__,
     JointDegreeFactory.resolve_joint_degree.__code__.co_varnames[:2],
     JointDegreeFactory().resolve_joint_degree(JointDegreeType.MANUAL, P["manual"]).jdd == a1.jdd)

emit("FINAL", rng(), hashlib.sha256("\n".join(LINES).encode()).hexdigest())
