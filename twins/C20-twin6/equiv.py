"""
C20 equivalence digest: exercises gcmpy.tools.draw_set.DrawSet through its
PRE-EXISTING API only (DrawSet(), add, remove, draw, in, len, iter) and prints
a deterministic digest. Run with cwd = a checkout.
"""
import hashlib
import os
import random
import sys

sys.path.insert(0, os.getcwd())

from gcmpy.tools.draw_set import DrawSet

OUT = []


def emit(*parts):
    line = " | ".join(repr(p) for p in parts)
    OUT.append(line)
    print(line)


def rng_state():
    return hashlib.sha256(repr(random.getstate()).encode()).hexdigest()[:16]


def snap(s):
    """Full observable + internal state (internal attrs existed before too)."""
    return (
        len(s),
        list(s),
        list(s._edges),
        sorted(s._edge_hashmap.items(), key=repr),
    )


def attempt(label, fn, *args):
    try:
        r = fn(*args)
    except BaseException as exc:  # noqa
        emit(label, "EXC", type(exc).__name__, exc.args)
        return None
    emit(label, "OK", r)
    return r


UNIVERSE = [(i, j) for i in range(5) for j in range(i + 1, 6)]

# ---------------------------------------------------------------- 1. empty set
random.seed(1)
s = DrawSet()
emit("empty", snap(s), (0, 1) in s)
attempt("empty.draw", s.draw)
attempt("empty.remove", s.remove, (0, 1))
emit("empty.after", snap(s), rng_state())

# -------------------------------------------------- 2. single element lifecycle
random.seed(2)
s = DrawSet()
attempt("one.add", s.add, (0, 1))
attempt("one.add.dup", s.add, (0, 1))
emit("one", snap(s), (0, 1) in s, (1, 0) in s)
emit("one.draws", [s.draw() for _ in range(3)])
attempt("one.remove", s.remove, (0, 1))
emit("one.removed", snap(s), (0, 1) in s)
attempt("one.remove.again", s.remove, (0, 1))
emit("one.removed2", snap(s))
attempt("one.readd", s.add, (0, 1))
emit("one.readd", snap(s), rng_state())

# ----------------------------------------- 3. remove tail / head / middle items
for which in ("tail", "head", "middle"):
    random.seed(3)
    s = DrawSet()
    items = [(0, 1), (1, 2), (2, 3), (3, 4), (4, 5)]
    for e in items:
        s.add(e)
    target = {"tail": items[-1], "head": items[0], "middle": items[2]}[which]
    attempt(f"pos.{which}.remove", s.remove, target)
    emit(f"pos.{which}", snap(s), [e in s for e in items])
    attempt(f"pos.{which}.remove.again", s.remove, target)
    emit(f"pos.{which}.again", snap(s))
    attempt(f"pos.{which}.readd", s.add, target)
    emit(f"pos.{which}.readd", snap(s), [s.draw() for _ in range(6)], rng_state())
    # strip it down to empty in insertion order, then in reverse order
    for e in list(s):
        attempt(f"pos.{which}.strip", s.remove, e)
        emit(f"pos.{which}.strip", snap(s))

# ------------------------------------------------- 4. remove in reverse order
random.seed(4)
s = DrawSet()
for e in UNIVERSE:
    s.add(e)
for e in reversed(UNIVERSE):
    s.remove(e)
    emit("rev", e, snap(s), e in s)
for e in UNIVERSE[:3]:
    s.add(e)
emit("rev.refill", snap(s), [s.draw() for _ in range(5)], rng_state())

# ------------------------------------------------------ 5. error paths / types
random.seed(5)
s = DrawSet()
s.add((0, 1))
attempt("err.add.unhashable", s.add, [0, 1])
attempt("err.remove.unhashable", s.remove, [0, 1])
attempt("err.contains.unhashable", s.__contains__, [0, 1])
attempt("err.remove.absent", s.remove, (9, 9))
attempt("err.remove.None", s.remove, None)
emit("err.after", snap(s))
s.add(None)
s.add("ab")
s.add(3.5)
s.add(3.5)
emit("err.mixed", snap(s))
attempt("err.remove.None2", s.remove, None)
emit("err.mixed2", snap(s), [s.draw() for _ in range(4)], rng_state())
# (message of this TypeError necessarily names the arity, which the new optional
# parameter changes; only the exception type is part of the old contract)
try:
    DrawSet(1, 2)
    emit("err.ctor.positional", "OK")
except BaseException as exc:  # noqa
    emit("err.ctor.positional", "EXC", type(exc).__name__)

# -------------------------------------- 6. random histories on shared objects
random.seed(20)
h = hashlib.sha256()
for trial in range(150):
    s = DrawSet()
    log = []
    for step in range(80):
        e = random.choice(UNIVERSE)
        op = random.random()
        if op < 0.45:
            s.add(e)
            log.append(("a", e))
        elif op < 0.9:
            try:
                s.remove(e)
                log.append(("r", e))
            except KeyError as exc:
                log.append(("rK", e, exc.args))
        else:
            try:
                log.append(("d", s.draw()))
            except IndexError as exc:
                log.append(("dI", exc.args))
        log.append((snap(s), e in s))
    h.update(repr(log).encode())
    if trial < 5:
        emit("hist", trial, snap(s))
emit("hist.digest", h.hexdigest(), rng_state())

# -------------------------------- 7. two sets share the module-level generator
random.seed(7)
a, b = DrawSet(), DrawSet()
for e in UNIVERSE[:6]:
    a.add(e)
for e in UNIVERSE[6:]:
    b.add(e)
seq = []
for i in range(20):
    seq.append(a.draw())
    seq.append(b.draw())
    if i % 4 == 0:
        x = a.draw()
        a.remove(x)
        b.add(x)
emit("two", seq, snap(a), snap(b), rng_state())

# --------------------------- 8. the one in-library caller: MCMC edge rewiring
def mcmc_run(seed, size, limit):
    import numpy as np
    from gcmpy.joint_degree.joint_degree_loaders.joint_degree_manual import (
        JointDegreeManual,
    )
    from gcmpy.motif_generators.clique_motif import clique_motif
    from gcmpy.gcm_algorithm.gcm_algorithm_network import GCMAlgorithmNetwork
    from gcmpy.names.gcm_algorithm_names import GCMAlgorithmNames
    from gcmpy.names.joint_degree_names import JointDegreeNames
    from gcmpy.names.tools_names import ToolsNames
    from gcmpy.tools.joint_excess_joint_degree_matrices import (
        JointExcessJointDegreeMatrices,
    )
    from gcmpy.tools.markov_chain_monte_carlo_rewiring import (
        MarkovChainMonteCarloRewiring,
    )
    from gcmpy.tools.joint_excess_from_ejk import JointExcessFromEjk
    from gcmpy.tools.joint_degree_from_excess import JointDegreeFromExcess

    random.seed(seed)
    np.random.seed(seed)
    edge_names = ["2-clique", "3-clique"]
    motif_sizes = [2, 3]
    eps = 1e-8
    ejk_tree = {
        (0, 3, 0, 3): 9 / 81 - 2 * eps, (0, 3, 4, 1): eps, (0, 3, 2, 2): eps,
        (4, 1, 0, 3): eps, (4, 1, 4, 1): 45 / 81 - 2 * eps, (4, 1, 2, 2): eps,
        (2, 2, 0, 3): eps, (2, 2, 4, 1): eps, (2, 2, 2, 2): 27 / 81 - 2 * eps,
    }
    ejk_tri = {
        (3, 1, 3, 1): 48 / 144 - 2 * eps, (3, 1, 1, 2): eps, (3, 1, 5, 0): eps,
        (1, 2, 3, 1): eps, (1, 2, 1, 2): 72 / 144 - 2 * eps, (1, 2, 5, 0): eps,
        (5, 0, 3, 1): eps, (5, 0, 1, 2): eps, (5, 0, 5, 0): 24 / 144 - 2 * eps,
    }
    ejk_target = JointExcessJointDegreeMatrices(
        {ToolsNames.EDGE_NAMES: edge_names,
         ToolsNames.EJKS: {"2-clique": ejk_tree, "3-clique": ejk_tri}}
    )
    qks = JointExcessFromEjk.get_excess_joint_distributions(ejk_target)
    jdd = JointDegreeFromExcess.get_joint_degree_distribution(qks, edge_names)
    jds = JointDegreeManual(
        {JointDegreeNames.JDD: jdd, JointDegreeNames.MOTIF_SIZES: motif_sizes}
    ).sample_jds_from_jdd(size)
    g = GCMAlgorithmNetwork(
        {GCMAlgorithmNames.MOTIF_SIZES: motif_sizes,
         GCMAlgorithmNames.EDGE_NAMES: edge_names,
         GCMAlgorithmNames.BUILD_FUNCTIONS: [clique_motif, clique_motif]}
    ).random_clustered_graph(jds)
    mcmc = MarkovChainMonteCarloRewiring(
        {ToolsNames.NETWORK: g, ToolsNames.EJKS: ejk_target,
         ToolsNames.SEARCH_LIMIT: 20, ToolsNames.CONVERGENCE_LIMIT: limit}
    )
    G = mcmc.rewire()
    edges = sorted(
        (tuple(sorted(e[:2])), sorted(repr(kv) for kv in e[2].items()))
        for e in G.edges(data=True)
    )
    return (
        G.number_of_edges(),
        hashlib.sha256(repr(edges).encode()).hexdigest(),
        mcmc._proposal_count,
        mcmc._proposals_accepted,
        [repr(x) for x in mcmc._acceptance_ratio],
        rng_state(),
        hashlib.sha256(repr(np.random.get_state()).encode()).hexdigest()[:16],
    )


for seed, size, limit in ((11, 300, 150), (12, 600, 300)):
    attempt(f"mcmc.{seed}", mcmc_run, seed, size, limit)

emit("final", hashlib.sha256("\n".join(OUT).encode()).hexdigest(), rng_state())
