import sys, os; sys.path.insert(0, os.getcwd())
"""
Behavioural digest for the C17 tidy-up commit (message passing).

Run with cwd = a gcmpy checkout.  Exercises, through public pre-existing entry
points only, every function the commit touched:

  MessagePassing.__init__ / theoretical / calculate_H_tau / resolve_equation
  MessagePassingMixin.get_edge_cover_label / get_motif_topology / get_motif_ID /
      get_vertices_in_motif / get_edges_in_motif
  AutomatedEquation.get_connected_subgraphs / get_edge_combinations / get_us /
      automated_equation

and prints bit-exact floats (repr), exception types and arguments, the message
table left on the object, the (possibly mutated) input graphs and the RNG state.
"""
if os.environ.get("PYTHONHASHSEED") != "0":
    # sets of str vertices are iterated: pin the hash seed so the digest is reproducible
    os.environ["PYTHONHASHSEED"] = "0"
    os.execv(sys.executable, [sys.executable] + sys.argv)

import hashlib
import random
import re
import warnings

warnings.simplefilter("ignore")

import numpy as np
import networkx as nx

from gcmpy.message_passing.message_passing import MessagePassing
from gcmpy.message_passing.message_passing_mixin import MessagePassingMixin
from gcmpy.message_passing.equations.automated_equation import AutomatedEquation

random.seed(1717)
np.random.seed(1717)


def out(*args):
    print(*args)


def attempt(tag, fn):
    """Run fn, print its value (repr) or its exception type and args."""
    try:
        value = fn()
    except BaseException as e:  # noqa: BLE001 - the type is what is recorded
        args = re.sub(r"0x[0-9a-fA-F]+", "0x?", repr(e.args))  # object addresses
        if isinstance(e, TypeError):
            # CPython spells the operator of a failed in-place multiplication `*=' and
            # of math.prod's multiplication `*'; the type and the operand types are kept
            args = args.replace("for *=:", "for *:")
        out(tag, "RAISED", type(e).__module__ + "." + type(e).__name__, args)
        return None
    out(tag, "->", type(value).__name__, repr(value))
    return value


def graph_digest(G):
    return (
        type(G).__name__,
        repr(G.name),
        repr(list(G.nodes(data=True))),
        repr(list(G.edges(data=True))),
        repr({n: list(G.adj[n]) for n in G.nodes()}),
    )


def messages_of(mp):
    """The message table, whatever the private attribute is called."""
    d = mp.__dict__
    table = d["_messages"] if "_messages" in d else d.get("_H_tau")
    return repr(list(table.items())) if table is not None else "None"


def other_state(mp):
    d = {k: v for k, v in mp.__dict__.items() if k not in ("_messages", "_H_tau", "_MPM", "_AE")}
    ae = mp._AE
    return (
        repr(sorted(d.items())),
        repr(list(ae._connected_subgraphs.items())),
        repr(list(ae._edge_combinations.items())),
    )


def label_of(key, vertices, edges, uid):
    return f"{key}-{vertices}-{edges}-{uid}"


def build(motifs, n=None, shuffle=None, cls=nx.Graph, isolated=()):
    """Cover-labelled network; `shuffle` = a seed to insert the edges in random order."""
    G = cls()
    if n is not None:
        G.add_nodes_from(range(n))
    G.add_nodes_from(isolated)
    todo = []
    for uid, (key, vertices, edges) in enumerate(motifs):
        lab = label_of(key, vertices, edges, uid)
        for a, b in edges:
            todo.append((a, b, lab))
    if shuffle is not None:
        random.Random(shuffle).shuffle(todo)
    for a, b, lab in todo:
        G.add_edge(a, b, CoverLabel=lab)
    return G


DEMO = [
    ("3", [0, 4, 8], [(0, 4), (4, 8), (0, 8)]),
    ("3", [1, 5, 9], [(1, 5), (5, 9), (1, 9)]),
    ("3", [2, 6, 10], [(2, 6), (6, 10), (2, 10)]),
    ("3", [3, 7, 11], [(3, 7), (7, 11), (3, 11)]),
    ("4", [0, 1, 2, 3], [(0, 1), (0, 2), (0, 3), (1, 2), (1, 3), (2, 3)]),
    ("40", [4, 5, 6, 7], [(4, 5), (5, 6), (6, 7), (7, 4)]),
    ("41", [8, 9, 10, 11], [(8, 9), (9, 10), (10, 11), (11, 8), (8, 10)]),
    ("2", [0, 6], [(0, 6)]),
    ("2", [1, 7], [(1, 7)]),
    ("2", [2, 11], [(2, 11)]),
    ("2", [3, 9], [(3, 9)]),
    ("2", [5, 10], [(5, 10)]),
    ("3", [4, 9, 2], [(4, 9), (9, 2), (4, 2)]),
    ("3", [8, 5, 3], [(8, 5), (5, 3), (8, 3)]),
]

RING = [("3", [2 * k, 2 * k + 1, (2 * k + 2) % 10], [(2 * k, 2 * k + 1), (2 * k + 1, (2 * k + 2) % 10), (2 * k, (2 * k + 2) % 10)]) for k in range(5)]

TREE = [("2", [a, b], [(a, b)]) for a, b in [(0, 1), (0, 2), (0, 3), (1, 4), (1, 5), (2, 6), (6, 7)]]

# vertex 0 sits in four 2-cliques and two triangles whose IDs interleave
STAR = [
    ("2", [0, 1], [(0, 1)]),
    ("3", [0, 2, 9], [(0, 2), (2, 9), (0, 9)]),
    ("2", [0, 3], [(0, 3)]),
    ("3", [0, 4, 7], [(0, 4), (4, 7), (0, 7)]),
    ("2", [0, 5], [(0, 5)]),
    ("2", [0, 8], [(0, 8)]),
    ("3", [5, 6, 8], [(5, 6), (6, 8), (5, 8)]),
    ("2", [1, 7], [(1, 7)]),
    ("2", [3, 9], [(3, 9)]),
]


def section(title):
    out("=" * 8, title)


# --------------------------------------------------------------------------- #
# 1. MessagePassing.theoretical on well-formed networks
# --------------------------------------------------------------------------- #
section("theoretical: well-formed networks")
NETWORKS = [
    ("demo", lambda: build(DEMO, n=12)),
    ("demo-shuffled-a", lambda: build(DEMO, n=12, shuffle=3)),
    ("demo-shuffled-b", lambda: build(DEMO, shuffle=11)),
    ("ring", lambda: build(RING)),
    ("ring-shuffled", lambda: build(RING, n=10, shuffle=5)),
    ("tree", lambda: build(TREE)),
    ("tree+isolated", lambda: build(TREE, isolated=(20, 21, 22))),
    ("star", lambda: build(STAR)),
    ("star-shuffled", lambda: build(STAR, n=10, shuffle=8)),
    ("star-digraph", lambda: build(STAR, cls=nx.DiGraph)),
    ("nodes-only", lambda: build([], n=4)),
    ("empty", lambda: build([])),
]
for name, make in NETWORKS:
    for iterations in (0, 1, 4):
        G = make()
        before = graph_digest(G)
        mp = MessagePassing(G, iterations=iterations)
        for phi in (0.35, 0.0, 1.0, 0.35, 0.8, 0.05):
            attempt(f"{name} it={iterations} phi={phi}", lambda: mp.theoretical(phi))
        out(f"{name} it={iterations} messages", hashlib.sha256(messages_of(mp).encode()).hexdigest())
        out(f"{name} it={iterations} state", hashlib.sha256(repr(other_state(mp)).encode()).hexdigest())
        out(f"{name} it={iterations} graph unchanged", graph_digest(G) == before)

section("theoretical: message table in full (small cases)")
for name, make in (("star-shuffled", lambda: build(STAR, n=10, shuffle=8)), ("tree", lambda: build(TREE))):
    mp = MessagePassing(make(), iterations=3)
    attempt(f"{name} phi=0.45", lambda: mp.theoretical(0.45))
    out(name, "messages", messages_of(mp))
    out(name, "state", other_state(mp)[0])

section("theoretical: default constructor arguments, odd phi")
G = build(DEMO, n=12, shuffle=2)
mp = MessagePassing(G)
out("default state", other_state(mp)[0], messages_of(mp))
mp = MessagePassing(G, "clique cover", 2)
out("positional state", other_state(mp)[0], repr(mp._MPM._CoverType), mp._MPM._G is G)
for phi in (0.5, 1, 0, True, -0.25, 1.5, float("nan"), np.float64(0.6), "0.5", None):
    attempt(f"odd phi={phi!r}", lambda: mp.theoretical(phi))
out("odd phi messages", hashlib.sha256(messages_of(mp).encode()).hexdigest())

# --------------------------------------------------------------------------- #
# 2. error paths of theoretical
# --------------------------------------------------------------------------- #
section("theoretical: error paths")


def bad_network(kind):
    G = build(STAR, n=10)
    if kind == "unlabelled-first":
        H = nx.Graph()
        H.add_edge(50, 51)
        H.add_edges_from(G.edges(data=True))
        return H
    if kind == "unlabelled-last":
        G.add_edge(50, 51)
    elif kind == "unlabelled-mid":
        G.add_edge(0, 6)
    elif kind == "label-none":
        G.add_edge(50, 51, CoverLabel=None)
    elif kind == "label-int":
        G.add_edge(50, 51, CoverLabel=7)
    elif kind == "label-nodash":
        G.add_edge(50, 51, CoverLabel="abc")
    elif kind == "label-onedash":
        G.add_edge(50, 51, CoverLabel="2-7")
    elif kind == "label-bad-id":
        G.add_edge(50, 51, CoverLabel="2-[50, 51]-[(50, 51)]-x")
    elif kind == "label-bad-id-empty-vertices":
        G.add_edge(50, 51, CoverLabel="2-[]-[]-x")
    elif kind == "label-bad-vertices":
        G.add_edge(50, 51, CoverLabel="2-[50, -[(50, 51)]-40")
    elif kind == "label-vertices-not-iterable":
        G.add_edge(50, 51, CoverLabel="2-5-[(50, 51)]-40")
    elif kind == "label-bad-edges":
        G.add_edge(50, 51, CoverLabel="2-[50, 51]-oops-40")
    elif kind == "label-empty-vertices":
        G.add_edge(50, 51, CoverLabel="2-[]-[(50, 51)]-40")
    elif kind == "label-missing-vertex":
        # vertex 0 is attached to motif 40 by an edge but not listed in it
        G.add_edge(0, 51, CoverLabel="2-[50, 51]-[(50, 51)]-40")
    elif kind == "label-foreign-vertex":
        G.add_edge(50, 51, CoverLabel="2-[50, 51, 77]-[(50, 51)]-40")
    elif kind == "label-unhashable-vertex":
        G.add_edge(50, 51, CoverLabel="2-[50, [51]]-[(50, 51)]-40")
    elif kind == "label-self-loop-motif":
        G.add_edge(50, 51, CoverLabel="2-[50, 51]-[(50, 51), (50, 50)]-40")
    elif kind == "label-dup-id":
        # two different motifs with one ID
        G.add_edge(50, 51, CoverLabel="2-[50, 51]-[(50, 51)]-0")
    elif kind == "self-loop-edge":
        G.add_edge(0, 0, CoverLabel="2-[0, 0]-[(0, 0)]-40")
    elif kind == "multigraph":
        return build(STAR, cls=nx.MultiGraph)
    elif kind == "multigraph-empty":
        return build([], n=3, cls=nx.MultiGraph)
    elif kind == "not-a-graph":
        return {0: [1]}
    return G


for kind in (
    "unlabelled-first", "unlabelled-last", "unlabelled-mid", "label-none", "label-int", "label-nodash",
    "label-onedash", "label-bad-id", "label-bad-id-empty-vertices", "label-bad-vertices",
    "label-vertices-not-iterable", "label-bad-edges", "label-empty-vertices", "label-missing-vertex",
    "label-foreign-vertex", "label-unhashable-vertex", "label-self-loop-motif", "label-dup-id",
    "self-loop-edge", "multigraph", "multigraph-empty", "not-a-graph",
):
    for iterations in (0, 2):
        G = bad_network(kind)
        mp = MessagePassing(G, iterations=iterations)
        attempt(f"{kind} it={iterations} phi=0.4", lambda: mp.theoretical(0.4))
        attempt(f"{kind} it={iterations} phi=0.4 again", lambda: mp.theoretical(0.4))
        out(f"{kind} it={iterations} phi", repr(mp.__dict__.get("_phi")))
        if isinstance(G, nx.Graph):
            out(f"{kind} it={iterations} graph", hashlib.sha256(repr(graph_digest(G)).encode()).hexdigest())

# a good query, then the graph is damaged, then repaired: same object throughout
G = build(STAR, n=10, shuffle=4)
mp = MessagePassing(G, iterations=2)
attempt("damage: good", lambda: mp.theoretical(0.6))
G.add_edge(3, 8)
attempt("damage: unlabelled", lambda: mp.theoretical(0.6))
G.remove_edge(3, 8)
attempt("damage: repaired", lambda: mp.theoretical(0.6))
out("damage: messages", hashlib.sha256(messages_of(mp).encode()).hexdigest())

# --------------------------------------------------------------------------- #
# 3. calculate_H_tau and resolve_equation called directly
# --------------------------------------------------------------------------- #
section("calculate_H_tau / resolve_equation")
G = build(STAR, n=10, shuffle=6)
mp = MessagePassing(G, iterations=1)
lab_tri = G.edges[0, 2]["CoverLabel"]
lab_two = G.edges[0, 5]["CoverLabel"]
attempt("fresh calculate_H_tau", lambda: mp.calculate_H_tau(0, lab_tri))
out("fresh messages", messages_of(mp))
attempt("fresh resolve_equation (no phi)", lambda: mp.resolve_equation(0, lab_tri, {2: 0.5, 9: 0.25}))
attempt("theoretical", lambda: mp.theoretical(0.3))
for focal, lab in ((0, lab_tri), (2, lab_tri), (9, lab_tri), (0, lab_two), (5, lab_two), (5, lab_tri), (77, lab_tri)):
    attempt(f"calculate_H_tau({focal}, {lab.split('-')[-1]})", lambda: mp.calculate_H_tau(focal, lab))
out("messages", messages_of(mp))
for prods in ({2: 0.5, 9: 0.25}, {2: 1, 9: 1}, {}, {2: 0.5}, {2: 0.5, 9: 0.25, 0: 0.125, 99: 0.1}):
    attempt(f"resolve_equation(0, tri, {prods})", lambda: mp.resolve_equation(0, lab_tri, prods))
    attempt(f"resolve_equation(9, tri, {prods})", lambda: mp.resolve_equation(9, lab_tri, prods))
attempt("resolve_equation(5, two, {0: 0.3})", lambda: mp.resolve_equation(5, lab_two, {0: 0.3}))
attempt("resolve_equation(42, tri)", lambda: mp.resolve_equation(42, lab_tri, {2: 0.5, 9: 0.25, 0: 0.1}))
attempt("resolve_equation bad label", lambda: mp.resolve_equation(0, "abc", {}))
attempt("calculate_H_tau bad label", lambda: mp.calculate_H_tau(0, "abc"))
attempt("calculate_H_tau None label", lambda: mp.calculate_H_tau(0, None))
attempt("calculate_H_tau stranger", lambda: mp.calculate_H_tau(0, "2-[0, 123]-[(0, 123)]-0"))
attempt("theoretical after direct calls", lambda: mp.theoretical(0.3))
out("messages", hashlib.sha256(messages_of(mp).encode()).hexdigest())
out("state", hashlib.sha256(repr(other_state(mp)).encode()).hexdigest())

# --------------------------------------------------------------------------- #
# 4. MessagePassingMixin helpers (called on an instance, as before)
# --------------------------------------------------------------------------- #
section("MessagePassingMixin")
G = build(STAR, n=10)
G.add_edge(30, 31)
mpm = MessagePassingMixin("motif cover", G)
out("mixin state", repr(mpm._CoverType), mpm._G is G)
for e in ((0, 2), (2, 0), (5, 6), (30, 31), (0, 6), (98, 99)):
    attempt(f"get_edge_cover_label{e}", lambda: mpm.get_edge_cover_label(*e))
for lab in (
    G.edges[0, 2]["CoverLabel"], "41-[8, 9, 10, 11]-[(8, 9), (9, 10)]-17", "7", "a-b", "3-[1,2", "-[1]-[(1, 2)]-",
    "3-(1, 2)-{1: 2}- 12 ", "3-__import__('os')-[]-1", "", None, 5, b"3-[1]-[]-4",
):
    for fn in ("get_motif_topology", "get_motif_ID", "get_vertices_in_motif", "get_edges_in_motif"):
        attempt(f"{fn}({lab!r})", lambda: getattr(mpm, fn)(lab))

# --------------------------------------------------------------------------- #
# 5. AutomatedEquation
# --------------------------------------------------------------------------- #
section("AutomatedEquation")


def motif(kind, name=None, u=None, cls=nx.Graph):
    H = cls() if name is None else cls(name=name)
    if kind == "edge":
        H.add_edges_from([(0, 1)])
    elif kind == "triangle":
        H.add_edges_from([(0, 1), (1, 2), (0, 2)])
    elif kind == "path":
        H.add_edges_from([(0, 1), (1, 2), (2, 3)])
    elif kind == "cycle4":
        H.add_edges_from([(0, 1), (1, 2), (2, 3), (3, 0)])
    elif kind == "chorded":
        H.add_edges_from([(0, 1), (1, 2), (2, 3), (3, 0), (0, 2)])
    elif kind == "k4":
        H.add_edges_from([(0, 1), (0, 2), (0, 3), (1, 2), (1, 3), (2, 3)])
    elif kind == "k5":
        H.add_edges_from([(a, b) for a in range(5) for b in range(a + 1, 5)])
    elif kind == "bowtie":
        H.add_edges_from([(0, 1), (1, 2), (0, 2), (2, 3), (3, 4), (2, 4)])
    elif kind == "loop-root":
        H.add_edges_from([(0, 0), (0, 1), (1, 2)])
    elif kind == "loop-leaf":
        H.add_edges_from([(0, 1), (1, 2), (2, 2)])
    elif kind == "only-loop":
        H.add_edges_from([(0, 0)])
    elif kind == "two-parts":
        H.add_edges_from([(0, 1), (2, 3)])
    elif kind == "lonely-root":
        H.add_node(0)
        H.add_edges_from([(1, 2)])
    elif kind == "str-nodes":
        H.add_edges_from([("a", "b"), ("b", "c"), ("a", "c")])
    elif kind == "in-only":
        H.add_edges_from([(1, 0), (2, 1)])
    if u is None:
        u = {n: 0.3 + 0.1 * i for i, n in enumerate(H.nodes())}
    nx.set_node_attributes(H, u, "u")
    return H


KINDS = ["edge", "triangle", "path", "cycle4", "chorded", "k4", "k5", "bowtie", "loop-root", "loop-leaf",
         "only-loop", "two-parts", "lonely-root"]
for kind in KINDS:
    ae = AutomatedEquation()
    H = motif(kind, name=kind)
    before = graph_digest(H)
    for root in list(H.nodes())[:3]:
        for p in (0.0, 0.37, 1.0, 0.37):
            attempt(f"{kind} root={root} p={p}", lambda: ae.automated_equation(H, p, root))
    out(f"{kind} caches", repr(list(ae._connected_subgraphs.items())), repr(list(ae._edge_combinations.items())))
    out(f"{kind} graph unchanged", graph_digest(H) == before)

ae = AutomatedEquation()
attempt("str-nodes", lambda: ae.automated_equation(motif("str-nodes", name="s"), 0.4, "a"))
attempt("root missing", lambda: ae.automated_equation(motif("triangle", name="t"), 0.4, 9))
attempt("root unhashable", lambda: ae.automated_equation(motif("triangle", name="t2"), 0.4, [0]))
attempt("p string", lambda: ae.automated_equation(motif("triangle", name="t3"), "0.4", 0))
attempt("p string, lone root", lambda: ae.automated_equation(motif("lonely-root", name="t4"), "0.4", 0))
attempt("u ints", lambda: ae.automated_equation(motif("k4", name="t5", u={0: 1, 1: 1, 2: 1, 3: 1}), 0.4, 0))
attempt("u mixed", lambda: ae.automated_equation(motif("k4", name="t6", u={0: 1, 1: 0.5, 2: 1, 3: np.float64(0.25)}), 0.4, 0))
attempt("u missing", lambda: ae.automated_equation(motif("k4", name="t7", u={0: 0.5, 1: 0.5}), 0.4, 0))
attempt("u missing on root only", lambda: ae.automated_equation(motif("k4", name="t8", u={1: 0.5, 2: 0.5, 3: 0.5}), 0.4, 0))
attempt("u strings", lambda: ae.automated_equation(motif("edge", name="t9", u={0: "x", 1: "y"}), 0.4, 0))
attempt("digraph", lambda: ae.automated_equation(motif("triangle", name="d1", cls=nx.DiGraph), 0.4, 0))
attempt("digraph in-only root", lambda: ae.automated_equation(motif("in-only", name="d2", cls=nx.DiGraph), 0.4, 0))
attempt("digraph in-only mid", lambda: ae.automated_equation(motif("in-only", name="d3", cls=nx.DiGraph), 0.4, 1))
attempt("multigraph", lambda: ae.automated_equation(motif("triangle", name="m1", cls=nx.MultiGraph), 0.4, 0))
out("caches", repr(list(ae._connected_subgraphs.items())), repr(list(ae._edge_combinations.items())))

# unnamed graphs share cache slots: the second graph is answered from the first one's cache
ae = AutomatedEquation()
attempt("unnamed k4", lambda: ae.automated_equation(motif("k4"), 0.4, 0))
attempt("unnamed triangle (stale cache)", lambda: ae.automated_equation(motif("triangle"), 0.4, 0))
attempt("unnamed loop-root (stale cache)", lambda: ae.automated_equation(motif("loop-root"), 0.4, 0))
H = nx.Graph()
H.add_edges_from([(1, 2)])
nx.set_node_attributes(H, 0.5, "u")
attempt("unnamed without the root (stale cache)", lambda: ae.automated_equation(H, 0.4, 0))
out("caches", repr(list(ae._connected_subgraphs.items())), repr(list(ae._edge_combinations.items())))

# the two caches and get_us on their own
ae = AutomatedEquation()
H = motif("chorded", name="c")
first = attempt("get_connected_subgraphs", lambda: ae.get_connected_subgraphs(H, 0))
second = ae.get_connected_subgraphs(H, 0)
out("same object on repeat", first is second, first is ae._connected_subgraphs["0-c"])
attempt("get_connected_subgraphs other root", lambda: ae.get_connected_subgraphs(H, 2))
attempt("get_connected_subgraphs missing root", lambda: ae.get_connected_subgraphs(H, 8))
for c in ([0, 1, 2, 3], [0, 1], "anything"):
    first = attempt(f"get_edge_combinations {c!r}", lambda: ae.get_edge_combinations(H, c))
    second = ae.get_edge_combinations(H, c)
    out("same object on repeat", first is second, first is ae._edge_combinations[f"{c}-c"])
attempt("get_edge_combinations disconnected", lambda: ae.get_edge_combinations(motif("two-parts", name="tp"), [0]))
attempt("get_edge_combinations no edges", lambda: ae.get_edge_combinations(motif("lonely-root", name="lr"), [0]))
attempt("get_edge_combinations null graph", lambda: ae.get_edge_combinations(nx.Graph(name="null"), []))
attempt("get_edge_combinations null graph again", lambda: ae.get_edge_combinations(nx.Graph(name="null"), []))
attempt("get_edge_combinations digraph", lambda: ae.get_edge_combinations(motif("triangle", name="dg", cls=nx.DiGraph), [0]))
out("caches", repr(list(ae._connected_subgraphs.items())), repr(list(ae._edge_combinations.items())))
for root in (0, 2, 99, None):
    attempt(f"get_us root={root}", lambda: ae.get_us(H, root))
attempt("get_us ints", lambda: ae.get_us(motif("k4", u={0: 2, 1: 3, 2: 5, 3: 7}), 0))
attempt("get_us big ints", lambda: ae.get_us(motif("k4", u={0: 2, 1: 10 ** 30, 2: 10 ** 400, 3: 7}), 0))
attempt("get_us bools", lambda: ae.get_us(motif("k4", u={0: True, 1: True, 2: False, 3: True}), 3))
attempt("get_us numpy", lambda: ae.get_us(motif("k4", u={n: np.float64(0.1 * (n + 1)) for n in range(4)}), 0))
attempt("get_us float32", lambda: ae.get_us(motif("k4", u={n: np.float32(0.1 * (n + 1)) for n in range(4)}), 0))
attempt("get_us none", lambda: ae.get_us(motif("k4", u={0: 0.5, 1: None, 2: 0.5, 3: 0.5}), 0))
attempt("get_us missing", lambda: ae.get_us(motif("k4", u={0: 0.5, 1: 0.5}), 0))
attempt("get_us only root", lambda: ae.get_us(motif("only-loop"), 0))
attempt("get_us null graph", lambda: ae.get_us(nx.Graph(), 0))
attempt("get_us tiny", lambda: ae.get_us(motif("k5", u={n: 1e-200 * (n + 1) for n in range(5)}), 4))
attempt("get_us inf nan", lambda: ae.get_us(motif("k4", u={0: 0.0, 1: float("inf"), 2: 0.0, 3: 1.0}), 3))

# --------------------------------------------------------------------------- #
# 6. RNG state
# --------------------------------------------------------------------------- #
section("RNG state")
out("random", hashlib.sha256(repr(random.getstate()).encode()).hexdigest(), repr(random.random()))
st = np.random.get_state()
out("numpy", hashlib.sha256(st[1].tobytes()).hexdigest(), st[2], repr(np.random.random()))
