"""
Equivalence digest for C08 (JointDegreeCover / JointDegree).
Run with cwd = a checkout.  Uses only the pre-existing API: never passes
JointDegreeNames.MOTIF_SIZES to the cover loader, never calls marginal_jdd /
drop_columns / clique_counts.
"""
import copy
import hashlib
import os
import random
import sys
import warnings

warnings.simplefilter("ignore")
sys.path.insert(0, os.getcwd())

import numpy as np  # noqa: E402

from gcmpy.joint_degree.joint_degree import JointDegree  # noqa: E402
from gcmpy.joint_degree.joint_degree_factory import JointDegreeFactory  # noqa: E402
from gcmpy.joint_degree.joint_degree_type import JointDegreeType  # noqa: E402
from gcmpy.joint_degree.joint_degree_loaders.joint_degree_cover import JointDegreeCover  # noqa: E402
from gcmpy.joint_degree.joint_degree_loaders.joint_degree_manual import JointDegreeManual  # noqa: E402
from gcmpy.names.joint_degree_names import JointDegreeNames  # noqa: E402

LINES = []


def out(*a):
    line = " ".join(str(x) for x in a)
    LINES.append(line)
    print(line)


def rng_state():
    h = hashlib.sha256()
    h.update(repr(random.getstate()).encode())
    st = np.random.get_state()
    h.update(repr((st[0], st[1].tolist(), st[2], st[3], st[4])).encode())
    return h.hexdigest()[:16]


def seed(n):
    random.seed(n)
    np.random.seed(n)


def show_jdd(jdd):
    if jdd is None:
        return "None"
    # insertion order is part of the behaviour (sampling uses it)
    return "{" + ", ".join(f"{k!r}: {v!r}" for k, v in jdd.items()) + "}"


def attempt(label, fn):
    try:
        r = fn()
        out(label, "->", r)
        return r
    except BaseException as e:  # noqa
        out(label, "raised", type(e).__name__, repr(str(e)))
        return None


def describe(jd):
    return f"sizes={jd.motif_sizes!r} jdd={show_jdd(jd.jdd)} type={jd._type!r}"


COVERS = {
    "e+t 0b": [[0, 1], [1, 2], [2, 3, 4], [4, 5, 0], [5, 1]],
    "e+t 1b": [[1, 2], [2, 3], [3, 4, 5], [5, 6, 1], [6, 2]],
    "2+4 0b overlap": [[0, 1, 2, 3], [3, 4], [4, 5, 6, 7], [7, 0], [2, 5], [1, 6]],
    "2+4 1b": [[1, 2, 3, 4], [4, 5], [5, 6, 7, 8], [8, 1], [3, 6]],
    "3+4 0b": [[0, 1, 2], [2, 3, 4, 5], [5, 6, 0], [6, 7, 1, 3], [4, 7, 0]],
    "3 only 1b": [[1, 2, 3], [3, 4, 5], [5, 6, 1], [2, 4, 6]],
    "2+5 0b": [[0, 1, 2, 3, 4], [4, 5], [5, 6, 7, 8, 9], [9, 0], [2, 7]],
    "2+3+4": [[0, 1], [1, 2, 3], [3, 4, 5, 6], [6, 0], [2, 4, 5]],
    "2+3+6 1b": [[1, 2], [2, 3, 4], [4, 5, 6, 7, 8, 9], [9, 1], [3, 5, 7]],
    "1+3 singletons": [[0], [1, 2, 3], [3], [4, 0, 2]],
    "only singletons": [[0], [1], [2]],
    "single edge": [[0, 1]],
    "single 7-clique 1b": [[1, 2, 3, 4, 5, 6, 7]],
    "tuples": [(0, 1), (1, 2, 3), (3, 0)],
    "tuple of sets": ({0, 1}, {1, 2, 3, 4}, {4, 0}),
    "duplicate vertex in clique": [[0, 0, 1], [1, 2]],
    "duplicate cliques": [[0, 1], [0, 1], [1, 2, 3], [1, 2, 3]],
    "with empty clique": [[0, 1], [], [1, 2, 3]],
    "numpy ints": [list(np.array([0, 1])), list(np.array([1, 2, 3, 4]))],
    # error / odd paths
    "empty cover": [],
    "only empty clique": [[]],
    "gap in ids (wrap/IndexError)": [[0, 1], [5, 6, 7]],
    "ids from 2": [[2, 3], [3, 4, 5]],
    "ids from 3 (IndexError)": [[3, 4], [4, 5, 6]],
    "negative ids": [[-1, 0], [0, 1, 2]],
    "string ids": [["a", "b"], ["b", "c", "d"]],
    "float ids": [[0.0, 1.0], [1.0, 2.0, 3.0]],
    "clique without len": [3, 4],
    "cover None": None,
    "cover int": 5,
}


def build_random_cover(n, k, smin, smax, base):
    cover = []
    for _ in range(k):
        s = random.randint(smin, smax)
        cover.append([v + base for v in random.sample(range(n), s)])
    # make sure ids are contiguous: add an edge chain over everything
    for v in range(n - 1):
        cover.append([v + base, v + 1 + base])
    return cover


def section_constructor():
    out("== constructor, direct and via factory")
    for name, cover in COVERS.items():
        seed(11)
        before = copy.deepcopy(cover)
        params = {JointDegreeNames.COVER: cover}
        jd = attempt(f"[{name}] ctor", lambda: describe(JointDegreeCover(params)))
        out(f"[{name}] cover unchanged:", repr(cover) == repr(before),
            "params keys:", sorted(k.name for k in params), "rng:", rng_state())
        attempt(f"[{name}] factory",
                lambda: describe(JointDegreeFactory.resolve_joint_degree(JointDegreeType.COVER, params)))


def section_bad_params():
    out("== bad params")
    attempt("missing key", lambda: describe(JointDegreeCover({})))
    attempt("params None", lambda: describe(JointDegreeCover(None)))
    attempt("params list", lambda: describe(JointDegreeCover([[0, 1]])))
    attempt("string key", lambda: describe(JointDegreeCover({"cover": [[0, 1]]})))
    attempt("no args", lambda: describe(JointDegreeCover()))
    attempt("abstract", lambda: JointDegree())
    attempt("extra unrelated keys", lambda: describe(JointDegreeCover({
        JointDegreeNames.COVER: [[0, 1], [1, 2, 3]],
        JointDegreeNames.N_SAMPLES: 5,
        JointDegreeNames.JDD: {(9,): 1.0},
    })))


def section_repeated():
    out("== repeated calls / setters on one object")
    seed(5)
    jd = JointDegreeCover({JointDegreeNames.COVER: COVERS["2+4 0b overlap"]})
    out("start", describe(jd))
    for i in range(3):
        r = jd.create_jdd()
        out("create_jdd again", i, r, describe(jd))
    # swap the cover through the pre-existing setter and rebuild
    for name in ["3 only 1b", "2+5 0b", "e+t 0b", "single 7-clique 1b", "1+3 singletons", "empty cover",
                 "gap in ids (wrap/IndexError)"]:
        jd.cover = COVERS[name]
        attempt(f"cover:={name}; create_jdd", lambda: (jd.create_jdd(), describe(jd))[1])
        out("  state after", describe(jd), "cover is same obj:", jd.cover is COVERS[name])
    # change motif sizes through the pre-existing setter and rebuild
    jd.cover = COVERS["2+4 0b overlap"]
    for ms in [[2, 4], [2], [3], [9], [], [4, 2], None, [1, 2, 3, 4, 5, 6]]:
        jd.motif_sizes = ms
        attempt(f"motif_sizes:={ms!r}; create_jdd", lambda: (jd.create_jdd(), describe(jd))[1])
    # jdd setter then rebuild
    jd.motif_sizes = [2, 4]
    jd.jdd = {(1, 1): 0.25, (0, 2): 0.75}
    out("jdd set", describe(jd))
    jd.create_jdd()
    out("rebuilt", describe(jd))
    # mutate the cover in place then rebuild
    cov = [[0, 1], [1, 2]]
    jd2 = JointDegreeCover({JointDegreeNames.COVER: cov})
    out("jd2", describe(jd2))
    cov.append([0, 1, 2, 3])
    jd2.create_jdd()
    out("jd2 after in-place append + create_jdd", describe(jd2), "cover", jd2.cover)
    out("rng:", rng_state())
    # object built without __init__
    raw = JointDegreeCover.__new__(JointDegreeCover)
    raw.cover = [[1, 2, 3], [3, 4, 5, 6, 1]]
    attempt("raw object create_jdd", lambda: (raw.create_jdd(), show_jdd(raw.jdd))[1])
    attempt("raw object motif_sizes", lambda: raw.motif_sizes)

    class Sub(JointDegreeCover):
        def __init__(self, cover):
            self._cover = cover
            self._motif_sizes = ["x"]
            self.create_jdd()

    attempt("subclass own init", lambda: describe(Sub([[0, 1, 2], [2, 3, 4, 5, 6]])))


def section_sampling():
    out("== sampling / base-class methods on cover objects")
    for name in ["e+t 0b", "2+4 0b overlap", "3+4 0b", "3 only 1b", "2+5 0b", "2+3+6 1b", "1+3 singletons"]:
        jd = JointDegreeCover({JointDegreeNames.COVER: COVERS[name]})
        for s, N in [(1, 0), (2, 1), (3, 7), (4, 50), (4, 50)]:
            seed(s)
            jds = attempt(f"[{name}] sample N={N} seed={s}", lambda: jd.sample_jds_from_jdd(N))
            out("   rng:", rng_state())
            if jds:
                tot = list(map(sum, zip(*jds)))
                out("   totals", tot, "mod", [t % m for t, m in zip(tot, jd.motif_sizes)])
        seed(9)
        attempt(f"[{name}] handshaking", lambda: jd.handshaking_lemma([k for k in jd.jdd.keys()] * 3))
        out("   rng:", rng_state())
        jd.normalise_jdd()
        out(f"[{name}] normalised", show_jdd(jd.jdd))
        jd.jdd = {k: v * 3 for k, v in jd.jdd.items()}
        jd.normalise_jdd()
        out(f"[{name}] x3 normalised", show_jdd(jd.jdd))
        jd.convert_jds_to_jdd([(1, 2), (1, 2), (0, 3), (4, 4), (0, 3), (1, 2), (5,)])
        out(f"[{name}] convert", show_jdd(jd.jdd))
        attempt(f"[{name}] convert empty", lambda: jd.convert_jds_to_jdd([]))
        out(f"[{name}] after convert empty", show_jdd(jd.jdd))
        jd.create_jdd()
        out(f"[{name}] rebuilt", describe(jd))


def section_random_covers():
    out("== random covers")
    for s in range(12):
        seed(100 + s)
        n = random.randint(4, 25)
        cover = build_random_cover(n, random.randint(1, 12), random.choice([1, 2, 3]),
                                   min(n, random.choice([3, 4, 6, 8])), base=s % 2)
        if s % 3 == 0:
            cover = [c for c in cover if len(c) != 2] or cover
        out(f"random {s} cover", cover)
        try:
            jd = JointDegreeCover({JointDegreeNames.COVER: cover})
        except BaseException as e:  # noqa
            out(f"random {s} raised", type(e).__name__, repr(str(e)))
            continue
        out("  ", describe(jd))
        seed(s)
        attempt(f"random {s} sample", lambda: jd.sample_jds_from_jdd(30))
        out("   rng:", rng_state())


def section_other_loader():
    out("== base class through another loader")
    seed(3)
    jd = JointDegreeManual({
        JointDegreeNames.JDD: {(1, 0): 0.2, (2, 1): 0.5, (0, 3): 0.3},
        JointDegreeNames.MOTIF_SIZES: [2, 3],
    })
    out(describe(jd))
    attempt("sample", lambda: jd.sample_jds_from_jdd(25))
    out("rng:", rng_state())
    attempt("handshaking short sizes", lambda: (setattr(jd, "motif_sizes", [2]), jd.handshaking_lemma([(1, 1), (2, 2), (0, 2)]))[1])
    attempt("handshaking empty", lambda: jd.handshaking_lemma([]))
    jd.normalise_jdd()
    out(describe(jd))
    jd.jdd = {}
    attempt("normalise empty", lambda: jd.normalise_jdd())
    jd.jdd = {(1,): 0.0}
    attempt("normalise zero", lambda: jd.normalise_jdd())
    attempt("sample zero weights", lambda: jd.sample_jds_from_jdd(3))
    out("rng:", rng_state())
    out("public attrs JointDegreeCover:",
        sorted(a for a in ("cover", "create_jdd", "jdd", "motif_sizes", "sample_jds_from_jdd",
                           "handshaking_lemma", "normalise_jdd", "convert_jds_to_jdd")
               if hasattr(JointDegreeCover, a)))


section_constructor()
section_bad_params()
section_repeated()
section_sampling()
section_random_covers()
section_other_loader()
print("DIGEST", hashlib.sha256("\n".join(LINES).encode()).hexdigest())
