import sys, os; sys.path.insert(0, os.getcwd())
# Equivalence digest for the periphery of C09 (EECC / Network).
# Deterministic: seeds random + numpy, prints one line per probe (results,
# exception types, visible state) and the RNG states, then a sha256 of it all.
if os.environ.get("PYTHONHASHSEED") != "0":  # str-keyed sets/dicts: pin iteration order
    os.environ["PYTHONHASHSEED"] = "0"
    os.execv(sys.executable, [sys.executable] + sys.argv)
import hashlib
import random
import types
import itertools

import numpy as np
import networkx as nx

from gcmpy.covers.eecc import EECC, binom
from gcmpy.network.network import Network
import gcmpy

random.seed(90909)
np.random.seed(90909)

LINES = []


def out(*parts):
    line = " ".join(str(p) for p in parts)
    LINES.append(line)
    print(line)


def h(obj):
    return hashlib.sha256(repr(obj).encode()).hexdigest()[:16]


def rng():
    return "rng=" + h(random.getstate()) + "/" + h(
        [x.tolist() if hasattr(x, "tolist") else x for x in np.random.get_state()]
    )


def attempt(fn, *a, **k):
    try:
        return ("ok", fn(*a, **k))
    except BaseException as exc:  # noqa
        if isinstance(exc, (KeyboardInterrupt, SystemExit)):
            raise
        return ("exc", type(exc).__module__ + "." + type(exc).__name__)


def edges_of(obj):
    g = obj.__dict__.get("_G", None)
    if isinstance(g, nx.Graph):
        return sorted(map(repr, g.edges(data=True)))
    return repr(type(g))


def state(obj):
    d = obj.__dict__ if hasattr(obj, "__dict__") else {}
    return sorted((k, type(v).__name__ if k == "_G" else repr(v)) for k, v in d.items())


gen = random.Random(4242)  # graph generator: separate stream from the library's


def rand_graph(n, p):
    return [(i, j) for i in range(n) for j in range(i + 1, n) if gen.random() < p]


# ---------------------------------------------------------------- 1. construction
out("## construction")
for cls in (Network, EECC, gcmpy.EECC, gcmpy.Network):
    o = cls()
    out(cls.__name__, state(o), type(o._G).__name__, o.G is o._G, o.has_edges(),
        o.find_cliques(), [c.__name__ for c in type(o).__mro__], rng())
out("init-args", attempt(EECC, 3)[1], attempt(Network, 3)[1], attempt(EECC, m0=3)[1])

# __init__ called again on a used object: resets graph and size bound
e = EECC()
e.add_edges_from([(0, 1), (1, 2), (0, 2)])
e.set_max_clique_size(5)
g_before = e.G
out("reinit", attempt(e.__init__), state(e), e.G is g_before, edges_of(e), e._m0)

# unbound __init__ on foreign objects (argument mutation + exception type)
for make in (types.SimpleNamespace, object, lambda: 5, Network, dict):
    foreign = make()
    res = attempt(EECC.__init__, foreign)
    out("foreign-EECC", type(foreign).__name__, res, state(foreign))
    foreign = make()
    res = attempt(Network.__init__, foreign)
    out("foreign-Network", type(foreign).__name__, res, state(foreign))


# subclasses, incl. cooperative multiple inheritance (MRO sensitive)
class Mixin(Network):
    def __init__(self):
        self.trace = getattr(self, "trace", []) + ["Mixin"]
        super().__init__()
        self.trace.append(("Mixin-after", type(self._G).__name__))


class Sub(EECC):
    def __init__(self):
        self.trace = ["Sub"]
        super().__init__()
        self.trace.append(("Sub-after", self._m0, type(self._G).__name__))


class Diamond(EECC, Mixin):
    pass


class Diamond2(Sub, Mixin):
    pass


class Slotted(EECC):
    __slots__ = ()


class NoSet(EECC):
    def __setattr__(self, k, v):
        if k == "_m0":
            raise RuntimeError("no _m0")
        object.__setattr__(self, k, v)


class Prop(EECC):
    log = []

    @property
    def _m0(self):
        return 7

    @_m0.setter
    def _m0(self, v):
        Prop.log.append(("set_m0", v, "_G" in self.__dict__))


for cls in (Sub, Diamond, Diamond2, Slotted):
    o = cls()
    out("subclass", cls.__name__, state(o), o._m0, o.has_edges())
out("NoSet", attempt(NoSet)[1])
p = Prop()
out("Prop", state(p), p._m0, Prop.log)

# ---------------------------------------------------------------- 2. containers
out("## Network container")
probes = [
    (0, 1), (1, 0), (2, 2), (0, 1, {"w": 3}), (0,), (), (0, 1, 2), (0, 1, {"a": 1}, 4),
    ("a", "b"), (None, 1), ([1], 2), (1, [2]), 7, None, "xy", "xyz", [3, 4], (1.5, 2),
    (float("nan"), 1),
]
for cls in (Network, EECC):
    o = cls()
    for pr in probes:
        out(cls.__name__, "add_edge", repr(pr), attempt(o.add_edge, pr), edges_of(o), o.has_edges())
    for pr in probes + [[(0, 1), (1, 2)], [(0, 1, {"w": 1})], [(0,)], iter([(5, 6)]), {(7, 8)}, {1: 2}]:
        out(cls.__name__, "add_edges_from", repr(pr) if not hasattr(pr, "__next__") else "iter",
            attempt(o.add_edges_from, pr), edges_of(o), o.has_edges())
    for i, j in [(0, 1), (0, 1), (1, 0), (2, 2), (2, 2), (9, 9), (0, 99), ("a", "b"), ("b", "a"),
                 (None, 1), ([1], 2), (1, [2]), (5, 6), (6, 5), (1.5, 2), (7, 8), ("x", "y"), ("y", "z")]:
        out(cls.__name__, "remove_edge", repr((i, j)), attempt(o.remove_edge, i, j), len(edges_of(o)),
            o.has_edges(), sorted(repr(sorted(c, key=repr)) for c in o.find_cliques()))
    out(cls.__name__, "remove_edge-arity", attempt(o.remove_edge, 1)[1], attempt(o.remove_edge)[1],
        attempt(o.remove_edge, 1, 2, 3)[1])

out("## G property / foreign graphs")
dg = nx.DiGraph([(0, 1), (1, 2)])
mg = nx.MultiGraph([(0, 1), (0, 1), (1, 2), (2, 2)])
mdg = nx.MultiDiGraph([(0, 1), (0, 1)])
loops = nx.Graph([(0, 0), (1, 1)])
frozen = nx.freeze(nx.Graph([(0, 1)]))
view = nx.subgraph_view(nx.complete_graph(4), filter_edge=lambda u, v: False)


class Duck:
    def edges(self):
        return [1, 2]


class Duck0:
    def edges(self):
        return ()


class DuckNeg:
    class E:
        def __len__(self):
            return -1

    def edges(self):
        return DuckNeg.E()


class DuckBool:
    class E:
        def __len__(self):
            return 3

        def __bool__(self):
            return False

    def edges(self):
        return DuckBool.E()


for name, val in [("DiGraph", dg), ("MultiGraph", mg), ("MultiDiGraph", mdg), ("loops", loops),
                  ("frozen", frozen), ("view", view), ("empty", nx.Graph()), ("None", None),
                  ("int", 3), ("Duck", Duck()), ("Duck0", Duck0()), ("DuckNeg", DuckNeg()),
                  ("DuckBool", DuckBool()), ("nodes-only", nx.empty_graph(5))]:
    for cls in (Network, EECC):
        o = cls()
        o.G = val
        out(cls.__name__, "G=", name, o.G is val, o._G is val, attempt(o.has_edges),
            attempt(lambda: sorted(sorted(c, key=repr) for c in o.find_cliques())),
            attempt(o.remove_edge, 0, 1), attempt(o.has_edges), attempt(o.add_edge, (0, 1)),
            attempt(o.has_edges))
    if cls is EECC:
        o = EECC()
        o.G = val
        o.set_max_clique_size(3)
        out("EECC", "G=", name, "cover", attempt(o.get_EECC), attempt(o.has_edges), rng())

out("Network.G descriptor", type(Network.__dict__["G"]).__name__, Network.G.fset is not None,
    attempt(lambda: delattr(Network(), "G"))[1])

# find_cliques returns a fresh, mutable list of fresh lists every call
o = Network()
o.add_edges_from(nx.complete_graph(4).edges())
c1 = o.find_cliques()
c2 = o.find_cliques()
c1.append("junk")
c1[0].append("junk2")
out("find_cliques fresh", type(c1).__name__, type(c2).__name__, c1 is c2, sorted(map(sorted, c2)),
    sorted(map(sorted, o.find_cliques())), [type(x).__name__ for x in c2])

# ---------------------------------------------------------------- 3. binom helper
out("## binom")
out([(n, r, attempt(binom, n, r)) for n in range(-2, 9) for r in range(-2, 10)])
out([attempt(binom, *a) for a in [(5.0, 2), (5, 2.0), ("a", 1), (None, 1), (10 ** 30, 3), (True, True)]])

# ---------------------------------------------------------------- 4. EECC end to end
out("## EECC covers")


def check(edges, cover, m0):
    G = nx.Graph(edges)
    seen = {}
    ok = True
    for c in cover:
        ok &= 2 <= len(c) <= m0
        for u, v in itertools.combinations(c, 2):
            ok &= G.has_edge(u, v)
            k = frozenset((u, v))
            seen[k] = seen.get(k, 0) + 1
    ok &= all(v == 1 for v in seen.values())
    ok &= len(seen) == len([e for e in G.edges() if e[0] != e[1]])
    return ok


named = {
    "empty": [],
    "edge": [(0, 1)],
    "path": [(0, 1), (1, 2), (2, 3)],
    "tri": [(0, 1), (1, 2), (0, 2)],
    "bowtie": [(0, 1), (1, 2), (0, 2), (2, 3), (3, 4), (2, 4)],
    "K4": list(nx.complete_graph(4).edges()),
    "K5": list(nx.complete_graph(5).edges()),
    "K6": list(nx.complete_graph(6).edges()),
    "K33": list(nx.complete_bipartite_graph(3, 3).edges()),
    "wheel": list(nx.wheel_graph(7).edges()),
    "petersen": list(nx.petersen_graph().edges()),
    "two-K4-share-edge": list(nx.complete_graph(4).edges()) + [(2, 4), (3, 4), (2, 5), (3, 5), (4, 5)],
    "dup-edges": [(0, 1), (1, 0), (0, 1), (1, 2), (2, 0)],
    "str-nodes": [("a", "b"), ("b", "c"), ("a", "c"), ("c", "d")],
}
for k in range(40):
    n = gen.randint(2, 11)
    named["rand%02d" % k] = rand_graph(n, gen.choice([0.2, 0.4, 0.6, 0.8, 1.0]))

for name, edges in named.items():
    for m0 in (2, 3, 4, 5, 8):
        e = EECC()
        e.add_edges_from(edges)
        e.set_max_clique_size(m0)
        lim = e.limited_maximal_cliques()
        res = attempt(e.get_EECC)
        ok = check(edges, res[1], m0) if res[0] == "ok" else None
        again = attempt(e.get_EECC)  # repeated call on the emptied object
        out(name, m0, h(lim), res, ok, e.has_edges(), edges_of(e), sorted(e.G.nodes(), key=repr) == sorted(
            set(itertools.chain.from_iterable(edges)), key=repr), again, state(e), rng())

# one object fed incrementally: add_edge one at a time, cover, refill, cover again
e = EECC()
for m0 in (3, 2, 4):
    for ed in named["wheel"]:
        e.add_edge(ed)
    e.set_max_clique_size(m0)
    out("refill", m0, attempt(e.get_EECC), e.has_edges(), rng())

# default bound (no set_max_clique_size) and malformed bounds
for name in ("tri", "K4", "path", "empty", "bowtie"):
    e = EECC()
    e.add_edges_from(named[name])
    out("default-m0", name, e._m0, attempt(e.get_EECC), e.has_edges(), rng())
    for bad in (1, 0, -1, None, "3", 2.5, 3.0, True, [3], 10 ** 6):
        e = EECC()
        e.add_edges_from(named[name])
        out("bad-m0", name, repr(bad), attempt(e.set_max_clique_size, bad), repr(e._m0),
            attempt(e.limited_maximal_cliques), attempt(e.get_EECC), attempt(e.has_edges), len(edges_of(e)), rng())
out("set_max_clique_size-arity", attempt(EECC().set_max_clique_size)[1], attempt(EECC().set_max_clique_size, 1, 2)[1])

# self loops in the input (cover loop cannot remove them)
e = EECC()
e.add_edges_from([(0, 1), (1, 2), (0, 2)])
e.set_max_clique_size(3)
out("tri-no-loop", attempt(e.get_EECC), e.has_edges())

# other public entry points that build a Network and hand it on
from gcmpy.network.edge_list import LightWeightEdgeList
from gcmpy.network.edge_list_to_network import EdgeListToNetwork
from gcmpy.network.network_to_edge_list import NetworkToEdgeList

el = LightWeightEdgeList()
out("LightWeightEdgeList", sorted(el.__dict__))
fields = {k: v for k, v in el.__dict__.items()}
res = attempt(EdgeListToNetwork.convert, el)
out("convert-empty", res[0], res[1] if res[0] == "exc" else (type(res[1]).__name__, state(res[1]), edges_of(res[1])))

out("## final", rng(), random.random(), float(np.random.random()))
out("DIGEST", hashlib.sha256("\n".join(LINES).encode()).hexdigest())
