import sys, os; sys.path.insert(0, os.getcwd())

import hashlib
import random
import warnings

warnings.simplefilter("ignore")

import numpy as np

from gcmpy.gcm_algorithm.gcm_algorithm_fast import GCMAlgorithmFast
from gcmpy.gcm_algorithm.gcm_algorithm_custom_motifs import GCMAlgorithmCustomMotifs
from gcmpy.gcm_algorithm.gcm_algorithm_network import GCMAlgorithmNetwork
from gcmpy.gcm_algorithm.gcm_algorithm_main import GCMAlgorithmMain
from gcmpy.gcm_algorithm.gcm_algorithm_factory import GCMAlgorithmFactory
from gcmpy.gcm_algorithm.gcm_algorithm_types import GCMAlgorithmTypes
from gcmpy.names.gcm_algorithm_names import GCMAlgorithmNames as N
from gcmpy.network.edge_list import LightWeightEdgeList
from gcmpy.network.edge_list_to_network import EdgeListToNetwork
from gcmpy.motif_generators.clique_motif import clique_motif
from gcmpy.motif_generators.cycle_motif import cycle_motif


def rng_digest():
    h = hashlib.sha256()
    h.update(repr(random.getstate()).encode())
    st = np.random.get_state()
    h.update(repr((st[0], st[1].tolist(), st[2], st[3], repr(st[4]))).encode())
    return h.hexdigest()[:16]


def seed(s):
    random.seed(s)
    np.random.seed(s)


def show_edge_list(el):
    cols = (el.edge_list, el.topologies, el.motif_id)
    print("   type", type(el).__name__, "lens", [len(c) for c in cols])
    print("   edges", repr(el.edge_list))
    print("   topologies", repr(el.topologies))
    print("   motif_id", repr(el.motif_id))
    print("   joint_degrees", repr(el.joint_degrees))
    print(
        "   private",
        el._edge_list is el.edge_list,
        el._topologies is el.topologies,
        el._motif_id is el.motif_id,
        el._joint_degrees is el.joint_degrees,
    )
    print("   elem types", sorted({type(e).__name__ for e in el.edge_list}))
    h = hashlib.sha256(repr(cols).encode()).hexdigest()[:16]
    print("   digest", h)


def show_network(net):
    G = net.G
    print("   type", type(net).__name__, G.number_of_nodes(), G.number_of_edges())
    print("   nodes", repr(sorted(((n, sorted((str(k), val) for k, val in d.items())) for n, d in G.nodes(data=True)), key=repr)))
    print(
        "   edges",
        repr(sorted((tuple(sorted((u, v), key=repr)) + (sorted((str(k), val) for k, val in d.items()),) for u, v, d in G.edges(data=True)), key=repr)),
    )


def show_type(obj):
    print("   ->", type(obj).__module__, type(obj).__name__)


def attempt(label, fn, show=None):
    print("==", label)
    try:
        out = fn()
    except BaseException as e:  # noqa
        print("   EXC", type(e).__name__, repr(str(e)))
        out = None
    else:
        if show is not None:
            show(out)
        else:
            print("   ->", repr(out))
    print("   rng", rng_digest())
    return out


# ---------------------------------------------------------------- edge list
def edge_list_checks():
    el = LightWeightEdgeList()
    print(repr((el.edge_list, el.topologies, el.joint_degrees, el.motif_id)))
    print(sorted(vars(el).items()))
    a, b, c, d = [(0, 1)], ["x"], [(1,), (1,)], [0]
    el.edge_list = a
    el.topologies = b
    el.joint_degrees = c
    el.motif_id = d
    print(el.edge_list is a, el.topologies is b, el.joint_degrees is c, el.motif_id is d)
    print(el._edge_list is a, el._topologies is b, el._joint_degrees is c, el._motif_id is d)
    el.edge_list.extend([(2, 3)])
    print(a, sorted(vars(el).items()))
    el2 = LightWeightEdgeList()
    print(el2.edge_list is el.edge_list, el2.edge_list == [], el == el2, el == el)
    print(type(LightWeightEdgeList.edge_list).__name__, LightWeightEdgeList.__name__)
    print(LightWeightEdgeList.__module__, LightWeightEdgeList.__doc__)
    el.motif_id = (1, 2)
    el.edge_list = None
    print(el.motif_id, el.edge_list)
    return "done"


seed(1)
attempt("LightWeightEdgeList", edge_list_checks)
attempt("LightWeightEdgeList(1)", lambda: LightWeightEdgeList(1))


# ---------------------------------------------------------------- fast
def fast_params(sizes, names, builders):
    return {N.MOTIF_SIZES: sizes, N.EDGE_NAMES: names, N.BUILD_FUNCTIONS: builders}


def bare_edge(vs):
    return (vs[0], vs[1])


def bare_edge_list(vs):
    return [vs[0], vs[1]]


def two_edges(vs):
    return ((vs[0], vs[1]), (vs[1], vs[2]))


def two_edges_lists(vs):
    return [[vs[0], vs[1]], [vs[1], vs[2]]]


calls = []


def recording_clique(vs):
    calls.append(list(vs))
    return clique_motif(vs)


def mutating_builder(vs):
    es = clique_motif(vs)
    vs.clear()
    return es


def raising_builder(vs):
    raise KeyError("builder failed")


JDS = {
    "empty": [],
    "single": [(1,), (2,), (3,), (2,), (1,), (1,)],
    "single_odd": [(1,), (2,), (2,)],
    "two": [(1, 0), (2, 1), (3, 0), (5, 1), (1, 1), (2, 2), (0, 1), (2, 0)],
    "two_leftover": [(1, 1), (2, 1), (0, 0), (3, 2), (1, 0)],
    "three": [(2, 1, 1), (1, 0, 1), (1, 2, 1), (0, 0, 1), (2, 0, 0), (0, 3, 0), (1, 1, 1)],
    "zeros": [(0, 0), (0, 0), (0, 0)],
    "negative": [(-1, 2), (2, -3), (1, 1)],
    "lists": [[1, 1], [2, 1], [1, 1]],
    "tuple_outer": ((1, 1), (2, 1), (1, 1)),
    "numpy": [tuple(np.int64(x) for x in r) for r in [(1, 1), (2, 1), (1, 1), (0, 0)]],
    "ragged": [(1, 1), (2,), (1, 1)],
    "floats": [(1.0, 1), (2.0, 1)],
    "strings": [("a", 1), ("b", 1)],
    "big": None,
}
random.seed(99)
JDS["big"] = [(random.randrange(0, 6), random.randrange(0, 3)) for _ in range(300)]

FAST_CONFIGS = {
    "c2": fast_params([2], ["2-clique"], [clique_motif]),
    "c2c3": fast_params([2, 3], ["2-clique", "3-clique"], [clique_motif, clique_motif]),
    "c2cyc4": fast_params([2, 4], ["2-clique", "4-cycle"], [clique_motif, cycle_motif]),
    "c2c3c4": fast_params([2, 3, 4], ["a", "b", "c"], [clique_motif, cycle_motif, clique_motif]),
    "bare": fast_params([2, 3], ["bare", "two"], [bare_edge, two_edges]),
    "bare_list": fast_params([2, 3], [("t", 1), None], [bare_edge_list, two_edges_lists]),
    "size1": fast_params([1, 1], ["s", "t"], [clique_motif, clique_motif]),
    "size0": fast_params([2, 0], ["a", "b"], [clique_motif, clique_motif]),
    "sizeneg": fast_params([-2, 2], ["a", "b"], [clique_motif, clique_motif]),
    "sizefloat": fast_params([2.0, 2], ["a", "b"], [clique_motif, clique_motif]),
    "sizenp": fast_params(np.array([2, 3]), ["a", "b"], [clique_motif, clique_motif]),
    "short_sizes": fast_params([2], ["a", "b"], [clique_motif, clique_motif]),
    "short_builders": fast_params([2, 3], ["a", "b"], [clique_motif]),
    "short_names": fast_params([2, 3], ["a"], [clique_motif, clique_motif]),
    "mutating": fast_params([2, 3], ["a", "b"], [mutating_builder, mutating_builder]),
    "raising": fast_params([2, 3], ["a", "b"], [clique_motif, raising_builder]),
    "recording": fast_params([2, 3], ["a", "b"], [recording_clique, recording_clique]),
    "tuple_params": fast_params((2, 3), ("a", "b"), (clique_motif, clique_motif)),
}

for cname, params in FAST_CONFIGS.items():
    for jname, jds in JDS.items():
        seed(7)
        calls.clear()
        alg = attempt(f"fast ctor {cname}", lambda: GCMAlgorithmFast(params), show_type)
        if alg is None:
            continue
        before = repr(jds)
        out = attempt(f"fast {cname}/{jname}", lambda: alg.random_clustered_graph(jds), show_edge_list)
        if out is not None:
            print("   jds identity", out.joint_degrees is jds)
        # repeated call on the same object, RNG continues
        attempt(f"fast {cname}/{jname} again", lambda: alg.random_clustered_graph(jds), show_edge_list)
        print("   jds unchanged", repr(jds) == before, "calls", len(calls), repr(calls[:5]))
        print("   attrs", repr(sorted((k, repr(v)) for k, v in vars(alg).items() if "function" not in k)))

# generator as jds, infinite_sequence fresh per call, subclass overrides
seed(3)
alg = GCMAlgorithmFast(FAST_CONFIGS["c2c3"])
attempt(
    "fast generator jds",
    lambda: alg.random_clustered_graph(r for r in JDS["two"]),
    lambda el: print("   cols", repr((el.edge_list, el.topologies, el.motif_id)), type(el.joint_degrees).__name__, list(el.joint_degrees)),
)
g = alg.infinite_sequence()
print([next(g) for _ in range(4)], [next(alg.infinite_sequence()) for _ in range(2)])


class FastFrom100(GCMAlgorithmFast):
    def infinite_sequence(self):
        num = 100
        while True:
            yield num
            num += 10


class FastShortIds(GCMAlgorithmFast):
    def infinite_sequence(self):
        yield "only"


seed(4)
attempt("fast override ids", lambda: FastFrom100(FAST_CONFIGS["c2c3"]).random_clustered_graph(JDS["two"]), show_edge_list)
attempt("fast exhausted ids", lambda: FastShortIds(FAST_CONFIGS["c2c3"]).random_clustered_graph(JDS["two"]), show_edge_list)

# bad constructor params
attempt("fast ctor missing", lambda: GCMAlgorithmFast({N.MOTIF_SIZES: [2]}))
attempt("fast ctor none", lambda: GCMAlgorithmFast(None))
attempt("fast ctor string keys", lambda: GCMAlgorithmFast({"motif_sizes": [2], "build_functions": [], "edge_names": []}))

# network flavour and the factory / main entry points
for cname in ("c2", "c2c3", "c2cyc4", "bare", "size0"):
    for jname in ("empty", "single", "two", "big", "ragged"):
        seed(11)
        attempt(
            f"network {cname}/{jname}",
            lambda: GCMAlgorithmNetwork(FAST_CONFIGS[cname]).random_clustered_graph(JDS[jname]),
            show_network,
        )

seed(12)
attempt("convert fast", lambda: EdgeListToNetwork.convert(GCMAlgorithmFast(FAST_CONFIGS["c2c3"]).random_clustered_graph(JDS["two"])), show_network)

for t in ("fast", "network", "motifs", "nope", None):
    seed(13)
    p = dict(FAST_CONFIGS["c2c3"])
    p[N.GCM_TYPE] = t
    p[N.MOTIF_INDICES] = [[0], [1]]
    a = attempt(f"main {t}", lambda: type(GCMAlgorithmMain.load_gcm_algorithm(p)).__name__)
for t in list(GCMAlgorithmTypes) + ["fast"]:
    p = dict(FAST_CONFIGS["c2c3"])
    p[N.MOTIF_INDICES] = [[0], [1]]
    attempt(f"factory {t}", lambda: type(GCMAlgorithmFactory.resolve_algorithm(t, p)).__name__)


# ---------------------------------------------------------------- custom motifs
def diamond(vs):
    return ((vs[0], vs[1]), (vs[1], vs[2]), (vs[2], vs[3]), (vs[3], vs[1]), (vs[0], vs[2]))


def diamond_names():
    return ("diamond-outer", "diamond-outer", "diamond-outer", "diamond-outer", "diamond-inner")


def twoclique(vs):
    return (vs[0], vs[1])


def twoclique_names():
    return "2-clique"


def twoclique_list(vs):
    return [vs[0], vs[1]]


def twoclique_wrapped(vs):
    return [(vs[0], vs[1])]


def twoclique_wrapped_names():
    return ["2-clique"]


def threeclique(vs):
    return (vs[0], vs[1]), (vs[0], vs[2]), (vs[1], vs[2])


def threeclique_names():
    return "3-clique", "3-clique", "3-clique"


def path3(vs):
    # exactly two edges
    return (vs[0], vs[1]), (vs[1], vs[2])


def path3_lists(vs):
    return [[vs[0], vs[1]], [vs[1], vs[2]]]


def path3_names():
    return "p-a", "p-b"


def path3_names_short():
    return ("only-one",)


def pentagon(vs):
    return ((vs[0], vs[1]), (vs[1], vs[2]), (vs[2], vs[3]), (vs[3], vs[4]), (vs[0], vs[4]), (vs[1], vs[3]))


def pentagon_names():
    return "p01", "p12", "p23", "p34", "p40", "p13"


def no_edges(vs):
    return []


def no_names():
    return []


def raising_names():
    raise LookupError("names failed")


name_calls = []


def counting_names():
    name_calls.append(len(name_calls))
    return "3-clique", "3-clique", "3-clique"


def string_edges(vs):
    # a str of length two: len == 2 and first element is not tuple/list
    return "ab"


MANUSCRIPT_JDS = [
    (2, 1, 0, 1, 1, 0, 0),
    (1, 1, 0, 1, 1, 0, 0),
    (3, 1, 1, 0, 0, 1, 0),
    (2, 0, 1, 0, 0, 1, 0),
    (0, 0, 0, 1, 0, 0, 1),
    (1, 0, 0, 1, 0, 0, 0),
    (1, 0, 1, 0, 0, 0, 0),
    (1, 0, 1, 0, 0, 0, 0),
    (1, 0, 0, 1, 0, 0, 0),
    (1, 0, 0, 1, 0, 0, 0),
    (1, 0, 1, 0, 0, 0, 0),
    (0, 0, 1, 0, 0, 0, 0),
]


def motif_params(sizes, names, builders, indices):
    p = fast_params(sizes, names, builders)
    p[N.MOTIF_INDICES] = indices
    return p


CUSTOM = {
    "manuscript": (
        motif_params(
            [2, 3, 2, 2, 2, 2, 1],
            [twoclique_names, threeclique_names, diamond_names, pentagon_names],
            [twoclique, threeclique, diamond, pentagon],
            [[0], [1], [2, 3], [4, 5, 6]],
        ),
        MANUSCRIPT_JDS,
    ),
    "manuscript_listedge": (
        motif_params(
            [2, 3, 2, 2, 2, 2, 1],
            [twoclique_names, counting_names, diamond_names, pentagon_names],
            [twoclique_list, threeclique, diamond, pentagon],
            [[0], [1], [2, 3], [4, 5, 6]],
        ),
        MANUSCRIPT_JDS,
    ),
    "wrapped_single": (
        motif_params([2, 3], [twoclique_wrapped_names, path3_names], [twoclique_wrapped, path3], [[0], [1]]),
        JDS["two"],
    ),
    "two_edges_tuple": (
        motif_params([2, 3], [twoclique_names, path3_names], [twoclique, path3], [[0], [1]]),
        JDS["two"],
    ),
    "two_edges_lists": (
        motif_params([2, 3], [twoclique_names, path3_names], [twoclique_list, path3_lists], [[0], [1]]),
        JDS["big"],
    ),
    "names_short": (
        motif_params([2, 3], [twoclique_names, path3_names_short], [twoclique, path3], [[0], [1]]),
        JDS["two"],
    ),
    "names_string_iterated": (
        motif_params([2, 3], [twoclique_names, twoclique_names], [twoclique, threeclique], [[0], [1]]),
        JDS["two"],
    ),
    "string_edges": (
        motif_params([2, 3], [twoclique_names, twoclique_names], [string_edges, string_edges], [[0], [1]]),
        JDS["two"],
    ),
    "no_edges": (
        motif_params([2, 3], [no_names, threeclique_names], [no_edges, threeclique], [[0], [1]]),
        JDS["two"],
    ),
    "raising_names": (
        motif_params([2, 3], [twoclique_names, raising_names], [twoclique, threeclique], [[0], [1]]),
        JDS["two"],
    ),
    "raising_builder": (
        motif_params([2, 3], [twoclique_names, threeclique_names], [twoclique, raising_builder], [[0], [1]]),
        JDS["two"],
    ),
    "leftover": (
        motif_params([2, 3], [twoclique_names, threeclique_names], [twoclique, threeclique], [[0], [1]]),
        JDS["two_leftover"],
    ),
    "orbit_mismatch_pop_empty": (
        motif_params([2, 1, 1], [diamond_names], [diamond], [[0, 1, 2]]),
        [(1, 0, 0), (1, 0, 0), (1, 1, 0), (1, 0, 1), (0, 0, 0)],
    ),
    "orbit_index_out_of_range": (
        motif_params([2, 3], [twoclique_names], [twoclique], [[0, 5]]),
        JDS["two"],
    ),
    "empty_indices": (
        motif_params([2, 3], [twoclique_names], [twoclique], [[]]),
        JDS["two"],
    ),
    "no_motifs": (
        motif_params([2, 3], [], [], []),
        JDS["two"],
    ),
    "reversed_indices": (
        motif_params([2, 3], [threeclique_names, twoclique_names], [threeclique, twoclique], [[1], [0]]),
        JDS["two"],
    ),
    "shared_orbit": (
        motif_params([2, 3], [twoclique_names, twoclique_names], [twoclique, twoclique], [[0], [0]]),
        JDS["single_odd"] and [(1, 0), (2, 0), (1, 0), (2, 0)],
    ),
    "size0": (
        motif_params([2, 0], [twoclique_names, threeclique_names], [twoclique, threeclique], [[0], [1]]),
        JDS["two"],
    ),
    "sizeneg": (
        motif_params([-2, 3], [twoclique_names, threeclique_names], [twoclique, threeclique], [[0], [1]]),
        JDS["two"],
    ),
    "sizefloat": (
        motif_params([2.0, 3], [twoclique_names, threeclique_names], [twoclique, threeclique], [[0], [1]]),
        JDS["two"],
    ),
    "short_sizes": (
        motif_params([2], [twoclique_names, threeclique_names], [twoclique, threeclique], [[0], [1]]),
        JDS["two"],
    ),
    "empty_jds": (
        motif_params([2, 3], [twoclique_names, threeclique_names], [twoclique, threeclique], [[0], [1]]),
        [],
    ),
    "zeros": (
        motif_params([2, 3], [twoclique_names, threeclique_names], [twoclique, threeclique], [[0], [1]]),
        JDS["zeros"],
    ),
    "ragged": (
        motif_params([2, 3], [twoclique_names, threeclique_names], [twoclique, threeclique], [[0], [1]]),
        JDS["ragged"],
    ),
    "floats": (
        motif_params([2, 3], [twoclique_names, threeclique_names], [twoclique, threeclique], [[0], [1]]),
        JDS["floats"],
    ),
    "numpy": (
        motif_params(np.array([2, 3]), [twoclique_names, threeclique_names], [twoclique, threeclique], np.array([[0], [1]])),
        JDS["numpy"],
    ),
    "mutating": (
        motif_params([2, 3], [no_names, no_names], [lambda vs: (vs.clear(), [])[1], lambda vs: (vs.clear(), [])[1]], [[0], [1]]),
        JDS["two"],
    ),
}

for cname, (params, jds) in CUSTOM.items():
    for s in (5, 6):
        seed(s)
        name_calls.clear()
        alg = attempt(f"custom ctor {cname}", lambda: GCMAlgorithmCustomMotifs(params), show_type)
        if alg is None:
            break
        before = repr(jds)
        out = attempt(f"custom {cname} seed {s}", lambda: alg.random_clustered_graph(jds), show_edge_list)
        if out is not None:
            print("   jds identity", out.joint_degrees is jds)
            ids = out.motif_id
            print("   ids nondecreasing", all(a <= b for a, b in zip(ids, ids[1:])), "distinct", len(set(ids)))
        attempt(f"custom {cname} seed {s} again", lambda: alg.random_clustered_graph(jds), show_edge_list)
        print("   jds unchanged", repr(jds) == before, "name calls", len(name_calls))
        print("   indices", repr(alg._motif_indices), repr(alg._motif_sizes))
        if out is not None:
            attempt(f"custom {cname} to network", lambda: EdgeListToNetwork.convert(out), show_network)

# partition, reached through the instance, the class, and overrides
alg = GCMAlgorithmCustomMotifs(CUSTOM["manuscript"][0])
for lst in ([], [1], [1, 2, 3, 4, 5], list(range(10)), (1, 2, 3, 4, 5), "abcdefg", range(7), np.arange(5)):
    for n in (1, 2, 3, 7, 100, 0, -1, -2, 2.0, None, True, np.int64(2)):
        keep = repr(lst)
        attempt(f"partition {lst!r} {n!r}", lambda: alg.partition(lst, n))
        attempt(f"partition via class {lst!r} {n!r}", lambda: GCMAlgorithmCustomMotifs.partition(alg, lst, n))
        print("   unchanged", repr(lst) == keep)
src = [1, 2, 3, 4]
parts = alg.partition(src, 2)
parts[0].append(99)
print(src, parts, type(parts).__name__, [type(p).__name__ for p in parts])
attempt("partition missing arg", lambda: alg.partition([1, 2]))
attempt("partition kwargs", lambda: alg.partition(lst=[1, 2, 3], n=2))
attempt("partition no len", lambda: alg.partition(5, 2))
print(GCMAlgorithmCustomMotifs.partition.__name__, GCMAlgorithmCustomMotifs.partition.__doc__)
print(type(GCMAlgorithmCustomMotifs.__dict__["partition"]).__name__)


class ReversedPartitions(GCMAlgorithmCustomMotifs):
    def partition(self, lst, n):
        out = super().partition(lst, n)
        out.reverse()
        return out

    def infinite_sequence(self):
        num = 1000
        while True:
            yield num
            num -= 1


class TuplePartitions(GCMAlgorithmCustomMotifs):
    def partition(self, lst, n):
        return [tuple(lst[i : i + n]) for i in range(0, len(lst), n)]


class ShortIds(GCMAlgorithmCustomMotifs):
    def infinite_sequence(self):
        yield 0
        yield 1


for cls in (ReversedPartitions, TuplePartitions, ShortIds):
    seed(21)
    attempt(f"custom subclass {cls.__name__}", lambda: cls(CUSTOM["manuscript"][0]).random_clustered_graph(MANUSCRIPT_JDS), show_edge_list)

# constructor error paths
attempt("custom ctor missing indices", lambda: GCMAlgorithmCustomMotifs(FAST_CONFIGS["c2c3"]))
attempt("custom ctor missing sizes", lambda: GCMAlgorithmCustomMotifs({N.MOTIF_INDICES: [[0]]}))
attempt("custom ctor none", lambda: GCMAlgorithmCustomMotifs(None))
attempt("custom ctor ok attrs", lambda: sorted(k for k in vars(GCMAlgorithmCustomMotifs(CUSTOM["manuscript"][0]))))

# interleaving the two algorithms on one RNG stream
seed(31)
f = GCMAlgorithmFast(FAST_CONFIGS["c2c3"])
c = GCMAlgorithmCustomMotifs(CUSTOM["two_edges_tuple"][0])
for i in range(3):
    attempt(f"interleave fast {i}", lambda: f.random_clustered_graph(JDS["two"]), show_edge_list)
    attempt(f"interleave custom {i}", lambda: c.random_clustered_graph(JDS["two"]), show_edge_list)

for cname, (params, jds) in CUSTOM.items():
    print("params after", cname, repr(params[N.MOTIF_SIZES]), repr(params[N.MOTIF_INDICES]), [getattr(f, "__name__", "?") for f in params[N.BUILD_FUNCTIONS]], repr(jds)[:200])
print("final rng", rng_digest())
