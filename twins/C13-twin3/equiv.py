"""
Equivalence harness for property C13 (mixing matrices extracted from a network).

Run with cwd = a checkout of gcmpy:  /venv/bin/python /tmp/wt6/C13.out/equiv.py
Prints a deterministic transcript (bit-exact floats via repr, dict / list
iteration orders as they come) followed by a sha256 of the transcript.
"""
import hashlib
import os
import random
import sys
import warnings

if os.environ.get("PYTHONHASHSEED") != "0":
    # str hashing is salted per process; set iteration orders of str-bearing
    # keys are part of the transcript, so pin the salt and start again.
    env = dict(os.environ, PYTHONHASHSEED="0")
    os.execve(sys.executable, [sys.executable] + sys.argv, env)

warnings.filterwarnings("ignore")
sys.path.insert(0, os.getcwd())

import numpy as np
import networkx as nx

from gcmpy.names.network_names import NetworkNames
from gcmpy.names.tools_names import ToolsNames
from gcmpy.tools.joint_excess_joint_degree import JointExcessJointDegree
from gcmpy.tools.joint_excess_degree import JointExcessDegree
from gcmpy.tools.joint_excess_joint_degree_matrices import (
    JointExcessJointDegreeMatrices,
)
from gcmpy.tools.joint_excess_from_ejk import JointExcessFromEjk

JD = NetworkNames.JOINT_DEGREE
TOP = NetworkNames.TOPOLOGY

_LINES = []


def out(*parts):
    line = " ".join(str(p) for p in parts)
    _LINES.append(line)
    print(line)


def R(x):
    """Order-preserving, type-revealing repr."""
    if isinstance(x, dict):
        return "{" + ", ".join(R(k) + ": " + R(v) for k, v in x.items()) + "}"
    if isinstance(x, list):
        return "[" + ", ".join(R(v) for v in x) + "]"
    if isinstance(x, tuple):
        return "(" + ", ".join(R(v) for v in x) + ",)"
    if isinstance(x, (set, frozenset)):
        # iteration order of a set is part of what downstream code sees
        return type(x).__name__ + "<" + ", ".join(R(v) for v in x) + ">"
    if isinstance(x, np.ndarray):
        return "nd" + R(x.tolist()) + str(x.dtype)
    if isinstance(x, (np.integer, np.floating)):
        return type(x).__name__ + "(" + repr(x.item()) + ")"
    if type(x).__repr__ is object.__repr__:
        return "<object " + type(x).__name__ + ">"  # no memory addresses
    return type(x).__name__ + ":" + repr(x)


def rng_digest():
    h = hashlib.sha256()
    h.update(repr(random.getstate()).encode())
    st = np.random.get_state()
    h.update(repr((st[0], st[1].tolist(), st[2], st[3], st[4])).encode())
    return h.hexdigest()


def graph_digest(G):
    h = hashlib.sha256()
    h.update(type(G).__name__.encode())
    h.update(R(sorted(G.__dict__.keys())).encode())
    h.update(R(dict(G.graph)).encode())
    for n in G.nodes():
        h.update(R(n).encode())
        h.update(R(dict(G.nodes[n])).encode())
    if G.is_multigraph():
        for u, v, k, d in G.edges(keys=True, data=True):
            h.update(R((u, v, k)).encode())
            h.update(R(dict(d)).encode())
    else:
        for u, v, d in G.edges(data=True):
            h.update(R((u, v)).encode())
            h.update(R(dict(d)).encode())
    for n in G.nodes():
        h.update(R(list(G.adj[n])).encode())
    return h.hexdigest()


def attempt(label, fn):
    try:
        res = fn()
        out(label, "->", R(res))
        return res
    except BaseException as e:  # noqa
        out(label, "!! raised", type(e).__name__, repr(str(e)))
        return None


def extractor_state(C):
    return R(
        {
            "topology_names": C._topology_names,
            "num_edges": C._num_edges,
            "degree_keys": C._degree_keys,
            "excess_degree_keys": C._excess_degree_keys,
            "ejks_is_none": C._ejks is None,
        }
    )


def matrices_state(M):
    if M is None:
        return "None"
    return R(
        {
            "ejks": M._ejks,
            "excess_degree_keys": M._excess_degree_keys,
            "topology_names": M._topology_names,
            "prop_ejks_same": M.ejks is M._ejks,
            "prop_keys_same": M.excess_degree_keys is M._excess_degree_keys,
            "prop_names_same": M.topology_names is M._topology_names,
        }
    )


# ------------------------------------------------------------------ builders


def annotate(G, names, rng, jd_kind="tuple", consistent=True):
    """Give every edge a topology and every node a joint degree."""
    for e in list(G.edges(keys=True)) if G.is_multigraph() else list(G.edges()):
        G.edges[e][TOP] = names[rng.randrange(len(names))]
    for n in G.nodes():
        counts = [0] * len(names)
        if consistent:
            if G.is_multigraph():
                it = G.edges(n, keys=True)
            else:
                it = G.edges(n)
            for e in it:
                t = G.edges[e][TOP]
                counts[names.index(t)] += 2 if e[0] == e[1] else 1
        else:
            counts = [rng.randrange(0, 4) for _ in names]
        if jd_kind == "tuple":
            val = tuple(counts)
        elif jd_kind == "list":
            val = list(counts)
        elif jd_kind == "numpy":
            val = np.array(counts, dtype=np.int64)
        elif jd_kind == "mixed":
            val = (tuple(counts), list(counts), np.array(counts))[rng.randrange(3)]
        else:
            raise ValueError(jd_kind)
        G.nodes[n][JD] = val
    return G


def exercise_extractor(label, G, names, extra_indices=()):
    out("=" * 8, label, type(G).__name__, "n=", G.number_of_nodes(), "m=", G.number_of_edges())
    out("graph before", graph_digest(G))
    params = {ToolsNames.NETWORK: G, ToolsNames.EDGE_NAMES: names}
    C = attempt("construct", lambda: JointExcessJointDegree(params))
    out("params keys", R(list(params.keys())), "names", R(names))
    if not isinstance(C, JointExcessJointDegree):
        out("graph after", graph_digest(G))
        return None
    out("state0", extractor_state(C))
    out("names identity", C._topology_names is names, "G identity", C._G is G)

    # get_ejk before counting (num_edges still empty)
    for i, name in enumerate(names):
        attempt("pre-count get_ejk %d %r" % (i, name), lambda: C.get_ejk(i, name))
    attempt("pre-count get_ejk unknown", lambda: C.get_ejk(0, "no-such-topology"))

    attempt("count_edge_types", lambda: C.count_edge_types())
    out("state1", extractor_state(C))
    for i, name in enumerate(names):
        attempt("get_ejk %d %r" % (i, name), lambda: C.get_ejk(i, name))
    for i, name in extra_indices:
        attempt("get_ejk extra %r %r" % (i, name), lambda: C.get_ejk(i, name))

    M1 = attempt("get_ejks #1", lambda: matrices_state(C.get_ejks()))
    m1 = C._ejks
    out("state2", extractor_state(C))
    if m1 is not None:
        out(
            "shared keys", m1._excess_degree_keys is C._excess_degree_keys,
            "shared names", m1._topology_names is C._topology_names,
        )
    M2 = attempt("get_ejks #2", lambda: matrices_state(C.get_ejks()))
    m2 = C._ejks
    out("repeat equal", M1 == M2, "fresh object", m1 is not m2)
    if m2 is not None:
        attempt("row sums", lambda: JointExcessFromEjk.get_excess_joint_distributions(m2))
        for t in list(names) + ["zzz"]:
            attempt("topology_index %r" % (t,), lambda: m2.get_topology_index(t))
        attempt("m2.get_excess_degree_keys", lambda: m2.get_excess_degree_keys())
        out("m2 after rekey", matrices_state(m2))
        out("extractor keys untouched", extractor_state(C))
        attempt("row sums rekeyed", lambda: JointExcessFromEjk.get_excess_joint_distributions(m2))
    attempt("resolve again", lambda: C.resolve_excess_degree_keys())
    out("state3", extractor_state(C))
    attempt("overall ejk", lambda: JointExcessDegree.get_ejk(G))
    attempt("overall ejk again", lambda: JointExcessDegree.get_ejk(G))
    out("graph after", graph_digest(G))
    out("rng", rng_digest())
    return C


class Recording(JointExcessJointDegree):
    """Subclass that records how the public hooks are driven."""

    def __init__(self, params):
        self.log = []
        super().__init__(params)

    def resolve_excess_degree_keys(self):
        self.log.append(("resolve",))
        return super().resolve_excess_degree_keys()

    def count_edge_types(self):
        self.log.append(("count", self._ejks is not None))
        return super().count_edge_types()

    def get_ejk(self, i, name):
        self.log.append(("get_ejk", i, name, dict(self._num_edges), list(self._ejks.ejks)))
        return super().get_ejk(i, name)


class AttrCountingGraph(nx.Graph):
    """Graph whose node joint degrees are sequences that log their use."""


class LoggedSeq:
    log = []

    def __init__(self, vals, tag):
        self.vals = list(vals)
        self.tag = tag

    def __iter__(self):
        LoggedSeq.log.append(self.tag)
        return iter(self.vals)


def main():
    random.seed(20261003)
    np.random.seed(20261003)
    rng = random.Random(77)

    names2 = ["2-clique", "3-clique"]
    names3 = ["a", "b", "c"]

    # 1. consistent annotation, several containers for the joint degree
    for kind in ("tuple", "list", "numpy", "mixed"):
        for seed in (1, 2):
            G = nx.gnm_random_graph(14, 30, seed=seed)
            annotate(G, names2, rng, jd_kind=kind)
            exercise_extractor("gnm-%s-%d" % (kind, seed), G, list(names2),
                               extra_indices=[(-1, "3-clique"), (-2, "2-clique"), (5, "2-clique"), (0, "3-clique")])

    # 2. three topologies, larger, inconsistent annotation too
    for seed in (3, 4):
        G = nx.gnm_random_graph(40, 120, seed=seed)
        annotate(G, names3, rng, jd_kind="tuple")
        exercise_extractor("gnm3-%d" % seed, G, list(names3))
        G = nx.barabasi_albert_graph(30, 3, seed=seed)
        annotate(G, names3, rng, jd_kind="list", consistent=False)
        exercise_extractor("ba3-inconsistent-%d" % seed, G, list(names3))

    # 3. self loops
    G = nx.gnm_random_graph(10, 18, seed=5)
    G.add_edge(0, 0)
    G.add_edge(3, 3)
    G.add_edge(9, 9)
    annotate(G, names2, rng)
    exercise_extractor("selfloops", G, list(names2))

    # 4. names that do not occur / duplicated names / names as tuple / empty names
    G = nx.gnm_random_graph(12, 20, seed=6)
    annotate(G, names2, rng)
    exercise_extractor("absent-name", G, ["2-clique", "3-clique", "4-clique"])
    exercise_extractor("short-names", G, ["2-clique"])
    exercise_extractor("dup-names", G, ["2-clique", "2-clique"])
    exercise_extractor("swapped-names", G, ["3-clique", "2-clique"])
    exercise_extractor("tuple-names", G, ("2-clique", "3-clique"))
    exercise_extractor("empty-names", G, [])

    # 5. degenerate graphs
    exercise_extractor("empty-graph", nx.Graph(), list(names2))
    G = nx.empty_graph(5)
    annotate(G, names2, rng)
    exercise_extractor("no-edges", G, list(names2))
    G = nx.path_graph(2)
    annotate(G, ["only"], rng)
    exercise_extractor("single-edge", G, ["only"])
    G = nx.Graph()
    G.add_edge("x", "x")
    annotate(G, ["only"], rng)
    exercise_extractor("single-selfloop", G, ["only"])

    # 6. directed / multigraph inputs
    G = nx.gnm_random_graph(10, 25, seed=7, directed=True)
    annotate(G, names2, rng)
    exercise_extractor("digraph", G, list(names2))
    G = nx.MultiGraph()
    G.add_edges_from([(0, 1), (0, 1), (1, 2), (2, 3), (3, 0), (2, 2)])
    annotate(G, names2, rng)
    exercise_extractor("multigraph", G, list(names2))
    G = nx.MultiGraph()
    G.add_nodes_from(range(3))
    annotate(G, names2, rng)
    exercise_extractor("multigraph-no-edges", G, list(names2))
    G = nx.MultiDiGraph()
    G.add_edges_from([(0, 1), (0, 1), (1, 0), (1, 2)])
    annotate(G, names2, rng)
    exercise_extractor("multidigraph", G, list(names2))

    # 7. broken annotations
    G = nx.gnm_random_graph(8, 12, seed=8)
    annotate(G, names2, rng)
    del G.nodes[3][JD]
    exercise_extractor("missing-joint-degree", G, list(names2))
    G = nx.gnm_random_graph(8, 12, seed=8)
    annotate(G, names2, rng)
    e = list(G.edges())[4]
    del G.edges[e][TOP]
    exercise_extractor("missing-topology", G, list(names2))
    G = nx.gnm_random_graph(8, 12, seed=8)
    annotate(G, names2, rng)
    G.nodes[2][JD] = (1,)  # too short for the second topology
    G.nodes[5][JD] = (2, 1, 7)  # too long
    exercise_extractor("ragged-joint-degree", G, list(names2))
    G = nx.path_graph(3)
    annotate(G, ["only"], rng)
    G.nodes[0][JD] = (1,)
    G.nodes[1][JD] = (1, 0, 0)  # excess (0,0,0) vs (0,) : key1 == key2 with u != v
    G.nodes[2][JD] = (1, [4])  # unhashable tail
    exercise_extractor("odd-joint-degree", G, ["only"])
    G = nx.path_graph(3)
    annotate(G, ["only"], rng)
    G.nodes[1][JD] = 5  # not iterable
    exercise_extractor("scalar-joint-degree", G, ["only"])
    G = nx.path_graph(4)
    annotate(G, names2, rng)
    for n in G.nodes():
        G.nodes[n][JD] = tuple(float(x) for x in G.nodes[n][JD])
    exercise_extractor("float-joint-degree", G, list(names2))
    G = nx.path_graph(4)
    annotate(G, names2, rng)
    for n in G.nodes():
        G.nodes[n][JD] = "".join(str(x) for x in G.nodes[n][JD])
    exercise_extractor("string-joint-degree", G, list(names2))

    # 8. bad params
    attempt("params empty", lambda: JointExcessJointDegree({}))
    attempt("params no names", lambda: JointExcessJointDegree({ToolsNames.NETWORK: nx.path_graph(3)}))
    attempt("params not graph", lambda: JointExcessJointDegree({ToolsNames.NETWORK: 3, ToolsNames.EDGE_NAMES: []}))
    attempt("params names None", lambda: JointExcessJointDegree(
        {ToolsNames.NETWORK: annotate(nx.path_graph(3), ["t"], rng), ToolsNames.EDGE_NAMES: None}))
    attempt("params None", lambda: JointExcessJointDegree(None))

    # 9. object history: mutate the graph between calls on the same extractor
    G = nx.gnm_random_graph(12, 24, seed=9)
    annotate(G, names2, rng)
    C = JointExcessJointDegree({ToolsNames.NETWORK: G, ToolsNames.EDGE_NAMES: names2})
    first = C.get_ejks()
    out("history first", matrices_state(first))
    es = list(G.edges())
    G.remove_edge(*es[0])
    G.edges[es[1]][TOP] = "3-clique" if G.edges[es[1]][TOP] == "2-clique" else "2-clique"
    G.add_edge(0, 11)
    G.edges[0, 11][TOP] = "2-clique"
    second = C.get_ejks()
    out("history second", matrices_state(second))
    out("history first unchanged", matrices_state(first))
    out("history state", extractor_state(C))
    C._num_edges["2-clique"] = 7  # stale / foreign counts are used as they are
    attempt("history stale count", lambda: C.get_ejk(0, "2-clique"))
    C._num_edges["2-clique"] = 0
    attempt("history zero count", lambda: C.get_ejk(0, "2-clique"))
    C._num_edges["3-clique"] = 3.0
    attempt("history float count", lambda: C.get_ejk(1, "3-clique"))
    C._degree_keys = [(2, 0), (0, 1), (2, 0), (1, 1), (0, 0)]  # list with duplicates
    attempt("history resolve on list", lambda: C.resolve_excess_degree_keys())
    out("history state2", extractor_state(C))
    C._topology_names = ["3-clique"]
    third = C.get_ejks()
    out("history third", matrices_state(third))
    out("history graph", graph_digest(G))

    # 10. call protocol seen by subclasses
    G = nx.gnm_random_graph(9, 15, seed=10)
    annotate(G, names2, rng)
    Rr = Recording({ToolsNames.NETWORK: G, ToolsNames.EDGE_NAMES: names2})
    r1 = Rr.get_ejks()
    r2 = Rr.get_ejks()
    out("recording log", R(Rr.log))
    out("recording result", matrices_state(r1), matrices_state(r2), r1 is not r2, r2 is Rr._ejks)

    # 11. how often node joint degrees are iterated (observable for lazy sequences)
    G = nx.path_graph(5)
    annotate(G, names2, rng)
    for n in G.nodes():
        G.nodes[n][JD] = LoggedSeq(G.nodes[n][JD], n)
    LoggedSeq.log = []
    C = attempt("logged construct", lambda: JointExcessJointDegree(
        {ToolsNames.NETWORK: G, ToolsNames.EDGE_NAMES: names2}))
    out("logged after init", R(LoggedSeq.log))
    if C is not None:
        attempt("logged get_ejks", lambda: matrices_state(C.get_ejks()))
    out("logged after ejks", R(LoggedSeq.log))

    # 12. first-touch effects on a fresh graph object (cached views in __dict__)
    G = nx.Graph()
    out("fresh dict", R(sorted(G.__dict__.keys())))
    attempt("fresh overall", lambda: JointExcessDegree.get_ejk(G))
    out("fresh dict after overall(empty)", R(sorted(G.__dict__.keys())))
    G.add_node(1)
    attempt("fresh overall one node", lambda: JointExcessDegree.get_ejk(G))
    out("fresh dict after overall(node)", R(sorted(G.__dict__.keys())))
    G.add_edge(1, 2)
    attempt("fresh overall one edge", lambda: JointExcessDegree.get_ejk(G))
    out("fresh dict after overall(edge)", R(sorted(G.__dict__.keys())))
    G = nx.Graph()
    G.add_edge(1, 2, **{})
    G.edges[1, 2][TOP] = "t"
    Cx = JointExcessJointDegree.__new__(JointExcessJointDegree)
    Cx._G = G
    Cx._num_edges = {}
    Cx._topology_names = ["t"]
    Cx._excess_degree_keys = {}
    Cx._degree_keys = set()
    Cx._ejks = None
    out("bare dict", R(sorted(G.__dict__.keys())))
    attempt("bare get_ejk nomatch", lambda: Cx.get_ejk(0, "other"))
    out("bare dict after nomatch", R(sorted(G.__dict__.keys())))
    attempt("bare count", lambda: Cx.count_edge_types())
    out("bare dict after count", R(sorted(G.__dict__.keys())), R(Cx._num_edges))
    attempt("bare get_ejk match (no joint degree)", lambda: Cx.get_ejk(0, "t"))
    out("bare dict after match", R(sorted(G.__dict__.keys())))

    # 13. overall-degree variant on assorted graphs
    graphs = [
        ("path", nx.path_graph(6)),
        ("star", nx.star_graph(5)),
        ("complete", nx.complete_graph(5)),
        ("gnm", nx.gnm_random_graph(25, 60, seed=11)),
        ("gnm-big", nx.gnm_random_graph(200, 900, seed=12)),
        ("digraph", nx.gnm_random_graph(12, 30, seed=13, directed=True)),
        ("multigraph", nx.MultiGraph([(0, 1), (0, 1), (1, 2), (2, 2)])),
        ("multidigraph", nx.MultiDiGraph([(0, 1), (0, 1), (1, 0), (1, 2)])),
        ("strnodes", nx.Graph([("a", "b"), ("b", "c"), ("c", "a"), ("c", "d")])),
        ("tuple-nodes", nx.Graph([((0, 1), (1, 2)), ((1, 2), (2, 3))])),
        ("empty", nx.Graph()),
        ("nodes-only", nx.empty_graph(4)),
    ]
    sl = nx.gnm_random_graph(9, 14, seed=14)
    sl.add_edge(2, 2)
    sl.add_edge(7, 7)
    graphs.append(("selfloops", sl))
    for label, G in graphs:
        before = graph_digest(G)
        a = attempt("overall %s" % label, lambda: JointExcessDegree.get_ejk(G))
        b = attempt("overall %s again" % label, lambda: JointExcessDegree.get_ejk(G))
        out("overall %s repeat" % label, R(a) == R(b), "graph", before, graph_digest(G))
        if isinstance(a, dict) and a:
            out("overall %s sum" % label, repr(sum(a.values())),
                "symmetric", all(a[(k[1], k[0])] == v for k, v in a.items()))
    attempt("overall not-a-graph", lambda: JointExcessDegree.get_ejk(5))
    attempt("overall instance call", lambda: JointExcessDegree().get_ejk(nx.path_graph(3)))

    # 14. matrices container on its own
    M = JointExcessJointDegreeMatrices()
    out("M empty", matrices_state(M))
    attempt("M empty rekey", lambda: M.get_excess_degree_keys())
    out("M empty after", matrices_state(M))
    attempt("M empty index", lambda: M.get_topology_index("x"))
    old_keys = M._excess_degree_keys
    M.ejks = {"t": {(0, 1, 2, 3): 0.25, (2, 3, 0, 1): 0.25, (0, 1, 0, 1): 0.5}}
    M.topology_names = ["s", "t", "t"]
    attempt("M rekey", lambda: M.get_excess_degree_keys())
    out("M state", matrices_state(M), "old dict untouched", R(old_keys), old_keys is not M._excess_degree_keys)
    for t in ("s", "t", "u", 1.0, None):
        attempt("M index %r" % (t,), lambda: M.get_topology_index(t))
    M.excess_degree_keys = {"zz": [(9,)]}
    out("M setter", matrices_state(M))
    attempt("M rekey 2", lambda: M.get_excess_degree_keys())
    out("M state 2", matrices_state(M))

    key_sets = {
        "plain": {(0, 3, 0, 3): 1 / 81, (0, 3, 4, 1): 5 / 81, (4, 1, 0, 3): 5 / 81,
                  (4, 1, 4, 1): 25 / 81, (2, 2, 2, 2): 9 / 81},
        "odd-length": {(1, 2, 3): 0.5, (3, 2, 1): 0.5, (7,): 1.0, (): 0.0},
        "strings": {"abcd": 1.0, "xyz": 2.0, "": 3.0},
        "frozen": {frozenset([1, 2, 3, 4]): 1.0},
        "nested": {((1, 2), (3, 4)): 1.0, ((3, 4), (1, 2)): 1.0},
        "floats": {(0.0, 1.0, 1.0, 0.0): 0.5, (1.0, 0.0, 0.0, 1.0): 0.5, (0, 1, 1, 0): 0.1},
        "empty": {},
        "many": {(a, b, c, d): 1.0 for a in range(4) for b in range(3) for c in range(4) for d in range(3)},
    }
    P = {ToolsNames.EJKS: key_sets, ToolsNames.EDGE_NAMES: list(key_sets)}
    M = attempt("M params", lambda: JointExcessJointDegreeMatrices(P))
    if M is not None:
        out("M params state", matrices_state(M))
        out("M shares", M._ejks is key_sets, M._topology_names is P[ToolsNames.EDGE_NAMES])
        s1 = R(M._excess_degree_keys)
        d1 = M._excess_degree_keys
        M.get_excess_degree_keys()
        out("M params repeat", s1 == R(M._excess_degree_keys), d1 is not M._excess_degree_keys)
        attempt("M params row sums", lambda: JointExcessFromEjk.get_excess_joint_distributions(M))
    for bad_label, bad in (
        ("int-key", {"t": {5: 1.0}}),
        ("int-value", {"t": 5}),
        ("partial", {"ok": {(1, 1): 1.0}, "bad": {3: 1.0}, "never": {(2, 2): 1.0}}),
        ("list-of-pairs", {"t": [(1, 2), (2, 1)]}),
    ):
        holder = {}

        def build():
            m = JointExcessJointDegreeMatrices.__new__(JointExcessJointDegreeMatrices)
            holder["m"] = m
            m.__init__({ToolsNames.EJKS: bad, ToolsNames.EDGE_NAMES: ["t"]})
            return matrices_state(m)

        attempt("M bad %s" % bad_label, build)
        out("M bad %s left" % bad_label, R(holder["m"].__dict__))
    attempt("M missing names", lambda: JointExcessJointDegreeMatrices({ToolsNames.EJKS: {}}))
    attempt("M missing ejks", lambda: JointExcessJointDegreeMatrices({ToolsNames.EDGE_NAMES: []}))

    # 15. a network produced by the library itself (consumes the global RNGs)
    try:
        from gcmpy.joint_degree.joint_degree_loaders.joint_degree_manual import JointDegreeManual
        from gcmpy.motif_generators.clique_motif import clique_motif
        from gcmpy.gcm_algorithm.gcm_algorithm_network import GCMAlgorithmNetwork
        from gcmpy.names.gcm_algorithm_names import GCMAlgorithmNames
        from gcmpy.names.joint_degree_names import JointDegreeNames

        jdd = {(5, 1): 1 / 3, (3, 2): 1 / 3, (1, 3): 1 / 3}
        jds = JointDegreeManual(
            {JointDegreeNames.JDD: jdd, JointDegreeNames.MOTIF_SIZES: [2, 3]}
        ).sample_jds_from_jdd(600)
        g = GCMAlgorithmNetwork(
            {
                GCMAlgorithmNames.MOTIF_SIZES: [2, 3],
                GCMAlgorithmNames.EDGE_NAMES: list(names2),
                GCMAlgorithmNames.BUILD_FUNCTIONS: [clique_motif, clique_motif],
            }
        ).random_clustered_graph(jds)
        C = exercise_extractor("gcm-network", g._G, list(names2))
        m = C.get_ejks()
        for t in names2:
            ejk = m.ejks[t]
            out("gcm", t, "sum", repr(sum(ejk.values())), "symmetric",
                all(ejk[k[2:] + k[:2]] == v for k, v in ejk.items()))
    except BaseException as e:  # noqa
        out("gcm-network !! raised", type(e).__name__, repr(str(e)))

    out("final rng", rng_digest())
    out("TRANSCRIPT sha256", hashlib.sha256("\n".join(_LINES).encode()).hexdigest())


if __name__ == "__main__":
    main()
