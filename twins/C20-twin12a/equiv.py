import sys, os; sys.path.insert(0, os.getcwd())
# Differential digest for gcmpy.tools.draw_set.DrawSet (all public methods).
# Run with cwd = a checkout; prints a deterministic digest.
import random, hashlib, copy, pickle
import numpy as np
from gcmpy.tools.draw_set import DrawSet
from gcmpy import DrawSet as DS2
from gcmpy.tools import DrawSet as DS3

assert DS2 is DrawSet and DS3 is DrawSet

OUT = []
def emit(*xs):
    OUT.append(" ".join(repr(x) for x in xs))

def rng_state():
    h = hashlib.sha256()
    h.update(repr(random.getstate()).encode())
    st = np.random.get_state()
    h.update(repr((st[0], st[1].tolist(), st[2], st[3], st[4])).encode())
    return h.hexdigest()[:16]

def call(f, *a):
    try:
        r = f(*a)
        return ("ok", r)
    except BaseException as ex:  # digest type and args
        return ("exc", type(ex).__name__, repr(ex.args))

def snapshot(s):
    # public view + internal consistency view
    return (len(s), list(s), [x in s for x in list(s)],
            list(s._edges), sorted(s._edge_hashmap.items(), key=repr))

class Key(object):
    """hashable key that logs every __hash__/__eq__ call"""
    log = []
    def __init__(self, v): self.v = v
    def __hash__(self):
        Key.log.append(("h", self.v)); return hash(self.v) % 3   # many collisions
    def __eq__(self, o):
        Key.log.append(("e", self.v, getattr(o, "v", o)))
        return isinstance(o, Key) and o.v == self.v
    def __repr__(self): return "K%r" % (self.v,)

class BadHash(object):
    def __hash__(self): raise RuntimeError("nohash")
    def __repr__(self): return "BadHash()"
class BadEq(object):
    def __init__(self, v): self.v = v
    def __hash__(self): return 1
    def __eq__(self, o):
        if o is self: return True
        raise ValueError("noeq")
    def __repr__(self): return "BadEq%r" % self.v

random.seed(20); np.random.seed(20)

# ---- 1. boundary cases on an empty / single-element set
s = DrawSet()
emit("empty", snapshot(s), call(s.draw), rng_state())
emit("rm-empty", call(s.remove, (1, 2)), snapshot(s))
emit("rm-empty-unhashable", call(s.remove, [1, 2]), call(s.remove, {1: 2}), snapshot(s))
emit("add-unhashable", call(s.add, [1, 2]), call(s.add, BadHash()), snapshot(s))
emit("contains-unhashable", call(s.__contains__, [1]), call(s.__contains__, BadHash()))
emit("rm-badhash", call(s.remove, BadHash()), snapshot(s))
emit("add1", call(s.add, (1, 2)), snapshot(s))
for _ in range(5):
    emit("draw1", call(s.draw), rng_state())
emit("add1-again", call(s.add, (1, 2)), call(s.add, (1, 2)), snapshot(s))
emit("rm-unhashable-nonempty", call(s.remove, [1, 2]), call(s.remove, BadHash()), call(s.add, [1, 2]), snapshot(s))
emit("rm-absent", call(s.remove, (2, 1)), call(s.remove, None), snapshot(s))
emit("rm1", call(s.remove, (1, 2)), snapshot(s), call(s.draw), rng_state())
emit("rm1-again", call(s.remove, (1, 2)), snapshot(s))
emit("add-none", call(s.add, None), call(s.add, ()), call(s.add, 0), call(s.add, 0.0),
     call(s.add, False), call(s.add, 1), call(s.add, True), call(s.add, float("nan")),
     snapshot(s)[:3])
nan = float("nan")
emit("nan", call(s.add, nan), call(s.add, nan), nan in s, len(s), call(s.remove, nan), len(s),
     call(s.remove, nan), len(s))
emit("rm-eqkeys", call(s.remove, 0.0), call(s.remove, True), call(s.remove, False), snapshot(s)[:3])

# ---- 2. remove in every position (first, middle, last) for sizes 1..6
for n in range(1, 7):
    for pos in range(n):
        t = DrawSet()
        for i in range(n):
            t.add((i, i + 1))
        r = call(t.remove, (pos, pos + 1))
        emit("rmpos", n, pos, r, snapshot(t), call(t.remove, (pos, pos + 1)), snapshot(t),
             call(t.draw), rng_state())

# ---- 3. long random histories against a plain-set model
for trial in range(60):
    t = DrawSet(); model = set(); univ = random.randint(1, 12)
    h = hashlib.sha256()
    for step in range(random.randint(0, 400)):
        op = random.random()
        e = tuple(sorted((random.randrange(univ), random.randrange(univ))))
        if op < 0.4:
            r = call(t.add, e); model.add(e)
        elif op < 0.75:
            r = call(t.remove, e)
            assert (r[0] == "ok") == (e in model), (r, e)
            model.discard(e)
        elif op < 0.9:
            r = call(t.draw)
            if r[0] == "ok":
                assert r[1] in model
                assert any(r[1] is x for x in t._edges)   # identity of the drawn member
        else:
            r = ("in", e in t, len(t))
        assert set(t) == model and len(t) == len(model) == len(list(t))
        h.update(repr((step, r, snapshot(t))).encode())
    emit("hist", trial, univ, h.hexdigest()[:16], snapshot(t)[:2], rng_state())

# ---- 4. keys with logged / failing __hash__ and __eq__
Key.log = []
t = DrawSet()
ks = [Key(i) for i in range(9)]
for k in ks: emit("K-add", call(t.add, k))
for k in ks[::2]: emit("K-add-dup", call(t.add, Key(k.v)))
emit("K-draw", [call(t.draw) for _ in range(7)], rng_state())
for k in (ks[0], ks[8], ks[4], Key(4), Key(77), ks[3]):
    emit("K-rm", call(t.remove, k), snapshot(t)[:2])
emit("K-in", [Key(i) in t for i in range(10)])
emit("K-log", len(Key.log), hashlib.sha256(repr(Key.log).encode()).hexdigest()[:16])
t = DrawSet()
b1, b2 = BadEq(1), BadEq(2)
emit("BadEq", call(t.add, b1), call(t.add, b1), call(t.add, b2), snapshot(t)[:2],
     call(t.remove, b2), call(t.remove, b1), snapshot(t)[:2], call(t.remove, b1), snapshot(t)[:2])

# ---- 5. live iterators, copies, pickles, repeated use of one object
t = DrawSet()
it0 = iter(t)
t.add((0, 1)); t.add((1, 2))
emit("live-iter", list(it0), type(iter(t)).__name__)
it = iter(t); first = next(it); t.add((2, 3)); emit("iter-grow", first, list(it))
it = iter(t); t.remove((0, 1)); emit("iter-shrink", list(it), snapshot(t))
u = copy.deepcopy(t); v = pickle.loads(pickle.dumps(t)); w = copy.copy(t)
u.add((9, 9)); v.remove((1, 2)); w.add((7, 8))
emit("copies", snapshot(t), snapshot(u), snapshot(v), snapshot(w))
emit("draws", [call(t.draw) for _ in range(20)], [call(u.draw) for _ in range(20)], rng_state())
drawn = set()
for _ in range(400): drawn.add(u.draw())
emit("all-drawable", sorted(drawn) == sorted(u), rng_state())
emit("returns", DrawSet().add((1, 2)), type(DrawSet().__len__()).__name__,
     type(((1, 2) in DrawSet())).__name__)

# ---- 6. subclass hooks stay the same
class Sub(DrawSet):
    calls = []
    def __contains__(self, e): Sub.calls.append(("c", e)); return DrawSet.__contains__(self, e)
    def __len__(self): Sub.calls.append(("l",)); return DrawSet.__len__(self)
    def __iter__(self): Sub.calls.append(("i",)); return DrawSet.__iter__(self)
q = Sub()
for e in [(1, 2), (1, 2), (2, 3), (3, 4)]: q.add(e)
emit("sub", call(q.remove, (2, 3)), call(q.remove, (2, 3)), call(q.draw), call(q.draw), Sub.calls,
     list(q._edges), rng_state())

# ---- 7. the consumer: edge set built as in MCMC rewire()
import networkx as nx
G = nx.gnm_random_graph(30, 80, seed=5)
es = DrawSet()
for e in G.edges(): es.add(tuple(sorted(e)))
for e in G.edges(): es.add(tuple(sorted(e)))
emit("graph", len(es), G.number_of_edges(), [es.draw() for _ in range(30)], rng_state())
for e in list(G.edges())[::3]:
    es.remove(tuple(sorted(e))); es.add(tuple(sorted((e[0] + 100, e[1]))))
emit("graph2", hashlib.sha256(repr(snapshot(es)).encode()).hexdigest()[:16],
     [es.draw() for _ in range(30)], rng_state())

digest = hashlib.sha256("\n".join(OUT).encode()).hexdigest()
print("\n".join(OUT))
print("DIGEST", digest)
