"""
Equivalence digest for the C06 commit (JointDegreeMarginal refactor).

Run with cwd = a gcmpy checkout.  Exercises every function the commit touched,
through the signatures that existed before it (no `inclusive', no `tables', none of
the new helpers), and prints a deterministic digest: values with their type and exact
bits, exception types and messages, object state after failures, RNG states, inputs
after the call.

Deliberately NOT in the digest: the number of times a callback is called in direct
mode.  Calling each marginal once per degree instead of once per joint tuple is the
point of the commit; what is recorded instead is the order in which (topology, degree)
pairs are FIRST evaluated, and everything observable for deterministic callbacks.
In sampling mode the complete call sequence is recorded.
"""
import sys

sys.path.insert(0, ".")

import hashlib
import random
import warnings
from fractions import Fraction

import numpy as np

warnings.simplefilter("ignore")

from gcmpy.joint_degree.joint_degree_loaders.joint_degree_marginal import (  # noqa: E402
    JointDegreeMarginal,
)
from gcmpy.joint_degree.joint_degree_distribution import (  # noqa: E402
    JointDegreeDistribution,
)
from gcmpy.joint_degree.joint_degree_type import JointDegreeType  # noqa: E402
from gcmpy.names.joint_degree_names import JointDegreeNames as N  # noqa: E402
from gcmpy.distributions.poisson import poisson  # noqa: E402
from gcmpy.distributions.power_law import power_law  # noqa: E402
from gcmpy.distributions.exponential import exponential  # noqa: E402
from gcmpy.distributions.scale_free_cut_off import scale_free_cut_off  # noqa: E402


# ---------------------------------------------------------------- printing helpers
def val(v):
    """type + exact value"""
    t = type(v).__name__
    if isinstance(v, float):  # python float and np.float64
        return f"{t}:{float(v).hex()}:{v!r}"
    return f"{t}:{v!r}"


def show_jdd(obj):
    jdd = getattr(obj, "_jdd", "<unset>")
    if not isinstance(jdd, dict):
        print("    jdd", val(jdd))
        return
    print("    jdd entries", len(jdd))
    for k, v in jdd.items():  # insertion order is part of the behaviour
        print("     ", tuple(val(x) for x in k), "->", val(v))


def rng_digest():
    a = hashlib.sha256(repr(random.getstate()).encode()).hexdigest()[:16]
    st = np.random.get_state()
    b = hashlib.sha256(
        repr((st[0], st[1].tolist(), st[2], st[3], st[4])).encode()
    ).hexdigest()[:16]
    return f"py={a} np={b}"


def seed(s):
    random.seed(s)
    np.random.seed(s)


def attempt(label, fn):
    try:
        r = fn()
        print(f"  {label}: returned {val(r) if not isinstance(r, list) else 'list'}")
        return r
    except BaseException as e:  # noqa: BLE001
        print(f"  {label}: raised {type(e).__name__}: {e}")
        return e


def make_params(sizes, fps, bounds, extra=None):
    p = {}
    p[N.MOTIF_SIZES] = sizes
    p[N.ARR_FP] = fps
    p[N.LOW_HIGH_DEGREE_BOUND] = bounds
    for k, v in (extra or {}).items():
        p[k] = v
    return p


def show_inputs(p):
    print("    params keys", sorted(str(k) for k in p))
    print("    sizes", repr(p.get(N.MOTIF_SIZES)))
    b = p.get(N.LOW_HIGH_DEGREE_BOUND)
    print("    bounds", type(b).__name__, repr(b) if not hasattr(b, "__next__") else list(b))
    fps = p.get(N.ARR_FP)
    print("    n callbacks", len(fps) if hasattr(fps, "__len__") else "?")


# ---------------------------------------------------------------- callbacks
class Boom(Exception):
    pass


class Bang(Exception):
    pass


def raising(exc, at, base=lambda k: 0.5):
    def f(k):
        if k in at:
            raise exc(f"k={k}")
        return base(k)

    return f


class FirstLog:
    """records first evaluation of each (topology, degree)"""

    def __init__(self):
        self.seen = []

    def wrap(self, i, f):
        def g(k):
            if (i, k) not in self.seen:
                self.seen.append((i, k))
            return f(k)

        return g


class FullLog:
    """records every call"""

    def __init__(self):
        self.calls = []

    def wrap(self, i, f):
        def g(k):
            self.calls.append((i, k))
            return f(k)

        return g


# ---------------------------------------------------------------- direct mode
def direct_case(label, sizes, fps, bounds, dispatch=True):
    print(f"== direct: {label}")
    seed(11)
    p = make_params(sizes, fps, bounds)
    holder = {}

    def build():
        holder["o"] = JointDegreeMarginal(p)
        return None

    r = attempt("construct", build)
    print("    rng", rng_digest())
    show_inputs(p)
    o = holder.get("o")
    if o is None:
        # state of a half-built object: rebuild by hand to look at _jdd
        o = object.__new__(JointDegreeMarginal)
        o._motif_sizes, o._arr_fp, o._low_high_degree_bounds = sizes, fps, bounds
        o._use_sampling, o._n_samples = False, 100000
        attempt("create_jdd_directly (bare object)", o.create_jdd_directly)
        show_jdd(o)
        attempt("create_jdd (bare object)", o.create_jdd)
        show_jdd(o)
        if not hasattr(bounds, "__next__"):
            attempt("generate_all_joint_degrees", lambda: print("    ", o.generate_all_joint_degrees()))
        return
    show_jdd(o)
    print("    type", o._type)
    jd = attempt("generate_all_joint_degrees", o.generate_all_joint_degrees)
    if isinstance(jd, list):
        print("    ", type(jd).__name__, jd[:6], "... n =", len(jd), "types", sorted({type(x).__name__ for t in jd for x in t}))
    # evaluate_prob_of_joint_degree through the old signature
    keys = list(o._jdd)[:4] + [list(k) for k in list(o._jdd)[-2:]]
    for k in keys:
        attempt(f"evaluate_prob_of_joint_degree({k!r})", lambda k=k: o.evaluate_prob_of_joint_degree(k))
    attempt("evaluate_prob_of_joint_degree(())", lambda: o.evaluate_prob_of_joint_degree(()))
    attempt("evaluate_prob_of_joint_degree([])", lambda: o.evaluate_prob_of_joint_degree([]))
    attempt("evaluate_prob_of_joint_degree(too long)", lambda: o.evaluate_prob_of_joint_degree((1,) * (len(fps) + 1)))
    attempt("evaluate_prob_of_joint_degree(short)", lambda: o.evaluate_prob_of_joint_degree((2,)))
    attempt("evaluate_prob_of_joint_degree(generator)", lambda: o.evaluate_prob_of_joint_degree(k for k in (2,)))
    # repeated calls on the same object
    before = dict(o._jdd)
    attempt("create_jdd_directly again", o.create_jdd_directly)
    print("    same after repeat", list(before.items()) == list(o._jdd.items()),
          all(type(a) is type(b) for a, b in zip(before.values(), o._jdd.values())))
    attempt("create_jdd again", o.create_jdd)
    print("    same after create_jdd", list(before.items()) == list(o._jdd.items()))
    # normalise twice
    attempt("normalise_jdd", o.normalise_jdd)
    show_jdd(o)
    # downstream sampling from the jdd
    seed(5)
    s = attempt("sample_jds_from_jdd(25)", lambda: o.sample_jds_from_jdd(25))
    if isinstance(s, list):
        print("    ", s)
    print("    rng", rng_digest())
    if dispatch:
        seed(11)
        q = dict(p)
        q[N.JOINT_DEGREE_TYPE] = JointDegreeType.MARGINAL
        h = {}

        def viadispatch():
            h["o"] = JointDegreeDistribution.load_joint_degree(q)

        attempt("dispatch", viadispatch)
        if "o" in h:
            print("    dispatch type", type(h["o"]).__name__,
                  "same jdd", list(h["o"]._jdd.items()) == list(before.items()),
                  all(type(a) is type(b) for a, b in zip(before.values(), h["o"]._jdd.values())))
        print("    rng", rng_digest())


direct_case("poisson edges", [2], [poisson(2.5)], [(0, 10)])
direct_case("poisson x poisson", [2, 3], [poisson(2.5), poisson(2.5)], [(0, 10), (0, 10)])
direct_case("poisson x power law", [2, 3], [poisson(3.0), power_law(2.5)], [(1, 8), (1, 8)])
direct_case("power law x poisson", [2, 3], [power_law(2.2), poisson(1.5)], [(1, 6), (0, 4)])
direct_case("unequal bounds", [2, 3], [poisson(4.0), poisson(0.5)], [(0, 12), (0, 4)])
direct_case("three topologies", [2, 3, 4], [poisson(3.0), poisson(1.0), poisson(0.3)], [(0, 9), (0, 5), (0, 3)])
direct_case("four topologies mixed", [2, 3, 4, 5],
            [exponential(1.3) if True else None, scale_free_cut_off(2.5, 25), power_law(3.0), poisson(0.7)],
            [(1, 4), (1, 5), (1, 3), (0, 3)])
direct_case("python floats", [2, 3], [lambda k: 0.1 * (k + 1), lambda k: 1.0 / (k + 3)], [(0, 5), (2, 7)])
direct_case("ints", [2, 3], [lambda k: k + 1, lambda k: 2], [(0, 3), (0, 2)])
direct_case("fractions", [2, 3], [lambda k: Fraction(1, k + 1), lambda k: Fraction(k, 7)], [(0, 3), (1, 4)])
direct_case("float32 and bool", [2, 3], [lambda k: np.float32(0.1) * (k + 1), lambda k: k % 2 == 0], [(0, 3), (0, 4)])
direct_case("complex", [2], [lambda k: complex(k + 1, 1)], [(0, 3)])
direct_case("tiny and huge", [2, 3], [lambda k: 1e-200 * 10.0 ** -k, lambda k: 1e-150 / (k + 1)], [(0, 4), (0, 4)])
direct_case("inf and nan", [2, 3], [lambda k: float("inf") if k == 1 else 1.0, lambda k: 0.0 if k == 0 else 1.0], [(0, 3), (0, 3)])
direct_case("negative weights", [2], [lambda k: (-1.0) ** k * (k + 1)], [(0, 4)])
direct_case("no topologies", [], [], [])
direct_case("tuple containers", (2, 3), (poisson(1.0), power_law(2.0)), ((0, 3), (1, 4)))
direct_case("numpy bounds", [2, 3], [poisson(1.0), power_law(2.0)], np.array([[0, 3], [1, 4]]))
direct_case("more callbacks than bounds", [2], [poisson(1.0), raising(Boom, range(100))], [(0, 4)])
direct_case("kmin > kmax", [2, 3], [poisson(1.0), poisson(1.0)], [(5, 2), (0, 3)])
direct_case("negative degrees ok", [2], [lambda k: float(k * k + 1)], [(-3, 2)])
# --- error paths
direct_case("all zero", [2, 3], [lambda k: 0.0, poisson(1.0)], [(0, 3), (0, 3)])
direct_case("all zero ints", [2], [lambda k: 0], [(0, 3)])
direct_case("empty range, other topology would raise", [2, 3], [raising(Boom, range(100)), poisson(1.0)], [(0, 5), (3, 3)])
direct_case("empty first range, power law at 0", [2, 3], [poisson(1.0), power_law(2.5)], [(2, 2), (0, 5)])
direct_case("power law at 0", [2, 3], [poisson(1.0), power_law(2.5)], [(0, 4), (0, 4)])
direct_case("first raises late, second raises early", [2, 3],
            [raising(Boom, {3}), raising(Bang, {0})], [(0, 5), (0, 5)])
direct_case("first raises late, second raises later", [2, 3],
            [raising(Boom, {1}), raising(Bang, {2})], [(0, 5), (0, 5)])
direct_case("first raises at start", [2, 3], [raising(Boom, {0}), raising(Bang, {0})], [(0, 5), (0, 5)])
direct_case("third raises", [2, 3, 4], [poisson(1.0), raising(Boom, {2}), raising(Bang, {1})], [(0, 3), (0, 3), (0, 3)])
direct_case("negative degree into poisson", [2, 3], [lambda k: 1.0, poisson(1.0)], [(0, 3), (-1, 2)])
direct_case("poisson overflow", [2], [poisson(2.0)], [(168, 175)])
direct_case("returns None", [2, 3], [lambda k: 1.0, lambda k: None], [(0, 2), (0, 2)])
direct_case("returns str", [2], [lambda k: "a"], [(0, 2)])
direct_case("fewer callbacks than bounds", [2, 3], [poisson(1.0)], [(0, 3), (0, 3)])
direct_case("fewer callbacks, empty range", [2, 3], [poisson(1.0)], [(0, 3), (1, 1)])
direct_case("not callable", [2], [0.5], [(0, 3)])
direct_case("bound of one number", [2, 3], [poisson(1.0), poisson(1.0)], [(0, 3), (4,)])
direct_case("bound of three numbers", [2], [poisson(1.0)], [(0, 3, 1)])
direct_case("float bounds", [2], [poisson(1.0)], [(0.0, 3.0)])
direct_case("bounds None", [2], [poisson(1.0)], None)
direct_case("bounds dict", [2, 3], [poisson(1.0), poisson(1.0)], {0: (0, 3), 1: (0, 2)})
direct_case("bounds one-shot iterator", [2, 3], [poisson(1.0), power_law(2.0)], zip([0, 1], [3, 4]), dispatch=False)

print("== direct: missing keys")
for drop in (N.MOTIF_SIZES, N.ARR_FP, N.LOW_HIGH_DEGREE_BOUND):
    p = make_params([2], [poisson(1.0)], [(0, 3)])
    del p[drop]
    attempt(f"without {drop}", lambda p=p: JointDegreeMarginal(p))
attempt("params None", lambda: JointDegreeMarginal(None))

print("== direct: order of first evaluations")
for bounds in ([(0, 3), (1, 4)], [(0, 2), (0, 3), (5, 7)], [(0, 3), (2, 2)], [(0, 1)]):
    log = FirstLog()
    base = [poisson(1.0), lambda k: 1.0 / (k + 1), lambda k: float(k)]
    fps = [log.wrap(i, base[i]) for i in range(len(bounds))]
    o = JointDegreeMarginal(make_params([2, 3, 4][: len(bounds)], fps, bounds))
    print("  bounds", bounds, "first evaluations", log.seen)
    show_jdd(o)

print("== direct: attribute mutation then rebuild on one object")
o = JointDegreeMarginal(make_params([2, 3], [poisson(2.0), power_law(2.5)], [(0, 4), (1, 4)]))
show_jdd(o)
o._low_high_degree_bounds = [(1, 3), (2, 6)]
attempt("create_jdd_directly", o.create_jdd_directly)
show_jdd(o)
o._arr_fp = [power_law(2.5), poisson(2.0)]
attempt("create_jdd", o.create_jdd)
show_jdd(o)
o._arr_fp = [raising(Boom, {2}), poisson(2.0)]
attempt("create_jdd_directly with failing callback", o.create_jdd_directly)
show_jdd(o)  # partially filled table left behind
o._arr_fp = [lambda k: 0.0, poisson(2.0)]
attempt("create_jdd_directly with zero mass", o.create_jdd_directly)
show_jdd(o)
print("  generate", o.generate_all_joint_degrees())
o._low_high_degree_bounds = []
print("  generate (no topologies)", o.generate_all_joint_degrees())


# ---------------------------------------------------------------- sampling mode
def sampling_case(label, sizes, fps, bounds, n, s=3, use_log=True):
    print(f"== sampling: {label}")
    log = FullLog()
    if use_log and hasattr(fps, "__len__"):
        fps = [log.wrap(i, f) if callable(f) else f for i, f in enumerate(fps)]
    p = make_params(sizes, fps, bounds)
    p[N.USE_SAMPLING] = True
    if n is not None:
        p[N.N_SAMPLES] = n
    seed(s)
    h = {}

    def build():
        h["o"] = JointDegreeMarginal(p)

    attempt("construct", build)
    print("    rng", rng_digest())
    print("    calls", log.calls)
    show_inputs(p)
    o = h.get("o")
    if o is None:
        o = object.__new__(JointDegreeMarginal)
        o._motif_sizes, o._arr_fp, o._low_high_degree_bounds = sizes, fps, bounds
        o._use_sampling, o._n_samples = True, n
        seed(s)
        r = attempt("draw_from_analytical_joint (bare object)", o.draw_from_analytical_joint)
        print("    rng", rng_digest())
        attempt("create_jdd_by_sampling (bare object)", o.create_jdd_by_sampling)
        print("    rng", rng_digest())
        show_jdd(o)
        return
    show_jdd(o)
    del log.calls[:]
    r = attempt("draw_from_analytical_joint", o.draw_from_analytical_joint)
    if isinstance(r, list):
        print("    ", type(r).__name__, r[:12], "n =", len(r),
              "types", sorted({type(x).__name__ for t in r for x in t}), sorted({type(t).__name__ for t in r}))
    print("    rng", rng_digest())
    print("    calls", log.calls)
    attempt("create_jdd_by_sampling", o.create_jdd_by_sampling)
    show_jdd(o)
    print("    rng", rng_digest())
    attempt("create_jdd", o.create_jdd)
    show_jdd(o)
    print("    rng", rng_digest())
    s2 = attempt("sample_jds_from_jdd(10)", lambda: o.sample_jds_from_jdd(10))
    if isinstance(s2, list):
        print("    ", s2)
    print("    rng", rng_digest())
    seed(s)
    q = dict(p)
    q[N.JOINT_DEGREE_TYPE] = JointDegreeType.MARGINAL
    h2 = {}

    def viadispatch():
        h2["o"] = JointDegreeDistribution.load_joint_degree(q)

    attempt("dispatch", viadispatch)
    if "o" in h2:
        show_jdd(h2["o"])
    print("    rng", rng_digest())


sampling_case("poisson edges", [2], [poisson(2.5)], [(0, 10)], 40)
sampling_case("poisson x poisson", [2, 3], [poisson(2.5), poisson(2.5)], [(0, 10), (0, 10)], 40)
sampling_case("poisson x power law", [2, 3], [poisson(3.0), power_law(2.5)], [(1, 8), (1, 8)], 60)
sampling_case("three topologies", [2, 3, 4], [poisson(3.0), poisson(1.0), scale_free_cut_off(2.5, 25)], [(0, 9), (0, 5), (1, 3)], 30)
sampling_case("ints and fractions", [2, 3], [lambda k: k + 1, lambda k: Fraction(1, k + 1)], [(0, 3), (0, 2)], 20)
sampling_case("one sample", [2, 3], [poisson(3.0), power_law(2.5)], [(1, 8), (1, 8)], 1)
sampling_case("zero samples", [2, 3], [poisson(3.0), power_law(2.5)], [(1, 8), (1, 8)], 0)
sampling_case("negative samples", [2], [poisson(3.0)], [(1, 8)], -2)
sampling_case("float samples", [2], [poisson(3.0)], [(1, 8)], 2.0)
sampling_case("default samples untouched", [2], [lambda k: 1.0], [(4, 4)], None)
sampling_case("kmin == kmax", [2, 3], [poisson(3.0), power_law(2.5)], [(2, 2), (3, 3)], 10)
sampling_case("kmin > kmax", [2, 3], [poisson(3.0), power_law(2.5)], [(1, 4), (5, 3)], 10)
sampling_case("no topologies", [], [], [], 10)
sampling_case("numpy bounds", [2, 3], [poisson(1.0), power_law(2.0)], np.array([[0, 3], [1, 4]]), 15)
sampling_case("bounds dict", [2, 3], [poisson(1.0), poisson(1.0)], {0: (0, 3), 1: (0, 2)}, 15)
sampling_case("tuple containers", (2, 3), (poisson(1.0), power_law(2.0)), ((0, 3), (1, 4)), 15)
sampling_case("more callbacks than bounds", [2], [poisson(1.0), raising(Boom, range(100))], [(0, 4)], 10)
# error paths: what has been drawn before the failure shows in the rng state
sampling_case("second callback raises", [2, 3], [poisson(3.0), raising(Boom, {4})], [(0, 5), (0, 5)], 25)
sampling_case("first callback raises", [2, 3], [raising(Bang, {5}), raising(Boom, {0})], [(0, 5), (0, 5)], 25)
sampling_case("power law at 0 in second", [2, 3], [poisson(3.0), power_law(2.5)], [(0, 5), (0, 5)], 25)
sampling_case("zero weights first, second raises", [2, 3], [lambda k: 0.0, raising(Boom, {0})], [(0, 5), (0, 5)], 25)
sampling_case("zero weights second", [2, 3], [poisson(1.0), lambda k: 0.0], [(0, 5), (0, 5)], 25)
sampling_case("negative weights", [2, 3], [poisson(1.0), lambda k: -1.0], [(0, 5), (0, 5)], 25)
sampling_case("fewer callbacks than bounds", [2, 3], [poisson(1.0)], [(0, 3), (0, 3)], 10)
sampling_case("second bound malformed", [2, 3], [poisson(1.0), poisson(1.0)], [(0, 3), (4,)], 10)
sampling_case("second bound float", [2, 3], [poisson(1.0), poisson(1.0)], [(0, 3), (0.0, 2.0)], 10)
sampling_case("bounds None", [2], [poisson(1.0)], None, 10)
sampling_case("bounds iterator", [2, 3], [poisson(1.0), poisson(1.0)], zip([0, 0], [3, 3]), 10)
sampling_case("not callable", [2, 3], [poisson(1.0), 0.5], [(0, 3), (0, 3)], 10)
sampling_case("string samples", [2, 3], [poisson(1.0), poisson(1.0)], [(0, 3), (0, 3)], "7")

print("== sampling: callbacks that use the rng themselves")


def noisy(mean):
    base = poisson(mean)

    def f(k):
        return base(k) * (1.0 + random.random())

    return f


sampling_case("noisy callbacks", [2, 3], [noisy(2.0), noisy(1.0)], [(0, 6), (0, 4)], 30)
sampling_case("noisy callbacks, three", [2, 3, 4], [noisy(2.0), noisy(1.0), noisy(0.5)], [(0, 6), (0, 4), (0, 2)], 30, s=8)

print("== sampling: attribute mutation then redraw on one object")
seed(21)
o = JointDegreeMarginal(make_params([2, 3], [poisson(2.0), power_law(2.5)], [(0, 4), (1, 4)],
                                    {N.USE_SAMPLING: True, N.N_SAMPLES: 20}))
show_jdd(o)
o._n_samples = 5
print("  draw", o.draw_from_analytical_joint(), rng_digest())
o._low_high_degree_bounds = [(1, 1), (2, 3)]
print("  draw", o.draw_from_analytical_joint(), rng_digest())
o._use_sampling = False
attempt("create_jdd (now direct)", o.create_jdd)
show_jdd(o)
print("  rng", rng_digest())
o._use_sampling = True
o._arr_fp = [poisson(2.0), raising(Boom, {3})]
attempt("create_jdd (sampling, failing)", o.create_jdd)
show_jdd(o)
print("  rng", rng_digest())

print("== larger direct table, checksum only")
o = JointDegreeMarginal(make_params([2, 3, 4], [poisson(6.0), power_law(2.1), exponential(2.0)],
                                    [(0, 30), (1, 25), (1, 12)]))
h = hashlib.sha256()
for k, v in o._jdd.items():
    h.update(repr((k, type(v).__name__, float(v).hex())).encode())
print("  entries", len(o._jdd), "sha", h.hexdigest())
seed(99)
print("  sample", o.sample_jds_from_jdd(12), rng_digest())
print("done")
