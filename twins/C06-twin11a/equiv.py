import sys, os; sys.path.insert(0, os.getcwd())
import hashlib, math, random, collections, types
import numpy as np

from gcmpy.joint_degree.joint_degree import JointDegree
from gcmpy.joint_degree.joint_degree_type import JointDegreeType
from gcmpy.joint_degree.joint_degree_factory import JointDegreeFactory
from gcmpy.joint_degree.joint_degree_distribution import JointDegreeDistribution
from gcmpy.joint_degree.joint_degree_loaders.joint_degree_manual import JointDegreeManual
from gcmpy.joint_degree.joint_degree_loaders.joint_degree_empirical import JointDegreeEmpirical
from gcmpy.joint_degree.joint_degree_loaders.joint_degree_marginal import JointDegreeMarginal
from gcmpy.joint_degree.joint_degree_loaders.joint_degree_function import JointDegreeFunction
from gcmpy.names.joint_degree_names import JointDegreeNames as N

random.seed(20261004)
np.random.seed(20261004)

LINES = []


def emit(*parts):
    line = " | ".join(str(p) for p in parts)
    LINES.append(line)
    print(line)


def fx(v):
    if isinstance(v, bool) or v is None:
        return repr(v)
    if isinstance(v, float):
        return v.hex()
    if isinstance(v, (int, str)):
        return repr(v)
    if isinstance(v, dict):
        return "{" + ", ".join(f"{fx(k)}: {fx(x)}" for k, x in v.items()) + "}"
    if isinstance(v, (list, tuple)):
        o, c = ("[", "]") if isinstance(v, list) else ("(", ")")
        return o + ", ".join(fx(x) for x in v) + c
    if callable(v):
        return "<callable %s>" % getattr(v, "__name__", type(v).__name__)
    return "<%s %r>" % (type(v).__name__, v)


def exc_chain(e):
    out = []
    while e is not None:
        out.append(f"{type(e).__name__}({e})")
        e = e.__context__
    return " <- ".join(out)


def state(obj):
    """publicly visible state of a loader: instance dict in insertion order"""
    if obj is None:
        return "None"
    return type(obj).__name__ + " " + fx(dict(vars(obj)))


def rng():
    h = hashlib.sha256(repr(random.getstate()).encode()).hexdigest()[:16]
    s = np.random.get_state()
    g = hashlib.sha256(s[1].tobytes() + repr(s[2:]).encode()).hexdigest()[:16]
    return f"py={h} np={g}"


def attempt(label, fn):
    try:
        r = fn()
        emit(label, "OK", r, rng())
    except BaseException as e:  # noqa
        emit(label, "EXC", exc_chain(e), rng())


def poisson(lam):
    return lambda k: math.exp(-lam) * lam ** k / math.factorial(k)


def geometric(p):
    return lambda k: p * (1 - p) ** k


def joint(jd):
    return math.exp(-sum(jd)) / (1 + jd[0])


class Weird:
    """equal to everything, hashable"""
    def __eq__(self, other):
        return True
    def __hash__(self):
        return 7
    def __repr__(self):
        return "Weird()"


class Never:
    def __eq__(self, other):
        return False
    __hash__ = None
    def __repr__(self):
        return "Never()"


class CountingDict(dict):
    """dict subclass recording the protocol calls made on it"""
    def __init__(self, *a, **k):
        super().__init__(*a, **k)
        self.log = []
    def __getitem__(self, k):
        self.log.append(("getitem", getattr(k, "name", k)))
        return super().__getitem__(k)
    def __contains__(self, k):
        self.log.append(("contains", getattr(k, "name", k)))
        return super().__contains__(k)
    def get(self, k, d=None):
        self.log.append(("get", getattr(k, "name", k)))
        return super().get(k, d)


def marginal_params(**over):
    p = {
        N.JOINT_DEGREE_TYPE: "marginal",
        N.MOTIF_SIZES: [2, 3],
        N.ARR_FP: [poisson(1.5), geometric(0.4)],
        N.LOW_HIGH_DEGREE_BOUND: [(0, 5), (1, 4)],
    }
    for k, v in over.items():
        key = N[k]
        if v is DROP:
            p.pop(key, None)
        else:
            p[key] = v
    return p


DROP = object()


def all_params():
    return {
        "manual": {N.JOINT_DEGREE_TYPE: "manual", N.MOTIF_SIZES: [2, 3],
                   N.JDD: {(1, 0): 0.25, (2, 1): 0.5, (0, 3): 0.25}},
        "empirical": {N.JOINT_DEGREE_TYPE: "empirical", N.MOTIF_SIZES: [2, 3],
                      N.JDS: [(1, 0), (2, 1), (1, 0), (0, 0), (2, 1), (1, 0), (3, 3)]},
        "function": {N.JOINT_DEGREE_TYPE: "function", N.MOTIF_SIZES: [2, 3],
                     N.FP: joint, N.LOW_HIGH_DEGREE_BOUND: [(0, 3), (1, 2)]},
        "marginal": marginal_params(),
        "marginal_s": marginal_params(USE_SAMPLING=True, N_SAMPLES=500),
        "split_degree": {N.JOINT_DEGREE_TYPE: "split_degree", N.MOTIF_SIZES: [2, 3],
                         N.FP: poisson(2.0), N.PROBS: [0.5, 0.5],
                         N.LOW_HIGH_DEGREE_BOUND: (0, 6)},
        "delta": {N.JOINT_DEGREE_TYPE: "delta", N.MOTIF_SIZES: [2, 3], N.TARGET_K: 4,
                  N.FP: poisson(2.0), N.PROBS: [0.5, 0.5],
                  N.LOW_HIGH_DEGREE_BOUND: (0, 6)},
        "cover": {N.JOINT_DEGREE_TYPE: "cover",
                  N.COVER: [[0, 1], [1, 2], [2, 3, 4], [0, 3, 4], [4, 5]]},
    }


def use(loader, n=25):
    """exercise a built loader repeatedly: jdd, sampling, re-create"""
    out = [state(loader)]
    out.append(fx(loader.jdd))
    try:
        out.append(fx(loader.sample_jds_from_jdd(n)))
        out.append(fx(loader.sample_jds_from_jdd(n + 1)))
    except BaseException as e:  # noqa
        out.append("sampleEXC " + exc_chain(e))
    try:
        loader.create_jdd()
        out.append(fx(loader.jdd))
        loader.create_jdd()
        out.append(fx(loader.jdd))
    except BaseException as e:  # noqa
        out.append("recreateEXC " + exc_chain(e))
    out.append(state(loader))
    return hashlib.sha256("\n".join(out).encode()).hexdigest()[:20] + " n=%d sum=%s" % (
        len(loader.jdd), fx(float(sum(loader.jdd.values()))))


# ---------------------------------------------------------------- variant a
# JointDegreeMarginal.__init__ : parsing of the optional USE_SAMPLING / N_SAMPLES keys
emit("== marginal constructor, optional keys ==")
SAMPLING_VALUES = [DROP, False, True, 0, 1, None, "", "yes", [], [0], 0.0, 2.5]
NSAMPLE_VALUES = [DROP, 0, 1, 7, 300, None, "12", 3.0, -1, True, [5]]
for us in SAMPLING_VALUES:
    for ns in NSAMPLE_VALUES:
        label = "ctor us=%s ns=%s" % ("DROP" if us is DROP else repr(us),
                                      "DROP" if ns is DROP else repr(ns))
        holder = {}

        def build(us=us, ns=ns, holder=holder):
            p = marginal_params(USE_SAMPLING=us, N_SAMPLES=ns)
            before = list(p.items())
            obj = JointDegreeMarginal.__new__(JointDegreeMarginal)
            holder["obj"] = obj
            obj.__init__(p)
            assert list(p.items()) == before  # params not mutated
            return use(obj, 9)

        attempt(label, build)
        o = holder.get("obj")
        emit("   state", state(o)[:400])

emit("== malformed parameter dicts ==")
REQUIRED = ["MOTIF_SIZES", "ARR_FP", "LOW_HIGH_DEGREE_BOUND"]
for missing in REQUIRED + [None]:
    for us in (DROP, True, False):
        for ns in (DROP, 11):
            over = {"USE_SAMPLING": us, "N_SAMPLES": ns}
            if missing:
                over[missing] = DROP
            holder = {}

            def build(over=over, holder=holder):
                obj = JointDegreeMarginal.__new__(JointDegreeMarginal)
                holder["obj"] = obj
                obj.__init__(marginal_params(**over))
                return use(obj, 5)

            attempt("missing=%s us=%s ns=%s" % (
                missing, "DROP" if us is DROP else us, "DROP" if ns is DROP else ns), build)
            emit("   state", state(holder["obj"])[:300])

emit("== non-dict / odd params objects ==")
ODD = [None, 5, "abc", [], [1, 2, 3], (), {}, {"motif_sizes": [2]},
       {N.MOTIF_SIZES: [2]}, {N.MOTIF_SIZES: [2], N.ARR_FP: []},
       {N.MOTIF_SIZES: [2], N.ARR_FP: [poisson(1.0)], N.LOW_HIGH_DEGREE_BOUND: []},
       {N.MOTIF_SIZES: [2], N.ARR_FP: [poisson(1.0)], N.LOW_HIGH_DEGREE_BOUND: [(0, 0)]},
       {N.MOTIF_SIZES: [2], N.ARR_FP: [], N.LOW_HIGH_DEGREE_BOUND: [(0, 3)]},
       {N.MOTIF_SIZES: [2], N.ARR_FP: [poisson(1.0)], N.LOW_HIGH_DEGREE_BOUND: [(0, 3)],
        "use_sampling": True, "n_samples": 3},
       {N.MOTIF_SIZES: [2], N.ARR_FP: [poisson(1.0)], N.LOW_HIGH_DEGREE_BOUND: [(0, 3)],
        N.USE_SAMPLING: True, N.N_SAMPLES: 0},
       {N.MOTIF_SIZES: [2], N.ARR_FP: [lambda k: 0.0], N.LOW_HIGH_DEGREE_BOUND: [(0, 3)]},
       {N.MOTIF_SIZES: [2], N.ARR_FP: [lambda k: 0.0], N.LOW_HIGH_DEGREE_BOUND: [(0, 3)],
        N.USE_SAMPLING: True, N.N_SAMPLES: 4},
       ]
for i, p in enumerate(ODD):
    attempt("odd[%d]" % i, lambda p=p: use(JointDegreeMarginal(p), 4))

emit("== mapping flavours: protocol calls made on params ==")
for us in (DROP, True, False):
    for ns in (DROP, 13):
        base = marginal_params(USE_SAMPLING=us, N_SAMPLES=ns)
        cd = CountingDict(base)
        attempt("CountingDict us=%s ns=%s" % ("DROP" if us is DROP else us,
                                              "DROP" if ns is DROP else ns),
                lambda cd=cd: use(JointDegreeMarginal(cd), 4))
        emit("   calls", cd.log)
        dd = collections.defaultdict(lambda: 99, base)
        attempt("defaultdict", lambda dd=dd: use(JointDegreeMarginal(dd), 4))
        emit("   keys after", sorted(getattr(k, "name", str(k)) for k in dd))
        od = collections.OrderedDict(base)
        attempt("OrderedDict", lambda od=od: use(JointDegreeMarginal(od), 4))
        mp = types.MappingProxyType(base)
        attempt("mappingproxy", lambda mp=mp: use(JointDegreeMarginal(mp), 4))
        cm = collections.ChainMap({}, base)
        attempt("ChainMap", lambda cm=cm: use(JointDegreeMarginal(cm), 4))

emit("== through the dispatching entry point and the factory ==")
for us in (DROP, True, False, 1, 0):
    for ns in (DROP, 50, 0):
        p = marginal_params(USE_SAMPLING=us, N_SAMPLES=ns)
        lab = "us=%s ns=%s" % ("DROP" if us is DROP else us, "DROP" if ns is DROP else ns)
        attempt("load " + lab, lambda p=p: use(JointDegreeDistribution.load_joint_degree(p), 6))
        attempt("factory " + lab, lambda p=p: use(
            JointDegreeFactory.resolve_joint_degree(JointDegreeType.MARGINAL, p), 6))

emit("== repeated construction on one object ==")
obj = JointDegreeMarginal(marginal_params())
emit(state(obj)[:200])
for us, ns in [(True, 20), (DROP, DROP), (DROP, 5), (False, DROP), (True, DROP)]:
    # re-running __init__ on a live object: defaults must be re-established each time
    obj.__init__(marginal_params(USE_SAMPLING=us, N_SAMPLES=ns) if ns != 20 else
                 marginal_params(USE_SAMPLING=us, N_SAMPLES=ns))
    emit("reinit", "DROP" if us is DROP else us, "DROP" if ns is DROP else ns,
         obj._use_sampling, obj._n_samples, list(vars(obj)), len(obj.jdd), rng())

emit("FINAL", rng(), hashlib.sha256("\n".join(LINES).encode()).hexdigest())
