"""Equivalence digest for commit C18: exercises bond_percolate(g, phi) through
its PRE-EXISTING signature only. Run with cwd = a checkout."""
import hashlib
import os
import random
import sys
import warnings

warnings.simplefilter("ignore")
sys.path.insert(0, os.getcwd())

import networkx as nx

from gcmpy.tools.bond_percolate import bond_percolate
import gcmpy


def rng_digest():
    return hashlib.sha256(repr(random.getstate()).encode()).hexdigest()[:16]


def snap(g):
    try:
        if g.is_multigraph():
            es = [(repr(u), repr(v), repr(k), repr(sorted(d.items()))) for u, v, k, d in g.edges(keys=True, data=True)]
        else:
            es = [(repr(u), repr(v), repr(sorted(d.items()))) for u, v, d in g.edges(data=True)]
        ns = [(repr(n), repr(sorted(d.items()))) for n, d in g.nodes(data=True)]
        adj = [(repr(n), [repr(m) for m in g.adj[n]]) for n in g]
        return hashlib.sha256(repr((ns, es, adj, sorted(g.graph.items()), nx.is_frozen(g))).encode()).hexdigest()[:16]
    except Exception as e:  # non-graph inputs
        return "nosnap:" + type(e).__name__


def call(label, g, phi, fn=bond_percolate):
    before = snap(g)
    try:
        r = fn(g, phi)
        out = "ret %s %r" % (type(r).__name__, r)
    except BaseException as e:
        out = "exc %s" % type(e).__name__
    after = snap(g)
    print("%-34s phi=%-8r %s | rng=%s | input %s" % (
        label, phi, out, rng_digest(), "same" if before == after else "MUTATED %s->%s" % (before, after)))


def awkward():
    g = nx.Graph()
    g.add_nodes_from([5, 3, 9, 1, 7, 0])
    for e in [(9, 1), (3, 5), (1, 3), (7, 7), (0, 9), (5, 9), (1, 5), (3, 3), (7, 0)]:
        g.add_edge(*e, w=e[0] * 0.1)
    g.graph["name"] = "awk"
    g.nodes[3]["colour"] = "red"
    return g


def multi():
    g = nx.MultiGraph()
    g.add_nodes_from(range(7))
    g.add_edges_from([(0, 1), (0, 1), (0, 1), (1, 2), (2, 3), (2, 3), (4, 5), (5, 5), (5, 5), (3, 0)])
    return g


def strnodes():
    g = nx.Graph()
    g.add_edges_from([("a", "b"), ("b", "c"), ("x", "y"), ("c", "a"), ("y", "z"), ("z", "w")])
    g.add_node("lonely")
    return g


class CountingPhi:
    """phi with its own comparison: records how it is compared."""
    def __init__(self, v):
        self.v = v
        self.log = []
    def __lt__(self, o):
        self.log.append("lt"); return self.v < o
    def __gt__(self, o):
        self.log.append("gt"); return self.v > o
    def __le__(self, o):
        self.log.append("le"); return self.v <= o
    def __ge__(self, o):
        self.log.append("ge"); return self.v >= o
    def __repr__(self):
        return "CPhi(%r)" % self.v


graphs = [
    ("path10", nx.path_graph(10)),
    ("star7", nx.star_graph(7)),
    ("K5", nx.complete_graph(5)),
    ("empty4", nx.empty_graph(4)),
    ("single", nx.empty_graph(1)),
    ("null", nx.Graph()),
    ("two_paths", nx.disjoint_union(nx.path_graph(6), nx.path_graph(4))),
    ("gnp30", nx.gnp_random_graph(30, 0.05, seed=3)),
    ("gnp200", nx.gnp_random_graph(200, 0.012, seed=11)),
    ("awkward_selfloops", awkward()),
    ("strnodes", strnodes()),
    ("multigraph", multi()),
    ("null_multi", nx.MultiGraph()),
    ("digraph", nx.gnp_random_graph(12, 0.3, seed=5, directed=True)),
    ("null_digraph", nx.DiGraph()),
    ("multidigraph", nx.MultiDiGraph([(0, 1), (0, 1), (1, 2)])),
    ("frozen_path", nx.freeze(nx.path_graph(8))),
    ("subgraph_view", nx.gnp_random_graph(30, 0.2, seed=9).subgraph(range(3, 20))),
    ("edge_subgraph_view", nx.path_graph(12).edge_subgraph([(0, 1), (1, 2), (5, 6), (8, 9), (9, 10)])),
    ("grid", nx.grid_2d_graph(5, 4)),
]
phis = [0.0, 1.0, 0.5, 0.1, 0.9, 0.3, -0.5, 1.5, float("nan"), float("inf"), 1, 0, True]

random.seed(20261004)
print("== sweep")
for name, g in graphs:
    for phi in phis:
        call(name, g, phi)

print("== repeated calls on one object")
random.seed(77)
g = nx.gnp_random_graph(60, 0.04, seed=1)
for i in range(40):
    call("rep gnp60 #%d" % i, g, 0.45)
st = nx.star_graph(4)
vals = [bond_percolate(st, 0.3) for _ in range(3000)]
print("star4 3000 draws", hashlib.sha256(repr(vals).encode()).hexdigest()[:16], rng_digest(), snap(st))
aw = awkward()
vals = [bond_percolate(aw, 0.4) for _ in range(2000)]
print("awkward 2000 draws", hashlib.sha256(repr(vals).encode()).hexdigest()[:16], rng_digest(), snap(aw))
mg = multi()
vals = [bond_percolate(mg, 0.35) for _ in range(2000)]
print("multi 2000 draws", hashlib.sha256(repr(vals).encode()).hexdigest()[:16], rng_digest(), snap(mg))

print("== error paths / odd arguments")
random.seed(5)
call("phi str, edges", nx.path_graph(4), "0.5")
call("phi str, no edges", nx.empty_graph(3), "0.5")
call("phi None, edges", nx.path_graph(4), None)
call("phi None, no edges", nx.empty_graph(3), None)
call("phi None, null", nx.Graph(), None)
call("phi complex", nx.path_graph(4), 1j)
call("g None", None, 0.5)
call("g list", [(0, 1)], 0.5)
call("g dict", {0: [1]}, 0.5)
cp = CountingPhi(0.5)
call("custom phi", nx.path_graph(6), cp)
print("custom phi comparisons", cp.log)
cp = CountingPhi(float("nan"))
call("custom phi nan", nx.path_graph(6), cp)
print("custom phi comparisons", cp.log)
try:
    bond_percolate(nx.path_graph(3))
except BaseException as e:
    print("missing phi", type(e).__name__, rng_digest())
try:
    r = bond_percolate(phi=1.0, g=nx.path_graph(3))
    print("keywords", repr(r), rng_digest())
except BaseException as e:
    print("keywords", type(e).__name__, rng_digest())

print("== package re-export")
random.seed(9)
call("gcmpy.bond_percolate", nx.cycle_graph(9), 0.5, gcmpy.bond_percolate)
print("same object", gcmpy.bond_percolate is bond_percolate)

print("== interleaving with the module RNG")
random.seed(123)
g = nx.gnp_random_graph(40, 0.08, seed=2)
acc = []
for i in range(20):
    acc.append(repr(random.random()))
    acc.append(repr(bond_percolate(g, 0.2 + 0.03 * i)))
print(hashlib.sha256(repr(acc).encode()).hexdigest()[:16], rng_digest(), snap(g))
print("final rng", rng_digest())
