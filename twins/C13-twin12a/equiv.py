import sys, os; sys.path.insert(0, os.getcwd())
# Variant a: resolve_excess_degree_keys - empty-list shortcut.
import random, hashlib, copy
import numpy as np
import networkx as nx

from gcmpy.tools.joint_excess_joint_degree import JointExcessJointDegree
from gcmpy.tools.joint_excess_joint_degree_matrices import JointExcessJointDegreeMatrices
from gcmpy.tools.joint_excess_degree import JointExcessDegree
from gcmpy.names.tools_names import ToolsNames
from gcmpy.names.network_names import NetworkNames
from gcmpy.names.gcm_algorithm_names import GCMAlgorithmNames
from gcmpy.names.joint_degree_names import JointDegreeNames
from gcmpy.joint_degree.joint_degree_loaders.joint_degree_manual import JointDegreeManual
from gcmpy.motif_generators.clique_motif import clique_motif
from gcmpy.gcm_algorithm.gcm_algorithm_network import GCMAlgorithmNetwork

random.seed(1313)
np.random.seed(1313)

JD = NetworkNames.JOINT_DEGREE
TOP = NetworkNames.TOPOLOGY
OUT = []


def emit(*xs):
    OUT.append(" ".join(repr(x) for x in xs))


def rng_state():
    h = hashlib.sha256()
    h.update(repr(random.getstate()).encode())
    st = np.random.get_state()
    h.update(repr((st[0], st[1].tolist(), st[2], st[3], st[4])).encode())
    return h.hexdigest()[:16]


def show(x):
    return x if isinstance(x, (list, tuple, str, type(None), int)) else type(x).__name__


def call(label, f, *a, **k):
    try:
        r = f(*a, **k)
        emit(label, "ok", r)
        return r
    except BaseException as e:  # noqa
        emit(label, "EXC", type(e).__name__, str(e)[:120])
        return None


def dump_extractor(label, C):
    emit(label, "topnames", show(C._topology_names))
    emit(label, "degree_keys", sorted(C._degree_keys, key=repr), type(C._degree_keys).__name__)
    # order of the lists is part of the observable result: keep it
    emit(label, "excess_keys", [(k, v, type(v).__name__) for k, v in C._excess_degree_keys.items()])
    emit(label, "num_edges", list(C._num_edges.items()))


def dump_matrices(label, M):
    emit(label, "M.topnames", show(M.topology_names))
    emit(label, "M.excess", [(k, v, type(v).__name__) for k, v in M.excess_degree_keys.items()])
    emit(label, "M.ejks", [(k, [(kk, vv.hex() if isinstance(vv, float) else vv) for kk, vv in d.items()])
                           for k, d in M.ejks.items()])


def annotated(edges, names, nodes=()):
    """Graph with `topology` on edges and a consistent joint_degree per node."""
    G = nx.Graph()
    G.add_nodes_from(nodes)
    for u, v, t in edges:
        G.add_edge(u, v)
        G.edges[u, v][TOP] = t
    for n in G.nodes():
        jd = [0] * len(names)
        for nb in G[n]:
            t = G.edges[n, nb][TOP]
            if t in names:
                jd[names.index(t)] += 1
        G.nodes[n][JD] = tuple(jd)
    return G


def run(label, G, names, repeat=2):
    params = {ToolsNames.NETWORK: G, ToolsNames.EDGE_NAMES: names}
    try:
        C = JointExcessJointDegree(params)
    except BaseException as e:  # noqa
        emit(label, "ctor EXC", type(e).__name__, str(e)[:120])
        return None
    dump_extractor(label + ".init", C)
    for r in range(repeat):
        try:
            M = C.get_ejks()
            dump_matrices(label + ".get%d" % r, M)
            emit(label, "same list objects", M.excess_degree_keys is C._excess_degree_keys)
        except BaseException as e:  # noqa
            emit(label + ".get%d" % r, "EXC", type(e).__name__, str(e)[:120])
        dump_extractor(label + ".after%d" % r, C)
    # call resolve again on the same object (public method): result overwritten in place
    held = dict(C._excess_degree_keys)  # keep the old lists alive: `is` is then meaningful
    call(label + ".resolve-again", C.resolve_excess_degree_keys)
    dump_extractor(label + ".resolved-again", C)
    emit(label, "fresh lists", [held.get(k) is not v for k, v in C._excess_degree_keys.items()])
    # returned lists must be independent, mutable lists
    for k, v in C._excess_degree_keys.items():
        v.append(("sentinel",))
    call(label + ".resolve-3", C.resolve_excess_degree_keys)
    dump_extractor(label + ".resolved-3", C)
    emit(label, "rng", rng_state())
    return C


# ---------------------------------------------------------------- boundary graphs
names2 = ["2-clique", "3-clique"]
run("empty-graph", nx.Graph(), names2)
run("empty-graph-no-names", nx.Graph(), [])
run("nodes-only", annotated([], names2, nodes=range(4)), names2)
run("one-edge", annotated([(0, 1, "2-clique")], names2), names2)
run("one-top-unused", annotated([(0, 1, "2-clique"), (1, 2, "2-clique")], names2), names2)
run("other-top-unused", annotated([(0, 1, "3-clique"), (1, 2, "3-clique"), (0, 2, "3-clique")], names2), names2)
run("both", annotated([(0, 1, "2-clique"), (1, 2, "3-clique"), (2, 3, "3-clique"), (1, 3, "3-clique"),
                       (3, 4, "2-clique"), (4, 5, "2-clique"), (5, 0, "2-clique")], names2), names2)
run("isolated+edges", annotated([(0, 1, "2-clique")], names2, nodes=[7, 8, 9]), names2)
run("dup-names", annotated([(0, 1, "a"), (1, 2, "a")], ["a", "a"]), ["a", "a"])
run("three-names-one-empty", annotated([(0, 1, "a"), (1, 2, "c"), (2, 0, "c")], ["a", "b", "c"]), ["a", "b", "c"])
run("names-tuple", annotated([(0, 1, "a")], ["a", "b"]), ("a", "b"))
run("names-string", annotated([(0, 1, "a")], ["a", "b"]), "ab")

# all joint degrees zero although there are edges (malformed annotation)
G = annotated([(0, 1, "a"), (1, 2, "b")], ["a", "b"])
for n in G.nodes():
    G.nodes[n][JD] = (0, 0)
run("zero-jd-with-edges", G, ["a", "b"])

# negative / float / bool degrees
G = annotated([(0, 1, "a"), (1, 2, "b")], ["a", "b"])
G.nodes[0][JD] = (-1, 0)
G.nodes[1][JD] = (0.5, True)
G.nodes[2][JD] = (False, 0.0)
run("odd-degrees", G, ["a", "b"])

# joint degree shorter than the number of names -> IndexError in resolve
G = annotated([(0, 1, "a")], ["a", "b"])
for n in G.nodes():
    G.nodes[n][JD] = (1,)
run("short-jd", G, ["a", "b"])
G = nx.Graph(); G.add_node(0); G.nodes[0][JD] = ()
run("empty-jd", G, ["a"])
run("empty-jd-no-names", G, [])

# unhashable topology name with / without candidates
G = annotated([(0, 1, "a")], ["a"])
run("unhashable-name-nonempty", G, [["a"]])
G0 = annotated([], ["a"], nodes=[0, 1])
run("unhashable-name-empty", G0, [["a"]])
run("unhashable-name-empty-graph", nx.Graph(), [["a"], "b"])
G3 = annotated([(0, 1, "a")], ["a", "b", "c"], nodes=[5])
run("mixed-unhashable-second", G3, ["a", {"x": 1}, "c"])
run("mixed-unhashable-second-empty", annotated([], ["a", "b", "c"], nodes=[5, 6]), ["a", {"x": 1}, "c"])

# malformed params
for lab, p in [
    ("no-network", {ToolsNames.EDGE_NAMES: ["a"]}),
    ("no-names", {ToolsNames.NETWORK: nx.Graph()}),
    ("names-None", {ToolsNames.NETWORK: nx.Graph(), ToolsNames.EDGE_NAMES: None}),
    ("names-int", {ToolsNames.NETWORK: nx.Graph(), ToolsNames.EDGE_NAMES: 3}),
    ("network-None", {ToolsNames.NETWORK: None, ToolsNames.EDGE_NAMES: ["a"]}),
    ("params-None", None),
    ("missing-jd", {ToolsNames.NETWORK: nx.path_graph(3), ToolsNames.EDGE_NAMES: ["a"]}),
]:
    call(lab, JointExcessJointDegree, p)

# names given as a one-shot iterator
G = annotated([(0, 1, "a"), (1, 2, "b")], ["a", "b"])
run("names-iterator", G, iter(["a", "b"]))

# ---------------------------------------------------------------- random annotated graphs
for trial in range(40):
    k = random.randint(1, 4)
    names = ["t%d" % j for j in range(k)]
    n = random.randint(0, 12)
    p = random.choice([0.0, 0.1, 0.3, 0.7])
    H = nx.gnp_random_graph(n, p, seed=random.randint(0, 10 ** 6))
    # use only a random subset of the names, so that some topologies stay empty
    used = [t for t in names if random.random() < 0.6]
    edges = [(u, v, random.choice(used)) for u, v in H.edges()] if used else []
    G = annotated(edges, names, nodes=range(n))
    run("rand%d" % trial, G, names, repeat=2)

# ---------------------------------------------------------------- networks from the GCM algorithm
for trial, (jdd, sizes, enames, nv) in enumerate([
    ({(5, 1): 1 / 3, (3, 2): 1 / 3, (1, 3): 1 / 3}, [2, 3], ["2-clique", "3-clique"], 300),
    ({(1, 0, 0): 0.2, (1, 1, 1): 0.5, (3, 0, 1): 0.1, (2, 1, 0): 0.2}, [2, 3, 2], ["b", "tri", "r"], 300),
    ({(2, 0): 1.0}, [2, 3], ["2-clique", "3-clique"], 60),
    ({(0, 1): 1.0}, [2, 3], ["2-clique", "3-clique"], 60),
    ({(0, 0): 1.0}, [2, 3], ["2-clique", "3-clique"], 20),
]):
    try:
        D = JointDegreeManual({JointDegreeNames.JDD: jdd, JointDegreeNames.MOTIF_SIZES: sizes})
        jds = D.sample_jds_from_jdd(nv)
        g = GCMAlgorithmNetwork({
            GCMAlgorithmNames.MOTIF_SIZES: sizes,
            GCMAlgorithmNames.EDGE_NAMES: enames,
            GCMAlgorithmNames.BUILD_FUNCTIONS: [clique_motif] * len(sizes),
        }).random_clustered_graph(jds)
        C = run("gcm%d" % trial, g._G, enames)
        e = JointExcessDegree.get_ejk(g._G)
        emit("gcm%d.overall" % trial, sorted((k, v.hex()) for k, v in e.items()))
    except BaseException as ex:  # noqa
        emit("gcm%d" % trial, "EXC", type(ex).__name__, str(ex)[:120])
    emit("gcm%d" % trial, "rng", rng_state())

text = "\n".join(OUT)
print(text)
print("DIGEST", hashlib.sha256(text.encode()).hexdigest())
print("RNG", rng_state())
