import sys, os; sys.path.insert(0, os.getcwd())
# Variant b: gcmpy/message_passing/message_passing_mixin.py :
#            MessagePassingMixin.get_motif_topology / get_motif_ID
# Exercises the cover-label parsers directly (MPCC labels, 4-piece motif
# labels, malformed labels, non-str labels, str subclasses that observe how
# they are split) and through MessagePassing.theoretical on MPCC-covered graphs.
import hashlib
import random

import numpy as np
import networkx as nx

random.seed(1010)
np.random.seed(1010)

import gcmpy
from gcmpy.covers.mpcc import MPCC
from gcmpy.message_passing.message_passing_mixin import MessagePassingMixin
from gcmpy.message_passing.message_passing import MessagePassing

OUT = []


def emit(*parts):
    OUT.append(" | ".join(str(p) for p in parts))


def rng_digest():
    h = hashlib.sha256()
    h.update(repr(random.getstate()).encode())
    st = np.random.get_state()
    h.update(repr((st[0], st[1].tolist(), st[2], st[3], st[4])).encode())
    return h.hexdigest()


def attempt(tag, thunk):
    try:
        res = thunk()
    except BaseException as exc:  # noqa: B902
        emit(tag, "EXC", type(exc).__name__, type(exc).__mro__[1].__name__)
    else:
        emit(tag, "OK", type(res).__name__, repr(res))


class SpyStr(str):
    """str subclass that logs every split-like call made on it."""

    log = []

    def split(self, *a, **k):
        SpyStr.log.append(("split", a, tuple(sorted(k.items()))))
        return str.split(self, *a, **k)

    def rsplit(self, *a, **k):
        SpyStr.log.append(("rsplit", a, tuple(sorted(k.items()))))
        return str.rsplit(self, *a, **k)

    def partition(self, *a):
        SpyStr.log.append(("partition", a))
        return str.partition(self, *a)

    def rpartition(self, *a):
        SpyStr.log.append(("rpartition", a))
        return str.rpartition(self, *a)


class FakeLabel:
    """Duck-typed label whose split returns a prepared object."""

    def __init__(self, pieces):
        self.pieces = pieces
        self.calls = 0

    def split(self, sep):
        self.calls += 1
        if isinstance(self.pieces, BaseException):
            raise self.pieces
        return self.pieces


class IntLike:
    def __init__(self, v):
        self.v = v

    def __int__(self):
        return self.v


emit("exports", gcmpy.MessagePassingMixin is MessagePassingMixin)

G0 = nx.Graph()
G0.add_edge(0, 1, CoverLabel="2-[0, 1]-[(0, 1)]-0")
mixin = MessagePassingMixin("clique cover", G0)
emit("state", sorted(vars(mixin)), mixin._CoverType, mixin._G is G0)

PARSERS = [
    ("topology", mixin.get_motif_topology),
    ("ID", mixin.get_motif_ID),
    ("vertices", mixin.get_vertices_in_motif),
    ("edges", mixin.get_edges_in_motif),
]

labels = [
    "3-[1, 2, 3]-7",
    "2-[0, 1]-0",
    "3-[1, 2, 3]-[(1, 2), (1, 3), (2, 3)]-12",
    "3-[-1, 2, 3]-4",
    "4-['a-b', 'c', 'd', 'e']-9",
    "",
    "-",
    "--",
    "5",
    " 7 ",
    "-3",
    "3-",
    "3--1",
    "+3-[]-+4",
    "1_0-[]-2_0",
    "3.0-[]-1",
    "1e3-[]-1",
    "0x10-[]-0b1",
    "\n3-[1]- 4\t",
    "٣-[]-٤",
    "²-[]-1",
    "3–4",
    "three-[]-one",
    "9" * 60 + "-[]-" + "8" * 60,
    "1-[(1,2)]-[(1, 2)]-3",
    "nan-inf",
    "True-[]-False",
    "3 -[ 1 ]- 2",
    "3-[1]-2-",
]
for lab in labels:
    for pname, parser in PARSERS:
        attempt(f"{pname}:{lab!r}", lambda: parser(lab))

others = [
    ("none", None),
    ("int", 5),
    ("float", 2.5),
    ("bytes", b"3-[1]-2"),
    ("bytearray", bytearray(b"3-[1]-2")),
    ("list", ["3", "x", "2"]),
    ("tuple", ("3", "2")),
    ("fake-empty", FakeLabel([])),
    ("fake-one", FakeLabel(["42"])),
    ("fake-tuple", FakeLabel(("6", "[1]", "[(1, 2)]", "8"))),
    ("fake-ints", FakeLabel([3, [1], [(1, 2)], 4])),
    ("fake-floats", FakeLabel([3.9, "[]", "[]", -4.9])),
    ("fake-intlike", FakeLabel([IntLike(11), "[]", "[]", IntLike(12)])),
    ("fake-none-pieces", FakeLabel([None, None])),
    ("fake-str", FakeLabel("7-8")),
    ("fake-dict", FakeLabel({0: "1", -1: "2", 1: "[]", 2: "[]"})),
    ("fake-iter", FakeLabel(iter(["1", "2"]))),
    ("fake-none", FakeLabel(None)),
    ("fake-raises", FakeLabel(KeyError("k"))),
    ("fake-nparray", FakeLabel(np.array([5, 6, 7]))),
]
for tag, lab in others:
    for pname, parser in PARSERS:
        attempt(f"{pname}:{tag}", lambda: parser(lab))
    if isinstance(lab, FakeLabel):
        emit(f"calls:{tag}", lab.calls)

# how a str subclass sees itself being taken apart
for text in ["3-[1, 2, 3]-7", "5", "", "3-[1]-[(1, 2)]-x"]:
    for pname, parser in PARSERS:
        SpyStr.log = []
        attempt(f"spy:{pname}:{text!r}", lambda: parser(SpyStr(text)))
        emit(f"spylog:{pname}:{text!r}", SpyStr.log)

# arity / keywords
attempt("arity:none", lambda: mixin.get_motif_ID())
attempt("arity:two", lambda: mixin.get_motif_ID("1-2", "3-4"))
attempt("kw:label", lambda: mixin.get_motif_ID(label="1-2"))
attempt("kw:label-top", lambda: mixin.get_motif_topology(label="1-2"))
attempt("kw:other", lambda: mixin.get_motif_topology(lbl="1-2"))
attempt("unbound", lambda: MessagePassingMixin.get_motif_ID(None, "4-5"))
attempt("unbound-top", lambda: MessagePassingMixin.get_motif_topology(object(), "4-5"))
emit("state-after", sorted(vars(mixin)), mixin._CoverType, mixin._G is G0)
emit("rng-after-direct", rng_digest())


# ---- MPCC labels fed to the parsers and to MessagePassing -------------------
def to_cover_label(mx, lab):
    size = mx.get_motif_topology(lab)
    members = mx.get_vertices_in_motif(lab)
    uid = mx.get_motif_ID(lab)
    edges = [(members[i], members[j]) for i in range(size) for j in range(i + 1, size)]
    return f"{size}-{members}-{edges}-{uid}"


for trial in range(8):
    n = 8 + 3 * trial
    p = [0.15, 0.25, 0.35, 0.2][trial % 4]
    H = nx.gnp_random_graph(n, p, seed=100 + trial)
    if trial == 5:
        H = nx.relabel_nodes(H, {i: i + 1 for i in H.nodes()})
    if trial == 6:
        H = nx.disjoint_union(nx.complete_graph(4), nx.path_graph(5))
    for max_size in (0, 2, 3):
        C = MPCC(H.copy(), max_size)
        mx = MessagePassingMixin("clique cover", C)
        parsed = []
        for u, v in C.edges():
            lab = C.edges[u, v]["clique"]
            parsed.append(
                (
                    u,
                    v,
                    mx.get_motif_topology(lab),
                    mx.get_motif_ID(lab),
                    mx.get_vertices_in_motif(lab),
                )
            )
            C.edges[u, v]["CoverLabel"] = to_cover_label(mx, lab)
        emit(
            f"mpcc:{trial}:{max_size}",
            C.number_of_edges(),
            hashlib.sha256(repr(parsed).encode()).hexdigest()[:24],
        )
        if max_size in (0, 3) and C.number_of_edges() > 0:
            mp = MessagePassing(C, "clique cover", iterations=4)
            for phi in (0.0, 0.3, 0.75, 1.0):
                attempt(
                    f"theory:{trial}:{max_size}:{phi}",
                    lambda: float(mp.theoretical(phi)).hex(),
                )
            emit(
                f"htau:{trial}:{max_size}",
                hashlib.sha256(
                    repr(sorted((k, float(v).hex()) for k, v in mp._H_tau.items())).encode()
                ).hexdigest()[:24],
            )
        emit(f"rng:{trial}:{max_size}", rng_digest())

# raw MPCC labels (3 pieces) handed straight to MessagePassing: the ID parser
# still works, the edge parser sees the id piece.
C = MPCC(nx.complete_graph(3))
for u, v in C.edges():
    C.edges[u, v]["CoverLabel"] = C.edges[u, v]["clique"]
attempt("theory:raw-mpcc-labels", lambda: MessagePassing(C).theoretical(0.5))
# graph without cover labels at all
attempt("theory:no-labels", lambda: MessagePassing(nx.path_graph(3)).theoretical(0.5))
emit("rng-final", rng_digest())

print("\n".join(OUT))
print("DIGEST", hashlib.sha256("\n".join(OUT).encode()).hexdigest())
