"""
Equivalence digest for the C13 refactoring (mixing-matrix extractors).

Run with cwd = a checkout of gcmpy:  /venv/bin/python /tmp/wt3/C13.out/equiv.py
Prints a deterministic, order-sensitive digest of everything the refactored
functions return or leave behind (dict insertion order, list order, exact float
repr, exception types).
"""
import hashlib
import os
import random
import sys

sys.path.insert(0, os.getcwd())

import networkx as nx
import numpy as np

from gcmpy.names.network_names import NetworkNames
from gcmpy.names.tools_names import ToolsNames
from gcmpy.names.gcm_algorithm_names import GCMAlgorithmNames
from gcmpy.names.joint_degree_names import JointDegreeNames
from gcmpy.tools.joint_excess_joint_degree import JointExcessJointDegree
from gcmpy.tools.joint_excess_degree import JointExcessDegree
from gcmpy.tools.joint_excess_joint_degree_matrices import (
    JointExcessJointDegreeMatrices,
)
from gcmpy.joint_degree.joint_degree_loaders.joint_degree_manual import (
    JointDegreeManual,
)
from gcmpy.motif_generators.clique_motif import clique_motif
from gcmpy.gcm_algorithm.gcm_algorithm_network import GCMAlgorithmNetwork

JD = NetworkNames.JOINT_DEGREE
TOP = NetworkNames.TOPOLOGY


def seed(s):
    random.seed(s)
    np.random.seed(s)


def digest(label, obj, full=False):
    text = repr(obj)
    h = hashlib.sha256(text.encode()).hexdigest()
    if full or len(text) <= 400:
        print(f"{label}: {h[:16]} {text}")
    else:
        print(f"{label}: {h[:16]} len={len(text)} head={text[:160]}")


def ordered(d):
    """order-sensitive, exact view of a dict of floats"""
    return [(k, repr(v)) for k, v in d.items()]


def dump_matrices(label, m):
    digest(f"{label}.topology_names", m.topology_names)
    digest(f"{label}.ejks.keys", list(m.ejks))
    for t in m.ejks:
        digest(f"{label}.ejks[{t}]", ordered(m.ejks[t]))
        digest(f"{label}.ejks[{t}].sum", repr(sum(m.ejks[t].values())))
    digest(f"{label}.excess_degree_keys.keys", list(m.excess_degree_keys))
    for t in m.excess_degree_keys:
        digest(f"{label}.excess_degree_keys[{t}]", m.excess_degree_keys[t])


def exercise_extractor(label, G, names):
    C = JointExcessJointDegree({ToolsNames.NETWORK: G, ToolsNames.EDGE_NAMES: names})
    digest(f"{label}.degree_keys", sorted(C._degree_keys))
    digest(f"{label}.init_excess_keys", [(t, C._excess_degree_keys[t]) for t in C._excess_degree_keys])
    digest(f"{label}.num_edges_before", list(C._num_edges.items()))
    m1 = C.get_ejks()
    digest(f"{label}.returned_is_stored", m1 is C._ejks)
    digest(f"{label}.keys_aliased", m1.excess_degree_keys is C._excess_degree_keys)
    digest(f"{label}.names_aliased", m1.topology_names is C._topology_names)
    digest(f"{label}.num_edges_1", list(C._num_edges.items()))
    dump_matrices(f"{label}.call1", m1)
    m2 = C.get_ejks()
    digest(f"{label}.num_edges_2", list(C._num_edges.items()))
    dump_matrices(f"{label}.call2", m2)
    digest(f"{label}.repeatable", [ordered(m1.ejks[t]) == ordered(m2.ejks[t]) for t in names])
    digest(f"{label}.distinct_objects", m1 is m2)
    # direct calls of the pieces, in a different order
    C.count_edge_types()
    C.count_edge_types()
    digest(f"{label}.num_edges_3", list(C._num_edges.items()))
    for i in reversed(range(len(names))):
        digest(f"{label}.direct_get_ejk[{i}]", ordered(C.get_ejk(i, names[i])))
    # a name that has no edges: empty dict, no KeyError
    digest(f"{label}.get_ejk_absent", C.get_ejk(0, "no-such-topology"))
    # resolve again (idempotent on the stored dict)
    C.resolve_excess_degree_keys()
    digest(f"{label}.re_resolved", [(t, C._excess_degree_keys[t]) for t in C._excess_degree_keys])
    # Matrices rebuilt from the ejks only
    M = JointExcessJointDegreeMatrices(
        {ToolsNames.EJKS: m1.ejks, ToolsNames.EDGE_NAMES: names}
    )
    dump_matrices(f"{label}.rebuilt", M)
    for t in names:
        digest(f"{label}.topology_index[{t}]", M.get_topology_index(t))
    # graph must be untouched
    digest(f"{label}.node_attrs", [(n, G.nodes[n][JD]) for n in G.nodes()])
    return m1


def library_network(s, jdd, sizes, names, n):
    seed(s)
    jds = JointDegreeManual(
        {JointDegreeNames.JDD: jdd, JointDegreeNames.MOTIF_SIZES: sizes}
    ).sample_jds_from_jdd(n)
    params = {
        GCMAlgorithmNames.MOTIF_SIZES: sizes,
        GCMAlgorithmNames.EDGE_NAMES: names,
        GCMAlgorithmNames.BUILD_FUNCTIONS: [clique_motif] * len(sizes),
    }
    return GCMAlgorithmNetwork(params).random_clustered_graph(jds)._G


def hand_network(s, n, names, p):
    """Random graph, random topology per edge, joint degrees derived from edges."""
    rng = random.Random(s)
    G = nx.gnp_random_graph(n, p, seed=s)
    for e in G.edges():
        G.edges[e][TOP] = rng.choice(names)
    for v in G.nodes():
        jd = [0] * len(names)
        for w in G[v]:
            jd[names.index(G.edges[v, w][TOP])] += 1
        # store as tuple or list, both occur in practice
        G.nodes[v][JD] = tuple(jd) if v % 2 else list(jd)
    return G


def main():
    # 1. library-built networks (seeded)
    names2 = ["2-clique", "3-clique"]
    G = library_network(
        11, {(5, 1): 1 / 3, (3, 2): 1 / 3, (1, 3): 1 / 3}, [2, 3], names2, 600
    )
    exercise_extractor("lib2", G, names2)
    digest("lib2.overall", ordered(JointExcessDegree.get_ejk(G)))

    names3 = ["2-clique-blue", "3-clique", "2-clique-red"]
    G = library_network(
        12,
        {(1, 0, 0): 0.2, (1, 1, 1): 0.5, (3, 0, 1): 0.1, (2, 1, 0): 0.2},
        [2, 3, 2],
        names3,
        500,
    )
    exercise_extractor("lib3", G, names3)
    digest("lib3.overall", ordered(JointExcessDegree.get_ejk(G)))

    # 2. hand-annotated networks
    for s, n, names, p in [
        (1, 40, ["a", "b"], 0.15),
        (2, 60, ["a", "b", "c"], 0.1),
        (3, 25, ["only"], 0.3),
        (4, 30, ["x", "y", "z", "w"], 0.25),
    ]:
        G = hand_network(s, n, names, p)
        exercise_extractor(f"hand{s}", G, names)
        # names listed in another order than the edges appear
        digest(f"hand{s}.overall", ordered(JointExcessDegree.get_ejk(G)))

    # 3. tiny fixed graphs: self-paired keys, a topology listed but absent
    G = nx.Graph()
    G.add_edge(0, 1, **{})
    G.edges[0, 1][TOP] = "t"
    G.add_edge(2, 3)
    G.edges[2, 3][TOP] = "t"
    G.add_edge(1, 2)
    G.edges[1, 2][TOP] = "s"
    for v, jd in {0: (1, 0, 0), 1: (1, 1, 0), 2: (1, 1, 0), 3: (1, 0, 0)}.items():
        G.nodes[v][JD] = jd
    exercise_extractor("tiny", G, ["t", "s", "absent"])
    digest("tiny.overall", ordered(JointExcessDegree.get_ejk(G)))

    # 4. overall-degree variant on assorted graphs
    digest("overall.empty", JointExcessDegree.get_ejk(nx.Graph()))
    digest("overall.no_edges", JointExcessDegree.get_ejk(nx.empty_graph(5)))
    digest("overall.path", ordered(JointExcessDegree.get_ejk(nx.path_graph(7))))
    digest("overall.star", ordered(JointExcessDegree.get_ejk(nx.star_graph(6))))
    digest("overall.complete", ordered(JointExcessDegree.get_ejk(nx.complete_graph(6))))
    digest("overall.gnp", ordered(JointExcessDegree.get_ejk(nx.gnp_random_graph(80, 0.07, seed=5))))
    digest("overall.ba", ordered(JointExcessDegree.get_ejk(nx.barabasi_albert_graph(120, 3, seed=6))))
    digest("overall.digraph", ordered(JointExcessDegree.get_ejk(nx.gnp_random_graph(30, 0.1, seed=7, directed=True))))
    MG = nx.MultiGraph()
    MG.add_edges_from([(0, 1), (0, 1), (1, 2), (2, 2), (2, 3), (3, 0), (3, 0), (3, 0)])
    digest("overall.multigraph", ordered(JointExcessDegree.get_ejk(MG)))
    SL = nx.Graph()
    SL.add_edges_from([(0, 0), (0, 1), (1, 2), (2, 2)])
    digest("overall.selfloops", ordered(JointExcessDegree.get_ejk(SL)))

    # 5. Matrices object on its own
    M = JointExcessJointDegreeMatrices()
    digest("matrices.default", (M.ejks, M.excess_degree_keys, M.topology_names))
    ej = {
        "p": {(0, 3, 0, 3): 0.25, (0, 3, 4, 1): 0.25, (4, 1, 0, 3): 0.25, (2, 2, 2, 2): 0.25},
        "q": {(1, 2, 3): 1.0, (): 0.0, (7,): 0.5},
    }
    M = JointExcessJointDegreeMatrices({ToolsNames.EJKS: ej, ToolsNames.EDGE_NAMES: ["p", "q"]})
    dump_matrices("matrices.manual", M)
    M.get_excess_degree_keys()
    dump_matrices("matrices.manual_again", M)
    try:
        M.get_topology_index("zzz")
    except BaseException as exc:  # noqa
        digest("matrices.bad_index", type(exc).__name__)

    # 6. error paths keep their exception type
    G = nx.Graph()
    G.add_edge(0, 1)
    G.nodes[0][JD] = (1,)
    G.nodes[1][JD] = (1,)
    C = JointExcessJointDegree({ToolsNames.NETWORK: G, ToolsNames.EDGE_NAMES: ["t"]})
    try:
        C.get_ejks()
    except BaseException as exc:  # noqa
        digest("err.no_topology_attr", (type(exc).__name__, list(C._num_edges.items()), C._ejks is not None))
    G.edges[0, 1][TOP] = "t"
    try:
        digest("err.direct_without_count", C.get_ejk(0, "t"))
    except BaseException as exc:  # noqa
        digest("err.direct_without_count", type(exc).__name__)
    digest("err.after_fix", ordered(C.get_ejks().ejks["t"]))


if __name__ == "__main__":
    main()
