import sys, os; sys.path.insert(0, os.getcwd())
# Differential digest for variant a (handshaking_lemma: clamp on the drawn row index).
# Run with cwd = a checkout of gcmpy; prints a deterministic digest.
import hashlib
import random
import re
import warnings

import numpy as np

warnings.simplefilter("ignore")

from gcmpy.joint_degree.joint_degree import JointDegree
from gcmpy.joint_degree.joint_degree_type import JointDegreeType
from gcmpy.joint_degree.joint_degree_distribution import JointDegreeDistribution
from gcmpy.joint_degree.joint_degree_loaders.joint_degree_manual import JointDegreeManual
from gcmpy.joint_degree.joint_degree_loaders.joint_degree_empirical import (
    JointDegreeEmpirical,
)
from gcmpy.names.joint_degree_names import JointDegreeNames as N_


def h(obj):
    return hashlib.sha1(repr(obj).encode()).hexdigest()[:12]


def rng():
    return h(random.getstate()) + "/" + h(
        tuple(x.tolist() if hasattr(x, "tolist") else x for x in np.random.get_state())
    )


def scrub(s):
    return re.sub(r"0x[0-9a-fA-F]+", "0x?", s)


def show(x):
    """repr that also exposes element types (int vs float vs numpy scalar)"""
    if isinstance(x, np.ndarray):
        return "ndarray%s%s%r" % (x.dtype, x.shape, x.tolist())
    if isinstance(x, (list, tuple)):
        return type(x).__name__ + "[" + ",".join(show(e) for e in x) + "]"
    if isinstance(x, dict):
        return (
            type(x).__name__
            + "{"
            + ",".join(show(k) + ":" + show(v) for k, v in x.items())
            + "}"
        )
    return type(x).__name__ + ":" + scrub(repr(x))


LINES = []


def emit(*parts):
    line = " ".join(str(p) for p in parts)
    LINES.append(line)
    print(line)


def run(label, fn, *extra):
    """call fn, print result digest / exception type + message and RNG state"""
    try:
        r = fn()
        out = "ok " + h(show(r))
        short = show(r)
        if len(short) <= 90:
            out += " " + short
    except BaseException as e:  # noqa
        r = None
        out = "EXC %s %s" % (type(e).__name__, scrub(str(e))[:80])
    ex = []
    for x in extra:
        try:
            ex.append(h(show(x())))
        except BaseException as e:  # noqa
            ex.append("exc-" + type(e).__name__)
    emit(label, out, "rng", rng(), *ex)
    return r


def manual(jdd, sizes):
    return JointDegreeManual({N_.JDD: jdd, N_.MOTIF_SIZES: sizes})


class Bare(JointDegree):
    """subclass that does not initialise anything (attributes missing)"""

    def __init__(self):
        pass

    def create_jdd(self):
        return


class Inited(JointDegree):
    """subclass that only runs the base initialiser (attributes are None)"""

    def create_jdd(self):
        return


# ---------------------------------------------------------------------------
# 1. handshaking_lemma called directly: boundary and malformed inputs
# ---------------------------------------------------------------------------
def hs_case(label, sizes, make_jds, seed=7, repeat=1):
    random.seed(seed)
    np.random.seed(seed)
    obj = manual({(1,): 1.0}, sizes)
    jds = make_jds()
    for rep in range(repeat):
        holder = {}

        def call():
            holder["r"] = obj.handshaking_lemma(jds)
            return holder["r"]

        run(
            "hs %s rep%d" % (label, rep),
            call,
            lambda: jds if not hasattr(jds, "__next__") else "iter",
            lambda: holder.get("r") is jds,
            lambda: obj.motif_sizes,
        )


hs_case("empty", [2], lambda: [])
hs_case("empty-nosizes", None, lambda: [])
hs_case("empty-tuple", [2], lambda: ())
hs_case("empty-rows", [2], lambda: [(), (), ()])
hs_case("single-odd", [2], lambda: [(1,)], repeat=3)
hs_case("single-even", [2], lambda: [(2,)], repeat=3)
hs_case("single-zero", [2], lambda: [(0,)])
hs_case("single-size3", [3], lambda: [(1,)], repeat=3)
hs_case("single-size7", [7], lambda: [(1,)])
hs_case("two-rows", [2, 3], lambda: [(1, 1), (2, 0)], repeat=4)
hs_case("dups", [2, 3, 4], lambda: [(1, 1, 1)] * 5, repeat=4)
hs_case("zeros", [2, 3], lambda: [(0, 0)] * 4)
hs_case("size1", [1, 1], lambda: [(3, 4), (1, 1)])
hs_case("size-zero", [0], lambda: [(3,), (1,)])
hs_case("size-neg", [-2], lambda: [(3,), (2,)])
hs_case("size-neg3", [-3, 2], lambda: [(3, 1), (1, 0)])
hs_case("size-float", [2.0], lambda: [(3,), (2,)])
hs_case("size-float-frac", [2.5], lambda: [(3,), (1,)])
hs_case("size-negfloat", [-2.5], lambda: [(1,)])
hs_case("size-bool", [True, 2], lambda: [(3, 1), (1, 1)])
hs_case("size-str", ["2"], lambda: [(3,), (2,)])
hs_case("size-none-entry", [None], lambda: [(3,)])
hs_case("sizes-none", None, lambda: [(3,)])
hs_case("sizes-short", [2], lambda: [(1, 1), (2, 2)])
hs_case("sizes-short-div", [2], lambda: [(1, 1), (1, 2)])
hs_case("sizes-long", [2, 3, 4], lambda: [(1,), (2,)])
hs_case("sizes-tuple", (2, 3), lambda: [(1, 1), (2, 2)])
hs_case("sizes-dict", {0: 2, 1: 3}, lambda: [(1, 1), (2, 2)])
hs_case("rows-lists", [2, 3], lambda: [[1, 1], [2, 2]], repeat=2)
hs_case("rows-float", [2], lambda: [(1.5,), (2.0,)])
hs_case("rows-float-int", [2], lambda: [(1.0,), (2.0,)])
hs_case("rows-neg", [2, 3], lambda: [(-1, -1), (-2, 0)], repeat=2)
hs_case("rows-str", [2], lambda: [("a",), ("b",)])
hs_case("rows-ragged", [2, 3], lambda: [(1, 1), (2,)])
hs_case("rows-ragged2", [2, 3], lambda: [(1,), (2, 2)])
hs_case("rows-np-int", [2, 3], lambda: [(np.int64(1), np.int64(1)), (np.int64(2), np.int64(3))])
hs_case("rows-big", [2, 3], lambda: [(10 ** 30 + 1, 10 ** 30)] * 3)
hs_case("jds-tuple", [2], lambda: ((1,), (2,)))
hs_case("jds-tuple-div", [2], lambda: ((1,), (1,)))
hs_case("jds-gen", [2], lambda: (x for x in [(1,), (2,)]))
hs_case("jds-gen-div", [2], lambda: (x for x in [(1,), (1,)]))
hs_case("jds-gen-negsize", [-2], lambda: (x for x in [(1,), (2,)]))
hs_case("jds-iter", [2], lambda: iter([(1,), (2,)]))
hs_case("jds-dict", [2], lambda: {(1,): 1, (2,): 1})
hs_case("jds-set", [2], lambda: {(1,), (2,)})
hs_case("jds-str", [2], lambda: "ab")
hs_case("jds-none", [2], lambda: None)
hs_case("jds-int", [2], lambda: 5)
hs_case("jds-np2d", [2, 3], lambda: np.array([[1, 1], [2, 2], [2, 1]]), repeat=2)
hs_case("jds-np2d-empty", [2, 3], lambda: np.zeros((0, 2), dtype=int))
hs_case("jds-np1d", [2], lambda: np.array([1, 2]))
hs_case("jds-range", [2], lambda: range(3))
hs_case("jds-bytes", [2], lambda: [b"\x01", b"\x02"])

# many random well-formed inputs, repeated calls on the same list
for seed in range(40):
    r0 = random.Random(1000 + seed)
    ntop = r0.randint(1, 4)
    sizes = [r0.randint(1, 6) for _ in range(ntop)]
    n = r0.choice([1, 1, 2, 3, 5, 8, 30])
    rows = [tuple(r0.randint(0, 5) for _ in range(ntop)) for _ in range(n)]
    hs_case("rand%02d" % seed, sizes, lambda rows=rows: list(rows), seed=seed, repeat=2)

# ---------------------------------------------------------------------------
# 2. sample_jds_from_jdd through the public loaders
# ---------------------------------------------------------------------------
def smp_case(label, obj_fn, Ns, seed=11):
    random.seed(seed)
    np.random.seed(seed)
    try:
        obj = obj_fn()
    except BaseException as e:  # noqa
        emit("smp", label, "ctor EXC", type(e).__name__, "rng", rng())
        return
    for n in Ns:
        run(
            "smp %s N=%r" % (label, n),
            lambda: obj.sample_jds_from_jdd(n),
            lambda: obj.jdd,
            lambda: obj.motif_sizes,
        )


NS = [0, 1, 1, 2, 3, 7, 50, 0, -1, -5, True, False, 2.0, 1.5, -1.5, None, "3", 10 ** 3]
smp_case("manual1", lambda: manual({(1,): 0.2, (2,): 0.5, (3,): 0.1, (5,): 0.2}, [2]), NS)
smp_case(
    "manual2",
    lambda: manual({(1, 0): 0.2, (2, 1): 0.5, (3, 0): 0.1, (5, 1): 0.2}, [2, 3]),
    NS,
)
smp_case("manual3", lambda: manual({(1, 1, 1): 1, (0, 0, 0): 3, (2, 5, 1): 2}, [2, 3, 4]), NS)
smp_case("manual-onekey", lambda: manual({(1,): 1.0}, [2]), NS)
smp_case("manual-onekey-size5", lambda: manual({(1,): 1.0}, [5]), NS)
smp_case("manual-zero-key", lambda: manual({(0, 0): 1.0}, [2, 3]), NS)
smp_case("manual-empty", lambda: manual({}, [2]), NS)
smp_case("manual-none", lambda: manual(None, [2]), [0, 3])
smp_case("manual-zero-w", lambda: manual({(1,): 0.0, (2,): 0.0}, [2]), [0, 3])
smp_case("manual-neg-w", lambda: manual({(1,): -1.0, (2,): 0.5}, [2]), [0, 3])
smp_case("manual-somezero-w", lambda: manual({(1,): 0.0, (2,): 0.5, (3,): 0}, [2]), [0, 3, 9])
smp_case("manual-inf-w", lambda: manual({(1,): float("inf")}, [2]), [0, 3])
smp_case("manual-nan-w", lambda: manual({(1,): float("nan"), (2,): 1.0}, [2]), [0, 3])
smp_case("manual-str-w", lambda: manual({(1,): "a", (2,): "b"}, [2]), [0, 3])
smp_case("manual-mixed-w", lambda: manual({(1,): 1, (2,): "b"}, [2]), [0, 3])
smp_case("manual-int-w", lambda: manual({(1,): 3, (2,): 1}, [2]), NS)
smp_case("manual-sizes-none", lambda: manual({(1,): 1.0}, None), [0, 3])
smp_case("manual-sizes-short", lambda: manual({(1, 1): 1.0}, [2]), [0, 1, 2, 3])
smp_case("manual-sizes-zero", lambda: manual({(1, 1): 1.0}, [0, 2]), [0, 1, 2])
smp_case("manual-list-keys", lambda: manual({"ab": 1.0, "cd": 2.0}, [2]), [0, 2])
smp_case("manual-int-keys", lambda: manual({1: 1.0, 2: 2.0}, [2]), [0, 2])
smp_case("manual-jdd-list", lambda: manual([(1,), (2,)], [2]), [0, 2])
smp_case("bare", lambda: Bare(), [0, 2])
smp_case("inited", lambda: Inited(), [0, 2])
smp_case(
    "empirical",
    lambda: JointDegreeEmpirical(
        {N_.JDS: [(1, 0), (2, 1), (2, 1), (3, 3), (0, 0)], N_.MOTIF_SIZES: [2, 3]}
    ),
    NS,
)
smp_case(
    "empirical-empty", lambda: JointDegreeEmpirical({N_.JDS: [], N_.MOTIF_SIZES: [2]}), [0, 2]
)


def via_factory(kind, **kw):
    p = {N_.JOINT_DEGREE_TYPE: kind}
    p.update(kw)
    return JointDegreeDistribution.load_joint_degree(p)


from gcmpy.distributions.poisson import poisson
from gcmpy.distributions.power_law import power_law

smp_case(
    "f-manual",
    lambda: via_factory(
        JointDegreeType.MANUAL, **{"x": 0}
    ),
    [0, 2],
)
FACT = {
    "f-manual2": lambda: JointDegreeDistribution.load_joint_degree(
        {
            N_.JOINT_DEGREE_TYPE: JointDegreeType.MANUAL,
            N_.JDD: {(1, 2): 0.5, (3, 1): 0.5},
            N_.MOTIF_SIZES: [2, 3],
        }
    ),
    "f-empirical": lambda: JointDegreeDistribution.load_joint_degree(
        {
            N_.JOINT_DEGREE_TYPE: "empirical",
            N_.JDS: [(int(k),) for k in np.random.randint(0, 9, 200)],
            N_.MOTIF_SIZES: [2],
        }
    ),
    "f-marginal": lambda: JointDegreeDistribution.load_joint_degree(
        {
            N_.JOINT_DEGREE_TYPE: JointDegreeType.MARGINAL,
            N_.MOTIF_SIZES: [2, 3],
            N_.ARR_FP: [poisson(2.5), poisson(1.0)],
            N_.LOW_HIGH_DEGREE_BOUND: [(0, 8), (0, 5)],
        }
    ),
    "f-marginal-sampling": lambda: JointDegreeDistribution.load_joint_degree(
        {
            N_.JOINT_DEGREE_TYPE: JointDegreeType.MARGINAL,
            N_.MOTIF_SIZES: [2, 3],
            N_.ARR_FP: [poisson(2.5), power_law(2.0)],
            N_.LOW_HIGH_DEGREE_BOUND: [(0, 8), (1, 5)],
            N_.USE_SAMPLING: True,
            N_.N_SAMPLES: 500,
        }
    ),
    "f-marginal-sampling0": lambda: JointDegreeDistribution.load_joint_degree(
        {
            N_.JOINT_DEGREE_TYPE: JointDegreeType.MARGINAL,
            N_.MOTIF_SIZES: [2],
            N_.ARR_FP: [poisson(2.5)],
            N_.LOW_HIGH_DEGREE_BOUND: [(0, 8)],
            N_.USE_SAMPLING: True,
            N_.N_SAMPLES: 0,
        }
    ),
    "f-split": lambda: JointDegreeDistribution.load_joint_degree(
        {
            N_.JOINT_DEGREE_TYPE: JointDegreeType.SPLIT_DEGREE,
            N_.MOTIF_SIZES: [2, 3],
            N_.FP: poisson(3.0),
            N_.PROBS: [0.6, 0.4],
            N_.LOW_HIGH_DEGREE_BOUND: (0, 9),
        }
    ),
    "f-split-emptyrange": lambda: JointDegreeDistribution.load_joint_degree(
        {
            N_.JOINT_DEGREE_TYPE: JointDegreeType.SPLIT_DEGREE,
            N_.MOTIF_SIZES: [2, 3],
            N_.FP: poisson(3.0),
            N_.PROBS: [0.6, 0.4],
            N_.LOW_HIGH_DEGREE_BOUND: (4, 4),
        }
    ),
    "f-delta": lambda: JointDegreeDistribution.load_joint_degree(
        {
            N_.JOINT_DEGREE_TYPE: JointDegreeType.DELTA,
            N_.MOTIF_SIZES: [2, 3],
            N_.FP: poisson(3.0),
            N_.PROBS: [0.5, 0.5],
            N_.TARGET_K: 4,
            N_.LOW_HIGH_DEGREE_BOUND: (0, 9),
        }
    ),
    "f-delta-zerofp": lambda: JointDegreeDistribution.load_joint_degree(
        {
            N_.JOINT_DEGREE_TYPE: JointDegreeType.DELTA,
            N_.MOTIF_SIZES: [2, 3],
            N_.FP: lambda k: 0,
            N_.PROBS: [0.5, 0.5],
            N_.TARGET_K: 40,
            N_.LOW_HIGH_DEGREE_BOUND: (0, 5),
        }
    ),
    "f-function": lambda: JointDegreeDistribution.load_joint_degree(
        {
            N_.JOINT_DEGREE_TYPE: JointDegreeType.JOINT_FUNCTION,
            N_.MOTIF_SIZES: [2, 3],
            N_.FP: lambda jd: 1.0 / (1 + jd[0] + 2 * jd[1]),
            N_.LOW_HIGH_DEGREE_BOUND: [(0, 4), (0, 3)],
        }
    ),
    "f-cover": lambda: JointDegreeDistribution.load_joint_degree(
        {
            N_.JOINT_DEGREE_TYPE: JointDegreeType.COVER,
            N_.COVER: [[0, 1], [1, 2], [2, 3, 4], [0, 4], [1, 3, 5], [5, 6]],
        }
    ),
    "f-cover-empty": lambda: JointDegreeDistribution.load_joint_degree(
        {N_.JOINT_DEGREE_TYPE: JointDegreeType.COVER, N_.COVER: []}
    ),
    "f-unknown": lambda: JointDegreeDistribution.load_joint_degree(
        {N_.JOINT_DEGREE_TYPE: "nope"}
    ),
}
for name, fn in FACT.items():
    smp_case(name, fn, [0, 1, 2, 5, 33, 0, 200, -2])

# ---------------------------------------------------------------------------
# 3. normalise_jdd / convert_jds_to_jdd on boundary values
# ---------------------------------------------------------------------------
def norm_case(label, jdd_fn, repeat=2, obj_fn=None):
    random.seed(3)
    np.random.seed(3)
    obj = obj_fn() if obj_fn else manual(None, [2])
    if obj_fn is None:
        obj.jdd = jdd_fn()
    for rep in range(repeat):
        run(
            "norm %s rep%d" % (label, rep),
            lambda: obj.normalise_jdd(),
            lambda: getattr(obj, "_jdd", "missing"),
        )


from collections import Counter, OrderedDict, defaultdict
from fractions import Fraction
from decimal import Decimal
from types import MappingProxyType

norm_case("empty", lambda: {})
norm_case("none", lambda: None)
norm_case("one-int", lambda: {(1,): 1})
norm_case("one-float", lambda: {(1,): 1.0})
norm_case("sum1-ints", lambda: {(1,): 1, (2,): 0})
norm_case("sum1-floats", lambda: {(1,): 0.25, (2,): 0.75})
norm_case("sum1-bool", lambda: {(1,): True, (2,): False})
norm_case("ints", lambda: {(1,): 3, (2,): 1, (3,): 4})
norm_case("floats", lambda: {(1,): 0.1, (2,): 0.2, (3,): 0.3})
norm_case("zeros-int", lambda: {(1,): 0, (2,): 0})
norm_case("zeros-float", lambda: {(1,): 0.0, (2,): 0.0})
norm_case("cancel", lambda: {(1,): 1.0, (2,): -1.0, (3,): 5})
norm_case("neg", lambda: {(1,): -1.0, (2,): -3.0})
norm_case("nan", lambda: {(1,): float("nan"), (2,): 1.0})
norm_case("inf", lambda: {(1,): float("inf"), (2,): 1.0})
norm_case("negzero", lambda: {(1,): -0.0, (2,): 1.0})
norm_case("npfloat", lambda: {(1,): np.float64(0.0), (2,): np.float64(0.0)})
norm_case("npfloat2", lambda: {(1,): np.float64(2.0), (2,): np.float32(6.0)})
norm_case("fraction", lambda: {(1,): Fraction(1, 3), (2,): Fraction(1, 6)})
norm_case("decimal", lambda: {(1,): Decimal("0.5"), (2,): Decimal("1.5")})
norm_case("decimal-zero", lambda: {(1,): Decimal("0"), (2,): Decimal("0")})
norm_case("str", lambda: {(1,): "a", (2,): "b"})
norm_case("mixed", lambda: {(1,): 1.0, (2,): "b"})
norm_case("mixed2", lambda: {(1,): 2, (2,): None})
norm_case("big", lambda: {(1,): 10 ** 400, (2,): 1})
norm_case("complex", lambda: {(1,): 1 + 2j, (2,): 3})
norm_case("ordered", lambda: OrderedDict([((2,), 2.0), ((1,), 6.0)]))
norm_case("default", lambda: defaultdict(float, {(2,): 2.0, (1,): 6.0}))
norm_case("counter", lambda: Counter({(2,): 2, (1,): 6}))
norm_case("proxy", lambda: MappingProxyType({(2,): 2, (1,): 6}))
norm_case("list", lambda: [1.0, 2.0])
norm_case("nparray", lambda: np.array([1.0, 2.0]))
norm_case("str-keys", lambda: {"a": 1.0, "b": 3.0})
norm_case("bare", None, obj_fn=lambda: Bare())
norm_case("inited", None, obj_fn=lambda: Inited())
for s in range(10):
    r0 = random.Random(s)
    norm_case(
        "rand%d" % s,
        lambda r0=r0: {(i, r0.randint(0, 3)): r0.random() for i in range(r0.randint(1, 9))},
        repeat=3,
    )


def conv_case(label, jds_fn, repeat=2):
    random.seed(5)
    np.random.seed(5)
    obj = manual({(9,): 1.0}, [2])
    for rep in range(repeat):
        try:
            jds = jds_fn()
        except BaseException as e:  # noqa
            emit("conv", label, "input EXC", type(e).__name__)
            return
        run(
            "conv %s rep%d" % (label, rep),
            lambda: obj.convert_jds_to_jdd(jds),
            lambda: obj.jdd,
            lambda: jds if not hasattr(jds, "__next__") else "iter",
        )
        run("conv %s rep%d sample" % (label, rep), lambda: obj.sample_jds_from_jdd(5))


conv_case("empty", lambda: [])
conv_case("empty-tuple", lambda: ())
conv_case("empty-str", lambda: "")
conv_case("empty-dict", lambda: {})
conv_case("empty-set", lambda: set())
conv_case("empty-counter", lambda: Counter())
conv_case("empty-range", lambda: range(0))
conv_case("empty-np1", lambda: np.array([]))
conv_case("empty-np2", lambda: np.zeros((0, 2)))
conv_case("np0d", lambda: np.array(5))
conv_case("none", lambda: None)
conv_case("int", lambda: 4)
conv_case("gen", lambda: (x for x in [(1,)]))
conv_case("single", lambda: [(1,)])
conv_case("dups", lambda: [(1, 2), (1, 2), (3, 0), (1, 2)])
conv_case("zeros", lambda: [(0, 0)] * 3)
conv_case("lists", lambda: [[1, 2], [1, 2]])
conv_case("mixed-hash", lambda: [(1,), (1.0,), (True,)])
conv_case("dict", lambda: {(1,): 3, (2,): 1})
conv_case("dict-zero", lambda: {(1,): 0})
conv_case("counter", lambda: Counter({(1,): 2, (2,): -1}))
conv_case("str", lambda: "aab")
conv_case("np1", lambda: np.array([1, 2, 2]))
conv_case("np2", lambda: np.array([[1, 2], [1, 2]]))
for s in range(10):
    r0 = random.Random(50 + s)
    conv_case(
        "rand%d" % s,
        lambda r0=r0: [
            (r0.randint(0, 3), r0.randint(0, 2)) for _ in range(r0.randint(1, 40))
        ],
    )

# ---------------------------------------------------------------------------
# 4. abstract-class behaviour and accessors
# ---------------------------------------------------------------------------
run("abstract", lambda: JointDegree())
run("abstract-args", lambda: JointDegree({}, x=1))
run("bare-create", lambda: Bare().create_jdd())
run("inited-attrs", lambda: (Inited().jdd, Inited().motif_sizes, Inited()._type))
o = Inited()
o.jdd = {(1,): 1.0}
o.motif_sizes = [2]
run("setters", lambda: (o.jdd, o.motif_sizes))
run("setters-sample", lambda: o.sample_jds_from_jdd(3), lambda: o.jdd)

# ---------------------------------------------------------------------------
# 5. statistical shape over many seeds (exact counts, deterministic)
# ---------------------------------------------------------------------------
tot = Counter()
obj = manual({(1, 0): 0.2, (2, 1): 0.5, (3, 0): 0.1, (5, 1): 0.2}, [2, 3])
for seed in range(300):
    random.seed(seed)
    out = obj.sample_jds_from_jdd(seed % 13)
    tot.update(out)
    tot["len%d" % len(out)] += 1
emit("bulk", h(sorted(tot.items(), key=repr)), "rng", rng())

emit("TOTAL", h(LINES))
