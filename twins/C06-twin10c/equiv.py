import sys, os; sys.path.insert(0, os.getcwd())
import hashlib, random, math
from fractions import Fraction
import numpy as np

from gcmpy.joint_degree.joint_degree_loaders.joint_degree_function import JointDegreeFunction
from gcmpy.joint_degree.joint_degree_distribution import JointDegreeDistribution
from gcmpy.names.joint_degree_names import JointDegreeNames as N

random.seed(20261004)
np.random.seed(20261004)


def enc(x):
    if isinstance(x, float):
        return "%s:%s" % (type(x).__name__, float(x).hex())
    if isinstance(x, complex):
        return "complex:%s,%s" % (x.real.hex(), x.imag.hex())
    if isinstance(x, np.ndarray):
        return "nd%s%s[%s]" % (x.dtype, x.shape, ",".join(enc(v) for v in x.ravel().tolist()))
    if isinstance(x, (tuple, list)):
        return "%s(%s)" % (type(x).__name__, ",".join(enc(v) for v in x))
    if isinstance(x, dict):
        return "%s{%s}" % (type(x).__name__, ";".join(enc(k) + "=" + enc(v) for k, v in x.items()))
    return "%s:%r" % (type(x).__name__, x)


def rng_state():
    h = hashlib.sha256()
    h.update(repr(random.getstate()).encode())
    st = np.random.get_state()
    h.update(repr((st[0], st[1].tolist(), st[2], st[3], st[4])).encode())
    return h.hexdigest()[:16]


LINES = []


def emit(tag, payload):
    s = enc(payload) if not isinstance(payload, str) else payload
    LINES.append("%s %s %s" % (tag, hashlib.sha256(s.encode()).hexdigest()[:16], s[:160]))


def attempt(tag, f):
    try:
        r = f()
        emit(tag, r)
    except BaseException as e:
        emit(tag, "EXC " + type(e).__name__)
    LINES.append("   rng " + rng_state())



def poisson(mu):
    return lambda k: math.exp(-mu) * mu ** k / math.factorial(k)


def joint(*mus):
    fs = [poisson(m) for m in mus]

    def fp(jd):
        p = 1.0
        for f, k in zip(fs, jd):
            p *= f(k)
        return p
    return fp


def params(fp, bounds, sizes=(2, 3)):
    return {
        N.JOINT_DEGREE_TYPE: "function",
        N.MOTIF_SIZES: list(sizes),
        N.FP: fp,
        N.LOW_HIGH_DEGREE_BOUND: bounds,
    }


def state(o):
    b = o._low_high_degree_bounds
    return (o.jdd, o.motif_sizes, b if isinstance(b, (list, tuple)) else type(b).__name__)


def direct_and_dispatch(tag, mk):
    attempt(tag + "/ctor", lambda: state(JointDegreeFunction(mk())))
    attempt(tag + "/load", lambda: state(JointDegreeDistribution.load_joint_degree(mk())))


class IntLike:
    def __init__(self, v):
        self.v = v

    def __index__(self):
        return self.v

    def __add__(self, other):
        return IntLike(self.v + other)

    def __repr__(self):
        return "IntLike(%d)" % self.v


class LoudIndex:
    """bound whose conversions are recorded, to pin down how often and in which order they happen"""

    log = []

    def __init__(self, v, name):
        self.v, self.name = v, name

    def __index__(self):
        LoudIndex.log.append(("index", self.name))
        return self.v

    def __add__(self, other):
        LoudIndex.log.append(("add", self.name))
        return LoudIndex(self.v + other, self.name + "+")

    def __repr__(self):
        return "LoudIndex(%d,%s)" % (self.v, self.name)


cases = {
    "2d": lambda: params(joint(1.5, 0.7), [(0, 6), (0, 4)]),
    "3d": lambda: params(joint(2.0, 0.3, 1.0), [(1, 5), (0, 3), (2, 6)], sizes=(2, 3, 4)),
    "1d": lambda: params(lambda jd: jd[0], [(0, 9)], sizes=(2,)),
    "offset": lambda: params(lambda jd: sum(jd), ((3, 5), (7, 10))),
    "neg": lambda: params(lambda jd: abs(jd[0]) + 0.5, [(-3, 2), (0, 2)]),
    "single": lambda: params(lambda jd: 0.25, [(3, 3), (4, 4)]),
    "empty_dim": lambda: params(joint(1.0, 1.0), [(0, 4), (3, 2)]),
    "reversed_dim": lambda: params(joint(1.0, 1.0), [(0, 4), (9, 2)]),
    "no_dims": lambda: params(lambda jd: 7, []),
    "np_bounds": lambda: params(joint(1.0, 2.0), np.array([[0, 4], [1, 5]])),
    "np_scalar_bounds": lambda: params(joint(1.0), [(np.int64(0), np.int64(5))], sizes=(2,)),
    "np_int8_edge": lambda: params(lambda jd: 1.0, [(np.int8(120), np.int8(126))], sizes=(2,)),
    "bool_bounds": lambda: params(lambda jd: 1.0, [(False, True)], sizes=(2,)),
    "intlike": lambda: params(lambda jd: 1.0, [(IntLike(1), IntLike(3))], sizes=(2,)),
    "generator_bounds": lambda: params(joint(1.0, 1.0), iter([(0, 2), (1, 3)])),
    "dict_bounds": lambda: params(joint(1.0, 1.0), {(0, 2): "x", (1, 3): "y"}),
    "list_pairs": lambda: params(joint(1.0, 1.0), [[0, 2], [1, 3]]),
    "big_ints": lambda: params(lambda jd: 1, [(10 ** 20, 10 ** 20 + 2)], sizes=(2,)),
    "none_vals": lambda: params(lambda jd: None, [(0, 2), (0, 2)]),
    "jd_vals": lambda: params(lambda jd: jd, [(0, 2), (0, 2)]),
    "type_vals": lambda: params(lambda jd: [type(k).__name__ for k in jd], [(0, 2), (True, 2)]),
    "neg_vals": lambda: params(lambda jd: -1.0, [(0, 1), (0, 1)]),
    "nan_vals": lambda: params(lambda jd: float("nan"), [(0, 1), (0, 1)]),
    "big": lambda: params(joint(3.0, 1.0, 0.5), [(0, 12), (0, 9), (0, 7)], sizes=(2, 3, 4)),
}
for name, mk in cases.items():
    direct_and_dispatch("ok:" + name, mk)

errs = {
    "float_bounds": lambda: params(joint(1.0), [(0.0, 3.0)], sizes=(2,)),
    "float_hi": lambda: params(joint(1.0), [(0, 3.0)], sizes=(2,)),
    "str_bounds": lambda: params(joint(1.0), [("0", "3")], sizes=(2,)),
    "str_hi": lambda: params(joint(1.0), [(0, "3")], sizes=(2,)),
    "none_hi": lambda: params(joint(1.0), [(0, None)], sizes=(2,)),
    "none_lo": lambda: params(joint(1.0), [(None, 3)], sizes=(2,)),
    "list_hi": lambda: params(joint(1.0), [(0, [3])], sizes=(2,)),
    "none_bounds": lambda: params(joint(1.0), None),
    "scalar_bounds": lambda: params(joint(1.0), 3),
    "flat_bounds": lambda: params(joint(1.0), (0, 50)),
    "triple_bounds": lambda: params(joint(1.0), [(0, 3, 1)], sizes=(2,)),
    "single_bound": lambda: params(joint(1.0), [(3,)], sizes=(2,)),
    "second_bad": lambda: params(joint(1.0, 1.0), [(0, 3), (0, "x")]),
    "second_bad_arity": lambda: params(joint(1.0, 1.0), [(0, 3), (0,)]),
    "none_fp": lambda: params(None, [(0, 3)], sizes=(2,)),
    "fp_raises": lambda: params(lambda jd: 1.0 / (2 - jd[0]), [(0, 5)], sizes=(2,)),
    "fp_raises_first": lambda: params(lambda jd: 1 / 0, [(0, 5)], sizes=(2,)),
    "int8_overflow": lambda: params(lambda jd: 1.0, [(np.int8(120), np.int8(127))], sizes=(2,)),
}
import warnings
warnings.simplefilter("error")
for name, mk in errs.items():
    direct_and_dispatch("err:" + name, mk)
warnings.simplefilter("default")


def drop(key):
    def mk():
        p = params(joint(1.0), [(0, 3)], sizes=(2,))
        del p[key]
        return p
    return mk


for key in (N.MOTIF_SIZES, N.FP, N.LOW_HIGH_DEGREE_BOUND, N.JOINT_DEGREE_TYPE):
    direct_and_dispatch("err:drop_" + key.name, drop(key))

# --- order and number of the conversions of the bounds, and of the calls of fp ---------
LoudIndex.log = []
calls = []


def rec(jd):
    calls.append(jd)
    return len(calls)


o = JointDegreeFunction(params(rec, [(LoudIndex(0, "lo0"), LoudIndex(2, "hi0")), (LoudIndex(1, "lo1"), LoudIndex(2, "hi1"))]))
emit("loud/log", LoudIndex.log)
emit("loud/calls", calls)
emit("loud/jdd", o.jdd)

# --- state left behind when fp raises part-way ----------------------------------------
class Boom(Exception):
    pass


def bomb_after(n):
    c = [0]

    def f(jd):
        c[0] += 1
        if c[0] > n:
            raise Boom()
        return 0.5
    return f


for n in (0, 1, 5, 11, 12, 20):
    o = JointDegreeFunction(params(joint(1.0, 1.0), [(0, 3), (0, 2)]))
    before = o.jdd
    o._fp = bomb_after(n)
    try:
        o.create_jdd()
        emit("bomb%d/ok" % n, o.jdd)
    except Boom:
        emit("bomb%d/partial" % n, o.jdd)
    emit("bomb%d/before" % n, before)
    emit("bomb%d/fresh" % n, str(o.jdd is not before))

# fp that looks at the partially built table
o = JointDegreeFunction(params(joint(1.0, 1.0), [(0, 2), (0, 2)]))
o._fp = lambda jd: (len(o.jdd), list(o.jdd)[-1:] )
o.create_jdd()
emit("peek/jdd", o.jdd)

# fp that edits the bounds while the box is being walked (the box was fixed beforehand)
def grow(jd):
    o._low_high_degree_bounds.append((0, 1))
    return len(o._low_high_degree_bounds)


o = JointDegreeFunction(params(joint(1.0, 1.0), [(0, 2), (0, 1)]))
o._fp = grow
o.create_jdd()
emit("grow/jdd1", o.jdd)
o.create_jdd()
emit("grow/jdd2", len(o.jdd))

# --- repeated calls on one object -------------------------------------------------
o = JointDegreeFunction(params(joint(1.5, 0.7), [(0, 6), (0, 4)]))
prev = o.jdd
for r in range(4):
    o.create_jdd()
    emit("repeat%d/jdd" % r, o.jdd)
    emit("repeat%d/fresh" % r, str(o.jdd is not prev))
    prev = o.jdd
    o.normalise_jdd()
    emit("repeat%d/norm" % r, o.jdd)
    attempt("repeat%d/sample" % r, lambda: o.sample_jds_from_jdd(25))
    o._low_high_degree_bounds = [(r, r + 3), (0, r)]
o._low_high_degree_bounds = [(2, 1)]
o.create_jdd()
emit("rebound/empty", o.jdd)
attempt("rebound/empty_sample", lambda: o.sample_jds_from_jdd(3))
o._low_high_degree_bounds = [(0, 2), (0, "x")]
attempt("rebound/bad", lambda: o.create_jdd())
emit("rebound/bad_state", o.jdd)

# --- randomised sweep ---------------------------------------------------------------
for t in range(300):
    d = random.randint(1, 3)
    bounds = []
    for _ in range(d):
        lo = random.randint(-2, 4)
        hi = lo + random.randint(-2, 5)
        kind = random.randrange(4)
        if kind == 0:
            bounds.append((np.int64(lo), np.int64(hi)))
        elif kind == 1:
            bounds.append([lo, hi])
        else:
            bounds.append((lo, hi))
    mus = [random.uniform(0.05, 3.0) for _ in range(d)]
    fp = (lambda ms: (lambda jd: math.exp(-sum(m * abs(k) for m, k in zip(ms, jd))) + random.random() * 0))(mus)
    p = lambda: params(fp, list(bounds), sizes=tuple(range(2, 2 + d)))
    attempt("rand%d/ctor" % t, lambda: state(JointDegreeFunction(p())))
    attempt("rand%d/load" % t, lambda: state(JointDegreeDistribution.load_joint_degree(p())))

print("\n".join(LINES))
print("TOTAL", hashlib.sha256("\n".join(LINES).encode()).hexdigest())
print("RNG", rng_state())
