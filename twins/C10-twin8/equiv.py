import sys, os; sys.path.insert(0, os.getcwd())

import hashlib
import random
import warnings

warnings.filterwarnings("ignore")

import networkx as nx
import numpy as np

from gcmpy.covers.mpcc import MPCC


def rng_digest() -> str:
    h = hashlib.sha256()
    h.update(repr(random.getstate()).encode())
    st = np.random.get_state()
    h.update(repr((st[0], st[1].tolist(), st[2], st[3], repr(st[4]))).encode())
    return h.hexdigest()[:16]


def graph_dump(G) -> str:
    """Nodes and edges in insertion order, with all attributes."""
    try:
        nodes = [(repr(n), sorted(d.items())) for n, d in G.nodes(data=True)]
        edges = [(repr(u), repr(v), sorted((k, repr(x)) for k, x in d.items()))
                 for u, v, d in G.edges(data=True)]
        return repr((type(G).__name__, sorted(G.graph.items()), nodes, edges))
    except Exception as exc:  # pragma: no cover
        return f"<dump failed {type(exc).__name__}>"


def run(tag, G, *args, seed=0, **kwargs):
    random.seed(seed)
    np.random.seed(seed)
    try:
        H = MPCC(G, *args, **kwargs)
        out = f"same_object={H is G}"
    except Exception as exc:
        out = f"EXC {type(exc).__name__}: {exc}"
    dump = graph_dump(G)
    print(f"[{tag} args={args!r} kwargs={kwargs!r} seed={seed}] {out}")
    print(f"   graph sha={hashlib.sha256(dump.encode()).hexdigest()[:16]} rng={rng_digest()}")
    if len(dump) < 1500:
        print("   " + dump)


def diamond():
    return nx.Graph([(0, 1), (0, 2), (1, 2), (1, 3), (2, 3)])


def k5_tail():
    G = nx.complete_graph(5)
    G.add_edges_from([(4, 5), (3, 5), (5, 6)])
    return G


def mixed_nodes():
    G = nx.Graph()
    G.add_edges_from([("a", "b"), ("b", "c"), ("a", "c"), ("c", (1, 2)), ((1, 2), "a"),
                      ("c", 7), (7, 8.5)])
    G.add_node("lonely")
    return G


def with_attrs():
    G = nx.complete_graph(4)
    G.graph["name"] = "attrs"
    for u, v in G.edges():
        G.edges[u, v]["clique"] = "old"
        G.edges[u, v]["w"] = 0.1 * (u + v)
    G.add_edge(3, 4, clique="old")
    return G


def selfloop():
    G = nx.Graph([(0, 1), (1, 2), (0, 2), (2, 3)])
    G.add_edge(1, 1)
    return G


builders = {
    "empty": lambda: nx.Graph(),
    "isolated": lambda: nx.empty_graph(4),
    "single_edge": lambda: nx.Graph([(0, 1)]),
    "path": lambda: nx.path_graph(5),
    "triangle": lambda: nx.complete_graph(3),
    "diamond": diamond,
    "K5": lambda: nx.complete_graph(5),
    "K6": lambda: nx.complete_graph(6),
    "wheel6": lambda: nx.wheel_graph(6),
    "wheel9": lambda: nx.wheel_graph(9),
    "petersen": nx.petersen_graph,
    "K5_tail": k5_tail,
    "mixed_nodes": mixed_nodes,
    "with_attrs": with_attrs,
    "selfloop": selfloop,
    "karate": nx.karate_club_graph,
    "gnp12a": lambda: nx.gnp_random_graph(12, 0.45, seed=100),
    "gnp12b": lambda: nx.gnp_random_graph(12, 0.45, seed=101),
    "gnp15": lambda: nx.gnp_random_graph(15, 0.5, seed=7),
    "gnp20": lambda: nx.gnp_random_graph(20, 0.35, seed=3),
    "ws": lambda: nx.watts_strogatz_graph(16, 6, 0.2, seed=5),
    "two_K4_share_edge": lambda: nx.compose(nx.complete_graph(4), nx.complete_graph(range(2, 6))),
}

for name, build in builders.items():
    for max_size in (0, 2, 3, 4):
        for seed in (0, 1, 2):
            run(name, build(), max_size, seed=seed)
    run(name + "/default", build(), seed=4)

# unusual size limits: negative, one, huge, float, bool, keyword form
for ms in (-1, 1, 100, 2.5, 3.0, True, False, float("nan"), float("inf")):
    run("K5_tail/odd_limit", k5_tail(), ms, seed=1)
    run("gnp12a/odd_limit", nx.gnp_random_graph(12, 0.45, seed=100), max_size=ms, seed=1)

# error paths
for ms in (None, "3", [3], (1,)):
    run("diamond/bad_limit", diamond(), ms, seed=0)
    run("empty/bad_limit", nx.Graph(), ms, seed=0)       # no clique -> limit never inspected
run("digraph", nx.DiGraph([(0, 1), (1, 2), (2, 0)]), seed=0)
run("multigraph", nx.MultiGraph([(0, 1), (0, 1), (1, 2), (2, 0)]), seed=0)
run("multigraph/limit2", nx.MultiGraph([(0, 1), (0, 1), (1, 2), (2, 0)]), 2, seed=0)
run("frozen", nx.freeze(diamond()), seed=0)
run("not_a_graph", [(0, 1)], seed=0)
run("none", None, seed=0)
run("too_many_args", diamond(), 0, 1, seed=0)

# repeated calls on one object (labels are overwritten, RNG keeps advancing)
random.seed(11)
np.random.seed(11)
G = nx.gnp_random_graph(14, 0.5, seed=9)
for i, ms in enumerate((0, 3, 0, 2, 4, 0)):
    H = MPCC(G, ms)
    d = graph_dump(G)
    print(f"[repeat {i} max_size={ms}] same={H is G} sha={hashlib.sha256(d.encode()).hexdigest()[:16]} rng={rng_digest()}")
print("   " + graph_dump(G))

# covering a copy must leave the source untouched
src = k5_tail()
random.seed(2)
MPCC(src.copy(), 3)
print("[source untouched]", graph_dump(src))

# subgraph view as input (labels written through to the parent)
parent = nx.gnp_random_graph(12, 0.5, seed=21)
view = parent.subgraph(range(8))
random.seed(3)
try:
    MPCC(view, 3)
    print("[view] ok")
except Exception as exc:
    print("[view] EXC", type(exc).__name__, exc)
print("   " + graph_dump(parent))
print("final rng", rng_digest())
