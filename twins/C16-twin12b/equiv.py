import sys, os; sys.path.insert(0, os.getcwd())
import hashlib
import itertools
import random
import warnings
from fractions import Fraction
from decimal import Decimal

import numpy as np

warnings.simplefilter("ignore")
random.seed(16160)
np.random.seed(16160)

import gcmpy
from gcmpy.message_passing.equations.clique_equation import clique_equation
from gcmpy.message_passing.equations import clique_equation as ce2
from gcmpy.message_passing.number_connected_graphs import Q, binomial

out = []


def show(v):
    if isinstance(v, np.ndarray):
        return "ndarray[%s]:%s" % (v.dtype, v.tolist())
    if isinstance(v, float):
        return "float:%s" % v.hex()
    if isinstance(v, np.floating):
        return "%s:%s" % (type(v).__name__, float(v).hex())
    return "%s:%r" % (type(v).__name__, v)


def call(label, *args):
    try:
        r = clique_equation(*args)
        out.append("%s -> %s" % (label, show(r)))
    except BaseException as e:  # noqa
        out.append("%s !! %s: %s" % (label, type(e).__name__, e))


def caches(tag):
    out.append("%s Q.cache=%r binomial.cache=%r" % (tag, Q.cache_info(), binomial.cache_info()))


out.append("same objects: %r %r" % (gcmpy.clique_equation is clique_equation, ce2 is clique_equation))
Q.cache_clear(); binomial.cache_clear()

# 1. boundary clique sizes (tau <= 0, 1, 2 - where kappa*(kappa-1) is 0 / -0.0)
#    up to tau = 8; Hs of the right length, too short, too long, empty
phis = [0, 1, 0.0, 1.0, 0.5, 0.37, -0.25, 1.5, 1e-300, 1 - 1e-16, Fraction(2, 7), Fraction(0), Fraction(1),
        np.float64(0.3), np.float32(0.3), True, False]
for tau in range(-3, 9):
    need = max(0, tau - 1)
    for phi in phis:
        for L in sorted({0, 1, max(0, need - 1), need, need + 1, need + 3}):
            Hs = [0.05 + 0.9 * ((7 * j + 3) % 11) / 11 for j in range(L)]
            call("tau=%d phi=%s L=%d" % (tau, show(phi), L), tau, phi, Hs)
    caches("after tau=%d" % tau)

# 2. exact arithmetic: arbitrary different neighbour values, zeros, ones, duplicates
for tau in range(0, 8):
    need = max(0, tau - 1)
    for phi in (Fraction(2, 7), Fraction(0), Fraction(1), Fraction(-1, 3), Fraction(5, 3)):
        for name, Hs in (
            ("distinct", [Fraction(j + 1, j + 3) for j in range(need)]),
            ("zeros", [Fraction(0)] * need),
            ("ones", [Fraction(1)] * need),
            ("dups", [Fraction(1, 3)] * need),
            ("mixed0", [Fraction(0) if j % 2 else Fraction(j + 2, 9) for j in range(need)]),
            ("ints", [j - 1 for j in range(need)]),
        ):
            call("F tau=%d phi=%s %s" % (tau, phi, name), tau, phi, Hs)

# 3. random floats, repeated calls with the same list object (not mutated?)
rng = random.Random(99)
for rep in range(60):
    tau = rng.randint(0, 8)
    Hs = [rng.random() for _ in range(max(0, tau - 1))]
    phi = rng.random()
    keep = list(Hs)
    call("rnd %d tau=%d" % (rep, tau), tau, phi, Hs)
    call("rnd %d tau=%d again" % (rep, tau), tau, phi, Hs)
    out.append("   Hs untouched %r" % (Hs == keep))

# 4. other containers for Hs: tuple, dict views (as message_passing passes), set,
#    generators / iterators (one-shot), numpy arrays, strings, None, numbers
for tau in range(0, 6):
    need = max(0, tau - 1)
    vals = [0.2 + 0.1 * j for j in range(need)]
    d = {j: v for j, v in enumerate(vals)}
    call("tuple tau=%d" % tau, tau, 0.4, tuple(vals))
    call("dict.values tau=%d" % tau, tau, 0.4, d.values())
    call("dict tau=%d" % tau, tau, 0.4, d)
    call("set tau=%d" % tau, tau, 0.4, set(vals))
    g = (v for v in vals)
    call("generator tau=%d" % tau, tau, 0.4, g)
    out.append("   generator left %r" % (list(g),))
    it = iter(vals)
    call("iterator tau=%d" % tau, tau, 0.4, it)
    out.append("   iterator left %r" % (list(it),))
    call("ndarray tau=%d" % tau, tau, 0.4, np.array(vals))
    call("ndarray2d tau=%d" % tau, tau, 0.4, np.array([vals, vals]))
    call("str tau=%d" % tau, tau, 0.4, "ab")
    call("None tau=%d" % tau, tau, 0.4, None)
    call("int tau=%d" % tau, tau, 0.4, 3)
    call("list of None tau=%d" % tau, tau, 0.4, [None] * need)
    call("list of str tau=%d" % tau, tau, 0.4, ["x"] * need)
    call("list of arrays tau=%d" % tau, tau, 0.4, [np.array([0.1, 0.9])] * need)
    call("list of nan/inf tau=%d" % tau, tau, 0.4, [float("nan"), float("inf")][:need])

# 5. malformed tau / phi
weird_tau = [0.0, 1.0, 3.0, 2.5, -1.0, float("nan"), float("inf"), None, "3", True, False, Fraction(3), Decimal(3),
             np.int64(0), np.int64(1), np.int64(2), np.int64(4), np.int64(-2), np.uint8(3), np.float64(3.0), [3], 3 + 0j]
for t in weird_tau:
    for L in (0, 1, 2, 3):
        call("tau=%s L=%d" % (show(t), L), t, 0.3, [0.5, 0.25, 0.75][:L])
        call("tau=%s L=%d F" % (show(t), L), t, Fraction(1, 3), [Fraction(1, 2)] * L)
weird_phi = [None, "0.5", float("nan"), float("inf"), -float("inf"), 1e200, -1e200, 1e308, 2, -3, 10 ** 30,
             Decimal("0.5"), 0.5 + 0j, 1j, np.array([0.2, 0.8]), [0.5], np.float64("nan")]
for ph in weird_phi:
    for tau in (0, 1, 2, 3, 5, 7):
        call("phi=%s tau=%d" % (show(ph), tau), tau, ph, [0.5] * max(0, tau - 1))
call("no args")
call("one arg", 3)
call("two args", 3, 0.5)
call("four args", 3, 0.5, [0.1, 0.2], 1)

# 6. larger cliques (kappa*(kappa-1)/2 up to 45), homogeneous closed form consumer
for tau in (9, 10, 11):
    call("big tau=%d" % tau, tau, 0.3, [0.6] * (tau - 1))
    call("big F tau=%d" % tau, tau, Fraction(1, 3), [Fraction(j + 1, 13) for j in range(tau - 1)])
caches("end")

out.append("random state " + hashlib.sha256(repr(random.getstate()).encode()).hexdigest())
st = np.random.get_state()
out.append("numpy state " + hashlib.sha256(repr((st[0], st[1].tolist(), st[2], st[3], st[4])).encode()).hexdigest())
out.append("next draws %r %r" % (random.random(), float(np.random.random())))

text = "\n".join(out)
print(text)
print("DIGEST", hashlib.sha256(text.encode()).hexdigest(), len(out))
