"""Equivalence digest for gcmpy/tools/draw_set.py (run with cwd = a checkout)."""
import hashlib
import os
import random
import sys

sys.path.insert(0, os.getcwd())

import numpy as np

from gcmpy.tools.draw_set import DrawSet


def digest(obj) -> str:
    return hashlib.sha256(repr(obj).encode()).hexdigest()[:16]


def rng_digest() -> str:
    return digest((random.getstate(), np.random.get_state()[1].tolist(), np.random.get_state()[2]))


def snapshot(ds: DrawSet):
    return (
        len(ds),
        list(ds),
        list(ds._edges),
        list(ds._edge_hashmap.items()),
        type(iter(ds)).__name__,
    )


def scenario_edge_cases():
    out = []
    ds = DrawSet()
    out.append(("empty", snapshot(ds), (1, 2) in ds))
    # draw from empty
    try:
        ds.draw()
    except Exception as exc:
        out.append(("draw-empty", type(exc).__name__, str(exc)))
    # remove from empty
    try:
        ds.remove((1, 2))
    except Exception as exc:
        out.append(("remove-empty", type(exc).__name__, str(exc), snapshot(ds)))
    # single element add / duplicate add / remove
    out.append(("add-ret", ds.add((1, 2))))
    out.append(("one", snapshot(ds)))
    out.append(("add-dup-ret", ds.add((1, 2))))
    out.append(("dup", snapshot(ds)))
    out.append(("draw-one", ds.draw()))
    out.append(("rm-ret", ds.remove((1, 2))))
    out.append(("after-rm", snapshot(ds)))
    # remove head / middle / tail
    for victim in [(0, 0), (2, 2), (4, 4)]:
        ds = DrawSet()
        for i in range(5):
            ds.add((i, i))
        ds.remove(victim)
        out.append(("rm", victim, snapshot(ds)))
        try:
            ds.remove(victim)
        except Exception as exc:
            out.append(("rm-absent", type(exc).__name__, str(exc), snapshot(ds)))
        ds.add(victim)
        out.append(("re-add", victim, snapshot(ds)))
    # unhashable element
    ds = DrawSet()
    ds.add((9, 9))
    for op in ("add", "remove", "contains"):
        try:
            if op == "add":
                ds.add([1, 2])
            elif op == "remove":
                ds.remove([1, 2])
            else:
                [1, 2] in ds
        except Exception as exc:
            out.append((op + "-unhashable", type(exc).__name__, str(exc), snapshot(ds)))
    # equal-but-distinct keys (1 == 1.0 == True)
    ds = DrawSet()
    ds.add(1)
    ds.add(1.0)
    ds.add(True)
    ds.add((1, 2))
    ds.add((1.0, 2.0))
    out.append(("equal-keys", snapshot(ds), [type(x).__name__ for x in ds]))
    ds.remove(1.0)
    out.append(("equal-keys-rm", snapshot(ds)))
    # mixed element types, None, strings
    ds = DrawSet()
    for x in [None, "a", (1, "b"), frozenset({1}), 0, ""]:
        ds.add(x)
    ds.remove("a")
    ds.remove(None)
    out.append(("mixed", snapshot(ds)))
    # class shape
    out.append(("mro", [c.__name__ for c in DrawSet.__mro__]))
    out.append(("public", sorted(n for n in vars(DrawSet) if not n.startswith("_") or n.startswith("__"))))
    return out


def scenario_random_history(seed: int, steps: int, universe: int):
    random.seed(seed)
    np.random.seed(seed)
    driver = random.Random(seed * 7919 + 1)  # independent of the global RNG
    ds = DrawSet()
    model = set()
    trace = []
    for _ in range(steps):
        r = driver.random()
        e = (driver.randrange(universe), driver.randrange(universe))
        if r < 0.45:
            ds.add(e)
            model.add(e)
            trace.append(("a", e))
        elif r < 0.75:
            if model:
                if driver.random() < 0.8:
                    e = driver.choice(sorted(model))
                try:
                    ds.remove(e)
                    model.discard(e)
                    trace.append(("r", e))
                except KeyError as exc:
                    trace.append(("r!", e, str(exc)))
        elif r < 0.95:
            if len(ds):
                d = ds.draw()
                trace.append(("d", d, d in model))
        else:
            trace.append(("s", digest(snapshot(ds)), (e in ds) == (e in model)))
        assert len(ds) == len(model)
        assert set(ds) == model
    return (seed, digest(trace), snapshot(ds) if len(ds) < 30 else digest(snapshot(ds)), rng_digest())


def scenario_draw_stream(seed: int, n: int):
    random.seed(seed)
    np.random.seed(seed)
    ds = DrawSet()
    for i in range(n):
        ds.add((i, i + 1))
    draws = [ds.draw() for _ in range(50)]
    # drain by drawing and removing
    order = []
    while len(ds):
        e = ds.draw()
        ds.remove(e)
        order.append(e)
    return (seed, n, draws, order, snapshot(ds), rng_digest())


def scenario_iteration_under_mutation():
    # list-iterator semantics are observable: appending during iteration extends it
    ds = DrawSet()
    for i in range(3):
        ds.add(i)
    seen = []
    for x in ds:
        seen.append(x)
        if x < 6:
            ds.add(x + 3)
    it = iter(ds)
    first = next(it)
    ds.remove(first)
    rest = list(it)
    return (seen, first, rest, snapshot(ds))


def scenario_mcmc():
    # the only library client of DrawSet
    import networkx as nx
    out = []
    try:
        from gcmpy.tools import markov_chain_monte_carlo_rewiring as m
        out.append(("mcmc-import", sorted(n for n in vars(m) if not n.startswith("_"))[:40]))
    except Exception as exc:  # pragma: no cover
        out.append(("mcmc-import-failed", type(exc).__name__, str(exc)))
    return out


def main():
    print("edge", digest(scenario_edge_cases()))
    for item in scenario_edge_cases():
        print("  ", item)
    for seed, steps, universe in [(0, 50, 3), (1, 500, 5), (2, 2000, 8), (3, 5000, 20), (4, 300, 1), (5, 1000, 2)]:
        print("hist", scenario_random_history(seed, steps, universe))
    for seed, n in [(10, 1), (11, 2), (12, 7), (13, 64)]:
        res = scenario_draw_stream(seed, n)
        print("draw", seed, n, digest(res), res[-1])
        if n <= 7:
            print("  ", res)
    print("iter", scenario_iteration_under_mutation())
    print("mcmc", digest(scenario_mcmc()))
    print("rng-final", rng_digest())


if __name__ == "__main__":
    main()
