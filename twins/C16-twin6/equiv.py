"""
Equivalence digest for the C16 commit (clique_equation refactor).
Run with cwd = a gcmpy checkout. Exercises only the PRE-EXISTING API:
clique_equation(tau, phi, Hs), through each of its import paths, plus the
untouched Q it depends on (cache statistics show the call pattern).
Prints a deterministic digest: bit-exact floats (repr + float.hex),
result types, exception types, RNG state afterwards, inputs after the call.
"""
import os
import sys

sys.path.insert(0, os.getcwd())
import warnings

warnings.simplefilter("ignore")

import hashlib
import random
from decimal import Decimal
from fractions import Fraction

import numpy as np

random.seed(12345)
np.random.seed(12345)

import gcmpy
from gcmpy.message_passing.equations.clique_equation import clique_equation
from gcmpy.message_passing.equations import clique_equation as ce_pkg
from gcmpy.message_passing.number_connected_graphs import Q

assert ce_pkg is clique_equation and gcmpy.clique_equation is clique_equation


def show(x):
    if isinstance(x, (float, np.floating)):
        return f"{type(x).__name__}:{x!r}:{float(x).hex()}"
    if isinstance(x, complex):
        return f"complex:{x!r}:{x.real.hex()}:{x.imag.hex()}"
    return f"{type(x).__name__}:{x!r}"


def call(tag, tau, phi, Hs, after=None):
    try:
        out = show(clique_equation(tau, phi, Hs))
    except BaseException as exc:  # digest the exception type only
        out = f"EXC:{type(exc).__name__}"
    extra = ""
    if after is not None:
        extra = f" | input after: {after()!r}"
    print(f"{tag}: {out}{extra}")


class Recorder:
    """Iterable that records how often it is iterated / what is read."""

    def __init__(self, vals):
        self.vals = list(vals)
        self.log = []

    def __iter__(self):
        self.log.append("iter")
        for i, v in enumerate(self.vals):
            self.log.append(i)
            yield v


print("== homogeneous")
for tau in range(0, 9):
    for phi in (0.0, 1.0, 0.5645231765, 0.3, 1.3, -0.2):
        call(f"hom tau={tau} phi={phi}", tau, phi, [0.651284213] * max(tau - 1, 0))

print("== heterogeneous, seeded random")
rng = random.Random(2021)
for tau in range(2, 9):
    for rep in range(6):
        phi = rng.random()
        Hs = [rng.random() for _ in range(tau - 1)]
        call(f"het tau={tau} rep={rep}", tau, phi, Hs, after=lambda Hs=Hs: Hs)
        call(f"het-rev tau={tau} rep={rep}", tau, phi, Hs[::-1])
        call(f"het-tuple tau={tau} rep={rep}", tau, phi, tuple(Hs))

print("== global RNG draws as inputs")
for tau in (3, 4, 5, 6):
    phi = random.random()
    Hs = list(np.random.random(tau - 1))
    call(f"np tau={tau}", tau, phi, Hs)
    call(f"nparr tau={tau}", tau, np.float64(phi), np.array(Hs))

print("== special values")
call("zeros", 5, 0.4, [0.0, 0.0, 0.0, 0.0])
call("ones", 5, 0.4, [1.0, 1.0, 1.0, 1.0])
call("zero-one", 3, 0.25, [1.0, 0.0])
call("negative", 5, 1.3, [-0.5, 2.0, 0.25, 1.0])
call("tiny", 6, 1e-12, [1e-300, 1e-200, 1e-100, 1e100, 1e200])
call("huge", 5, 0.5, [1e308, 1e308, 0.5, 0.25])
call("inf", 4, 0.5, [float("inf"), 0.5, 0.0])
call("nan", 4, 0.5, [float("nan"), 0.5, 0.2])
call("nan phi", 4, float("nan"), [0.1, 0.5, 0.2])
call("ints", 5, 0.5, [1, 2, 3, 4])
call("ints phi int 1", 5, 1, [1, 2, 3, 4])
call("ints phi int 0", 5, 0, [1, 2, 3, 4])
call("ints phi int 2", 4, 2, [1, 2, 3])
call("bools", 4, 0.5, [True, False, True])
call("complex", 4, 0.5, [0.5 + 1j, 0.25, 1j])
call("complex phi", 3, 0.5 + 0.5j, [0.5, 0.25])
call("fractions", 4, Fraction(1, 3), [Fraction(1, 2), Fraction(2, 3), Fraction(3, 4)])
call("fractions H float phi", 4, 0.3, [Fraction(1, 2), Fraction(2, 3), Fraction(3, 4)])
call("decimal", 3, 0.5, [Decimal("0.5"), Decimal("0.25")])
call("decimal phi", 3, Decimal("0.5"), [Decimal("0.5"), Decimal("0.25")])
call("float32", 4, 0.5, [np.float32(0.1), np.float32(0.7), np.float32(0.3)])
call("phi >1 frac exponent", 4, 1.5, [0.1, 0.7, 0.3])
call("phi ==1 exactly, tau 6", 6, 1.0, [0.1, 0.7, 0.3, 0.2, 0.9])

print("== length mismatches")
call("short Hs", 5, 0.4, [0.2, 0.5])
call("empty Hs", 4, 0.4, [])
call("long Hs", 3, 0.4, [0.2, 0.5, 0.8, 0.9])
call("long Hs 2", 2, 0.4, [0.2, 0.5, 0.8])
call("tau 1", 1, 0.4, [0.2, 0.5, 0.8])
call("tau 0", 0, 0.4, [0.2])
call("tau negative", -3, 0.4, [0.2])

print("== other iterables")
d = {7: 0.2, 3: 0.9, 5: 0.4}
call("dict.values()", 4, 0.5645231765, d.values(), after=lambda: d)
call("dict (keys)", 4, 0.5, d, after=lambda: d)
call("set", 3, 0.5, {0.25, 0.75})
call("range", 4, 0.5, range(3))
call("string elems", 3, 0.5, "ab")
gen = (x for x in [0.2, 0.5, 0.8])
call("generator", 4, 0.4, gen, after=lambda: list(gen))
it = iter([0.2, 0.5, 0.8])
call("iterator tau=1", 1, 0.4, it, after=lambda: list(it))
it2 = iter([0.2, 0.5, 0.8])
call("iterator tau=0", 0, 0.4, it2, after=lambda: list(it2))
rec = Recorder([0.2, 0.5, 0.8])
call("recorder", 4, 0.4, rec, after=lambda: rec.log)
rec0 = Recorder([0.2, 0.5, 0.8])
call("recorder tau=0", 0, 0.4, rec0, after=lambda: rec0.log)
lst = [0.3, 0.6, 0.9]
call("list kept", 4, 0.7, lst, after=lambda: lst)

print("== error paths")
call("Hs None", 3, 0.5, None)
call("Hs None tau=0", 0, 0.5, None)
call("Hs int", 3, 0.5, 7)
call("tau float", 3.0, 0.5, [0.1, 0.2])
call("tau None", None, 0.5, [0.1, 0.2])
call("tau str", "3", 0.5, [0.1, 0.2])
call("tau numpy int", np.int64(4), 0.5, [0.1, 0.2, 0.3])
call("tau bool", True, 0.5, [0.1])
call("phi None", 3, None, [0.1, 0.2])
call("phi str", 3, "0.5", [0.1, 0.2])
call("phi None tau=0", 0, None, [0.1, 0.2])
call("H None", 3, 0.5, [None, 0.2])
call("H str", 3, 0.5, ["a", 0.2])
call("H str only", 2, 0.5, ["a"])
call("H list", 3, 0.5, [[1], 2])
call("neg base frac exp", 4, 2.5, [0.1, 0.2, 0.3])
call("phi==1 zero to power", 3, 1, [0.1, 0.2])
call("overflow", 9, 1e200, [0.5] * 8)
call("int overflow pow", 9, -1e200, [0.5] * 8)
try:
    clique_equation(3, 0.5)
except BaseException as exc:
    print("missing arg:", type(exc).__name__)
try:
    clique_equation(tau=3, phi=0.5, Hs=[0.2, 0.9])
    print("keywords:", show(clique_equation(tau=3, phi=0.5, Hs=[0.2, 0.9])))
except BaseException as exc:
    print("keywords:", type(exc).__name__)

print("== repeated calls")
for i in range(3):
    call(f"repeat {i}", 6, 0.37, [0.11, 0.52, 0.73, 0.94, 0.35])

print("== larger")
call("tau=10", 10, 0.21, [0.05 * (i + 1) for i in range(9)])
call("tau=11 hom", 11, 0.15, [0.8] * 10)

print("== state afterwards")
print("Q.cache_info:", Q.cache_info())
print("python RNG:", hashlib.sha256(repr(random.getstate()).encode()).hexdigest())
st = np.random.get_state()
print("numpy RNG:", hashlib.sha256(st[1].tobytes() + repr(st[2:]).encode()).hexdigest())
print("next draws:", repr(random.random()), repr(float(np.random.random())))
