import sys, os; sys.path.insert(0, os.getcwd())
"""Variant c: `if not jds: return jds` shortcut in JointDegree.sample_jds_from_jdd before
the handshaking-lemma repair.  Exercises sampling (above all N = 0, N < 0, malformed N, empty
and degenerate distributions, unset / mismatching motif sizes) on every loader, repeatedly on
one object, and handshaking_lemma itself."""
import hashlib
import random

import numpy as np

from gcmpy.joint_degree.joint_degree_distribution import JointDegreeDistribution
from gcmpy.joint_degree.joint_degree_loaders.joint_degree_cover import JointDegreeCover
from gcmpy.joint_degree.joint_degree_loaders.joint_degree_empirical import JointDegreeEmpirical
from gcmpy.names.joint_degree_names import JointDegreeNames

random.seed(80803)
np.random.seed(80803)

LINES = []


def out(*parts):
    import re
    # object addresses in reprs are not deterministic
    LINES.append(re.sub(r"0x[0-9a-fA-F]+", "0x?", " ".join(str(p) for p in parts)))


def rng_digest():
    s = repr(random.getstate()) + repr(np.random.get_state()[1].tolist()) + repr(np.random.get_state()[2:])
    return hashlib.sha256(s.encode()).hexdigest()[:16]


def attempt(label, fn):
    try:
        r = fn()
        out(label, "OK", type(r).__name__, repr(r))
    except BaseException as e:  # noqa
        out(label, "EXC", type(e).__name__)
    out(label, "rng", rng_digest())


def state(obj):
    return {k: repr(vars(obj)[k]) for k in sorted(vars(obj))}


def pk(k):
    return 1.0 / (k + 1)


def joint(k):
    return 1.0 / (1 + sum(k))


def loaders():
    J = JointDegreeNames
    specs = [
        ("cover0", {J.JOINT_DEGREE_TYPE: "cover", J.COVER: [[0, 1], [1, 2, 3], [3, 0], [0, 2]]}),
        ("cover1", {J.JOINT_DEGREE_TYPE: "cover", J.COVER: [[1, 2, 3], [3, 4], [4, 5, 1], [2, 5], [1, 2, 3, 4, 5]]}),
        ("cover-single", {J.JOINT_DEGREE_TYPE: "cover", J.COVER: [[0]]}),
        ("cover-odd", {J.JOINT_DEGREE_TYPE: "cover", J.COVER: [[0, 1, 2], [2, 3, 4], [4, 5, 6], [0, 6]]}),
        ("emp", {J.JOINT_DEGREE_TYPE: "empirical", J.MOTIF_SIZES: [2, 3], J.JDS: [(1, 0), (1, 1), (1, 0), (2, 1)]}),
        ("emp-empty", {J.JOINT_DEGREE_TYPE: "empirical", J.MOTIF_SIZES: [2, 3], J.JDS: []}),
        ("emp-nosizes", {J.JOINT_DEGREE_TYPE: "empirical", J.MOTIF_SIZES: None, J.JDS: [(1, 0), (1, 1)]}),
        ("emp-short-sizes", {J.JOINT_DEGREE_TYPE: "empirical", J.MOTIF_SIZES: [2], J.JDS: [(1, 1), (1, 1)]}),
        ("emp-zero-size", {J.JOINT_DEGREE_TYPE: "empirical", J.MOTIF_SIZES: [0, 3], J.JDS: [(1, 1), (1, 1)]}),
        ("emp-emptykeys", {J.JOINT_DEGREE_TYPE: "empirical", J.MOTIF_SIZES: [2], J.JDS: [(), ()]}),
        ("emp-scalars", {J.JOINT_DEGREE_TYPE: "empirical", J.MOTIF_SIZES: [2], J.JDS: [1, 2, 2]}),
        ("manual", {J.JOINT_DEGREE_TYPE: "manual", J.MOTIF_SIZES: [2, 3], J.JDD: {(1, 0): 0.5, (1, 1): 0.25, (3, 2): 0.25}}),
        ("manual-empty", {J.JOINT_DEGREE_TYPE: "manual", J.MOTIF_SIZES: [2, 3], J.JDD: {}}),
        ("manual-zero-w", {J.JOINT_DEGREE_TYPE: "manual", J.MOTIF_SIZES: [2, 3], J.JDD: {(1, 0): 0.0, (1, 1): 0.0}}),
        ("manual-neg-w", {J.JOINT_DEGREE_TYPE: "manual", J.MOTIF_SIZES: [2, 3], J.JDD: {(1, 0): -1.0, (1, 1): 0.5}}),
        ("manual-one", {J.JOINT_DEGREE_TYPE: "manual", J.MOTIF_SIZES: [2, 3], J.JDD: {(1, 1): 1.0}}),
        ("manual-none", {J.JOINT_DEGREE_TYPE: "manual", J.MOTIF_SIZES: [2, 3], J.JDD: None}),
        ("marginal", {J.JOINT_DEGREE_TYPE: "marginal", J.MOTIF_SIZES: [2, 3], J.ARR_FP: [pk, pk],
                      J.LOW_HIGH_DEGREE_BOUND: [(0, 4), (0, 3)]}),
        ("marginal-s", {J.JOINT_DEGREE_TYPE: "marginal", J.MOTIF_SIZES: [2, 3], J.ARR_FP: [pk, pk],
                        J.LOW_HIGH_DEGREE_BOUND: [(0, 4), (0, 3)], J.USE_SAMPLING: True, J.N_SAMPLES: 30}),
        ("marginal-s0", {J.JOINT_DEGREE_TYPE: "marginal", J.MOTIF_SIZES: [2, 3], J.ARR_FP: [pk, pk],
                         J.LOW_HIGH_DEGREE_BOUND: [(0, 4), (0, 3)], J.USE_SAMPLING: True, J.N_SAMPLES: 0}),
        ("function", {J.JOINT_DEGREE_TYPE: "function", J.MOTIF_SIZES: [2, 3], J.FP: joint,
                      J.LOW_HIGH_DEGREE_BOUND: [(0, 3), (0, 3)]}),
        ("delta", {J.JOINT_DEGREE_TYPE: "delta", J.MOTIF_SIZES: [2, 3], J.FP: pk,
                   J.LOW_HIGH_DEGREE_BOUND: (1, 8), J.TARGET_K: 3, J.PROBS: [0.5, 0.5]}),
        ("split", {J.JOINT_DEGREE_TYPE: "split_degree", J.MOTIF_SIZES: [2, 3], J.FP: pk,
                   J.LOW_HIGH_DEGREE_BOUND: (1, 8), J.TARGET_K: 3, J.PROBS: [0.5, 0.5]}),
    ]
    res = []
    for name, p in specs:
        try:
            res.append((name, JointDegreeDistribution.load_joint_degree(p)))
        except BaseException as e:  # noqa
            out("load", name, "EXC", type(e).__name__)
    return res


class Idx:
    def __init__(self, v):
        self.v = v

    def __index__(self):
        return self.v


NS = [0, 0, 1, 0, 2, 3, 10, 57, 0, -1, -5, True, False, 0.0, 2.0, -0.0, None, "3", "", [], (), [2],
      np.int64(0), np.int64(4), np.float64(0.0), np.array(0), np.array([0]), np.array([]), Idx(0), Idx(3),
      10 ** 3, 0]

for name, o in loaders():
    out("loaded", name, state(o))
    for i, n in enumerate(NS):
        label = "sample/%s/%d:%r" % (name, i, n if not isinstance(n, Idx) else "Idx%d" % n.v)
        before = state(o)
        attempt(label, lambda: o.sample_jds_from_jdd(n))
        out(label, "state-unchanged", state(o) == before)
    # result identity / independence for the empty sample
    def empties():
        a = o.sample_jds_from_jdd(0)
        b = o.sample_jds_from_jdd(0)
        a.append("x")
        return type(a).__name__, a, b, a is b
    attempt("empties/" + name, empties)
    # handshaking_lemma directly
    for j, arg in enumerate([[], (), [()], [(), ()], [(1, 0)], [(1, 1), (1, 1), (1, 1)], [(0, 0)], None,
                             np.zeros((0, 2), dtype=int), iter([]), {}, "", [(1,)], [(2, 3, 4)]]):
        rep = repr(arg)
        def hl():
            r = o.handshaking_lemma(arg)
            return r, r is arg
        attempt("hl/%s/%d:%s" % (name, j, rep), hl)
    # mutate the public state and sample again
    saved_sizes, saved_jdd = o.motif_sizes, o.jdd
    for sizes in (None, [], [2], [2, 3, 4], [0, 0], "ab", 5):
        o.motif_sizes = sizes
        for n in (0, 4):
            attempt("sizes/%s/%r/%d" % (name, sizes, n), lambda: o.sample_jds_from_jdd(n))
    o.motif_sizes = saved_sizes
    for jdd in (None, {}, {(): 1.0}, {(1, 1): 0.0}, {(1, 1): 1.0, (0, 1): 1.0}, [], [((1, 1), 1.0)], 7):
        o.jdd = jdd
        for n in (0, 4, -2):
            attempt("jdd/%s/%r/%d" % (name, jdd, n), lambda: o.sample_jds_from_jdd(n))
    o.jdd = saved_jdd

out("final-rng", rng_digest())
text = "\n".join(LINES)
print(text)
print("DIGEST", hashlib.sha256(text.encode()).hexdigest())
