"""
Behavioural digest of the EXISTING public surface touched by the C01 additions.
Run with cwd = a gcmpy checkout. Uses only pre-existing signatures.
"""
import hashlib
import os
import random
import sys
import warnings

sys.path.insert(0, os.getcwd())
warnings.simplefilter("ignore")

import numpy as np  # noqa: E402

from gcmpy.names.gcm_algorithm_names import GCMAlgorithmNames as N  # noqa: E402
from gcmpy.gcm_algorithm.gcm_algorithm_fast import GCMAlgorithmFast  # noqa: E402
from gcmpy.gcm_algorithm.gcm_algorithm_custom_motifs import (  # noqa: E402
    GCMAlgorithmCustomMotifs,
)
from gcmpy.gcm_algorithm.gcm_algorithm_network import GCMAlgorithmNetwork  # noqa: E402
from gcmpy.gcm_algorithm.gcm_algorithm_factory import GCMAlgorithmFactory  # noqa: E402
from gcmpy.gcm_algorithm.gcm_algorithm_main import GCMAlgorithmMain  # noqa: E402
from gcmpy.gcm_algorithm.gcm_algorithm_types import GCMAlgorithmTypes  # noqa: E402
from gcmpy.motif_generators.clique_motif import clique_motif  # noqa: E402
from gcmpy.motif_generators.cycle_motif import cycle_motif  # noqa: E402
from gcmpy.motif_generators.diamond_motif import diamond_motif  # noqa: E402
import gcmpy  # noqa: E402
import gcmpy.gcm_algorithm.gcm_algorithm_fast as fast_mod  # noqa: E402
import gcmpy.gcm_algorithm.gcm_algorithm_custom_motifs as custom_mod  # noqa: E402


def rng_state():
    h = hashlib.sha256()
    h.update(repr(random.getstate()).encode())
    st = np.random.get_state()
    h.update(repr((st[0], st[1].tolist(), st[2], st[3], repr(st[4]))).encode())
    return h.hexdigest()[:16]


def out(*a):
    print(*a)


def show_edge_list(tag, el, jds=None):
    out(tag, "type", type(el).__name__)
    out(tag, "edges", repr(el.edge_list))
    out(tag, "topologies", repr(el.topologies))
    out(tag, "motif_id", repr(el.motif_id))
    jd = el.joint_degrees
    out(tag, "jds", repr(jd) if isinstance(jd, (list, tuple, type(None), int)) else type(jd).__name__)
    if jds is not None:
        out(tag, "jds_is_input", el.joint_degrees is jds)


def show_network(tag, net):
    out(tag, "type", type(net).__name__)
    out(tag, "nodes", repr(list(net.G.nodes(data=True))))
    out(tag, "edges", repr(list(net.G.edges(data=True))))
    out(tag, "graphtype", type(net.G).__name__)


def attempt(tag, fn, shower=None):
    try:
        r = fn()
    except BaseException as e:  # noqa
        out(tag, "EXC", type(e).__name__, repr(str(e)))
        out(tag, "rng", rng_state())
        return None
    if shower is not None:
        shower(tag, r)
    else:
        out(tag, "result", repr(r))
    out(tag, "rng", rng_state())
    return r


# ---------------------------------------------------------------- logging callbacks
LOG = []


def logged(name, fn):
    def wrapper(vs):
        LOG.append((name, type(vs).__name__, list(vs)))
        return fn(vs)

    return wrapper


def flush_log(tag):
    out(tag, "calllog", repr(LOG))
    del LOG[:]


# ---------------------------------------------------------------- motif builders
random.seed(20261003)
np.random.seed(20261003)
out("== motif builders")
for vs in (
    [],
    [1],
    [1, 2],
    [3, 1, 2],
    [4, 4, 4, 4],
    [0, 1, 2, 3],
    [5, 6, 7, 8, 9],
    (1, 2, 3, 4),
    "abcd",
    None,
    7,
    [1.5, 2.5, -0.0, 0.1 + 0.2],
):
    for nm, f in (
        ("clique", clique_motif),
        ("cycle", cycle_motif),
        ("diamond", diamond_motif),
    ):
        keep = list(vs) if isinstance(vs, (list, tuple)) else vs
        attempt("motif %s %r" % (nm, vs), lambda: f(vs))
        after = list(vs) if isinstance(vs, (list, tuple)) else vs
        out("motif %s %r" % (nm, vs), "input_unchanged", keep == after)
# iterators / generators as vertices
attempt("cycle iter", lambda: cycle_motif(iter([1, 2, 3])))
attempt("cycle range", lambda: cycle_motif(range(5)))
attempt("diamond range", lambda: diamond_motif(range(4)))
attempt("diamond gen", lambda: diamond_motif(x for x in range(4)))
attempt("clique gen", lambda: clique_motif(x for x in range(4)))
it = iter([1, 2, 3, 4])
attempt("cycle iter2", lambda: cycle_motif(it))
out("cycle iter2 rest", list(it))
out("exports", sorted(n for n in ("clique_motif", "cycle_motif", "diamond_motif") if hasattr(gcmpy, n)))
out("module attrs", all(hasattr(fast_mod, n) for n in ("chain", "repeat", "starmap", "random", "grouper")),
    all(hasattr(custom_mod, n) for n in ("chain", "repeat", "starmap", "random")))


# ---------------------------------------------------------------- fast
def fast_params(sizes, builders, names):
    return {N.MOTIF_SIZES: sizes, N.BUILD_FUNCTIONS: builders, N.EDGE_NAMES: names}


JDS = {
    "ok23": [(1, 1), (1, 1), (2, 1), (0, 0), (0, 3), (0, 0)],
    "empty": [],
    "zeros": [(0, 0), (0, 0)],
    "one_topology": [(1,), (1,), (2,), (2,)],
    "unbalanced": [(1, 1), (1, 1), (1, 2)],  # handshake violated
    "ragged": [(1, 1), (1,), (2, 1)],
    "lists": [[2, 0], [1, 3], [1, 0], [0, 0], [0, 3]],
    "big": [((i * 7) % 4, (i * 5) % 3 * 1) for i in range(36)],
    "negative": [(-1, 1), (1, 2)],
    "floats": [(1.0, 1)],
    "not_iterable": 5,
    "none": None,
    "rows_not_iterable": [1, 2, 3],
}

out("== fast")
for seed in (0, 1, 12345):
    for key in sorted(JDS):
        jds = JDS[key]
        tag = "fast s%d %s" % (seed, key)
        random.seed(seed)
        np.random.seed(seed)
        sizes = [2, 3]
        builders = [logged("c2", clique_motif), logged("c3", clique_motif)]
        names = ["2-clique", "3-clique"]
        p = fast_params(sizes, builders, names)
        alg = attempt(tag + " ctor", lambda: GCMAlgorithmFast(p), lambda t, r: out(t, "ok"))
        keep = repr(jds)
        r = attempt(tag, lambda: alg.random_clustered_graph(jds), lambda t, r: show_edge_list(t, r, jds))
        flush_log(tag)
        out(tag, "jds_unchanged", keep == repr(jds))
        # repeated call on the same object
        r2 = attempt(tag + " again", lambda: alg.random_clustered_graph(jds), lambda t, r: show_edge_list(t, r, jds))
        flush_log(tag + " again")
        if r is not None and r2 is not None:
            out(tag, "fresh_objects", r is not r2, r.edge_list is not r2.edge_list)
        out(tag, "params_unchanged", p[N.MOTIF_SIZES] is sizes and sizes == [2, 3], len(p))
        out(tag, "attrs", sorted(vars(alg)))

# generator jds (consumed once)
random.seed(3)
gen_jds = (t for t in JDS["ok23"])
alg = GCMAlgorithmFast(fast_params([2, 3], [clique_motif, clique_motif], ["a", "b"]))
attempt("fast gen-jds", lambda: alg.random_clustered_graph(gen_jds), lambda t, r: show_edge_list(t, r, gen_jds))
out("fast gen-jds rest", list(gen_jds))

# cycle / diamond builders through the generator, sizes mismatch, failing builders
random.seed(4)
alg = GCMAlgorithmFast(
    fast_params([2, 3, 4], [clique_motif, cycle_motif, diamond_motif], ["e", "tri", "dia"])
)
jds3 = [((i % 3), (i % 2) * 3 % 4, 1) for i in range(12)]
attempt("fast 3topo", lambda: alg.random_clustered_graph(jds3), lambda t, r: show_edge_list(t, r, jds3))
attempt("fast 3topo again", lambda: alg.random_clustered_graph(jds3), lambda t, r: show_edge_list(t, r, jds3))
jds3b = [(1, 1, 1), (1, 1, 1), (0, 1, 1)]  # diamond gets 3 stubs -> builder error
attempt("fast 3topo short", lambda: alg.random_clustered_graph(jds3b), lambda t, r: show_edge_list(t, r, jds3b))
# more topologies in jds than configured
attempt("fast too-many-topologies", lambda: alg.random_clustered_graph([(1, 0, 0, 2), (1, 0, 0, 2)]),
        lambda t, r: show_edge_list(t, r))
# fewer
attempt("fast fewer-topologies", lambda: alg.random_clustered_graph([(1,), (1,)]), lambda t, r: show_edge_list(t, r))


def boom(vs):
    raise ValueError("boom %r" % (sorted(vs),))


random.seed(5)
alg = GCMAlgorithmFast(fast_params([2, 3], [clique_motif, boom], ["a", "b"]))
attempt("fast boom", lambda: alg.random_clustered_graph(JDS["ok23"]), lambda t, r: show_edge_list(t, r))
# zero motif size
alg = GCMAlgorithmFast(fast_params([0, 3], [clique_motif, clique_motif], ["a", "b"]))
attempt("fast size0", lambda: alg.random_clustered_graph(JDS["ok23"]), lambda t, r: show_edge_list(t, r))
# builder returning a non-list
alg = GCMAlgorithmFast(fast_params([2, 3], [lambda vs: tuple(vs), lambda vs: None], ["a", "b"]))
attempt("fast odd-builders", lambda: alg.random_clustered_graph(JDS["ok23"]), lambda t, r: show_edge_list(t, r))

# constructor error paths
for bad in ({}, None, 5, {N.MOTIF_SIZES: [2]}, {"motif_sizes": [2], "build_functions": [], "edge_names": []},
            [1, 2, 3]):
    attempt("fast ctor bad %r" % (bad,), lambda: GCMAlgorithmFast(bad), lambda t, r: out(t, "ok", sorted(vars(r))))
    attempt("net ctor bad %r" % (bad,), lambda: GCMAlgorithmNetwork(bad), lambda t, r: out(t, "ok", sorted(vars(r))))
    attempt("custom ctor bad %r" % (bad,), lambda: GCMAlgorithmCustomMotifs(bad),
            lambda t, r: out(t, "ok", sorted(vars(r))))
attempt("fast ctor noargs", lambda: GCMAlgorithmFast())
attempt("fast rcg noargs", lambda: GCMAlgorithmFast(fast_params([2], [clique_motif], ["a"])).random_clustered_graph())
attempt("fast rcg kw", lambda: GCMAlgorithmFast(fast_params([2], [clique_motif], ["a"])).random_clustered_graph(
    jds=[(1,), (1,)]), lambda t, r: show_edge_list(t, r))

# shuffle call pattern: replace module-level shuffle by a recording one
calls = []
orig_shuffle = random.shuffle


def rec_shuffle(x, *a, **k):
    calls.append(("shuffle", list(x), a, k))
    return orig_shuffle(x, *a, **k)


random.shuffle = rec_shuffle
try:
    random.seed(6)
    alg = GCMAlgorithmFast(fast_params([2, 3], [clique_motif, clique_motif], ["a", "b"]))
    attempt("fast recshuffle", lambda: alg.random_clustered_graph(JDS["ok23"]), lambda t, r: show_edge_list(t, r))
    out("fast recshuffle calls", repr(calls))
    del calls[:]
    attempt("fast recshuffle empty", lambda: alg.random_clustered_graph([]), lambda t, r: show_edge_list(t, r))
    out("fast recshuffle empty calls", repr(calls))
    del calls[:]
finally:
    random.shuffle = orig_shuffle


# ---------------------------------------------------------------- network
out("== network")
for seed in (0, 7):
    for key in sorted(JDS):
        jds = JDS[key]
        tag = "net s%d %s" % (seed, key)
        random.seed(seed)
        np.random.seed(seed)
        sizes = [2, 3]
        builders = [logged("c2", clique_motif), logged("c3", clique_motif)]
        names = ["2-clique", "3-clique"]
        p = fast_params(sizes, builders, names)
        alg = GCMAlgorithmNetwork(p)
        keep = repr(jds)
        attempt(tag, lambda: alg.random_clustered_graph(jds), show_network)
        flush_log(tag)
        attempt(tag + " again", lambda: alg.random_clustered_graph(jds), show_network)
        flush_log(tag + " again")
        out(tag, "jds_unchanged", keep == repr(jds), "attrs", sorted(vars(alg)))
        out(tag, "shared", alg._motif_sizes is sizes, alg._build_functions is builders, alg._edge_names is names)
random.seed(8)
alg = GCMAlgorithmNetwork(fast_params([2, 3, 4], [clique_motif, cycle_motif, diamond_motif], ["e", "tri", "dia"]))
attempt("net 3topo", lambda: alg.random_clustered_graph(jds3), show_network)
attempt("net 3topo short", lambda: alg.random_clustered_graph(jds3b), show_network)
attempt("net rcg noargs", lambda: alg.random_clustered_graph())
attempt("net rcg kw", lambda: alg.random_clustered_graph(jds=jds3), show_network)

# the network generator instantiates the module-level GCMAlgorithmFast with 1 positional arg
import gcmpy.gcm_algorithm.gcm_algorithm_network as net_mod  # noqa: E402

orig_fast = net_mod.GCMAlgorithmFast
seen = []


class StrictFast(orig_fast):
    def __init__(self, params):
        seen.append(("init", [k.name for k in params], len(params)))
        super().__init__(params)

    def random_clustered_graph(self, jds):
        seen.append(("rcg", repr(jds)))
        return super().random_clustered_graph(jds)


net_mod.GCMAlgorithmFast = StrictFast
try:
    random.seed(9)
    attempt("net strictfast", lambda: alg.random_clustered_graph(jds3), show_network)
    out("net strictfast seen", repr(seen))
finally:
    net_mod.GCMAlgorithmFast = orig_fast


# ---------------------------------------------------------------- custom motifs
out("== custom motifs")


def diamond(vs):
    return ((vs[0], vs[1]), (vs[1], vs[2]), (vs[2], vs[3]), (vs[3], vs[1]), (vs[0], vs[2]))


def diamond_names():
    return ("diamond-outer", "diamond-outer", "diamond-outer", "diamond-outer", "diamond-inner")


def twoclique(vs):
    return (vs[0], vs[1])


def twoclique_names():
    return "2-clique"


def threeclique(vs):
    return (vs[0], vs[1]), (vs[0], vs[2]), (vs[1], vs[2])


def threeclique_names():
    return "3-clique", "3-clique", "3-clique"


def pentagon(vs):
    return ((vs[0], vs[1]), (vs[1], vs[2]), (vs[2], vs[3]), (vs[3], vs[4]), (vs[0], vs[4]), (vs[1], vs[3]))


def pentagon_names():
    return "p01", "p12", "p23", "p34", "p40", "p13"


CJDS = [
    (2, 1, 0, 1, 1, 0, 0),
    (1, 1, 0, 1, 1, 0, 0),
    (3, 1, 1, 0, 0, 1, 0),
    (2, 0, 1, 0, 0, 1, 0),
    (0, 0, 0, 1, 0, 0, 1),
    (1, 0, 0, 1, 0, 0, 0),
    (1, 0, 1, 0, 0, 0, 0),
    (1, 0, 1, 0, 0, 0, 0),
    (1, 0, 0, 1, 0, 0, 0),
    (1, 0, 0, 1, 0, 0, 0),
    (1, 0, 1, 0, 0, 0, 0),
    (0, 0, 1, 0, 0, 0, 0),
]


def custom_params():
    return {
        N.MOTIF_SIZES: [2, 3, 2, 2, 2, 2, 1],
        N.EDGE_NAMES: [twoclique_names, threeclique_names, diamond_names, pentagon_names],
        N.BUILD_FUNCTIONS: [
            logged("two", twoclique),
            logged("three", threeclique),
            logged("diamond", diamond),
            logged("pentagon", pentagon),
        ],
        N.MOTIF_INDICES: [[0], [1], [2, 3], [4, 5, 6]],
    }


CUSTOM_JDS = {
    "paper": CJDS,
    "empty": [],
    "zeros": [(0,) * 7] * 3,
    "short_rows": [(1, 1), (1, 1), (0, 1)],
    "unbalanced": [r[:3] + (r[3] + 1,) + r[4:] for r in CJDS],
    "unbalanced2": [(r[0] + 1,) + r[1:] for r in CJDS[:1]] + CJDS[1:],
    "none": None,
    "doubled": CJDS + CJDS,
}
for seed in (0, 2, 99):
    for key in sorted(CUSTOM_JDS):
        jds = CUSTOM_JDS[key]
        tag = "custom s%d %s" % (seed, key)
        random.seed(seed)
        np.random.seed(seed)
        p = custom_params()
        alg = GCMAlgorithmCustomMotifs(p)
        keep = repr(jds)
        attempt(tag, lambda: alg.random_clustered_graph(jds), lambda t, r: show_edge_list(t, r, jds))
        flush_log(tag)
        attempt(tag + " again", lambda: alg.random_clustered_graph(jds), lambda t, r: show_edge_list(t, r, jds))
        flush_log(tag + " again")
        out(tag, "jds_unchanged", keep == repr(jds), "attrs", sorted(vars(alg)))
        out(tag, "params", repr(p[N.MOTIF_SIZES]), repr(p[N.MOTIF_INDICES]))
alg = GCMAlgorithmCustomMotifs(custom_params())
for lst, n in (([], 2), ([1, 2, 3, 4, 5], 2), ([1, 2, 3], 5), ("abcdef", 3), ([1, 2], 0), ([1, 2], -1), (None, 2)):
    attempt("custom partition %r %r" % (lst, n), lambda: alg.partition(lst, n))
attempt("custom rcg noargs", lambda: alg.random_clustered_graph())
random.seed(11)
attempt("custom rcg kw", lambda: alg.random_clustered_graph(jds=CJDS), lambda t, r: show_edge_list(t, r))
del LOG[:]
# list-returning builders / 2-edge motif that is a real list of tuples
p = {
    N.MOTIF_SIZES: [2, 3],
    N.EDGE_NAMES: [lambda: ["e"], lambda: ["w1", "w2"]],
    N.BUILD_FUNCTIONS: [lambda vs: [(vs[0], vs[1])], lambda vs: [(vs[0], vs[1]), (vs[1], vs[2])]],
    N.MOTIF_INDICES: [[0], [1]],
}
random.seed(12)
alg = GCMAlgorithmCustomMotifs(p)
attempt("custom wedge", lambda: alg.random_clustered_graph(JDS["ok23"]), lambda t, r: show_edge_list(t, r))
attempt("custom wedge again", lambda: alg.random_clustered_graph(JDS["ok23"]), lambda t, r: show_edge_list(t, r))
p[N.BUILD_FUNCTIONS][1] = boom
attempt("custom boom", lambda: alg.random_clustered_graph(JDS["ok23"]), lambda t, r: show_edge_list(t, r))
p[N.BUILD_FUNCTIONS][1] = lambda vs: []
attempt("custom empty-es", lambda: alg.random_clustered_graph(JDS["ok23"]), lambda t, r: show_edge_list(t, r))
random.shuffle = rec_shuffle
try:
    random.seed(13)
    alg = GCMAlgorithmCustomMotifs(custom_params())
    attempt("custom recshuffle", lambda: alg.random_clustered_graph(CJDS), lambda t, r: show_edge_list(t, r))
    out("custom recshuffle calls", repr(calls))
    del calls[:]
    del LOG[:]
finally:
    random.shuffle = orig_shuffle


# ---------------------------------------------------------------- factory / main
out("== factory / main")


class Spy:
    """Records the comparisons the factory performs."""

    def __init__(self, equal_to):
        self.equal_to = equal_to
        self.seen = []

    def __eq__(self, other):
        self.seen.append(other)
        return other is self.equal_to

    __hash__ = None


good = fast_params([2, 3], [clique_motif, clique_motif], ["a", "b"])
goodc = custom_params()
for t in (
    GCMAlgorithmTypes.FAST,
    GCMAlgorithmTypes.NETWORK,
    GCMAlgorithmTypes.MOTIFS,
    "fast",
    "network",
    None,
    3,
):
    for pname, p in (("good", good), ("custom", goodc), ("empty", {}), ("none", None)):
        attempt(
            "factory %r %s" % (t, pname),
            lambda: GCMAlgorithmFactory.resolve_algorithm(t, p),
            lambda tag, r: out(tag, type(r).__name__, sorted(vars(r))),
        )
for eq in (GCMAlgorithmTypes.FAST, GCMAlgorithmTypes.NETWORK, GCMAlgorithmTypes.MOTIFS, None):
    spy = Spy(eq)
    attempt(
        "factory spy %r" % (eq,),
        lambda: GCMAlgorithmFactory.resolve_algorithm(spy, goodc),
        lambda tag, r: out(tag, type(r).__name__),
    )
    out("factory spy %r" % (eq,), "seen", repr(spy.seen))
attempt("factory noargs", lambda: GCMAlgorithmFactory.resolve_algorithm())
attempt("factory onearg", lambda: GCMAlgorithmFactory.resolve_algorithm(GCMAlgorithmTypes.FAST))
attempt("factory kw", lambda: GCMAlgorithmFactory.resolve_algorithm(type=GCMAlgorithmTypes.FAST, params=good),
        lambda tag, r: out(tag, type(r).__name__))
attempt("factory instance call", lambda: GCMAlgorithmFactory().resolve_algorithm(GCMAlgorithmTypes.FAST, good),
        lambda tag, r: out(tag, type(r).__name__))

for gtype in ("fast", "network", "motifs", "FAST", "unknown", None, 3, GCMAlgorithmTypes.FAST, GCMAlgorithmTypes.MOTIFS):
    for pname, base in (("good", good), ("custom", goodc), ("empty", {})):
        p = dict(base)
        p[N.GCM_TYPE] = gtype
        before_keys = list(p)
        tag = "main %r %s" % (gtype, pname)
        random.seed(21)
        r = attempt(tag, lambda: GCMAlgorithmMain.load_gcm_algorithm(p),
                    lambda tag, r: out(tag, type(r).__name__, sorted(vars(r))))
        out(tag, "params_keys_unchanged", before_keys == list(p))
        if r is not None:
            jds = CJDS if pname == "custom" else JDS["ok23"]
            shower = show_network if type(r).__name__ == "GCMAlgorithmNetwork" else show_edge_list
            attempt(tag + " rcg", lambda: r.random_clustered_graph(jds), shower)
            attempt(tag + " rcg again", lambda: r.random_clustered_graph(jds), shower)
            del LOG[:]
attempt("main nokey", lambda: GCMAlgorithmMain.load_gcm_algorithm(dict(good)))
attempt("main none", lambda: GCMAlgorithmMain.load_gcm_algorithm(None))
attempt("main noargs", lambda: GCMAlgorithmMain.load_gcm_algorithm())
attempt("main strkey", lambda: GCMAlgorithmMain.load_gcm_algorithm({"GCM_type": "fast"}))
p = dict(good)
p[N.GCM_TYPE] = "fast"
attempt("main kw", lambda: GCMAlgorithmMain.load_gcm_algorithm(params=p), lambda tag, r: out(tag, type(r).__name__))
attempt("main instance call", lambda: GCMAlgorithmMain().load_gcm_algorithm(p),
        lambda tag, r: out(tag, type(r).__name__))

# ---------------------------------------------------------------- end-to-end C01 counts, many seeds
out("== property sweep")
h = hashlib.sha256()
for seed in range(40):
    random.seed(seed)
    n = 30
    jds = [(random.randrange(4), random.randrange(3)) for _ in range(n)]
    # repair handshake
    while sum(r[0] for r in jds) % 2:
        jds[0] = (jds[0][0] + 1, jds[0][1])
    while sum(r[1] for r in jds) % 3:
        jds[1] = (jds[1][0], jds[1][1] + 1)
    p = fast_params([2, 3], [clique_motif, cycle_motif], ["a", "b"])
    p[N.GCM_TYPE] = "fast"
    el = GCMAlgorithmMain.load_gcm_algorithm(p).random_clustered_graph(jds)
    h.update(repr((el.edge_list, el.topologies, el.motif_id, el.joint_degrees)).encode())
    p[N.GCM_TYPE] = "network"
    net = GCMAlgorithmMain.load_gcm_algorithm(p).random_clustered_graph(jds)
    h.update(repr((list(net.G.nodes(data=True)), list(net.G.edges(data=True)))).encode())
    h.update(rng_state().encode())
out("sweep digest", h.hexdigest())
out("final rng", rng_state())
