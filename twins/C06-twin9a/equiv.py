import sys, os; sys.path.insert(0, os.getcwd())
import hashlib
import math
import random

import numpy as np

from gcmpy.joint_degree.joint_degree_distribution import JointDegreeDistribution
from gcmpy.joint_degree.joint_degree_loaders.joint_degree_marginal import (
    JointDegreeMarginal,
)
from gcmpy.joint_degree.joint_degree_type import JointDegreeType
from gcmpy.names.joint_degree_names import JointDegreeNames as N

random.seed(20240611)
np.random.seed(20240611)

CALLS = []


def rng_digest():
    h = hashlib.sha256()
    h.update(repr(random.getstate()).encode())
    st = np.random.get_state()
    h.update(repr((st[0], st[1].tolist(), st[2], st[3], st[4])).encode())
    return h.hexdigest()[:20]


def show(tag, obj):
    jdd = obj.jdd
    if isinstance(jdd, dict):
        body = [(repr(k), repr(v)) for k, v in jdd.items()]
        if len(body) > 12:
            hh = hashlib.sha256(repr(body).encode()).hexdigest()[:20]
            body = body[:6] + [("...", hh)] + body[-3:]
    else:
        body = repr(jdd)
    print(tag, "len", len(jdd) if hasattr(jdd, "__len__") else None, body)
    print(tag, "motif_sizes", repr(obj.motif_sizes), "calls", len(CALLS),
          hashlib.sha256(repr(CALLS).encode()).hexdigest()[:12], "rng", rng_digest())


def attempt(tag, f):
    try:
        r = f()
        print(tag, "ok")
        return r
    except BaseException as e:  # noqa
        print(tag, "EXC", type(e).__name__, str(e)[:100], "calls", len(CALLS), "rng", rng_digest())
        return None


def pois(mu, name):
    def f(k):
        CALLS.append((name, k))
        return math.exp(-mu) * mu ** k / math.factorial(k)
    return f


def geom(p, name):
    def f(k):
        CALLS.append((name, k))
        return p * (1 - p) ** k
    return f


class Flag:
    """truthiness probe: counts __bool__ calls, may raise."""

    def __init__(self, value, boom=None):
        self.value = value
        self.boom = boom
        self.n = 0

    def __bool__(self):
        self.n += 1
        CALLS.append(("bool", self.n))
        if self.boom is not None:
            raise self.boom("flag")
        return self.value


class LenOnly:
    def __init__(self, n):
        self.n = n

    def __len__(self):
        CALLS.append(("len", self.n))
        return self.n


ABSENT = object()


def params(use=ABSENT, n=None, bounds=((0, 5), (1, 4)), fps=None, typ=False):
    p = {
        N.MOTIF_SIZES: [2, 3],
        N.ARR_FP: fps if fps is not None else [pois(1.5, "a"), geom(0.4, "b")],
        N.LOW_HIGH_DEGREE_BOUND: bounds,
    }
    if use is not ABSENT:
        p[N.USE_SAMPLING] = use
    if n is not None:
        p[N.N_SAMPLES] = n
    if typ:
        p[N.JOINT_DEGREE_TYPE] = "marginal"
    return p


flags = [
    ("absent", ABSENT), ("False", False), ("True", True), ("0", 0), ("1", 1), ("2", 2),
    ("0.0", 0.0), ("nan", float("nan")), ("empty-str", ""), ("str", "no"), ("list0", []),
    ("list1", [0]), ("tuple0", ()), ("dict0", {}), ("np0", np.bool_(False)),
    ("np1", np.bool_(True)), ("npint0", np.int64(0)), ("arr1f", np.array([0])),
    ("arr1t", np.array([3])), ("arr2", np.array([0, 1])), ("arr0", np.array([])),
    ("len0", LenOnly(0)), ("len3", LenOnly(3)),
    ("flagT", Flag(True)), ("flagF", Flag(False)),
    ("flagVal", Flag(True, ValueError)), ("flagKey", Flag(False, KeyError)),
]

for name, fl in flags:
    for nsamp in (None, 0, 1, 7, 500):
        tag = "direct[%s,n=%s]" % (name, nsamp)
        p = params(fl, nsamp)
        o = attempt(tag, lambda: JointDegreeMarginal(p))
        if o is not None:
            show(tag, o)
            for rep in range(2):
                attempt(tag + " again%d" % rep, o.create_jdd)
                show(tag + " again%d" % rep, o)
            attempt(tag + " sample", lambda: print(tag, o.sample_jds_from_jdd(5)))
        p2 = dict(p)
        p2[N.JOINT_DEGREE_TYPE] = "marginal"
        o2 = attempt(tag + " viaLoad", lambda: JointDegreeDistribution.load_joint_degree(p2))
        if o2 is not None:
            show(tag + " viaLoad", o2)
        p3 = dict(p)
        p3[N.JOINT_DEGREE_TYPE] = JointDegreeType.MARGINAL
        o3 = attempt(tag + " viaLoadEnum", lambda: JointDegreeDistribution.load_joint_degree(p3))
        if o3 is not None:
            show(tag + " viaLoadEnum", o3)

# edge / error paths in either branch
edge_bounds = [
    ((0, 0), (0, 0)), ((0, 1), (0, 1)), ((3, 1), (0, 2)), ((0, 3),), (), ((0, 2), (0, 2), (0, 2)),
    ((0, 2.5), (0, 2)), ((0, "x"), (0, 2)), ((0, 2, 3), (0, 2)), (1, 2), None, ((-2, 2), (0, 2)),
    ((0, 300), (0, 1)), [[0, 3], [2, 6]],
]
for bi, b in enumerate(edge_bounds):
    for use in (False, True, Flag(True), Flag(False)):
        for nsamp in (0, 3, 40):
            tag = "edge[%d,%r,%d]" % (bi, use if not isinstance(use, Flag) else "F%s" % use.value, nsamp)
            p = params(use, nsamp, bounds=b)
            o = attempt(tag, lambda: JointDegreeMarginal(p))
            if o is not None:
                show(tag, o)
                attempt(tag + " re", o.create_jdd)
                show(tag + " re", o)

# callbacks that fail / return odd values, too few callbacks
bad_fps = [
    [pois(1.0, "a")],
    [],
    [lambda k: 0.0, lambda k: 0.0],
    [lambda k: -1.0, lambda k: 1.0],
    [lambda k: 1 / (k - 2), lambda k: 1.0],
    [lambda k: "w", lambda k: 1.0],
    [lambda k: np.float64(k + 1), lambda k: np.float32(0.5)],
    [lambda k: float("inf"), lambda k: 1.0],
    [lambda k: float("nan"), lambda k: 1.0],
    None,
]
for fi, fps in enumerate(bad_fps):
    for use in (False, True):
        tag = "fps[%d,%r]" % (fi, use)
        p = params(use, 25, fps=fps)
        p[N.ARR_FP] = fps
        o = attempt(tag, lambda: JointDegreeMarginal(p))
        if o is not None:
            show(tag, o)

# missing keys, re-initialisation of one object, switching the mode by re-init
base = JointDegreeMarginal(params(False, 10))
show("base", base)
for drop in (N.MOTIF_SIZES, N.ARR_FP, N.LOW_HIGH_DEGREE_BOUND):
    p = params(True, 10)
    del p[drop]
    attempt("missing %s fresh" % drop.name, lambda: JointDegreeMarginal(p))
    attempt("missing %s reinit" % drop.name, lambda: base.__init__(p))
    show("after missing %s" % drop.name, base)
    attempt("create after missing", base.create_jdd)
    show("after missing %s recreate" % drop.name, base)
for use in (True, False, Flag(True), Flag(False, RuntimeError), 0, "yes"):
    attempt("reinit", lambda: base.__init__(params(use, 9)))
    show("reinit %r" % (use if not isinstance(use, Flag) else "Flag"), base)
attempt("non-dict list", lambda: JointDegreeMarginal([1, 2]))
attempt("non-dict none", lambda: JointDegreeMarginal(None))
attempt("str keys", lambda: JointDegreeMarginal({"motif_sizes": [2], "arr_fp": [], "low_high_degree_bound": []}))

# direct calls of the two branches and public setters in between
o = JointDegreeMarginal(params(True, 30))
show("o", o)
o.jdd = {"x": 1}
o.motif_sizes = [9, 9]
attempt("o.create", o.create_jdd)
show("o after setter", o)
attempt("o.direct", o.create_jdd_directly)
show("o direct", o)
attempt("o.sampling", o.create_jdd_by_sampling)
show("o sampling", o)
attempt("o.create2", o.create_jdd)
show("o create2", o)
print("flag calls", [(n, f.n) for n, f in flags if isinstance(f, Flag)])
print("final rng", rng_digest(), "calls", len(CALLS), hashlib.sha256(repr(CALLS).encode()).hexdigest())
