import sys, os; sys.path.insert(0, os.getcwd())

import hashlib
import inspect
import random

import numpy as np

from gcmpy.tools.draw_set import DrawSet
import gcmpy
import gcmpy.tools


def rng_digest():
    h = hashlib.sha256()
    h.update(repr(random.getstate()).encode())
    st = np.random.get_state()
    h.update(repr((st[0], st[1].tolist(), st[2], st[3], repr(st[4]))).encode())
    return h.hexdigest()[:16]


def attempt(label, fn, *args, **kwargs):
    try:
        r = fn(*args, **kwargs)
        print(label, "->", repr(r))
        return r
    except BaseException as exc:  # noqa
        print(label, "!!", type(exc).__name__, repr(exc.args))
        return None


def snapshot(label, s, probes=()):
    print(label, "len", len(s), "bool", bool(s), "iter", repr(list(s)),
          "iter-again", repr([x for x in s]),
          "in", [(repr(p), p in s) for p in probes])


random.seed(20)
np.random.seed(20)

print("identity", DrawSet.__name__, DrawSet.__module__, DrawSet.__qualname__,
      gcmpy.DrawSet is DrawSet, gcmpy.tools.DrawSet is DrawSet,
      [c.__name__ for c in DrawSet.__mro__])
for name in ("__init__", "__contains__", "__iter__", "__len__", "add", "remove", "draw"):
    sig = inspect.signature(getattr(DrawSet, name))
    print("params", name, list(sig.parameters))

# ---- empty object
s = DrawSet()
snapshot("empty", s, [(0, 1), None])
attempt("empty.draw", s.draw)
attempt("empty.remove", s.remove, (0, 1))
snapshot("empty-after-errors", s, [(0, 1)])
print("rng", rng_digest())

# ---- single element
attempt("add01", s.add, (0, 1))
snapshot("one", s, [(0, 1), (1, 0)])
attempt("add01-again", s.add, (0, 1))
snapshot("one-again", s, [(0, 1)])
print("draws", [s.draw() for _ in range(5)])
attempt("rm01", s.remove, (0, 1))
snapshot("back-to-empty", s, [(0, 1)])
attempt("rm01-again", s.remove, (0, 1))
attempt("draw-empty-again", s.draw)
print("rng", rng_digest())

# ---- keyword calls, removal of first / middle / last
s = DrawSet()
for e in [(0, 1), (1, 2), (2, 3), (3, 4), (4, 5)]:
    attempt("kw-add", s.add, e=e)
snapshot("five", s, [(2, 3), (9, 9)])
attempt("rm-last", s.remove, e=(4, 5))
snapshot("rm-last", s, [(4, 5)])
attempt("rm-first", s.remove, (0, 1))
snapshot("rm-first", s, [(0, 1), (3, 4)])
attempt("rm-middle", s.remove, (1, 2))
snapshot("rm-middle", s, [(1, 2)])
attempt("rm-absent", s.remove, (1, 2))
snapshot("rm-absent-after", s, [(1, 2), (2, 3), (3, 4)])
attempt("re-add", s.add, (1, 2))
snapshot("re-add", s, [(1, 2)])
print("draws", [s.draw() for _ in range(12)])
print("rng", rng_digest())

# ---- error paths: unhashable members, equal-but-distinct members
s = DrawSet()
attempt("add-unhashable", s.add, [1, 2])
snapshot("after-unhashable-add", s)
attempt("contains-unhashable", s.__contains__, [1, 2])
attempt("remove-unhashable", s.remove, [1, 2])
attempt("add-1", s.add, 1)
attempt("add-1.0", s.add, 1.0)
attempt("add-True", s.add, True)
attempt("add-None", s.add, None)
attempt("add-str", s.add, "ab")
attempt("add-frozenset", s.add, frozenset({1, 2}))
snapshot("mixed", s, [1, 1.0, True, None, "ab", "a", frozenset({2, 1})])
attempt("rm-1.0", s.remove, 1.0)
snapshot("mixed-after-rm", s, [1, 1.0, True, None])
attempt("rm-True", s.remove, True)
attempt("add-nan", s.add, float("nan"))
snapshot("mixed-final", s, [None, "ab"])
print("draws", [repr(s.draw()) for _ in range(8)])
print("rng", rng_digest())


# ---- member whose hash works but whose equality raises on collision
class Touchy:
    def __init__(self, tag):
        self.tag = tag

    def __hash__(self):
        return 7

    def __eq__(self, other):
        if isinstance(other, Touchy) and other is not self:
            raise ValueError("touchy %s vs %s" % (self.tag, other.tag))
        return other is self

    def __repr__(self):
        return "Touchy(%s)" % self.tag


s = DrawSet()
t1, t2 = Touchy(1), Touchy(2)
attempt("touchy-add1", s.add, t1)
attempt("touchy-add2", s.add, t2)
snapshot("touchy", s)
attempt("touchy-in", s.__contains__, t2)
attempt("touchy-rm2", s.remove, t2)
snapshot("touchy-after", s)
attempt("touchy-rm1", s.remove, t1)
snapshot("touchy-end", s)
print("rng", rng_digest())

# ---- long random histories checked against a plain set model
for trial, (seed, universe, steps) in enumerate(
    [(1, 4, 200), (2, 12, 600), (3, 40, 1500), (4, 1, 50), (5, 7, 400)]
):
    random.seed(seed)
    ops = random.Random(1000 + seed)  # private generator for the op choice
    s = DrawSet()
    model = set()
    h = hashlib.sha256()
    agree = True
    errors = 0
    for step in range(steps):
        k = ops.random()
        e = tuple(sorted((ops.randrange(universe), ops.randrange(universe))))
        if k < 0.45:
            s.add(e)
            model.add(e)
            h.update(b"a")
        elif k < 0.8:
            try:
                s.remove(e)
                h.update(b"r")
                removed = True
            except KeyError as exc:
                h.update(("K" + repr(exc.args)).encode())
                removed = False
                errors += 1
            if removed != (e in model):
                agree = False
            model.discard(e)
        else:
            try:
                d = s.draw()
                h.update(repr(d).encode())
                if d not in model:
                    agree = False
            except IndexError as exc:
                h.update(("I" + repr(exc.args)).encode())
                errors += 1
                if model:
                    agree = False
        order = list(s)
        h.update(repr(order).encode())
        h.update(repr((len(s), e in s)).encode())
        if len(order) != len(model) or set(order) != model or len(set(order)) != len(order):
            agree = False
        if (e in s) != (e in model):
            agree = False
    print("trial", trial, "agree", agree, "errors", errors, "final", repr(list(s)),
          "digest", h.hexdigest()[:20], "rng", rng_digest())
    # every member can be drawn
    seen = set()
    for _ in range(400):
        if len(s) == 0:
            break
        seen.add(s.draw())
    print("trial", trial, "drawn-all", seen == model, "rng", rng_digest())

# ---- two objects do not share state; iteration while unchanged
a, b = DrawSet(), DrawSet()
a.add((1, 2))
b.add((3, 4))
b.add((5, 6))
snapshot("a", a, [(1, 2), (3, 4)])
snapshot("b", b, [(1, 2), (3, 4)])
it = iter(b)
print("iter-protocol", iter(it) is it, next(it), next(it), attempt("exhausted", next, it))

# ---- subclass keeps working through the public methods
class Counting(DrawSet):
    def __init__(self):
        super().__init__()
        self.calls = 0

    def add(self, e):
        self.calls += 1
        return super().add(e)


c = Counting()
for e in [(0, 1), (0, 1), (2, 3)]:
    c.add(e)
c.remove((0, 1))
snapshot("subclass", c, [(0, 1), (2, 3)])
print("subclass-calls", c.calls, "draw", c.draw())
print("rng-final", rng_digest())

# ---- the one library user of the class: MCMC rewiring builds its edge set
import networkx as nx

random.seed(99)
G = nx.gnm_random_graph(15, 30, seed=5)
es = DrawSet()
for e in G.edges():
    es.add(tuple(sorted(e)))
for e in list(G.edges())[::3]:
    es.remove(tuple(sorted(e)))
    es.add(tuple(sorted((e[0] + 100, e[1]))))
snapshot("graph-edges", es, [(0, 1)])
print("graph-draws", [es.draw() for _ in range(10)], "rng", rng_digest())
