"""Equivalence digest for the C09 refactoring (EECC / Network).

Run with cwd = a checkout of gcmpy. Prints a deterministic digest of results,
RNG state and mutated inputs for every refactored (public) function.
"""
import copy
import hashlib
import os
import random
import sys

sys.path.insert(0, os.getcwd())

import networkx as nx  # noqa: E402
import numpy as np  # noqa: E402

from gcmpy.covers.eecc import EECC, binom  # noqa: E402
from gcmpy.network.network import Network  # noqa: E402


def h(obj) -> str:
    return hashlib.sha256(repr(obj).encode()).hexdigest()[:16]


def rng_digest() -> str:
    return h(random.getstate()) + "/" + h(np.random.get_state()[1].tolist())


def seed(s: int) -> None:
    random.seed(s)
    np.random.seed(s)


def graph_digest(G) -> str:
    return h((list(G.nodes()), [tuple(e) for e in G.edges()]))


def attempt(fn):
    try:
        return ("ok", fn())
    except Exception as exc:  # noqa: BLE001
        return ("exc", type(exc).__name__, str(exc))


def graphs():
    out = {}
    out["empty"] = []
    out["single_edge"] = [(0, 1)]
    out["triangle"] = [(0, 1), (1, 2), (0, 2)]
    out["path"] = [(i, i + 1) for i in range(6)]
    out["star"] = [(0, i) for i in range(1, 7)]
    out["two_triangles_shared_edge"] = [(0, 1), (1, 2), (0, 2), (1, 3), (2, 3)]
    out["bowtie"] = [(0, 1), (1, 2), (0, 2), (2, 3), (3, 4), (2, 4)]
    out["K5"] = list(nx.complete_graph(5).edges())
    out["K6"] = list(nx.complete_graph(6).edges())
    out["K7_reversed"] = [(v, u) for u, v in nx.complete_graph(7).edges()][::-1]
    out["K4_plus_K4_overlap"] = list(nx.complete_graph(4).edges()) + [
        (u + 2, v + 2) for u, v in nx.complete_graph(4).edges()
    ]
    out["selfloop"] = [(0, 0), (0, 1), (1, 2), (0, 2)]
    out["strings"] = [("a", "b"), ("b", "c"), ("a", "c"), ("c", "d"), ("d", "e"), ("c", "e"), ("e", "a")]
    out["petersen"] = list(nx.petersen_graph().edges())
    out["karate"] = list(nx.karate_club_graph().edges())
    for s in range(6):
        g = nx.gnp_random_graph(14 + s, 0.35 + 0.05 * s, seed=100 + s)
        edges = list(g.edges())
        random.Random(s).shuffle(edges)
        out["gnp%d" % s] = edges
    g = nx.relaxed_caveman_graph(4, 5, 0.2, seed=7)
    out["caveman"] = list(g.edges())
    g = nx.powerlaw_cluster_graph(25, 3, 0.6, seed=3)
    out["plc"] = list(g.edges())
    return out


def make(edges, m0=None, via_add_edge=False):
    net = EECC()
    if via_add_edge:
        for e in edges:
            net.add_edge(e)
    else:
        net.add_edges_from(edges)
    if m0 is not None:
        net.set_max_clique_size(m0)
    return net


def main() -> None:
    # ---- binom (untouched but used by compute_scores)
    print("binom", h([binom(n, r) for n in range(0, 12) for r in range(0, 12)]))

    GS = graphs()

    # ---- Network primitives
    for name, edges in GS.items():
        seed(1)
        net = Network()
        net.add_edges_from(edges)
        res = [net.has_edges()]
        cl = net.find_cliques()
        res.append(sorted(sorted(map(repr, c)) for c in cl))
        # remove existing, missing, unknown-node and repeated edges
        todo = list(edges[:3]) + list(edges[:2]) + [(998, 999), (edges[0][0], 999) if edges else (1, 2)]
        for u, v in todo:
            res.append(attempt(lambda: net.remove_edge(u, v)))
            res.append(net.has_edges())
            res.append(net.G.number_of_edges())
        for u, v in list(net.G.edges()):
            net.remove_edge(v, u)
        res.append(net.has_edges())
        print("network", name, h(res), graph_digest(net.G), rng_digest())

    # unhashable / odd arguments, frozen graph, other graph classes via setter
    net = Network()
    net.add_edges_from(GS["bowtie"])
    print("remove_unhashable", attempt(lambda: net.remove_edge([1], 2)), attempt(lambda: net.remove_edge(1, [2])))
    print("remove_none", attempt(lambda: net.remove_edge(None, None)), graph_digest(net.G))
    frozen = nx.freeze(nx.Graph(GS["triangle"]))
    net.G = frozen
    print("frozen", attempt(lambda: net.remove_edge(0, 1)), attempt(lambda: net.remove_edge(5, 6)),
          net.has_edges(), graph_digest(net.G))
    for cls in (nx.DiGraph, nx.MultiGraph, nx.MultiDiGraph):
        net = Network()
        net.G = cls([(0, 1), (1, 0), (1, 2), (1, 2), (3, 3)])
        res = [net.has_edges()]
        for u, v in [(0, 1), (1, 0), (1, 2), (1, 2), (2, 1), (3, 3), (3, 3), (7, 8)]:
            res.append(attempt(lambda: net.remove_edge(u, v)))
            res.append(net.has_edges())
        print("setter", cls.__name__, h(res), res[-1], graph_digest(net.G))
    net = Network()
    net.G = nx.Graph()
    print("empty_has_edges", net.has_edges())
    net.G.add_node(1)
    print("nodes_only_has_edges", net.has_edges())
    net.G.add_edge(1, 1)
    print("selfloop_only_has_edges", net.has_edges())

    # ---- limited_maximal_cliques
    for name, edges in GS.items():
        for m0 in (None, 2, 3, 4, 5, 8):
            seed(2)
            net = make(edges, m0)
            before = graph_digest(net.G)
            res = attempt(net.limited_maximal_cliques)
            res2 = attempt(net.limited_maximal_cliques)
            print("lmc", name, m0, h(res), res == res2, before == graph_digest(net.G), rng_digest())
    for m0 in (0, 1, -1):
        net = make(GS["K5"], m0)
        print("lmc_odd_m0", m0, attempt(net.limited_maximal_cliques))
    net = make([(0, "a"), ("a", "b"), (0, "b")], 3)
    r_ = attempt(net.limited_maximal_cliques)
    print("lmc_mixed_types", r_[0], r_[1] if r_[0] == "exc" else r_[1])

    # ---- compute_scores (direct, on assorted argument lists)
    for name, edges in GS.items():
        for m0 in (2, 3, 4, 6):
            seed(3)
            net = make(edges, m0)
            C = net.limited_maximal_cliques()
            # un-sort members and shuffle the clique order to exercise the in-place sort
            rnd = random.Random(11)
            C = [list(c) for c in C]
            for c in C:
                rnd.shuffle(c)
            rnd.shuffle(C)
            for variant in range(3):
                Cv = copy.deepcopy(C)
                n = len(Cv)
                if variant == 0:
                    ordv, rv, EC, idx = [0] * n, [0.0] * n, [], []
                elif variant == 1:
                    ordv, rv, EC, idx = [0] * n, [0] * n, [[97, 98]], [5]
                else:
                    ordv = [-3] * n
                    rv = [0.5 if i % 3 == 0 else 0 for i in range(n)]
                    EC, idx = [], []
                seed(30 + variant)
                out = attempt(lambda: net.compute_scores(Cv, EC, ordv, rv, idx))
                same_obj = [any(e is c for c in Cv) for e in EC]
                print("scores", name, m0, variant, h((out, Cv, EC, ordv, rv, idx, same_obj)),
                      graph_digest(net.G), rng_digest())
    # tuples as cliques, duplicated cliques, short lists
    net = make(GS["K5"], 3)
    Cv = [(2, 1, 0), (0, 1, 3), [3, 1, 0], (4, 0), [1]]
    ordv, rv, EC, idx = [0] * 5, [0.0] * 5, [], []
    print("scores_tuples", attempt(lambda: net.compute_scores(Cv, EC, ordv, rv, idx)), Cv, EC, ordv, rv, idx)
    print("scores_empty", attempt(lambda: net.compute_scores([], [], [], [], [])))
    Cv = [[0, 1, 2], [1, 2, 3]]
    print("scores_short_ord", attempt(lambda: net.compute_scores(Cv, [], [0], [0.0, 0.0], [])), Cv)
    print("scores_short_r", attempt(lambda: net.compute_scores(Cv, [], [0, 0], [0.0], [])), Cv)

    # ---- get_EECC
    for name, edges in GS.items():
        for m0 in (None, 2, 3, 4, 5, 7):
            for s in (0, 1, 2, 3):
                seed(1000 + s)
                net = make(edges, m0, via_add_edge=(s % 2 == 1))
                res = attempt(net.get_EECC)
                print("eecc", name, m0, s, h(res), graph_digest(net.G), net.has_edges(), rng_digest())
                if s == 0:
                    # second call on the exhausted graph
                    res2 = attempt(net.get_EECC)
                    print("eecc_again", name, m0, h(res2), rng_digest())
    # full output for a few small ones
    for name in ("bowtie", "two_triangles_shared_edge", "K6", "strings", "selfloop"):
        for m0 in (2, 3, 4):
            seed(5)
            net = make(GS[name], m0)
            print("eecc_full", name, m0, attempt(net.get_EECC), sorted(map(repr, net.G.nodes())))
    for m0 in (0, 1, -1):
        seed(6)
        net = make(GS["bowtie"], m0)
        print("eecc_odd_m0", m0, attempt(net.get_EECC), graph_digest(net.G), rng_digest())
    # call history: reuse the object with new edges and another bound
    seed(7)
    net = make(GS["karate"], 3)
    a = attempt(net.get_EECC)
    net.add_edges_from(GS["gnp2"])
    net.set_max_clique_size(4)
    b = attempt(net.get_EECC)
    print('eecc_history_b', b[:2], graph_digest(net.G), rng_digest())
    net.G.remove_nodes_from([n for n in list(net.G.nodes()) if net.G.degree(n) == 0])
    net.add_edges_from(GS['gnp2'])
    b = attempt(net.get_EECC)
    net.G = nx.Graph(GS["caveman"])
    c = attempt(net.get_EECC)
    print("eecc_history", h(a), h(b), h(c), graph_digest(net.G), rng_digest())
    # frozen graph via the setter (edges can never be removed): bounded by an alarm-free check
    net = EECC()
    net.G = nx.freeze(nx.Graph([(0, 1)]))
    C = net.limited_maximal_cliques()
    print("frozen_lmc", C, net.has_edges())


if __name__ == "__main__":
    main()
