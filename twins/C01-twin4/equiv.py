"""
Equivalence harness for the C01 hardening patch.

Run with cwd = a gcmpy checkout.  Seeds the RNGs, exercises every changed function
(motif generators, the three graph generators, factory and main entry point) on
normal inputs, edge cases, error paths and repeated calls on the same object, and
prints a deterministic digest: results (repr), exceptions, RNG states afterwards
and the (possibly mutated) inputs.  Everything is run twice: once with the default
logging configuration and once with DEBUG logging switched on (into a discarded
buffer), so that the new log lines are formatted as well.
"""
import hashlib
import io
import logging
import os
import random
import re
import sys

sys.path.insert(0, os.getcwd())

import numpy as np  # noqa: E402

from gcmpy.gcm_algorithm.gcm_algorithm_custom_motifs import (  # noqa: E402
    GCMAlgorithmCustomMotifs,
)
from gcmpy.gcm_algorithm.gcm_algorithm_factory import GCMAlgorithmFactory  # noqa: E402
from gcmpy.gcm_algorithm.gcm_algorithm_fast import GCMAlgorithmFast  # noqa: E402
from gcmpy.gcm_algorithm.gcm_algorithm_main import GCMAlgorithmMain  # noqa: E402
from gcmpy.gcm_algorithm.gcm_algorithm_network import GCMAlgorithmNetwork  # noqa: E402
from gcmpy.gcm_algorithm.gcm_algorithm_types import GCMAlgorithmTypes  # noqa: E402
from gcmpy.motif_generators.clique_motif import clique_motif  # noqa: E402
from gcmpy.motif_generators.cycle_motif import cycle_motif  # noqa: E402
from gcmpy.motif_generators.diamond_motif import diamond_motif  # noqa: E402
from gcmpy.names.gcm_algorithm_names import GCMAlgorithmNames as N  # noqa: E402
from gcmpy.network.edge_list import LightWeightEdgeList  # noqa: E402
from gcmpy.network.network import Network  # noqa: E402

OUT = []


_ADDRESS = re.compile(r" at 0x[0-9a-fA-F]+")


def scrub(text: str) -> str:
    """Remove memory addresses (function / generator reprs) from a string."""
    return _ADDRESS.sub(" at 0x?", text)


def emit(*parts):
    OUT.append(scrub(" ".join(str(p) for p in parts)))


def h(text: str) -> str:
    return hashlib.sha256(scrub(text).encode()).hexdigest()[:20]


def rng_digest() -> str:
    py = h(repr(random.getstate()))
    st = np.random.get_state()
    npd = h(repr((st[0], st[1].tolist(), st[2], st[3], repr(st[4]))))
    return f"py={py} np={npd}"


def seed(s: int) -> None:
    random.seed(s)
    np.random.seed(s)


def describe(obj) -> str:
    if isinstance(obj, LightWeightEdgeList):
        body = repr(
            (
                "LWEL",
                obj.edge_list,
                obj.topologies,
                obj.motif_id,
                obj.joint_degrees,
                sorted(vars(obj).keys()),
            )
        )
        return f"LWEL n_edges={len(obj.edge_list)} n_top={len(obj.topologies)} n_id={len(obj.motif_id)} {h(body)}"
    if isinstance(obj, Network):
        G = obj.G
        body = repr(
            (
                "NET",
                type(G).__name__,
                list(G.nodes(data=True)),
                list(G.edges(data=True)),
                sorted(vars(obj).keys()),
            )
        )
        return f"NET nodes={G.number_of_nodes()} edges={G.number_of_edges()} {h(body)}"
    if type(obj).__module__.startswith("gcmpy."):
        return f"{type(obj).__module__}.{type(obj).__name__} attrs={sorted(vars(obj).keys())}"
    r = repr(obj)
    if len(r) > 300:
        return f"{type(obj).__name__} len={len(r)} {h(r)}"
    return f"{type(obj).__name__} {r}"


def run(label, fn, *args, **kwargs):
    try:
        res = fn(*args, **kwargs)
        emit(label, "->", describe(res))
        return res
    except BaseException as e:  # noqa: B902
        ctx = e.__context__
        emit(
            label,
            "!!",
            type(e).__name__,
            repr(str(e)),
            "ctx=",
            type(ctx).__name__ if ctx is not None else None,
            repr(str(ctx)) if ctx is not None else None,
        )
        return None


# ---------------------------------------------------------------- motif generators
def section_motifs():
    emit("## motif generators")
    inputs = [
        [],
        [7],
        [1, 2],
        [3, 1, 2],
        [4, 3, 2, 1],
        [0, 0, 0, 0],
        [5, 6, 7, 8, 9],
        (1, 2, 3, 4),
        "abcd",
        "ab",
        [1.5, 2.5, -0.0, float("inf")],
        np.array([4, 5, 6, 7]),
        range(4),
        range(6),
        {0: "x", -1: "y", 2: "z", 3: "w"},
        [[1, 2], [3], [], [4]],
    ]
    for fn in (clique_motif, cycle_motif, diamond_motif):
        for inp in inputs:
            before = repr(inp)
            res = run(f"{fn.__name__}({before})", fn, inp)
            if repr(inp) != before:
                emit("   input mutated:", repr(inp))
            if res is not None:
                emit("   type", type(res).__name__, [type(x).__name__ for x in res])
        # generators / iterators / None
        run(f"{fn.__name__}(gen)", fn, (i for i in range(4)))
        run(f"{fn.__name__}(iter)", fn, iter([1, 2, 3, 4]))
        run(f"{fn.__name__}(None)", fn, None)
        run(f"{fn.__name__}(5)", fn, 5)
        # repeated call on the same list, results are independent objects
        v = [9, 8, 7, 6]
        r1 = fn(v)
        r2 = fn(v)
        emit(fn.__name__, "repeat", r1 == r2, r1 is r2, v)
        r1.append("sentinel")
        emit(fn.__name__, "after-append", fn(v))


# ------------------------------------------------------------------- helpers
class Recorder:
    """Build callback wrapper recording every call (arguments and order)."""

    def __init__(self, fn, tag, log):
        self.fn = fn
        self.tag = tag
        self.log = log

    def __call__(self, vertices):
        self.log.append((self.tag, type(vertices).__name__, list(vertices)))
        return self.fn(vertices)


def boom(vertices):
    raise RuntimeError(f"boom {len(vertices)}")


def boom_third():
    state = {"n": 0}

    def f(vertices):
        state["n"] += 1
        if state["n"] == 3:
            raise KeyError("third")
        return clique_motif(vertices)

    return f


def draws_random(vertices):
    # a callback that itself consumes random numbers
    random.random()
    return clique_motif(vertices)


def fast_params(sizes, builders, names):
    return {N.MOTIF_SIZES: sizes, N.BUILD_FUNCTIONS: builders, N.EDGE_NAMES: names}


JDS_A = [(1, 2), (2, 1), (1, 0), (0, 2), (2, 1), (0, 0), (3, 3), (1, 0)]  # handshake ok for (2,3)
JDS_B = [(2, 1, 4), (1, 1, 0), (3, 1, 4), (2, 0, 4), (0, 0, 0), (1, 0, 0), (1, 0, 4), (2, 0, 0)]
JDS_BAD = [(1, 1), (1, 1), (1, 0), (0, 2), (2, 1)]  # handshake violated
JDS_LISTS = [[1, 3], [1, 0], [2, 3], [0, 0]]
JDS_RAGGED = [(1, 2, 3), (1, 2), (2,)]


def big_jds(n, seed_):
    r = random.Random(seed_)
    jds = [(r.randrange(0, 4), r.randrange(0, 3), r.randrange(0, 2) * 4) for _ in range(n)]
    # repair the handshake for sizes (2, 3, 4)
    tot = [sum(c) for c in zip(*jds)]
    fix = [(-tot[0]) % 2, (-tot[1]) % 3, (-tot[2]) % 4]
    jds.append(tuple(fix))
    return jds


# ------------------------------------------------------------------- fast
def section_fast():
    emit("## GCMAlgorithmFast")
    cases = [
        ("A", JDS_A, [2, 3], [clique_motif, clique_motif], ["2-clique", "3-clique"]),
        ("A-cycle", JDS_A, [2, 3], [clique_motif, cycle_motif], ["e", "c3"]),
        ("B", JDS_B, [2, 3, 4], [clique_motif, cycle_motif, diamond_motif], ["e", "tri", "dia"]),
        ("B-c4", JDS_B, [2, 3, 4], [clique_motif, clique_motif, cycle_motif], ["e", "tri", ("c", 4)]),
        ("bad", JDS_BAD, [2, 3], [clique_motif, clique_motif], ["e", "t"]),
        ("bad-diamond", [(3,), (2,), (1,)], [4], [diamond_motif], ["d"]),
        ("lists", JDS_LISTS, [2, 3], [clique_motif, cycle_motif], ["e", "t"]),
        ("ragged", JDS_RAGGED, [2, 3, 1], [clique_motif, clique_motif, clique_motif], ["a", "b", "c"]),
        ("empty", [], [2], [clique_motif], ["e"]),
        ("zeros", [(0, 0), (0, 0)], [2, 3], [clique_motif, clique_motif], ["e", "t"]),
        ("one-vertex", [(2,)], [2], [clique_motif], ["e"]),
        ("size1", [(2,), (1,)], [1], [clique_motif], ["loop"]),
        ("size0", JDS_A, [0, 3], [clique_motif, clique_motif], ["e", "t"]),
        ("size-neg", JDS_A, [2, -3], [clique_motif, clique_motif], ["e", "t"]),
        ("size-float", JDS_A, [2.0, 3], [clique_motif, clique_motif], ["e", "t"]),
        ("size-true", JDS_A, [True, 3], [clique_motif, clique_motif], ["e", "t"]),
        ("size-np", JDS_A, [np.int64(2), np.int64(3)], [clique_motif, clique_motif], ["e", "t"]),
        ("sizes-short", JDS_A, [2], [clique_motif, clique_motif], ["e", "t"]),
        ("builders-short", JDS_A, [2, 3], [clique_motif], ["e", "t"]),
        ("names-short", JDS_A, [2, 3], [clique_motif, clique_motif], ["e"]),
        ("builders-short-unused", [(2, 0), (2, 0)], [2, 3], [clique_motif], ["e"]),
        ("boom", JDS_A, [2, 3], [clique_motif, boom], ["e", "t"]),
        ("boom3", JDS_A, [2, 3], [boom_third(), clique_motif], ["e", "t"]),
        ("rand-cb", JDS_A, [2, 3], [draws_random, clique_motif], ["e", "t"]),
        ("ret-none", JDS_A, [2, 3], [lambda v: None, clique_motif], ["e", "t"]),
        ("ret-gen", JDS_A, [2, 3], [lambda v: (x for x in [(v[0], v[-1])]), clique_motif], ["e", "t"]),
        ("ret-empty", JDS_A, [2, 3], [lambda v: [], clique_motif], ["e", "t"]),
        ("ret-flat", JDS_A, [2, 3], [lambda v: (v[0], v[1]), clique_motif], ["e", "t"]),
        ("ret-dict", JDS_A, [2, 3], [lambda v: {(v[0], v[1]): 1}, clique_motif], ["e", "t"]),
        ("jds-none", None, [2], [clique_motif], ["e"]),
        ("jds-int-rows", [1, 2], [2], [clique_motif], ["e"]),
        ("jds-neg", [(-1, 2), (3, 1)], [2, 3], [clique_motif, clique_motif], ["e", "t"]),
        ("jds-float", [(1.0, 2), (1, 1)], [2, 3], [clique_motif, clique_motif], ["e", "t"]),
        ("jds-np", np.array([[1, 2], [1, 1], [2, 0]]), [2, 3], [clique_motif, clique_motif], ["e", "t"]),
        ("big", big_jds(400, 1), [2, 3, 4], [clique_motif, cycle_motif, diamond_motif], ["e", "t", "d"]),
    ]
    for tag, jds, sizes, builders, names in cases:
        seed(101)
        log = []
        recs = [Recorder(b, i, log) for i, b in enumerate(builders)]
        params = fast_params(sizes, recs, names)
        jds_before = repr(jds)
        algo = run(f"fast[{tag}] ctor", GCMAlgorithmFast, params)
        if algo is None:
            continue
        for rep in range(3):  # repeated calls on the same object
            res = run(f"fast[{tag}] call{rep}", algo.random_clustered_graph, jds)
            emit("   rng", rng_digest(), "calls", len(log), h(repr(log)))
            if res is not None:
                emit("   jds identity", res.joint_degrees is jds)
        emit("   jds unchanged", repr(jds) == jds_before)
        emit("   params", h(repr((sizes, names))), sorted(str(k) for k in params))
        emit("   state", sorted(vars(algo).keys()))

    # generator as jds (consumed once)
    seed(5)
    algo = GCMAlgorithmFast(fast_params([2, 3], [clique_motif, clique_motif], ["e", "t"]))
    g = (row for row in JDS_A)
    res = run("fast[gen-jds]", algo.random_clustered_graph, g)
    emit("   rng", rng_digest(), "gen left", list(g), res.joint_degrees is g)

    # constructor error paths
    run("fast ctor {}", GCMAlgorithmFast, {})
    run("fast ctor None", GCMAlgorithmFast, None)
    run("fast ctor str-keys", GCMAlgorithmFast, {"motif_sizes": [2]})
    emit("   rng", rng_digest())


# ------------------------------------------------------------------- custom
def diamond(vs):
    return ((vs[0], vs[1]), (vs[1], vs[2]), (vs[2], vs[3]), (vs[3], vs[1]), (vs[0], vs[2]))


def diamond_names():
    return ("do", "do", "do", "do", "di")


def twoclique(vs):
    return (vs[0], vs[1])


def twoclique_list(vs):
    return [vs[0], vs[1]]


def twoclique_wrapped(vs):
    return [(vs[0], vs[1])]


def twoclique_names():
    return "2-clique"


def threeclique(vs):
    return (vs[0], vs[1]), (vs[0], vs[2]), (vs[1], vs[2])


def threeclique_names():
    return "3c", "3c", "3c"


def path3(vs):
    # two edges given as tuples: len == 2 but entries are edges
    return ((vs[0], vs[1]), (vs[1], vs[2]))


def path3_lists(vs):
    return [[vs[0], vs[1]], [vs[1], vs[2]]]


def path3_names():
    return ("p", "p")


def pentagon(vs):
    return (
        (vs[0], vs[1]),
        (vs[1], vs[2]),
        (vs[2], vs[3]),
        (vs[3], vs[4]),
        (vs[0], vs[4]),
        (vs[1], vs[3]),
    )


def pentagon_names():
    return "p01", "p12", "p23", "p34", "p40", "p13"


JDS_M = [
    (2, 1, 0, 1, 1, 0, 0),
    (1, 1, 0, 1, 1, 0, 0),
    (3, 1, 1, 0, 0, 1, 0),
    (2, 0, 1, 0, 0, 1, 0),
    (0, 0, 0, 1, 0, 0, 1),
    (1, 0, 0, 1, 0, 0, 0),
    (1, 0, 1, 0, 0, 0, 0),
    (1, 0, 1, 0, 0, 0, 0),
    (1, 0, 0, 1, 0, 0, 0),
    (1, 0, 0, 1, 0, 0, 0),
    (1, 0, 1, 0, 0, 0, 0),
    (0, 0, 1, 0, 0, 0, 0),
]


def custom_params(sizes, builders, names, indices):
    p = fast_params(sizes, builders, names)
    p[N.MOTIF_INDICES] = indices
    return p


def section_custom():
    emit("## GCMAlgorithmCustomMotifs")
    full = (
        [2, 3, 2, 2, 2, 2, 1],
        [twoclique, threeclique, diamond, pentagon],
        [twoclique_names, threeclique_names, diamond_names, pentagon_names],
        [[0], [1], [2, 3], [4, 5, 6]],
    )
    cases = [
        ("paper", JDS_M) + full,
        ("paper-reordered", JDS_M, full[0], full[1], full[2], [[0], [1], [3, 2], [6, 5, 4]]),
        ("pairs-list", [(1,), (1,), (2,), (2,)], [2], [twoclique_list], [twoclique_names], [[0]]),
        ("pairs-wrapped", [(1,), (1,), (2,), (2,)], [2], [twoclique_wrapped], [lambda: ["2c"]], [[0]]),
        ("path3", [(1,), (2,), (0,), (3,)], [3], [path3], [path3_names], [[0]]),
        ("path3-lists", [(1,), (2,), (0,), (3,)], [3], [path3_lists], [path3_names], [[0]]),
        ("names-mismatch", [(1,), (2,), (0,), (3,)], [3], [path3], [threeclique_names], [[0]]),
        ("names-str", [(1,), (2,), (0,), (3,)], [3], [threeclique], [lambda: "abc"], [[0]]),
        ("bad-handshake", [(1,), (1,), (1,)], [2], [twoclique], [twoclique_names], [[0]]),
        ("short-orbit", [(1, 0), (1, 0), (1, 1), (1, 0)], [2, 2], [diamond], [diamond_names], [[0, 1]]),
        ("empty", [], [2], [twoclique], [twoclique_names], [[0]]),
        ("empty-no-motifs", [], [2], [twoclique], [twoclique_names], []),
        ("zeros", [(0,), (0,)], [2], [twoclique], [twoclique_names], [[0]]),
        ("size0", [(1,), (1,)], [0], [twoclique], [twoclique_names], [[0]]),
        ("size-neg", [(1,), (1,)], [-2], [twoclique], [twoclique_names], [[0]]),
        ("size-float", [(1,), (1,)], [2.0], [twoclique], [twoclique_names], [[0]]),
        ("size-np", [(1,), (1,)], [np.int64(2)], [twoclique], [twoclique_names], [[0]]),
        ("size-big", [(1,), (1,), (1,)], [5], [lambda v: [tuple(v)]], [lambda: ["x"]], [[0]]),
        ("sizes-short", [(1, 1), (1, 1)], [2], [twoclique], [twoclique_names], [[0]]),
        ("index-oob", [(1,), (1,)], [2], [twoclique], [twoclique_names], [[3]]),
        ("index-empty", [(1,), (1,)], [2], [twoclique], [twoclique_names], [[]]),
        ("index-neg", [(1, 2), (1, 0)], [2, 2], [twoclique], [twoclique_names], [[-1]]),
        ("builders-short", [(1, 1), (1, 1)], [2, 2], [twoclique], [twoclique_names], [[0], [1]]),
        ("names-short", [(1, 1), (1, 1)], [2, 2], [twoclique, twoclique], [twoclique_names], [[0], [1]]),
        ("names-not-callable", [(1,), (1,)], [2], [twoclique], ["2c"], [[0]]),
        ("boom", [(1,), (1,)], [2], [boom], [twoclique_names], [[0]]),
        ("ret-none", [(1,), (1,)], [2], [lambda v: None], [twoclique_names], [[0]]),
        ("ret-empty", [(1,), (1,)], [2], [lambda v: []], [lambda: []], [[0]]),
        ("ret-gen", [(1,), (1,)], [2], [lambda v: (x for x in v)], [twoclique_names], [[0]]),
        ("ret-str", [(1,), (1,)], [2], [lambda v: "ab"], [twoclique_names], [[0]]),
        ("rand-cb", [(1,), (1,), (2,), (2,)], [2], [lambda v: (random.random(), v[0], v[1])[1:]], [twoclique_names], [[0]]),
        ("jds-none", None, [2], [twoclique], [twoclique_names], [[0]]),
        ("jds-np", np.array([[1], [1], [2], [2]]), [2], [twoclique], [twoclique_names], [[0]]),
        ("shared-orbit", [(2,), (2,), (2,), (2,)], [2], [twoclique, twoclique], [twoclique_names, twoclique_names], [[0], [0]]),
    ]
    for case in cases:
        tag, jds, sizes, builders, names, indices = case
        seed(202)
        log = []
        recs = [Recorder(b, i, log) for i, b in enumerate(builders)]
        params = custom_params(sizes, recs, names, indices)
        jds_before = repr(jds)
        ind_before = repr(indices)
        algo = run(f"custom[{tag}] ctor", GCMAlgorithmCustomMotifs, params)
        if algo is None:
            continue
        for rep in range(3):
            res = run(f"custom[{tag}] call{rep}", algo.random_clustered_graph, jds)
            emit("   rng", rng_digest(), "calls", len(log), h(repr(log)))
            if res is not None:
                emit("   jds identity", res.joint_degrees is jds)
        emit("   unchanged", repr(jds) == jds_before, repr(indices) == ind_before, repr(sizes))
        emit("   state", sorted(vars(algo).keys()))

    # partition
    algo = GCMAlgorithmCustomMotifs(custom_params(*full))
    for lst in ([], [1], [1, 2, 3, 4, 5, 6], list(range(7)), "abcdefg", (1, 2, 3), np.arange(5)):
        for n in (1, 2, 3, 7, 10, 0, -1, -3, 2.0, None, True, np.int64(2)):
            before = repr(lst)
            res = run(f"partition({before}, {n!r})", algo.partition, lst, n)
            if res is not None:
                emit("   types", type(res).__name__, [type(x).__name__ for x in res])
            if repr(lst) != before:
                emit("   mutated", repr(lst))
    run("partition(None, 2)", algo.partition, None, 2)
    run("partition(gen, 2)", algo.partition, (i for i in range(3)), 2)
    src = [1, 2, 3, 4]
    parts = algo.partition(src, 2)
    parts[0].append(99)
    emit("partition copies", src, parts)

    # infinite_sequence untouched, independent generators per call
    g1, g2 = algo.infinite_sequence(), algo.infinite_sequence()
    emit("infinite_sequence", [next(g1) for _ in range(3)], next(g2))

    run("custom ctor {}", GCMAlgorithmCustomMotifs, {})
    run("custom ctor no-indices", GCMAlgorithmCustomMotifs, fast_params([2], [twoclique], [twoclique_names]))
    run("custom ctor only-indices", GCMAlgorithmCustomMotifs, {N.MOTIF_INDICES: [[0]]})
    run("custom ctor None", GCMAlgorithmCustomMotifs, None)
    emit("   rng", rng_digest())


# ------------------------------------------------------------------- network
def section_network():
    emit("## GCMAlgorithmNetwork")
    cases = [
        ("A", JDS_A, [2, 3], [clique_motif, clique_motif], ["2-clique", "3-clique"]),
        ("B", JDS_B, [2, 3, 4], [clique_motif, cycle_motif, diamond_motif], ["e", "tri", "dia"]),
        ("bad", JDS_BAD, [2, 3], [clique_motif, clique_motif], ["e", "t"]),
        ("empty", [], [2], [clique_motif], ["e"]),
        ("zeros", [(0, 0), (0, 0)], [2, 3], [clique_motif, clique_motif], ["e", "t"]),
        ("size0", JDS_A, [0, 3], [clique_motif, clique_motif], ["e", "t"]),
        ("boom", JDS_A, [2, 3], [clique_motif, boom], ["e", "t"]),
        ("ret-flat", JDS_A, [2, 3], [lambda v: (v[0], v[1]), clique_motif], ["e", "t"]),
        ("names-unhashable", JDS_A, [2, 3], [clique_motif, clique_motif], [["e"], {"t": 1}]),
        ("jds-none", None, [2], [clique_motif], ["e"]),
        ("jds-lists", JDS_LISTS, [2, 3], [clique_motif, cycle_motif], ["e", "t"]),
        ("big", big_jds(300, 2), [2, 3, 4], [clique_motif, cycle_motif, diamond_motif], ["e", "t", "d"]),
    ]
    for tag, jds, sizes, builders, names in cases:
        seed(303)
        log = []
        recs = [Recorder(b, i, log) for i, b in enumerate(builders)]
        params = fast_params(sizes, recs, names)
        jds_before = repr(jds)
        algo = run(f"network[{tag}] ctor", GCMAlgorithmNetwork, params)
        if algo is None:
            continue
        for rep in range(2):
            res = run(f"network[{tag}] call{rep}", algo.random_clustered_graph, jds)
            emit("   rng", rng_digest(), "calls", len(log), h(repr(log)))
        emit("   jds unchanged", repr(jds) == jds_before, "params keys", sorted(str(k) for k in params))
        emit("   state", sorted(vars(algo).keys()))

        # same seed through the fast generator gives the same edges
        seed(303)
        fast = run(f"network[{tag}] fast-twin", GCMAlgorithmFast(params).random_clustered_graph, jds)
        emit("   rng", rng_digest())
        del fast
    run("network ctor {}", GCMAlgorithmNetwork, {})


# ------------------------------------------------------------------- factory / main
class WeirdEq:
    def __init__(self):
        self.seen = []

    def __eq__(self, other):
        self.seen.append(other)
        return False

    def __hash__(self):
        return 1

    def __repr__(self):
        return "WeirdEq()"


class AlwaysEq:
    def __eq__(self, other):
        return True

    def __hash__(self):
        return 2

    def __repr__(self):
        return "AlwaysEq()"


def section_factory_main():
    emit("## factory / main")
    base = fast_params([2, 3], [clique_motif, clique_motif], ["e", "t"])
    cparams = custom_params([2], [twoclique], [twoclique_names], [[0]])
    for t in (
        GCMAlgorithmTypes.FAST,
        GCMAlgorithmTypes.NETWORK,
        GCMAlgorithmTypes.MOTIFS,
        "fast",
        "network",
        "motifs",
        "FAST",
        None,
        0,
        N.GCM_TYPE,
        AlwaysEq(),
    ):
        for pname, p in (("base", base), ("custom", cparams), ("empty", {}), ("none", None)):
            seed(404)
            p_before = repr(sorted(str(k) for k in p)) if p is not None else None
            algo = run(f"factory({t!r}, {pname})", GCMAlgorithmFactory.resolve_algorithm, t, p)
            if algo is not None:
                emit("   class", type(algo).__name__, sorted(vars(algo).keys()))
                jds = JDS_A if pname == "base" else [(1,), (1,), (2,), (2,)]
                run("   graph", algo.random_clustered_graph, jds)
            emit("   rng", rng_digest(), "params same", p is None or repr(sorted(str(k) for k in p)) == p_before)
    w = WeirdEq()
    run("factory(WeirdEq)", GCMAlgorithmFactory.resolve_algorithm, w, base)
    emit("   eq calls", w.seen)

    for t in (
        GCMAlgorithmTypes.FAST,
        GCMAlgorithmTypes.NETWORK,
        GCMAlgorithmTypes.MOTIFS,
        "fast",
        "network",
        "motifs",
        "FAST",
        "",
        None,
        3,
        [],
    ):
        for pname, p in (("base", base), ("custom", cparams)):
            seed(505)
            params = dict(p)
            params[N.GCM_TYPE] = t
            algo = run(f"main({t!r}, {pname})", GCMAlgorithmMain.load_gcm_algorithm, params)
            if algo is not None:
                emit("   class", type(algo).__name__, sorted(vars(algo).keys()))
                jds = JDS_A if pname == "base" else [(1,), (1,), (2,), (2,)]
                for rep in range(2):
                    run(f"   graph{rep}", algo.random_clustered_graph, jds)
            emit("   rng", rng_digest(), "keys", sorted(str(k) for k in params))
    run("main({})", GCMAlgorithmMain.load_gcm_algorithm, {})
    run("main(None)", GCMAlgorithmMain.load_gcm_algorithm, None)
    run("main(str-key)", GCMAlgorithmMain.load_gcm_algorithm, {"GCM_type": "fast"})
    run("main(only type)", GCMAlgorithmMain.load_gcm_algorithm, {N.GCM_TYPE: "fast"})
    run("main(only type motifs)", GCMAlgorithmMain.load_gcm_algorithm, {N.GCM_TYPE: "motifs"})
    emit("   rng", rng_digest())


# ------------------------------------------------------------------- property check
def section_property():
    """Direct check of the C01 statement on random handshake-satisfying sequences."""
    emit("## property")
    sizes = [2, 3, 4]
    builders = [clique_motif, cycle_motif, diamond_motif]
    names = ["e", "t", "d"]
    for s in range(6):
        jds = big_jds(50 + 13 * s, s)
        for kind in ("fast", "network"):
            seed(600 + s)
            log = []
            recs = [Recorder(b, i, log) for i, b in enumerate(builders)]
            params = fast_params(sizes, recs, names)
            params[N.GCM_TYPE] = kind
            algo = GCMAlgorithmMain.load_gcm_algorithm(params)
            res = algo.random_clustered_graph(jds)
            counts = [sum(1 for c in log if c[0] == k) for k in range(3)]
            expect = [sum(col) // sizes[k] for k, col in enumerate(zip(*jds))]
            occupancy = [[0] * 3 for _ in jds]
            for k, _, vs in log:
                for v in vs:
                    occupancy[v][k] += 1
            ok = counts == expect and [tuple(o) for o in occupancy] == [tuple(j) for j in jds]
            emit(f"property[{kind},{s}]", ok, counts, describe(res), rng_digest())


def main():
    for mode in ("default-logging", "debug-logging"):
        emit("#### mode", mode)
        handler = None
        root = logging.getLogger()
        old_level = root.level
        sink = io.StringIO()
        if mode == "debug-logging":
            handler = logging.StreamHandler(sink)
            root.addHandler(handler)
            root.setLevel(logging.DEBUG)
        try:
            section_motifs()
            section_fast()
            section_custom()
            section_network()
            section_factory_main()
            section_property()
        finally:
            if handler is not None:
                root.removeHandler(handler)
                root.setLevel(old_level)
        # the content of the sink is deliberately not part of the digest
    text = "\n".join(OUT)
    print(text)
    print("TOTAL", len(OUT), hashlib.sha256(text.encode()).hexdigest())


if __name__ == "__main__":
    main()
