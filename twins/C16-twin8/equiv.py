import sys, os; sys.path.insert(0, os.getcwd())
"""
Equivalence digest for the C16 clean-up commit: exercises every function the
commit touched (number_of_connected_graphs, QQ, binomial, Q, clique_equation,
chordless_cycle_equation) through the public, pre-existing entry points and
prints a deterministic digest.  Run with cwd = a checkout of gcmpy.
"""
import warnings
warnings.simplefilter("ignore")

import hashlib
import importlib
import random
from fractions import Fraction as F

import numpy as np
import networkx as nx

random.seed(20261004)
np.random.seed(20261004)

import gcmpy
from gcmpy.message_passing import number_of_connected_graphs as ncg_pkg, QQ as QQ_pkg, Q as Q_pkg
from gcmpy.message_passing.equations import clique_equation as clique_pkg
ncg_mod = importlib.import_module("gcmpy.message_passing.number_connected_graphs")
cl_mod = importlib.import_module("gcmpy.message_passing.equations.clique_equation")
cy_mod = importlib.import_module("gcmpy.message_passing.equations.chordless_cycle_equation")

number_of_connected_graphs = ncg_mod.number_of_connected_graphs
QQ, Q, binomial = ncg_mod.QQ, ncg_mod.Q, ncg_mod.binomial
clique_equation = cl_mod.clique_equation
chordless_cycle_equation = cy_mod.chordless_cycle_equation

assert ncg_pkg is number_of_connected_graphs and QQ_pkg is QQ and Q_pkg is Q
assert clique_pkg is clique_equation and gcmpy.clique_equation is clique_equation

LINES = []


def emit(*parts):
    LINES.append(" ".join(str(p) for p in parts))


def show(x):
    return f"{type(x).__name__}:{x!r}"


def call(f, *a, **kw):
    try:
        return show(f(*a, **kw))
    except BaseException as e:  # noqa
        return f"EXC:{type(e).__name__}"


def snapshot(x):
    if isinstance(x, (set, frozenset)):
        return "set" + repr(sorted(x, key=repr))
    return repr(x)


def gsig(G):
    return (type(G).__name__, list(G.nodes(data=True)), list(G.edges(data=True)), dict(G.graph))


# ---------------------------------------------------------------- binomial
emit("## binomial")
vals = list(range(-4, 10)) + [12, 20, 66, True, False, np.int64(5), np.int64(-2), 2.0, 2.5, None, "a"]
for n in vals:
    emit("binomial", repr(n), [call(binomial, n, k) for k in vals])
emit("binomial kw", call(binomial, n=6, k=2), call(binomial, 6, k=9), call(binomial, [1], 2), call(binomial, 3))
emit("binomial big", call(binomial, 66, 33), call(binomial, 190, 95), call(binomial, 10 ** 4, 3))
for attr in ("cache_info", "cache_clear", "__wrapped__"):
    emit("binomial attr", attr, hasattr(binomial, attr), "Q attr", hasattr(Q, attr), "QQ attr", hasattr(QQ, attr))

# ----------------------------------------------------------------------- Q
emit("## Q")
for n in range(-5, 16):
    s = n * (n - 1) // 2
    emit("Q", n, [call(Q, n, k) for k in range(min(-3, n - 3), s + 3)])
for n in (True, False, 2.0, 3.0, 1.0, 2.5, np.int64(4), np.int64(-2), None, "a", 16, 18, 20):
    emit("Q odd", repr(n), [call(Q, n, k) for k in (-1, 0, 1, 2, 3, 5, 2.0, 7, 40, 100, None, np.int64(3), True)])
emit("Q kw", call(Q, n=5, k=6), call(Q, 5, k=4), call(Q, 5), call(Q, [5], 1))
emit("Q sums", [show(sum(Q(n, k) for k in range(n * (n - 1) // 2 + 1))) for n in range(1, 15)])
# repeated calls (served by the cache) give the same objects/values
emit("Q again", [call(Q, n, k) for n in (1, 2, 12, 13) for k in (0, n - 1, n, 30)])
emit("Q types", sorted({type(Q(n, k)).__name__ for n in range(0, 14) for k in range(0, n * (n - 1) // 2 + 1)
                        if not (n == 0 and k == -1)}))
Q.cache_clear()
emit("Q after clear", [call(Q, n, k) for n in (1, 2, 3, 7, 12) for k in (0, n - 1, n, 2 * n, 40)])
emit("Q cache", Q.cache_info().currsize, Q.cache_info().misses)
if hasattr(binomial, "cache_info"):
    emit("binomial cache", binomial.cache_info())

# ---------------------------------------------------------------------- QQ
emit("## QQ")
for n in list(range(-3, 6)) + [True, 2.0, 2.5, np.int64(3), None, "a"]:
    emit("QQ", repr(n), [call(QQ, n, k) for k in list(range(-2, 13)) + [1.0, None, np.int64(2)]])
emit("QQ 6", [call(QQ, 6, 15 - i) for i in range(12)])
emit("QQ again", [call(QQ, 4, k) for k in range(0, 7)], call(QQ, n=4, k=5), call(QQ, 4))
emit("QQ==Q", all(QQ(n, k) == Q(n, k) and type(QQ(n, k)) is type(Q(n, k))
                  for n in range(1, 6) for k in range(n * (n - 1) // 2 + 1)))
emit("QQ cache", QQ.cache_info().currsize)

# ------------------------------------------------ number_of_connected_graphs
emit("## number_of_connected_graphs")
rng = random.Random(7)
graphs = {
    "null": nx.Graph(),
    "K1": nx.path_graph(1),
    "K4": nx.complete_graph(4),
    "C5": nx.cycle_graph(5),
    "petersen": nx.petersen_graph(),
    "multi": nx.MultiGraph([(0, 1), (0, 1), (1, 2), (2, 0)]),
    "di": nx.DiGraph([(0, 1), (1, 2)]),
    "loop": nx.Graph([(0, 0), (0, 1), (1, 2)]),
    "str": nx.Graph([("a", "b"), ("b", "c"), ("c", "a"), ("c", "d")]),
    "mixed": nx.Graph([(0, "a"), ("a", (1, 2)), ((1, 2), 0), (0, 3.5)]),
    "attr": nx.Graph(name="motif"),
}
graphs["attr"].add_edge(0, 1, w=1.5)
graphs["attr"].add_edge(1, 2, w=2.5)
graphs["attr"].add_edge(2, 0)
graphs["attr"].add_node(9, u=0.25)
for j in range(6):
    graphs[f"gnp{j}"] = nx.gnp_random_graph(7, 0.3 + 0.1 * j, seed=rng.randrange(10 ** 6))
    graphs[f"shuf{j}"] = nx.relabel_nodes(
        nx.gnm_random_graph(6, 8, seed=j), dict(zip(range(6), rng.sample(range(10, 40), 6))))
for name, G in graphs.items():
    nodes = list(G.nodes())
    before = gsig(G)
    for i in nodes[:1] + nodes[-1:] + [99, None]:
        for r in range(0, min(len(nodes), 5) + 1):
            aks = [nodes[:r], nodes[::-1][:r], tuple(nodes[:r]), set(nodes[:r]), nodes[:r] + [77],
                   nodes[:r] + [[1]], nodes[:r] * 2, dict.fromkeys(nodes[:r])]
            for ak in aks:
                snap = snapshot(ak)
                res = [call(number_of_connected_graphs, G, ak, i, k) for k in (-1, 0, 1, 2, 3, 50, 1.0, None)]
                emit("ncg", name, repr(i), snap, res, "ak-unchanged", snap == snapshot(ak))
    emit("ncg graph untouched", name, before == gsig(G))
P3 = nx.path_graph(3)
emit("ncg odd", call(number_of_connected_graphs, P3, None, 0, 1),
     call(number_of_connected_graphs, nx.path_graph(1), None, 0, 0),
     call(number_of_connected_graphs, P3, 5, 0, 1),
     call(number_of_connected_graphs, P3, "ab", 0, 1),
     call(number_of_connected_graphs, P3, np.array([1, 2]), 0, 1),
     call(number_of_connected_graphs, P3, iter([1, 2]), 0, 1),
     call(number_of_connected_graphs, None, [1], 0, 1),
     call(number_of_connected_graphs, nx.freeze(nx.complete_graph(3)), [1, 2], 0, 1),
     call(number_of_connected_graphs, G=nx.complete_graph(4), ak=[1, 2, 3], i=0, k=3),
     call(number_of_connected_graphs, nx.complete_graph(4), [1, 2, 3], 0))
# the test-suite style calls: triangle, square with chord
tri = nx.complete_graph(3)
emit("ncg tri", [call(number_of_connected_graphs, tri, [1, 2], 0, k) for k in range(5)])
K5 = nx.complete_graph(5)
emit("ncg K5", [call(number_of_connected_graphs, K5, [1, 2, 3, 4], 0, k) for k in range(0, 8)],
     [call(number_of_connected_graphs, K5, [1, 3], 0, k) for k in range(0, 5)])

# --------------------------------------------------------- clique_equation
emit("## clique_equation")
makers = [
    ("lin", lambda t: [0.1 * (j + 1) for j in range(t - 1)]),
    ("half", lambda t: [0.5] * (t - 1)),
    ("frac", lambda t: [F(j + 1, 7) for j in range(t - 1)]),
    ("long", lambda t: [0.7] * t),
    ("short", lambda t: [0.7] * max(0, t - 3)),
    ("empty", lambda t: []),
    ("ints", lambda t: [1, 0, 2]),
    ("dictvalues", lambda t: {j: 1.0 / (j + 2) for j in range(t - 1)}.values()),
    ("generator", lambda t: (0.1 * (j + 1) for j in range(t - 1))),
    ("npscalars", lambda t: [np.float64(0.2)] * (t - 1)),
    ("nparray", lambda t: np.linspace(0.1, 0.9, max(t - 1, 0))),
    ("tuple", lambda t: tuple(0.3 + 0.05 * j for j in range(t - 1))),
    ("strs", lambda t: ["a"] * (t - 1)),
    ("none", lambda t: None),
    ("extremes", lambda t: ([0.0, 1.0, 1e-300, 1e300, float("inf"), float("nan")] * t)[: max(t - 1, 0)]),
]
for tau in list(range(-1, 10)) + [True, 2.0, np.int64(4), None, "3"]:
    try:
        t = int(tau)
    except Exception:
        t = 3
    for phi in (0.0, 1.0, 0.3, 0.9999, 1e-12, F(1, 3), np.float64(0.37), 2, -0.5, "x", None):
        out = []
        for name, mk in makers:
            Hs = mk(t)
            snap = repr(Hs) if isinstance(Hs, (list, tuple)) else None
            r = call(clique_equation, tau, phi, Hs)
            if snap is not None:
                r += "|same" if snap == repr(Hs) else "|MUTATED"
            out.append(name + "=" + r)
        emit("clique", repr(tau), repr(phi), out)
for _ in range(400):
    tau = random.randrange(1, 9)
    phi = random.random()
    Hs = [random.random() for _ in range(tau - 1)]
    emit("clique rnd", tau, call(clique_equation, tau, phi, Hs), call(clique_equation, tau=tau, phi=phi, Hs=Hs))
for tau in (10, 11, 12, 13, 14):
    Hs = list(np.random.random(tau - 1))
    emit("clique big", tau, call(clique_equation, tau, 0.4, Hs), call(clique_equation, tau, F(2, 5), [F(1, 2)] * (tau - 1)))
emit("clique argc", call(clique_equation, 3, 0.5), call(clique_equation))

# ------------------------------------------------ chordless_cycle_equation
emit("## chordless_cycle_equation")
for n in list(range(-2, 14)) + [50, 2.0, None, np.int64(5), True, "4"]:
    for u in (0.0, 1.0, 0.3, F(2, 5), np.float64(0.77), -1.5, float("inf"), "x", None):
        emit("cycle", repr(n), repr(u),
             [call(chordless_cycle_equation, n, u, phi)
              for phi in (0.0, 1.0, 0.45, F(1, 3), np.float64(0.2), 1e-9, 3, float("nan"), None)])
for _ in range(400):
    n = random.randrange(3, 40)
    emit("cycle rnd", n, call(chordless_cycle_equation, n, random.random(), random.random()),
         call(chordless_cycle_equation, n=n, u=np.random.random(), phi=np.random.random()))
emit("cycle argc", call(chordless_cycle_equation, 3, 0.5), call(chordless_cycle_equation))

# ------------------------------------------------------------ RNG afterwards
emit("## rng")
emit("random state", hashlib.sha256(repr(random.getstate()).encode()).hexdigest())
st = np.random.get_state()
emit("numpy state", hashlib.sha256(st[1].tobytes() + repr(st[2:]).encode()).hexdigest())
emit("next draws", repr(random.random()), repr(np.random.random()))

body = "\n".join(LINES)
print(body)
print("## digest", hashlib.sha256(body.encode()).hexdigest(), "lines", len(LINES))
